(* C03 — compile_component_aggregate on the reference strings of an aggregator: the regex / str.replace mixture
   followed by str.split() yields exactly the spellings of the structured rewiring (every replicated reference
   replaced by all its copies in index order), under agg_sep. *)
From Coq Require Import String Ascii List Bool Arith NArith Lia.
Require Import V.Lib.PyStr V.Lib.JTree V.Repl.Model V.Repl.Proofs.
Import ListNotations.
Open Scope list_scope.

(* ------------------------------------------------------------------ lists *)
Lemma flat_map_map' {A B C} (f : B -> list C) (g : A -> B) l : flat_map f (map g l) = flat_map (fun x => f (g x)) l.
Proof. induction l as [|x r IH]; cbn; [reflexivity|]. rewrite IH. reflexivity. Qed.

Lemma map_flat_map' {A B C} (f : B -> C) (g : A -> list B) l : map f (flat_map g l) = flat_map (fun x => map f (g x)) l.
Proof. induction l as [|x r IH]; cbn; [reflexivity|]. rewrite map_app, IH. reflexivity. Qed.

Lemma flat_map_ext_in' {A B} (f g : A -> list B) l : (forall x, In x l -> f x = g x) -> flat_map f l = flat_map g l.
Proof.
  induction l as [|x r IH]; intros H; cbn; [reflexivity|].
  rewrite (H x (or_introl eq_refl)), IH; [reflexivity|]. intros y Hy. apply H. right. exact Hy.
Qed.

Lemma flat_map_nil' {A B} (f : A -> list B) l : (forall x, In x l -> f x = []) -> flat_map f l = [].
Proof.
  induction l as [|x r IH]; intros H; cbn; [reflexivity|].
  rewrite (H x (or_introl eq_refl)), IH; [reflexivity|]. intros y Hy. apply H. right. exact Hy.
Qed.

Lemma mem_str_in x l : mem_str x l = true <-> In x l.
Proof.
  unfold mem_str. rewrite existsb_exists. split.
  - intros (y & Hy & E). apply String.eqb_eq in E. subst. exact Hy.
  - intros H. exists x. split; [exact H|apply String.eqb_refl].
Qed.

Lemma nodup_str_NoDup l : nodup_str l = true -> NoDup l.
Proof.
  induction l as [|x r IH]; cbn; [constructor|]. intros H. apply andb_true_iff in H as [H1 H2].
  constructor; [|apply IH; exact H2]. intros Hin. apply mem_str_in in Hin. rewrite Hin in H1. discriminate.
Qed.

(* ------------------------------------------------------------------ the translation map of the aggregator *)
Definition getm (k : string) (tm : list (string * list string)) : list string :=
  match lookup k tm with Some l => l | None => [] end.

Lemma getm_add_multi q k v tm : getm q (add_multi k v tm) = if String.eqb q k then getm q tm ++ [v] else getm q tm.
Proof.
  unfold getm. induction tm as [|[k0 l] r IH]; cbn.
  - destruct (String.eqb q k); reflexivity.
  - destruct (String.eqb k k0) eqn:E; cbn.
    + apply String.eqb_eq in E. subst k0. destruct (String.eqb q k); reflexivity.
    + destruct (String.eqb q k0) eqn:E2.
      * apply String.eqb_eq in E2. subst k0. rewrite String.eqb_sym in E. rewrite E. reflexivity.
      * exact IH.
Qed.

Definition contrib (q : string) (r : rref) (i : N) : list string :=
  (if String.eqb q (rr_long r) then [rr_rew r i] else []) ++ (if String.eqb q (rr_short r) then [rr_rew r i] else []).

Lemma getm_inner q r l : forall tm,
  getm q (fold_left (fun tm i => add_multi (rr_short r) (rr_rew r i) (add_multi (rr_long r) (rr_rew r i) tm)) l tm) =
  getm q tm ++ flat_map (contrib q r) l.
Proof.
  induction l as [|i l IH]; intros tm; cbn [fold_left flat_map]; [rewrite app_nil_r; reflexivity|].
  rewrite IH, !getm_add_multi. unfold contrib.
  destruct (String.eqb q (rr_long r)), (String.eqb q (rr_short r)); cbn; rewrite <- ?app_assoc; reflexivity.
Qed.

Lemma getm_translation q count rrs : forall tm,
  getm q (fold_left (fun tm r =>
    fold_left (fun tm i => add_multi (rr_short r) (rr_rew r i) (add_multi (rr_long r) (rr_rew r i) tm)) (nseq count) tm)
    rrs tm) = getm q tm ++ flat_map (fun r => flat_map (contrib q r) (nseq count)) rrs.
Proof.
  induction rrs as [|r rrs IH]; intros tm; cbn [fold_left flat_map]; [rewrite app_nil_r; reflexivity|].
  rewrite IH, getm_inner, app_assoc. reflexivity.
Qed.

Lemma rr_keys_app a b : rr_keys (a ++ b) = rr_keys a ++ rr_keys b.
Proof. unfold rr_keys. apply flat_map_app. Qed.

(* under pairwise different spellings only the reference itself contributes *)
Lemma nodup_keys_split L1 own L2 : NoDup (rr_keys (L1 ++ own :: L2)) ->
  rr_long own <> rr_short own /\
  forall r, In r (L1 ++ L2) -> rr_long r <> rr_long own /\ rr_short r <> rr_long own /\
                               rr_long r <> rr_short own /\ rr_short r <> rr_short own.
Proof.
  intros H. rewrite rr_keys_app in H. cbn in H.
  assert (A : ~ In (rr_long own) (rr_keys L1 ++ rr_short own :: rr_keys L2)) by (apply NoDup_remove_2 in H; exact H).
  apply NoDup_remove_1 in H.
  assert (B : ~ In (rr_short own) (rr_keys L1 ++ rr_keys L2)) by (apply NoDup_remove_2 in H; exact H).
  split.
  - intros E. apply A. apply in_or_app. right. left. symmetry. exact E.
  - intros r Hr.
    assert (K : forall k, In k [rr_long r; rr_short r] -> In k (rr_keys L1 ++ rr_keys L2)).
    { intros k Hk. rewrite <- rr_keys_app. unfold rr_keys. apply in_flat_map. exists r. split; assumption. }
    assert (K' : forall k, In k [rr_long r; rr_short r] -> In k (rr_keys L1 ++ rr_short own :: rr_keys L2)).
    { intros k Hk. apply K in Hk. apply in_app_or in Hk as [Hk|Hk]; apply in_or_app; [left|right; right]; exact Hk. }
    repeat split; intros E.
    + apply A. rewrite <- E. apply K'. left. reflexivity.
    + apply A. rewrite <- E. apply K'. right. left. reflexivity.
    + apply B. rewrite <- E. apply K. left. reflexivity.
    + apply B. rewrite <- E. apply K. right. left. reflexivity.
Qed.

Lemma getm_own count L1 own L2 : NoDup (rr_keys (L1 ++ own :: L2)) ->
  getm (rr_long own) (agg_translation count (L1 ++ own :: L2)) = map (rr_rew own) (nseq count) /\
  getm (rr_short own) (agg_translation count (L1 ++ own :: L2)) = map (rr_rew own) (nseq count).
Proof.
  intros H. destruct (nodup_keys_split _ _ _ H) as [Hne Hoth].
  assert (Z : forall q, (q = rr_long own \/ q = rr_short own) ->
              flat_map (fun r => flat_map (contrib q r) (nseq count)) (L1 ++ own :: L2) = map (rr_rew own) (nseq count)).
  { intros q Hq. rewrite flat_map_app. cbn [flat_map].
    assert (Zo : forall L, (forall r, In r L -> In r (L1 ++ L2)) -> flat_map (fun r => flat_map (contrib q r) (nseq count)) L = []).
    { intros L HL. apply flat_map_nil'. intros r Hr. apply flat_map_nil'. intros i _.
      destruct (Hoth r (HL r Hr)) as (A & B & C & D). unfold contrib.
      destruct Hq as [-> | ->].
      - rewrite (proj2 (String.eqb_neq _ _)) by (intros E; apply A; symmetry; exact E).
        rewrite (proj2 (String.eqb_neq _ _)) by (intros E; apply B; symmetry; exact E). reflexivity.
      - rewrite (proj2 (String.eqb_neq _ _)) by (intros E; apply C; symmetry; exact E).
        rewrite (proj2 (String.eqb_neq _ _)) by (intros E; apply D; symmetry; exact E). reflexivity. }
    rewrite (Zo L1) by (intros r Hr; apply in_or_app; left; exact Hr).
    rewrite (Zo L2) by (intros r Hr; apply in_or_app; right; exact Hr).
    rewrite app_nil_r. cbn [app]. clear Zo.
    induction (nseq count) as [|i l IH]; cbn [flat_map map]; [reflexivity|]. rewrite IH. unfold contrib.
    destruct Hq as [-> | ->].
    - rewrite String.eqb_refl. rewrite (proj2 (String.eqb_neq _ _)) by exact Hne. reflexivity.
    - rewrite String.eqb_refl. rewrite (proj2 (String.eqb_neq _ _)) by (intros E; apply Hne; symmetry; exact E). reflexivity. }
  unfold agg_translation. rewrite !getm_translation. cbn [getm lookup app].
  split; apply Z; [left|right]; reflexivity.
Qed.

(* ------------------------------------------------------------------ the regular expression search *)
Lemma rprefixb_app k t : rprefixb k (k ++ t) = true.
Proof.
  induction k as [|a k IH]; cbn; [reflexivity|]. rewrite IH, Ascii.eqb_refl, orb_true_r. reflexivity.
Qed.

Lemma rprefixb_len k s : rprefixb k s = true -> String.length k <= String.length s.
Proof.
  revert s. induction k as [|a k IH]; intros s H; cbn; [lia|].
  destruct s as [|b s]; cbn in H; [discriminate|]. apply andb_true_iff in H as [_ H]. apply IH in H. cbn. lia.
Qed.

Lemma rfind_unfold r s : rfind r s = if rprefixb r s then Some O else
  match s with EmptyString => None | String _ s' => option_map S (rfind r s') end.
Proof. destruct s; reflexivity. Qed.

Lemma rfind_self k : rfind k k = Some O.
Proof. rewrite rfind_unfold. rewrite <- (append_nil_r k) at 2. rewrite rprefixb_app. reflexivity. Qed.

Lemma rfind_short k s : String.length s < String.length k -> rfind k s = None.
Proof.
  induction s as [|a s IH]; intros H; rewrite rfind_unfold.
  - destruct (rprefixb k "") eqn:E; [apply rprefixb_len in E; lia|reflexivity].
  - destruct (rprefixb k (String a s)) eqn:E; [apply rprefixb_len in E; lia|].
    rewrite IH by (cbn in H; lia). reflexivity.
Qed.

Lemma drop_all k : drop (String.length k) k = EmptyString.
Proof. induction k as [|a k IH]; cbn; [reflexivity|exact IH]. Qed.

Lemma agg_apply_none tm k s : rocc k s = false -> agg_apply tm k s = s.
Proof.
  unfold rocc, agg_apply. destruct k as [|a k]; [reflexivity|].
  destruct (rfind (String a k) s); [discriminate|reflexivity].
Qed.

Lemma agg_apply_self tm k : k <> EmptyString -> agg_apply tm k k = join " " (getm k tm).
Proof.
  intros Hk. unfold agg_apply. destruct k as [|a k]; [contradiction|].
  rewrite rfind_self. cbn [Nat.add]. rewrite drop_all.
  change (path_len EmptyString) with O. cbn [Nat.eqb]. apply replace_self. exact Hk.
Qed.

Definition agg_step (tm : list (string * list string)) (str : string) (r : rref) : string :=
  let s1 := agg_apply tm (rr_long r) str in
  if String.eqb s1 str then agg_apply tm (rr_short r) str else s1.

Lemma agg_string_fold tm rrs s : agg_string tm rrs s = fold_left (agg_step tm) rrs s.
Proof. reflexivity. Qed.

Lemma agg_string_app tm a b s : agg_string tm (a ++ b) s = agg_string tm b (agg_string tm a s).
Proof. rewrite !agg_string_fold. apply fold_left_app. Qed.

Lemma agg_string_fix tm L : forall s, (forall r, In r L -> keys_unseen r s = true) -> agg_string tm L s = s.
Proof.
  induction L as [|r L IH]; intros s H; [reflexivity|].
  rewrite agg_string_fold. cbn [fold_left]. rewrite <- agg_string_fold.
  assert (Hr := H r (or_introl eq_refl)). unfold keys_unseen in Hr. apply andb_true_iff in Hr as [H1 H2].
  apply negb_true_iff in H1. apply negb_true_iff in H2.
  unfold agg_step. rewrite (agg_apply_none _ _ _ H1), String.eqb_refl, (agg_apply_none _ _ _ H2).
  apply IH. intros r' Hr'. apply H. right. exact Hr'.
Qed.

(* ------------------------------------------------------------------ str.split() of a blank-separated list of words *)
Lemma words_aux_word t : forall acc rest, occurs " " t = false -> words_aux acc (t ++ rest) = words_aux (acc ++ t) rest.
Proof.
  induction t as [|c t IH]; intros acc rest H.
  - cbn. rewrite append_nil_r. reflexivity.
  - cbn [occurs] in H. apply orb_false_iff in H as [H1 H2]. cbn [append words_aux].
    assert (Hc : is_char " " c = false).
    { unfold is_char. cbn in H1. rewrite andb_true_r in H1. destruct (Ascii.eqb_spec c " ") as [->|]; [discriminate|reflexivity]. }
    rewrite Hc, (IH _ _ H2), append_assoc. reflexivity.
Qed.

Lemma words_join l : forallb nonblank l = true -> words (join " " l) = l.
Proof.
  unfold words. induction l as [|x r IH]; intros H; [reflexivity|].
  cbn [forallb] in H. apply andb_true_iff in H as [Hx Hr]. unfold nonblank in Hx.
  apply andb_true_iff in Hx as [Hne Hsp]. apply negb_true_iff in Hne. apply negb_true_iff in Hsp.
  destruct r as [|y r].
  - cbn [join]. rewrite <- (append_nil_r x) at 1. rewrite (words_aux_word x _ _ Hsp). cbn [append words_aux].
    destruct x; [discriminate|reflexivity].
  - change (join " " (x :: y :: r)) with (x ++ String " " (join " " (y :: r)))%string.
    rewrite (words_aux_word x _ _ Hsp). cbn [append words_aux]. change (is_char " " " ") with true. cbn match.
    destruct x as [|a x]; [discriminate|]. rewrite (IH Hr). reflexivity.
Qed.

Lemma words_single s : nonblank s = true -> words s = [s].
Proof. intros H. apply (words_join [s]). cbn. rewrite H. reflexivity. Qed.

(* ------------------------------------------------------------------ lengths of the spellings *)
Lemma cref_len_long p f m st : String.length (compile_reference p f m None None) < String.length (compile_reference p f m (Some st) None).
Proof. unfold compile_reference. destruct f; rewrite !length_append; cbn; lia. Qed.

Lemma dec_nonempty i : 1 <= String.length (dec i).
Proof.
  destruct (dec i) eqn:E; [|cbn; lia]. exfalso.
  pose proof (undec_dec i) as U. rewrite E in U. vm_compute in U. assert (i = 0%N) by congruence. subst i. vm_compute in E. discriminate.
Qed.

Lemma cref_len_rew p f m st i :
  String.length (compile_reference p f m (Some st) None) < String.length (compile_reference p f m (Some st) (Some i)).
Proof. unfold compile_reference. pose proof (dec_nonempty i). destruct f; rewrite !length_append; cbn; lia. Qed.

Lemma join_len_head sep x l : String.length x <= String.length (join sep (x :: l)).
Proof. destruct l; cbn [join]; [lia|]. rewrite length_append. lia. Qed.

Lemma nseq_pos n : (0 < n)%N -> exists l, nseq n = 0%N :: l.
Proof.
  intros H. unfold nseq. destruct (N.to_nat n) eqn:E; [lia|]. cbn. eexists. reflexivity.
Qed.

(* ------------------------------------------------------------------ one declared reference *)
Lemma repl_refs_in info refs abs st p f m n :
  In (SComp abs st p f m) refs -> repl_count info (st, p) = Some n -> In (st, p, f, m, n) (repl_refs info refs).
Proof.
  induction refs as [|r l IH]; [intros []|]. intros [->|H] E; cbn.
  - rewrite E. left. reflexivity.
  - destruct r as [a s q g k|t]; [|auto]. destruct (repl_count info (s, q)); [right|]; auto.
Qed.

Lemma repl_refs_count info refs r : In r (repl_refs info refs) -> (0 < rr_count r)%N.
Proof.
  induction refs as [|x l IH]; cbn; [intros []|].
  destruct x as [a s q g k|t]; [|exact IH]. destruct (repl_count info (s, q)) as [n|] eqn:E; [|exact IH].
  intros [<-|H]; [|auto]. cbn. unfold repl_count in E.
  destruct (alookup (s, q) info) as [[[x|] [|]]|]; try discriminate. destruct (N.ltb 0 x) eqn:L; [|discriminate].
  inversion E; subst. apply N.ltb_lt. exact L.
Qed.

Section OneAggregator.
  Variable info : list entry.
  Variable refs : list sref.
  Variable count : N.
  Let rrs := repl_refs info refs.
  Let tm := agg_translation count rrs.
  Hypothesis Hcount : forall r, In r rrs -> rr_count r = count.
  Hypothesis Hsep : agg_sep info refs = true.

  Lemma sep_parts : NoDup (rr_keys rrs) /\ forall r, In r refs -> agg_ref_sep info rrs r = true.
  Proof.
    unfold agg_sep in Hsep. fold rrs in Hsep. apply andb_true_iff in Hsep as [H H3]. apply andb_true_iff in H as [_ H2].
    split; [apply nodup_str_NoDup; exact H2|]. rewrite forallb_forall in H3. exact H3.
  Qed.

  Lemma agg_ref_textual r : In r refs -> words (agg_string tm rrs (spell r)) = map spell (agg_ref info r).
  Proof.
    intros Hr. destruct sep_parts as [Hnd Hall]. specialize (Hall r Hr). unfold agg_ref_sep in Hall.
    apply andb_true_iff in Hall as [Hnb Hall].
    assert (Plain : forallb (fun r' => keys_unseen r' (spell r)) rrs = true ->
                    words (agg_string tm rrs (spell r)) = [spell r]).
    { intros H. rewrite forallb_forall in H. rewrite (agg_string_fix tm rrs _ H). apply words_single. exact Hnb. }
    destruct r as [abs st p f m|t]; [|cbn [agg_ref map]; apply Plain; exact Hall].
    cbn [agg_ref]. destruct (repl_count info (st, p)) as [n|] eqn:E; [|cbn [map]; apply Plain; exact Hall].
    set (own := (st, p, f, m, n)) in *. apply andb_true_iff in Hall as [Hrews Hoth]. rewrite forallb_forall in Hoth.
    assert (Hin : In own rrs) by (apply (repl_refs_in info refs abs st p f m n Hr E)).
    assert (Hn : n = count) by (apply (Hcount own Hin)).
    assert (Hpos : (0 < n)%N) by (apply (repl_refs_count info refs own Hin)).
    destruct (in_split _ _ Hin) as (L1 & L2 & Hsplit).
    rewrite Hsplit in Hnd. destruct (nodup_keys_split _ _ _ Hnd) as [Hne Hdiff].
    assert (G : getm (rr_long own) tm = map (rr_rew own) (nseq count) /\ getm (rr_short own) tm = map (rr_rew own) (nseq count)).
    { unfold tm. rewrite Hsplit. apply getm_own. exact Hnd. }
    destruct G as [Gl Gs].
    assert (Hu : forall r', In r' (L1 ++ L2) -> keys_unseen r' (spell (SComp abs st p f m)) = true /\
                                              keys_unseen r' (join " " (rr_rews own)) = true).
    { intros r' Hr'. assert (Hi : In r' rrs).
      { rewrite Hsplit. apply in_app_or in Hr' as [H|H]; apply in_or_app; [left|right; right]; exact H. }
      specialize (Hoth r' Hi). apply orb_true_iff in Hoth as [Hoth|Hoth].
      - apply String.eqb_eq in Hoth. destruct (Hdiff r' Hr') as [A _]. contradiction.
      - apply andb_true_iff in Hoth. exact Hoth. }
    set (J := join " " (rr_rews own)) in *.
    assert (Hrw : rr_rews own = map (rr_rew own) (nseq count)) by (unfold rr_rews; cbn; rewrite Hn; reflexivity).
    (* the step of the reference itself *)
    assert (Step : agg_step tm (spell (SComp abs st p f m)) own = J).
    { unfold agg_step. destruct abs.
      - (* written with its stage: the absolute spelling is found *)
        change (spell (SComp true st p f m)) with (rr_long own).
        rewrite agg_apply_self by (cbn; unfold compile_reference; destruct f; discriminate).
        rewrite Gl, <- Hrw. fold J.
        destruct (String.eqb J (rr_long own)) eqn:EJ; [|reflexivity]. exfalso. apply String.eqb_eq in EJ.
        destruct (nseq_pos n Hpos) as [l Hl]. unfold J, rr_rews in EJ. cbn [rr_count own] in EJ. rewrite Hl in EJ. cbn [map] in EJ.
        pose proof (join_len_head " " (rr_rew own 0) (map (rr_rew own) l)) as Hlen. rewrite EJ in Hlen.
        pose proof (cref_len_rew p f m st 0) as Hlt. cbn in Hlen. cbn in Hlt. lia.
      - change (spell (SComp false st p f m)) with (rr_short own).
        rewrite (agg_apply_none tm (rr_long own) (rr_short own)).
        + rewrite String.eqb_refl. rewrite agg_apply_self.
          * rewrite Gs, <- Hrw. reflexivity.
          * cbn. unfold compile_reference. destruct f, p; discriminate.
        + unfold rocc. rewrite rfind_short; [reflexivity|]. apply cref_len_long. }
    rewrite Hsplit, agg_string_app.
    rewrite (agg_string_fix tm L1) by (intros r' Hr'; apply Hu; apply in_or_app; left; exact Hr').
    rewrite agg_string_fold. cbn [fold_left]. rewrite Step, <- agg_string_fold.
    rewrite (agg_string_fix tm L2) by (intros r' Hr'; apply Hu; apply in_or_app; right; exact Hr').
    unfold J. rewrite (words_join _ Hrews). unfold rr_rews. cbn [rr_count own]. rewrite map_map. reflexivity.
  Qed.

  Lemma aggregate_refs_refine :
    flat_map words (map (agg_string tm rrs) (map spell refs)) = map spell (flat_map (agg_ref info) refs).
  Proof.
    rewrite map_map, flat_map_map', map_flat_map'. apply flat_map_ext_in'. intros r Hr. apply agg_ref_textual. exact Hr.
  Qed.
End OneAggregator.
