(* C03 — compile_component_replica on the argument string of a copy: the sequential str.replace over the sorted
   translation table rewrites exactly the blank-separated tokens that are declared spellings, and nothing else,
   under args_sep. *)
From Coq Require Import String Ascii List Bool Arith NArith Lia.
Require Import V.Lib.PyStr V.Lib.JTree V.Repl.Model V.Repl.Proofs.
Import ListNotations.
Open Scope list_scope.

Lemma nosp_head c k : occurs " " (String c k) = false -> Ascii.eqb " " c = false /\ occurs " " k = false.
Proof.
  cbn [occurs]. intros H. apply orb_false_iff in H as [H1 H2]. cbn in H1. rewrite andb_true_r in H1. split; assumption.
Qed.

Lemma prefixb_app_nosp k : forall a b, occurs " " k = false -> prefixb k (a ++ String " " b) = prefixb k a.
Proof.
  induction k as [|c k IH]; intros a b H; [reflexivity|].
  apply nosp_head in H as [Hc Hk]. destruct a as [|x a]; cbn.
  - rewrite Ascii.eqb_sym, Hc. reflexivity.
  - rewrite (IH a b Hk). reflexivity.
Qed.

Lemma repl_step_no old new c s : prefixb old (String c s) = false -> repl old new 0 (String c s) = String c (repl old new 0 s).
Proof. intros H. cbn [repl]. rewrite H. reflexivity. Qed.

Lemma repl_join k v b : k <> EmptyString -> occurs " " k = false ->
  forall n a, String.length a <= n ->
  repl k v 0 (a ++ String " " b) = (repl k v 0 a ++ String " " (repl k v 0 b))%string.
Proof.
  intros Hk Hsp. induction n as [|n IH]; intros a Hlen.
  - destruct a; [|cbn in Hlen; lia]. cbn [append]. rewrite repl_step_no; [reflexivity|].
    destruct k as [|c k]; [contradiction|]. apply nosp_head in Hsp as [Hc _]. cbn. rewrite Ascii.eqb_sym, Hc. reflexivity.
  - destruct a as [|x a].
    + cbn [append]. rewrite repl_step_no; [reflexivity|].
      destruct k as [|c k]; [contradiction|]. apply nosp_head in Hsp as [Hc _]. cbn. rewrite Ascii.eqb_sym, Hc. reflexivity.
    + destruct (prefixb k (String x a)) eqn:P.
      * apply prefixb_spec in P as [t Ht]. rewrite Ht, append_assoc, !repl_head by exact Hk.
        rewrite IH, append_assoc; [reflexivity|].
        apply (f_equal String.length) in Ht. rewrite length_append in Ht. cbn in Ht, Hlen.
        destruct k; [contradiction|]. cbn in Ht. lia.
      * change (String x a ++ String " " b)%string with (String x (a ++ String " " b)).
        rewrite repl_step_no.
        -- rewrite (repl_step_no _ _ _ _ P), IH by (cbn in Hlen; lia). reflexivity.
        -- change (String x (a ++ String " " b)) with (String x a ++ String " " b)%string.
           rewrite prefixb_app_nosp by exact Hsp. exact P.
Qed.

Lemma replace_join k v toks : nonblank k = true ->
  replace k v (join " " toks) = join " " (map (replace k v) toks).
Proof.
  unfold nonblank. intros H. apply andb_true_iff in H as [Hne Hsp]. apply negb_true_iff in Hne. apply negb_true_iff in Hsp.
  assert (Hk : k <> EmptyString) by (intros ->; discriminate).
  unfold replace. destruct k as [|c k]; [contradiction|].
  induction toks as [|x r IH]; [reflexivity|]. destruct r as [|y r]; [reflexivity|].
  change (join " " (x :: y :: r)) with (x ++ String " " (join " " (y :: r)))%string.
  rewrite (repl_join _ v _ Hk Hsp _ x (le_n _)), IH. reflexivity.
Qed.

Lemma tfun_join L : forall toks, forallb (fun kv => nonblank (fst kv)) L = true ->
  tfun L (join " " toks) = join " " (map (tfun L) toks).
Proof.
  induction L as [|[k v] L IH]; intros toks H.
  - cbn. rewrite map_id. reflexivity.
  - cbn [forallb fst] in H. apply andb_true_iff in H as [Hk HL]. rewrite tfun_cons, (replace_join k v toks Hk), (IH _ HL), map_map.
    reflexivity.
Qed.

Lemma occurs_refl k : occurs k k = true.
Proof. apply occurs_spec. exists EmptyString, EmptyString. cbn. rewrite append_nil_r. reflexivity. Qed.

Lemma entry_of_in k L v : entry_of k L = Some v -> In (k, v) L.
Proof.
  induction L as [|[k' v'] r IH]; cbn; [discriminate|]. destruct (String.eqb k k') eqn:E.
  - intros H. inversion H; subst. apply String.eqb_eq in E. subst. left. reflexivity.
  - intros H. right. auto.
Qed.

Lemma keys_absent_no_entry L t : keys_absent L t = true -> entry_of t L = None.
Proof.
  intros H. destruct (entry_of t L) as [v|] eqn:E; [|reflexivity]. exfalso.
  apply entry_of_in in E. unfold keys_absent in H. rewrite forallb_forall in H. specialize (H _ E). cbn in H.
  rewrite occurs_refl in H. discriminate.
Qed.

Lemma tfun_token L tok : ok_from [] L = true -> tok_ok L tok = true -> tfun L tok = tok_spec L tok.
Proof.
  unfold tok_ok, tok_spec. intros Hok H. destruct (entry_of tok L) as [v|] eqn:E.
  - apply (tfun_key L [] tok v Hok E).
  - apply tfun_absent. exact H.
Qed.

Lemma textual_args_replica info refs i toks :
  let L := sorted_translation (repl_refs info refs) i in
  no_overlap info i refs = true -> args_sep L toks = true ->
  tfun L (join " " toks) = join " " (map (tok_spec L) toks) /\
  forall r, In r refs -> tok_spec L (spell r) = spell (rw_ref info i r).
Proof.
  intros L Hno Hsep. unfold no_overlap in Hno. fold L in Hno. apply andb_true_iff in Hno as [Hok Hrefs].
  unfold args_sep in Hsep. apply andb_true_iff in Hsep as [Hkeys Htoks]. split.
  - rewrite (tfun_join L toks Hkeys). f_equal. apply map_ext_in. intros tok Hin.
    rewrite forallb_forall in Htoks. apply (tfun_token L tok Hok (Htoks tok Hin)).
  - intros r Hr. rewrite forallb_forall in Hrefs. specialize (Hrefs r Hr). unfold tok_spec.
    destruct r as [abs st p f m|t]; cbn [ref_ok rw_ref] in *.
    + destruct (repl_count info (st, p)) as [n|].
      * destruct (entry_of (spell (SComp abs st p f m)) L) as [v|]; [|discriminate]. apply String.eqb_eq in Hrefs. exact Hrefs.
      * rewrite (keys_absent_no_entry _ _ Hrefs). reflexivity.
    + cbn [spell]. rewrite (keys_absent_no_entry _ _ Hrefs). reflexivity.
Qed.
