(* C03 — the layer in front of the replication: how a component's workflowAttributes.replicate / aggregate are
   SPELLED (literal, text, %(variable)s), which PLATFORM the workflow is expanded for, and through which entry point.

   Model of
     FlowIRConcrete.__init__          self._platform = platform or 'default'
     FlowIRConcrete.replicate         platform = platform or self._platform ; instance(platform) ; apply_replicate
     FlowIRConcrete.instance          global variables = default.global overridden by <platform>.global ;
                                      stage variables = default.stages[s] WITHOUT the names <platform>.global defines,
                                      overridden by <platform>.stages[s] ;
                                      component = definition overridden by override.<platform> (workflowAttributes)
                                      variables = definition's overridden by override.<platform>.variables
     FlowIR.apply_replicate, 1st loop visible = global < stage < component ; replicate -> int(fill_in(.)),
                                      aggregate -> to_bool(fill_in(.))  for EVERY component
   (python/experiment/model/frontends/flowir.py).  [select w p] is the workflow apply_replicate works with when the
   expansion is made for platform p, in the vocabulary of Model.v ([twf]): the count still spelled (RLit / RVar, looked
   up by Model.resolve_count in the layered scopes), the aggregate flag resolved to the boolean propagate_replicate
   uses.  Blueprints, variables defined in terms of other variables and application dependencies are not modelled. *)
From Coq Require Import String Ascii List Bool Arith NArith.
Require Import V.Lib.PyStr V.Lib.JTree V.Repl.Model.
Import ListNotations.
Open Scope string_scope.

Definition vars := list (string * string).

(* workflowAttributes.aggregate as written: absent / a YAML boolean / a text / a whole-string %(v)s *)
Inductive aspec := ANone | ABool (b : bool) | AText (s : string) | AVar (v : string).
(* workflowAttributes.replicate as written: absent / an integer / a text / a whole-string %(v)s *)
Inductive cspec := CNone | CLit (n : N) | CText (s : string) | CVar (v : string).

(* components[].override.<platform>: CNone / ANone = the key is not overridden *)
Record ovr := { ov_rep : cspec; ov_agg : aspec; ov_vars : vars }.
Definition no_ovr : ovr := {| ov_rep := CNone; ov_agg := ANone; ov_vars := [] |}.

Record rcomp := { r_stage : N; r_name : string; r_refs : list string; r_args : string;
                  r_rep : cspec; r_agg : aspec; r_vars : vars; r_over : list (string * ovr) }.
(* variables.<platform> = { global, stages } *)
Record pvars := { p_global : vars; p_stages : list (N * vars) }.
Record rwf := { rw_platforms : list string; rw_vars : list (string * pvars); rw_comps : list rcomp }.

Definition default_label : string := "default".

(* ------------------------------------------------------------------ the layering of instance(platform) *)
Definition pv (w : rwf) (p : string) : pvars :=
  match lookup p (rw_vars w) with Some x => x | None => {| p_global := []; p_stages := [] |} end.
Definition stage_vars (x : pvars) (s : N) : vars :=
  match nlookup s (p_stages x) with Some v => v | None => [] end.

(* association lists are searched from the front: l1 ++ l2 is "l2 overridden by l1" *)
Definition sel_gvars (w : rwf) (p : string) : vars :=
  if String.eqb p default_label then p_global (pv w default_label)
  else (p_global (pv w p) ++ p_global (pv w default_label))%list.

Definition sel_svars (w : rwf) (p : string) (s : N) : vars :=
  if String.eqb p default_label then stage_vars (pv w default_label) s
  else (stage_vars (pv w p) s ++
        filter (fun kv => negb (has_key (fst kv) (p_global (pv w p)))) (stage_vars (pv w default_label) s))%list.

Definition the_ovr (c : rcomp) (p : string) : ovr :=
  match lookup p (r_over c) with Some o => o | None => no_ovr end.
Definition eff_rep (c : rcomp) (p : string) : cspec :=
  match ov_rep (the_ovr c p) with CNone => r_rep c | x => x end.
Definition eff_agg (c : rcomp) (p : string) : aspec :=
  match ov_agg (the_ovr c p) with ANone => r_agg c | x => x end.
Definition eff_vars (c : rcomp) (p : string) : vars := (ov_vars (the_ovr c p) ++ r_vars c)%list.

(* the variables apply_replicate resolves the two attributes with: global < stage < component *)
Definition visible (w : rwf) (p : string) (c : rcomp) (v : string) : option string :=
  match lookup v (eff_vars c p) with
  | Some x => Some x
  | None => match lookup v (sel_svars w p (r_stage c)) with
            | Some x => Some x
            | None => lookup v (sel_gvars w p)
            end
  end.

(* to_bool of apply_replicate, on text *)
Definition true_words : list string := ["true"; "y"; "yes"].
Definition false_words : list string := ["false"; "n"; "no"].
Definition to_bool (s : string) : option bool :=
  let l := lower s in
  if mem_str l true_words then Some true else if mem_str l false_words then Some false else None.

(* the boolean propagate_replicate sees; None: ValueError / FlowIRVariableUnknown *)
Definition resolve_agg (w : rwf) (p : string) (c : rcomp) : option bool :=
  match eff_agg c p with
  | ANone => Some false
  | ABool b => Some b
  | AText s => to_bool s
  | AVar v => match visible w p c v with Some x => to_bool x | None => None end
  end.

(* int() of a text; variables are left to Model.resolve_count, which searches the same three scopes *)
Definition sel_rep (x : cspec) : option rspec :=
  match x with
  | CNone => Some RNone
  | CLit n => Some (RLit n)
  | CVar v => Some (RVar v)
  | CText s => if all_digits s then Some (RLit (digits_val 0 s)) else None
  end.

Definition sel_comp (w : rwf) (p : string) (c : rcomp) : option tcomp :=
  match sel_rep (eff_rep c p), resolve_agg w p c with
  | Some r, Some a => Some {| t_stage := r_stage c; t_name := r_name c; t_refs := r_refs c; t_args := r_args c;
                              t_rep := r; t_agg := a; t_vars := eff_vars c p |}
  | _, _ => None
  end.

Fixpoint sel_comps (w : rwf) (p : string) (l : list rcomp) : option (list tcomp) :=
  match l with
  | [] => Some []
  | c :: r => match sel_comp w p c, sel_comps w p r with Some x, Some y => Some (x :: y) | _, _ => None end
  end.

(* None: FlowIRPlatformUnknown, or an attribute that cannot be converted *)
Definition select (w : rwf) (p : string) : option twf :=
  if mem_str p (rw_platforms w) then
    match sel_comps w p (rw_comps w) with
    | Some cs => Some {| w_comps := cs; w_gvars := sel_gvars w p;
                         w_svars := map (fun c => (r_stage c, sel_svars w p (r_stage c))) (rw_comps w) |}
    | None => None
    end
  else None.

(* ------------------------------------------------------------------ entry points *)
(* python's  a or b  on an optional text *)
Definition por (a : option string) (b : string) : string :=
  match a with Some x => if String.eqb x "" then b else x | None => b end.

(* FlowIRConcrete(flowir, ctor, {}).replicate(platform=req, ignore_errors=True) *)
Definition replicate_concrete (w : rwf) (ctor req : option string) : option (list ocomp) :=
  match select w (por req (por ctor default_label)) with
  | Some t => expand_t t
  | None => None
  end.

(* FlowIR.apply_replicate(components, {global, stages}, ...) driven directly: one set of variables, no overrides *)
Definition replicate_direct (w : rwf) : option (list ocomp) :=
  match select w default_label with Some t => expand_t t | None => None end.

(* ------------------------------------------------------------------ what is proved about this layer *)
(* the spelling decides the flag exactly as to_bool reads the filled-in text: true / y / yes in any case *)
Definition spelled (w : rwf) (p : string) (c : rcomp) : option string :=
  match eff_agg c p with
  | ANone => Some "false"
  | ABool true => Some "true"
  | ABool false => Some "false"
  | AText s => Some s
  | AVar v => visible w p c v
  end.

Lemma resolve_agg_spelled w p c :
  resolve_agg w p c = match spelled w p c with Some s => to_bool s | None => None end.
Proof.
  unfold resolve_agg, spelled. destruct (eff_agg c p) as [|[|]|s|v]; try reflexivity.
Qed.

Lemma to_bool_true s : to_bool s = Some true <-> mem_str (lower s) true_words = true.
Proof.
  unfold to_bool. destruct (mem_str (lower s) true_words) eqn:E.
  - split; auto.
  - destruct (mem_str (lower s) false_words); split; intro H; discriminate.
Qed.

Lemma sel_comp_fields w p c t :
  sel_comp w p c = Some t ->
  t_stage t = r_stage c /\ t_name t = r_name c /\ t_refs t = r_refs c /\ t_args t = r_args c /\
  t_vars t = eff_vars c p /\ resolve_agg w p c = Some (t_agg t) /\ sel_rep (eff_rep c p) = Some (t_rep t).
Proof.
  unfold sel_comp. destruct (sel_rep (eff_rep c p)) as [r|]; [|discriminate].
  destruct (resolve_agg w p c) as [a|]; [|discriminate].
  intros H. inversion H; subst; cbn. repeat split; reflexivity.
Qed.

Lemma sel_comps_forall2 w p l : forall cs,
  sel_comps w p l = Some cs -> Forall2 (fun c t => sel_comp w p c = Some t) l cs.
Proof.
  induction l as [|c r IH]; cbn; intros cs H.
  - inversion H. constructor.
  - destruct (sel_comp w p c) as [x|] eqn:E; [|discriminate].
    destruct (sel_comps w p r) as [y|] eqn:E'; [|discriminate].
    inversion H; subst. constructor; auto.
Qed.

(* every component of the selected workflow is the written component with its flag resolved; in particular the
   flag does not depend on whether (or how) the component asks for replicas itself *)
Lemma select_components w p t :
  select w p = Some t ->
  Forall2 (fun c tc => t_stage tc = r_stage c /\ t_name tc = r_name c /\ t_refs tc = r_refs c /\ t_args tc = r_args c /\
                       (t_agg tc = true <-> exists s, spelled w p c = Some s /\ mem_str (lower s) true_words = true))
          (rw_comps w) (w_comps t).
Proof.
  unfold select. destruct (mem_str p (rw_platforms w)); [|discriminate].
  destruct (sel_comps w p (rw_comps w)) as [cs|] eqn:E; [|discriminate].
  intros H. inversion H; subst; cbn. apply sel_comps_forall2 in E.
  induction E as [|c tc l l' Hc _ IH]; constructor; auto.
  destruct (sel_comp_fields w p c tc Hc) as (A & B & C & D & _ & F & _).
  repeat split; auto.
  - intros Ht. rewrite Ht, resolve_agg_spelled in F. destruct (spelled w p c) as [s|]; [|discriminate].
    exists s. split; auto. apply to_bool_true. exact F.
  - intros (s & Hs & Hm). rewrite resolve_agg_spelled, Hs in F. apply to_bool_true in Hm. rewrite Hm in F.
    inversion F. reflexivity.
Qed.

(* the platform: an explicit request wins over the platform the object was built for, which only fills in for a
   missing request *)
Lemma replicate_concrete_requested w ctor ctor' p :
  p <> "" -> replicate_concrete w ctor (Some p) = replicate_concrete w ctor' (Some p).
Proof.
  intros Hp. unfold replicate_concrete, por at 1 3. destruct (String.eqb p "") eqn:E; [|reflexivity].
  apply String.eqb_eq in E. contradiction.
Qed.

Lemma replicate_concrete_active w ctor :
  replicate_concrete w ctor None = replicate_concrete w None (Some (por ctor default_label)).
Proof.
  unfold replicate_concrete. cbn [por]. destruct (String.eqb (por ctor default_label) "") eqn:E; [|reflexivity].
  apply String.eqb_eq in E. unfold por in E. destruct ctor as [x|]; [|discriminate].
  destruct (String.eqb x "") eqn:E'; [discriminate|]. rewrite E in E'. discriminate.
Qed.

Lemma replicate_concrete_select w ctor req t :
  select w (por req (por ctor default_label)) = Some t -> replicate_concrete w ctor req = expand_t t.
Proof. unfold replicate_concrete. intros H. rewrite H. reflexivity. Qed.

(* the structured component Model.parse_comps reads out of a selected component keeps stage, name and flag *)
Lemma parse_comps_forall2 t : forall l scs,
  parse_comps t l = Some scs ->
  Forall2 (fun tc sc => s_stage sc = t_stage tc /\ s_name sc = t_name tc /\ s_agg sc = t_agg tc) l scs.
Proof.
  induction l as [|c r IH]; cbn; intros scs H.
  - inversion H. constructor.
  - destruct (parse_comp t c) as [x|] eqn:E; [|discriminate].
    destruct (parse_comps t r) as [y|] eqn:E'; [|discriminate].
    inversion H; subst. constructor; auto.
    unfold parse_comp in E. destruct (resolve_count t c); [|discriminate].
    destruct (parse_refs (t_stage c) (t_refs c)); [|discriminate]. inversion E; subst; cbn. auto.
Qed.

Lemma forall2_trans {A B C} (R1 : A -> B -> Prop) (R2 : B -> C -> Prop) l1 : forall l2 l3,
  Forall2 R1 l1 l2 -> Forall2 R2 l2 l3 -> Forall2 (fun a c => exists b, R1 a b /\ R2 b c) l1 l3.
Proof.
  induction l1 as [|a r IH]; intros l2 l3 H1 H2.
  - inversion H1; subst. inversion H2; subst. constructor.
  - inversion H1; subst. inversion H2; subst. constructor; [eexists; eauto|]. eapply IH; eauto.
Qed.

Lemma forall2_combine {A B} (R : A -> B -> Prop) l : forall l' a b,
  Forall2 R l l' -> In (a, b) (combine l l') -> R a b.
Proof.
  induction l as [|x r IH]; intros l' a b H Hi.
  - inversion Hi.
  - inversion H; subst. cbn in Hi. destruct Hi as [Hi|Hi]; [inversion Hi; subst; auto|]. eapply IH; eauto.
Qed.

(* a component whose flag reads true — however it is spelled, whether or not it asks for replicas itself — is an
   aggregating component of the workflow that is propagated and expanded *)
Lemma spelled_aggregator w p t scs c sc :
  select w p = Some t -> parse_comps t (w_comps t) = Some scs -> In (c, sc) (combine (rw_comps w) scs) ->
  (exists s, spelled w p c = Some s /\ mem_str (lower s) true_words = true) ->
  In sc scs /\ s_agg sc = true /\ s_name sc = r_name c /\ s_stage sc = r_stage c.
Proof.
  intros Hs Hp Hi Hsp. split; [exact (in_combine_r _ _ _ _ Hi)|].
  pose proof (forall2_trans _ _ _ _ _ (select_components w p t Hs) (parse_comps_forall2 t _ _ Hp)) as F.
  destruct (forall2_combine _ _ _ _ _ F Hi) as (tc & (A & B & _ & _ & E) & (A' & B' & C')).
  repeat split; try congruence. rewrite C'. apply E. exact Hsp.
Qed.

(* ------------------------------------------------------------------ the checker of the correspondence *)
Definition pcase := (rwf * option string * option string * bool * option (list ocomp) *
                     option (list string * list (string * string)))%type.

(* (workflow, platform given to the constructor, platform given to replicate(), driven through apply_replicate
   directly?, what came back, graph) *)
Definition check_pcase (c : pcase) : bool :=
  let '(w, ctor, req, direct, impl, graph) := c in
  let model := if direct then replicate_direct w else replicate_concrete w ctor req in
  (match select w (if direct then default_label else por req (por ctor default_label)) with
   | Some t => struct_check t
   | None => true
   end) &&
  match model, impl with
  | None, None => true
  | Some mo, Some io =>
      same_members ocomp_eqb mo io &&
      match graph with
      | None => true
      | Some (nodes, edges) =>
          same_members String.eqb (map (fun o => node_name (o_stage o) (o_name o)) mo) nodes &&
          forallb (fun e => existsb (pair_str_eqb e) edges) (edges_of mo) &&
          forallb (fun e => existsb (pair_str_eqb e) (edges_of mo)) edges
      end
  | _, _ => false
  end.
