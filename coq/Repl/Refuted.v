(* C03 — parts of the full statement that are false of the faithful model (each is a recorded finding). *)
From Coq Require Import String List Bool NArith.
Import ListNotations.
Require Import V.Lib.PyStr V.Repl.Model.
Open Scope list_scope.

(* F3: references ["A:ref"; "BA:ref"], A replicated, BA not.  The relative spelling "A:ref" is a key of the
   translation table and occurs inside "BA:ref": copy 0 of the consumer gets "Bstage0.A0:ref", which names no
   component; the structured layer keeps "BA:ref".  no_overlap is false for this component. *)
Definition f3_wf : twf := {| w_gvars := []; w_svars := []; w_comps := [
  {| t_stage := 0; t_name := "A"; t_refs := []; t_args := "hi"; t_rep := RLit 2; t_agg := false; t_vars := [] |};
  {| t_stage := 0; t_name := "BA"; t_refs := []; t_args := "hi"; t_rep := RNone; t_agg := false; t_vars := [] |};
  {| t_stage := 0; t_name := "C"; t_refs := ["A:ref"; "BA:ref"]; t_args := "A:ref BA:ref"; t_rep := RNone;
     t_agg := false; t_vars := [] |} ]%string |}.

Theorem C03_textual_refuted :
  exists scs info,
    parse_comps f3_wf (w_comps f3_wf) = Some scs /\ propagate scs = Some info /\
    option_map (map (fun o => (o_name o, o_refs o))) (expand_t f3_wf) =
      Some [("A0", []); ("A1", []); ("BA", []);
            ("C0", ["stage0.A0:ref"; "Bstage0.A0:ref"]); ("C1", ["stage0.A1:ref"; "Bstage0.A1:ref"])]%string /\
    option_map (map (fun o => (so_name o, map spell (so_refs o)))) (expand scs) =
      Some [("A0", []); ("A1", []); ("BA", []);
            ("C0", ["stage0.A0:ref"; "BA:ref"]); ("C1", ["stage0.A1:ref"; "BA:ref"])]%string /\
    forallb (fun sc => no_overlap info 0 (s_refs sc)) scs = false /\
    edges_of (match expand_t f3_wf with Some o => o | None => [] end) =
      [("stage0.A0", "stage0.C0"); ("stage0.A1", "stage0.C1")]%string.
Proof. eexists. eexists. repeat split; vm_compute; reflexivity. Qed.
Print Assumptions C03_textual_refuted.

(* F3b: the copies are named by appending the replica index, nothing keeps these names apart from the names of
   other components: "a" with two replicas next to a component "a1" gives two components stage0.a1. *)
Definition f3b_cs : list scomp := [
  {| s_stage := 0; s_name := "a"; s_refs := []; s_own := Some 2%N; s_agg := false |};
  {| s_stage := 0; s_name := "a1"; s_refs := []; s_own := None; s_agg := false |} ]%string.

Theorem C03_distinct_names_refuted :
  exists out, NoDup (map sid f3b_cs) /\ expand f3b_cs = Some out /\
              map so_name out = ["a0"; "a1"; "a1"]%string /\ ~ NoDup (map (fun o => (so_stage o, so_name o)) out).
Proof.
  eexists. split; [repeat constructor; cbn; intuition discriminate|].
  split; [vm_compute; reflexivity|]. split; [vm_compute; reflexivity|].
  cbn. intros H. inversion H as [|x l H1 H2]; subst. inversion H2 as [|y l' H3 H4]; subst. apply H3. left. reflexivity.
Qed.
Print Assumptions C03_distinct_names_refuted.

(* F3c: an aggregator that declares the same replicated reference twice (here in both spellings).  The translation
   map of compile_component_aggregate collects the copies once per declaration, so each declaration is replaced
   by the list of copies twice over: 8 references instead of 4.  agg_guard holds, the "pairwise different
   spellings" part of agg_sep does not: that hypothesis of C03_textual_refines_aggregate is necessary. *)
Definition f3c_wf : twf := {| w_gvars := []; w_svars := []; w_comps := [
  {| t_stage := 0; t_name := "A"; t_refs := []; t_args := "hi"; t_rep := RLit 2; t_agg := false; t_vars := [] |};
  {| t_stage := 0; t_name := "C"; t_refs := ["A:ref"; "stage0.A:ref"]; t_args := ""; t_rep := RNone;
     t_agg := true; t_vars := [] |} ]%string |}.

Theorem C03_aggregate_duplicate_refuted :
  exists scs info,
    parse_comps f3c_wf (w_comps f3c_wf) = Some scs /\ propagate scs = Some info /\
    option_map (map (fun o => (o_name o, o_refs o))) (expand_t f3c_wf) =
      Some [("A0", []); ("A1", []);
            ("C", ["stage0.A0:ref"; "stage0.A1:ref"; "stage0.A0:ref"; "stage0.A1:ref";
                   "stage0.A0:ref"; "stage0.A1:ref"; "stage0.A0:ref"; "stage0.A1:ref"])]%string /\
    option_map (map (fun o => (so_name o, map spell (so_refs o)))) (expand scs) =
      Some [("A0", []); ("A1", []);
            ("C", ["stage0.A0:ref"; "stage0.A1:ref"; "stage0.A0:ref"; "stage0.A1:ref"])]%string /\
    forallb (fun sc => agg_guard info (s_refs sc)) scs = true /\
    forallb (fun sc => nodup_str (rr_keys (repl_refs info (s_refs sc)))) scs = false.
Proof. eexists. eexists. repeat split; vm_compute; reflexivity. Qed.
Print Assumptions C03_aggregate_duplicate_refuted.

(* F3 (regular expression): the reference is interpolated unescaped, so the dots of "stage0.A.B:ref" match any
   character: the reference to the component AxB, followed by a path, is taken for a reference to A.B and
   replaced by its copies.  agg_guard (plain substring tests) holds, the regular-expression part of agg_sep does
   not: that hypothesis is necessary. *)
Definition f3re_wf : twf := {| w_gvars := []; w_svars := []; w_comps := [
  {| t_stage := 0; t_name := "A.B"; t_refs := []; t_args := "hi"; t_rep := RLit 2; t_agg := false; t_vars := [] |};
  {| t_stage := 0; t_name := "AxB"; t_refs := []; t_args := "hi"; t_rep := RNone; t_agg := false; t_vars := [] |};
  {| t_stage := 0; t_name := "C"; t_refs := ["stage0.A.B:ref"; "stage0.AxB:ref/d"]; t_args := ""; t_rep := RNone;
     t_agg := true; t_vars := [] |} ]%string |}.

Theorem C03_aggregate_regex_refuted :
  exists scs info,
    parse_comps f3re_wf (w_comps f3re_wf) = Some scs /\ propagate scs = Some info /\
    option_map (map (fun o => (o_name o, o_refs o))) (expand_t f3re_wf) =
      Some [("A.B0", []); ("A.B1", []); ("AxB", []);
            ("C", ["stage0.A.B0:ref"; "stage0.A.B1:ref"; "stage0.A.B0:ref/d"; "stage0.A.B1:ref/d"])]%string /\
    option_map (map (fun o => (so_name o, map spell (so_refs o)))) (expand scs) =
      Some [("A.B0", []); ("A.B1", []); ("AxB", []);
            ("C", ["stage0.A.B0:ref"; "stage0.A.B1:ref"; "stage0.AxB:ref/d"])]%string /\
    forallb (fun sc => agg_guard info (s_refs sc)) scs = true /\
    forallb (fun sc => agg_sep info (s_refs sc)) scs = false.
Proof. eexists. eexists. repeat split; vm_compute; reflexivity. Qed.
Print Assumptions C03_aggregate_regex_refuted.

(* F3 (arguments): a token of command.arguments that merely contains a declared spelling is rewritten inside:
   "xA:ref" becomes "xstage0.A0:ref".  no_overlap holds for the references, args_sep does not hold for the tokens:
   that hypothesis of C03_textual_arguments_replica is necessary. *)
Definition f3arg_wf : twf := {| w_gvars := []; w_svars := []; w_comps := [
  {| t_stage := 0; t_name := "A"; t_refs := []; t_args := "hi"; t_rep := RLit 2; t_agg := false; t_vars := [] |};
  {| t_stage := 0; t_name := "C"; t_refs := ["A:ref"]; t_args := "A:ref xA:ref"; t_rep := RNone;
     t_agg := false; t_vars := [] |} ]%string |}.

Theorem C03_arguments_sep_refuted :
  exists scs info,
    parse_comps f3arg_wf (w_comps f3arg_wf) = Some scs /\ propagate scs = Some info /\
    option_map (map (fun o => (o_name o, o_args o))) (expand_t f3arg_wf) =
      Some [("A0", "hi"); ("A1", "hi"); ("C0", "stage0.A0:ref xstage0.A0:ref"); ("C1", "stage0.A1:ref xstage0.A1:ref")]%string /\
    forallb (fun sc => no_overlap info 0 (s_refs sc)) scs = true /\
    forallb (fun sc => args_sep (sorted_translation (repl_refs info (s_refs sc)) 0) ["A:ref"; "xA:ref"]%string) scs = false /\
    map (tok_spec (sorted_translation [(0%N, "A", None, "ref", 2%N)] 0))%string ["A:ref"; "xA:ref"]%string =
      ["stage0.A0:ref"; "xA:ref"]%string.
Proof. eexists. eexists. repeat split; vm_compute; reflexivity. Qed.
Print Assumptions C03_arguments_sep_refuted.
