(* C03 — the strings of a component OUTSIDE `references`, its name and command.arguments.

   compile_component_replica and compile_component_aggregate hand the WHOLE component definition to
   FlowIR.replace_strings, which applies the per-copy translation to every string value it finds: the values of
   the component's `variables` (a reference spelled in a variable that is then used as %(v)s on the command line),
   command.executable / environment, executors payloads, resourceManager options, ...  A copy whose variable still
   names the blueprint producer consumes from a component that no longer exists once the variable is substituted.

   [strs]: labelled strings.  The variables of a component are the [t_vars] of the selected workflow (Platform.v:
   the definition's overridden by override.<platform>.variables); every other string is handed over as [extra],
   labelled by its path in the definition.  [expand_x] is [expand_t] carrying these strings along. *)
From Coq Require Import String Ascii List Bool Arith NArith Lia.
Require Import V.Lib.PyStr V.Lib.JTree V.Repl.Model V.Repl.Proofs V.Repl.Arguments V.Repl.Platform.
Import ListNotations.
Open Scope list_scope.

Definition strs := list (string * string).
(* replace_strings on a dictionary: the keys stay, every value goes through the translation *)
Definition map_vals (f : string -> string) (l : strs) : strs := map (fun kv => (fst kv, f (snd kv))) l.

Record xout := { x_comp : ocomp; x_vars : strs; x_extra : strs }.

Definition replica_x (c : tcomp) (extra : strs) (rrs : list rref) (total i : N) : xout :=
  let L := sorted_translation rrs i in
  {| x_comp := replica_comp c rrs total i; x_vars := map_vals (tfun L) (t_vars c); x_extra := map_vals (tfun L) extra |}.

Definition aggregate_x (c : tcomp) (extra : strs) (rrs : list rref) (count : N) : xout :=
  let tm := agg_translation count rrs in
  {| x_comp := aggregate_comp c rrs count; x_vars := map_vals (agg_string tm rrs) (t_vars c);
     x_extra := map_vals (agg_string tm rrs) extra |}.

Definition plain_x (c : tcomp) (extra : strs) : xout :=
  {| x_comp := plain_comp c; x_vars := t_vars c; x_extra := extra |}.

(* apply_replicate, one component (the same case analysis as Model.expand_one_t) *)
Definition expand_one_x (info : list entry) (c : tcomp) (sc : scomp) (extra : strs) : list xout :=
  let rrs := repl_refs info (s_refs sc) in
  match alookup (sid sc) info with
  | Some (rep, true) => [aggregate_x c extra rrs (match rep with Some n => n | None => 0%N end)]
  | Some (Some n, false) => if N.ltb 0 n then map (replica_x c extra rrs n) (nseq n) else [plain_x c extra]
  | _ => [plain_x c extra]
  end.

(* xs: the extra strings per component, in the order of the components (a missing entry: none) *)
Fixpoint expand_all_x (info : list entry) (cs : list tcomp) (scs : list scomp) (xs : list strs) : list xout :=
  match cs, scs with
  | c :: r, sc :: r' => expand_one_x info c sc (hd [] xs) ++ expand_all_x info r r' (tl xs)
  | _, _ => []
  end.

Definition expand_x (w : twf) (xs : list strs) : option (list xout) :=
  match parse_comps w (w_comps w) with
  | None => None
  | Some scs => match propagate scs with
                | None => None
                | Some info => Some (expand_all_x info (w_comps w) scs xs)
                end
  end.

(* ------------------------------------------------------------------ expand_x is expand_t with the strings along *)
Lemma expand_one_x_comp info c sc extra : map x_comp (expand_one_x info c sc extra) = expand_one_t info c sc.
Proof.
  unfold expand_one_x, expand_one_t. destruct (alookup (sid sc) info) as [[[n|] [|]]|]; cbn; try reflexivity.
  destruct (N.ltb 0 n); cbn; [|reflexivity]. rewrite map_map. reflexivity.
Qed.

Lemma expand_all_x_comp info : forall cs scs xs,
  map x_comp (expand_all_x info cs scs xs) = expand_all_t info cs scs.
Proof.
  induction cs as [|c r IH]; intros scs xs; [reflexivity|]. destruct scs as [|sc r']; [reflexivity|].
  cbn [expand_all_x expand_all_t]. rewrite map_app, expand_one_x_comp, IH. reflexivity.
Qed.

Lemma expand_x_comp w xs : option_map (map x_comp) (expand_x w xs) = expand_t w.
Proof.
  unfold expand_x, expand_t. destruct (parse_comps w (w_comps w)) as [scs|]; [|reflexivity].
  destruct (propagate scs) as [info|]; [|reflexivity]. cbn. rewrite expand_all_x_comp. reflexivity.
Qed.

Lemma map_vals_in f l k s : In (k, s) l -> In (k, f s) (map_vals f l).
Proof. intros H. unfold map_vals. apply (in_map (fun kv => (fst kv, f (snd kv))) l (k, s) H). Qed.

(* every string of a copy: the tokens that are declared spellings are rewritten to the spelling of the structured
   rewiring (copy i of the replicated producer), everything else is untouched *)
Lemma everywhere_replica info c sc extra n i :
  alookup (sid sc) info = Some (Some n, false) -> (0 < n)%N -> In i (nseq n) ->
  no_overlap info i (s_refs sc) = true ->
  let L := sorted_translation (repl_refs info (s_refs sc)) i in
  exists x, In x (expand_one_x info c sc extra) /\
    x_comp x = replica_comp c (repl_refs info (s_refs sc)) n i /\
    (forall k toks, In (k, join " " toks) (t_vars c) -> args_sep L toks = true ->
                    In (k, join " " (map (tok_spec L) toks)) (x_vars x)) /\
    (forall k toks, In (k, join " " toks) extra -> args_sep L toks = true ->
                    In (k, join " " (map (tok_spec L) toks)) (x_extra x)) /\
    (forall r, In r (s_refs sc) -> tok_spec L (spell r) = spell (rw_ref info i r)).
Proof.
  intros Hi Hn Hin Hno L. exists (replica_x c extra (repl_refs info (s_refs sc)) n i).
  split.
  - unfold expand_one_x. rewrite Hi. apply N.ltb_lt in Hn. rewrite Hn. apply in_map. exact Hin.
  - split; [reflexivity|]. split; [|split].
    + intros k toks Hk Hsep. destruct (textual_args_replica info (s_refs sc) i toks Hno Hsep) as [E _].
      fold L in E. rewrite <- E. cbn [x_vars replica_x]. apply map_vals_in. exact Hk.
    + intros k toks Hk Hsep. destruct (textual_args_replica info (s_refs sc) i toks Hno Hsep) as [E _].
      fold L in E. rewrite <- E. cbn [x_extra replica_x]. apply map_vals_in. exact Hk.
    + intros r Hr. unfold no_overlap in Hno. fold L in Hno. apply andb_true_iff in Hno as [Hok Hrefs].
      rewrite forallb_forall in Hrefs. specialize (Hrefs r Hr). unfold tok_spec.
      destruct r as [abs st p f m|t]; cbn [ref_ok rw_ref] in *.
      * destruct (repl_count info (st, p)) as [n'|].
        -- destruct (entry_of (spell (SComp abs st p f m)) L) as [v|]; [|discriminate].
           apply String.eqb_eq in Hrefs. exact Hrefs.
        -- rewrite (keys_absent_no_entry _ _ Hrefs). reflexivity.
      * cbn [spell]. rewrite (keys_absent_no_entry _ _ Hrefs). reflexivity.
Qed.

(* a component outside the replicated region keeps every string *)
Lemma everywhere_outside info c sc extra :
  (alookup (sid sc) info = Some (None, false) \/ alookup (sid sc) info = None) ->
  expand_one_x info c sc extra = [plain_x c extra] /\ x_vars (plain_x c extra) = t_vars c /\
  x_extra (plain_x c extra) = extra.
Proof. intros [H|H]; unfold expand_one_x; rewrite H; repeat split; reflexivity. Qed.

(* ------------------------------------------------------------------ the checker of the correspondence *)
(* variables: the selected component lists override.<platform>.variables in front of the definition's own (the
   front one wins); the implementation returns the merged dictionary *)
Definition vars_agree (m i : strs) : bool :=
  forallb (fun kv => opt_str_eqb (lookup (fst kv) m) (Some (snd kv))) i &&
  forallb (fun kv => has_key (fst kv) i) m.

Definition ximpl := (N * string * strs * strs)%type.

Definition x_matches (x : xout) (y : ximpl) : bool :=
  let '(st, nm, vs, ex) := y in
  N.eqb (o_stage (x_comp x)) st && String.eqb (o_name (x_comp x)) nm && vars_agree (x_vars x) vs &&
  list_eqb pair_str_eqb (x_extra x) ex.

(* (the case of Platform.check_pcase, the extra strings per component, and per returned component its variables
   and those extra strings as they came back; None: not observed) *)
Definition xcase := (pcase * list strs * option (list ximpl))%type.

Definition check_xcase (c : xcase) : bool :=
  let '(pc, xs, ximp) := c in
  check_pcase pc &&
  let '(w, ctor, req, direct, impl, graph) := pc in
  match ximp, select w (if direct then default_label else por req (por ctor default_label)) with
  | Some io, Some t =>
      match expand_x t xs with
      | Some mo => Nat.eqb (List.length mo) (List.length io) &&
                   forallb (fun y => existsb (fun x => x_matches x y) mo) io
      | None => false
      end
  | _, _ => true
  end.
