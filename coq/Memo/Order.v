(* C16 — the order of the one-after-the-other rewriting of the argument string.
   The code replaces the references one re.sub after the other.  That equals the simultaneous substitution
   ([simul]: every word that is a reference becomes the replacement of THAT reference) when no reference is
   visited before a different reference in which it occurs ([ordered]): no earlier reference then occurs in the
   word, the word is replaced by its own replacement, in which no reference occurs ([inert]).  Longest spelling
   first is such an order: a reference visited earlier is at least as long as the word and different from it.
   Shortest first (or any order that visits a \b-delimited tail of a reference before the reference), the code's
   sort key and the fuzzy replacement (not inert) are refuted in Refuted.v. *)
From Coq Require Import String Ascii List Bool Arith Lia Permutation.
Import ListNotations.
Require Import V.Lib.PyStr V.Lib.JTree V.Memo.Model V.Memo.Proofs V.Memo.Regex.
Open Scope string_scope.

Lemma length_zero s : String.length s = 0%nat -> s = "".
Proof. destruct s; [reflexivity|discriminate]. Qed.

(* a string that occurs in a string that is not longer is that string *)
Lemma occurs_not_longer a b : occurs a b = true -> (String.length b <= String.length a)%nat -> b = a.
Proof.
  intros O L. apply occurs_spec in O as (l & r & ->). rewrite !length_append in L.
  assert (Hl : String.length l = 0%nat) by lia. assert (Hr : String.length r = 0%nat) by lia.
  apply length_zero in Hl, Hr. subst l r. cbn. apply append_nil_r.
Qed.

Lemma rewrite_all_no_ref subs : forall s, no_ref_in subs s = true -> rewrite_all subs s = s.
Proof.
  unfold rewrite_all, no_ref_in. induction subs as [|[r rep] t IH]; intros s H; [reflexivity|].
  cbn [forallb fst] in H. apply andb_true_iff in H as [H1 H2]. apply negb_true_iff in H1.
  cbn [fold_left fst snd]. rewrite (resub_no_occ r rep s H1). apply IH. exact H2.
Qed.

Lemma mem_eqb w l : mem w l = true <-> In w l.
Proof.
  unfold mem. rewrite existsb_exists. split.
  - intros (x & I & E). apply String.eqb_eq in E. subst x. exact I.
  - intros I. exists w. split; [exact I|apply String.eqb_refl].
Qed.

Lemma inert_tail sr t : inert (sr :: t) = true -> no_ref_in t (snd sr) = true /\ inert t = true.
Proof.
  unfold inert. cbn [forallb]. intros H. apply andb_true_iff in H as [H1 H2]. split.
  - unfold no_ref_in in *. cbn [forallb] in H1. apply andb_true_iff in H1 as [_ H1]. exact H1.
  - apply forallb_forall. intros x I. rewrite forallb_forall in H2. specialize (H2 x I).
    unfold no_ref_in in *. cbn [forallb] in H2. apply andb_true_iff in H2 as [_ H2]. exact H2.
Qed.

(* longest spelling first is such an order *)
Lemma longest_first_ordered subs : longest_first subs = true -> ordered subs = true.
Proof.
  induction subs as [|[r rep] t IH]; intros L; [reflexivity|].
  cbn [longest_first fst] in L. apply andb_true_iff in L as [Lr L]. cbn [ordered fst].
  apply andb_true_iff. split; [|apply IH; exact L].
  apply forallb_forall. intros [r' rep'] I'. rewrite forallb_forall in Lr. specialize (Lr _ I'). cbn [fst] in *.
  apply Nat.leb_le in Lr. destruct (occurs r r') eqn:O; [|apply orb_true_r].
  rewrite (occurs_not_longer _ _ O Lr), String.eqb_refl. reflexivity.
Qed.

(* one word *)
Lemma ordered_word subs : forall w,
  edges_ok subs = true -> ordered subs = true -> inert subs = true -> plain_word subs w = true ->
  rewrite_all subs w = simul subs w.
Proof.
  induction subs as [|[r rep] t IH]; intros w E L I P; [reflexivity|].
  unfold edges_ok in E. cbn [forallb fst] in E. apply andb_true_iff in E as [Er E]. apply andb_true_iff in Er as [Eh El].
  cbn [ordered fst] in L. apply andb_true_iff in L as [Lr L].
  destruct (inert_tail _ _ I) as [Ir It]. cbn [snd] in Ir.
  unfold simul. cbn [lookup]. change (rewrite_all ((r, rep) :: t) w) with (rewrite_all t (resub r rep w)).
  destruct (String.eqb w r) eqn:Ewr.
  - apply String.eqb_eq in Ewr. subst w. rewrite (resub_self r rep Eh El). apply rewrite_all_no_ref. exact Ir.
  - assert (O : occurs r w = false).
    { destruct (occurs r w) eqn:O; [|reflexivity]. exfalso.
      unfold plain_word in P. cbn [map fst] in P. unfold mem in P. cbn [existsb] in P. rewrite Ewr in P. cbn [orb] in P.
      apply orb_true_iff in P as [P|P].
      - apply (proj1 (mem_eqb w (map fst t))) in P. apply in_map_iff in P as ([r' rep'] & <- & I').
        rewrite forallb_forall in Lr. specialize (Lr _ I'). cbn [fst] in Lr, O, Ewr. rewrite Ewr, O in Lr. discriminate.
      - unfold no_ref_in in P. cbn [forallb fst] in P. apply andb_true_iff in P as [P _]. rewrite O in P. discriminate. }
    rewrite (resub_no_occ r rep w O). fold (simul t w). apply IH; [exact E|exact L|exact It|].
    unfold plain_word in *. cbn [map fst] in P. unfold mem in P. cbn [existsb] in P. rewrite Ewr in P. cbn [orb] in P.
    apply orb_true_iff in P as [P|P]; apply orb_true_iff; [left; exact P|right].
    unfold no_ref_in in *. cbn [forallb] in P. apply andb_true_iff in P as [_ P]. exact P.
Qed.

(* the whole argument string: blank-separated words *)
Lemma ordered_simul subs ws :
  subs_ok subs = true -> edges_ok subs = true -> ordered subs = true -> inert subs = true ->
  forallb (plain_word subs) ws = true ->
  rewrite_all subs (join " " ws) = join " " (map (simul subs) ws).
Proof.
  intros S E L I P. rewrite (rewrite_join subs ws S). f_equal. apply map_ext_in. intros w Iw.
  rewrite forallb_forall in P. apply ordered_word; auto.
Qed.

(* the code's loop on a blank-delimited command line *)
Lemma ordered_args md5 fz ph disc order c ws subs :
  c_args c = blanks ws -> subs_of md5 fz ph disc (c_refs c) order = Some subs ->
  subs_ok subs = true -> edges_ok subs = true -> ordered subs = true -> inert subs = true ->
  forallb (plain_word subs) (map (tok_text (c_refs c)) ws) = true ->
  args_chars md5 fz ph disc order c = Some (join " " (map (simul subs) (map (tok_text (c_refs c)) ws))).
Proof.
  intros A Su S E L I P. unfold args_chars. rewrite Su. cbn [option_map]. rewrite A, render_blanks.
  f_equal. apply ordered_simul; assumption.
Qed.

(* ---------------------------------------------------------------- the order does not matter beyond that:
   two such orders of the same (distinct) references give the same arguments *)
Lemma lookup_not_in {A} k (l : list (string * A)) : ~ In k (map fst l) -> lookup k l = None.
Proof.
  induction l as [|[k' v] l IH]; intros N; [reflexivity|]. cbn [lookup]. cbn [map fst In] in N.
  destruct (String.eqb k k') eqn:E; [apply String.eqb_eq in E; subst; exfalso; apply N; left; reflexivity|].
  apply IH. intros I. apply N. right. exact I.
Qed.

Lemma lookup_perm {A} (l l' : list (string * A)) : Permutation l l' -> NoDup (map fst l) ->
  forall k, lookup k l = lookup k l'.
Proof.
  induction 1 as [|[k1 v1] l l' P IH|[k1 v1] [k2 v2] l|l l' l'' P1 IH1 P2 IH2]; intros N k.
  - reflexivity.
  - cbn [lookup]. cbn [map fst] in N. inversion N as [|? ? _ N']; subst. rewrite (IH N' k). reflexivity.
  - cbn [lookup]. cbn [map fst] in N. inversion N as [|? ? N1 _]; subst.
    destruct (String.eqb k k2) eqn:E2, (String.eqb k k1) eqn:E1; try reflexivity.
    apply String.eqb_eq in E1, E2. subst. exfalso. apply N1. left. reflexivity.
  - rewrite (IH1 N k). apply IH2. apply (Permutation_NoDup (Permutation_map fst P1)). exact N.
Qed.

Lemma order_independent subs subs' ws :
  Permutation subs subs' -> NoDup (map fst subs) ->
  subs_ok subs = true -> edges_ok subs = true -> inert subs = true -> forallb (plain_word subs) ws = true ->
  subs_ok subs' = true -> edges_ok subs' = true -> inert subs' = true -> forallb (plain_word subs') ws = true ->
  ordered subs = true -> ordered subs' = true ->
  rewrite_all subs (join " " ws) = rewrite_all subs' (join " " ws).
Proof.
  intros P N S E I W S' E' I' W' L L'.
  rewrite (ordered_simul subs ws S E L I W), (ordered_simul subs' ws S' E' L' I' W').
  f_equal. apply map_ext. intros w. unfold simul. rewrite (lookup_perm _ _ P N w). reflexivity.
Qed.

Lemma longest_first_simul subs ws :
  subs_ok subs = true -> edges_ok subs = true -> longest_first subs = true -> inert subs = true ->
  forallb (plain_word subs) ws = true ->
  ordered subs = true /\ rewrite_all subs (join " " ws) = join " " (map (simul subs) ws).
Proof.
  intros S E L I P. split; [apply longest_first_ordered; exact L|].
  apply ordered_simul; auto. apply longest_first_ordered; exact L.
Qed.
