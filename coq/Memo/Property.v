(* C16 — Memoization hashes identify equivalent work and nothing else.  Property theorems only.
   md5 is universally quantified everywhere (a Section variable in Model.v). *)
From Coq Require Import String List Bool ZArith Permutation.
Import ListNotations.
Require Import V.Lib.PyStr V.Lib.JTree V.Memo.Model V.Memo.Proofs V.Memo.Entries V.Memo.Chain V.Memo.Regex V.Memo.Order V.Memo.Examples V.Memo.History V.Memo.Cached.
Open Scope string_scope.

(* The closed form [serialise] is the coded traversal applied to the info dictionary. *)
Theorem C16_serialise_is_traversal : forall i, ser_jv (info_jv i) = Some (serialise i).
Proof. exact ser_info_jv. Qed.
Print Assumptions C16_serialise_is_traversal.

(* The info (hence the hash), strong or fuzzy, of every component of a workflow does not depend on
   the component names, stage indices, instance location, resolved paths, reference spellings of
   producers or modification times: two workflows that agree after erasing those fields ([core])
   get the same infos and hashes, position by position. *)
Theorem C16_irrelevant : forall md5 fuzzy g g',
  map core g = map core g' ->
  infos md5 fuzzy g = infos md5 fuzzy g' /\ hashes md5 fuzzy g = hashes md5 fuzzy g'.
Proof. exact irrelevant_graph. Qed.
Print Assumptions C16_irrelevant.

(* No hash, strong or fuzzy, while a referenced input is missing (whoever should have made it). *)
Theorem C16_missing_input : forall md5 fuzzy ph c r,
  In r (c_refs c) -> d_state r = FMissing ->
  info_of md5 fuzzy ph c = None /\ hash_of md5 fuzzy ph c = None.
Proof. exact missing_input. Qed.
Print Assumptions C16_missing_input.

(* The fuzzy info ignores the contents of files made by producers ([blank] erases them), is a
   function of the producers' fuzzy hashes, and changes when the fuzzy hash of a producer whose file
   is consumed changes. *)
Theorem C16_fuzzy : forall md5 c,
  (forall ph c', blank c = blank c' -> info_of md5 true ph c = info_of md5 true ph c') /\
  (forall ph ph', (forall r p, In r (c_refs c) -> d_prod r = Some p -> ph p = ph' p) ->
                  info_of md5 true ph c = info_of md5 true ph' c) /\
  (forall ph ph' r p content h h' i i',
     In r (c_refs c) -> d_prod r = Some p -> d_state r = FFile content ->
     ph p = Some h -> ph' p = Some h' -> h <> h' ->
     info_of md5 true ph c = Some i -> info_of md5 true ph' c = Some i' -> i_files i <> i_files i').
Proof.
  intros md5 c. split; [|split].
  - intros ph c'. apply fuzzy_contents.
  - intros ph ph'. apply info_ext.
  - intros ph ph' r p content h h' i i'. apply fuzzy_changes.
Qed.
Print Assumptions C16_fuzzy.

(* Equal executable, equal arguments after replacement, the same files (as a multiset of
   hash:method entries) and the same image: equal serialisation and equal hash. *)
Theorem C16_complete : forall md5 i i',
  i_exe i = i_exe i' -> i_args i = i_args i' -> Permutation (i_files i) (i_files i') -> i_image i = i_image i' ->
  serialise i = serialise i' /\ hash_info md5 i = hash_info md5 i'.
Proof. exact complete_info. Qed.
Print Assumptions C16_complete.

(* Soundness, partial: when no field re-splits the flattened dictionary ([unambiguous]) and md5 does
   not collide on the two buffers, equal hashes mean equal image, arguments, executable and equal
   concatenation of the sorted file entries. *)
Theorem C16_sound_partial : forall md5 i i',
  (md5 (serialise i) = md5 (serialise i') -> serialise i = serialise i') ->
  unambiguous i -> unambiguous i' -> hash_info md5 i = hash_info md5 i' ->
  i_image i = i_image i' /\ i_args i = i_args i' /\ i_exe i = i_exe i' /\
  cat (sort (i_files i)) = cat (sort (i_files i')).
Proof. exact sound_hash. Qed.
Print Assumptions C16_sound_partial.

(* File entries are self-delimiting: <32 hex>:<method> and fuzzy#<32 hex>#<path without ':'>:<method>
   ([wf_files], a boolean).  The concatenation of the sorted entries, which is all the hash sees,
   determines the entries as a multiset. *)
Theorem C16_files_determined : forall fs fs',
  wf_files fs = true -> wf_files fs' = true -> cat (sort fs) = cat (sort fs') -> Permutation fs fs'.
Proof. exact files_from_concat. Qed.
Print Assumptions C16_files_determined.

(* ... and every file list the model computes is of that shape, strong or fuzzy, for every workflow whose
   references use reference methods and whose paths below a producer contain no ':' ([wf_ref]), when md5
   returns digests. *)
Theorem C16_files_wellformed : forall md5, (forall s, hex32 (md5 s) = true) ->
  forall fuzzy g i, forallb (fun c => forallb wf_ref (c_refs c)) g = true ->
    In (Some i) (infos md5 fuzzy g) -> wf_files (i_files i) = true.
Proof. exact infos_wf. Qed.
Print Assumptions C16_files_wellformed.

(* "Exactly when": for unambiguous serialisations with well-formed file entries on which md5 does not
   collide, the hashes are equal if and only if executable, replaced arguments, file entries (as a
   multiset of hash:method) and image are equal. *)
Theorem C16_exactly_when : forall md5 i i',
  (md5 (serialise i) = md5 (serialise i') -> serialise i = serialise i') ->
  unambiguous i -> unambiguous i' -> wf_files (i_files i) = true -> wf_files (i_files i') = true ->
  (hash_info md5 i = hash_info md5 i' <->
   i_exe i = i_exe i' /\ i_args i = i_args i' /\ Permutation (i_files i) (i_files i') /\ i_image i = i_image i').
Proof. exact exactly_when. Qed.
Print Assumptions C16_exactly_when.

(* Fuzzy hashes over a whole workflow: changing only the contents of files made by producers
   ([blank] erases them) changes no fuzzy info and no fuzzy hash, of any component. *)
Theorem C16_fuzzy_contents_graph : forall md5 g g',
  map blank g = map blank g' ->
  infos md5 true g = infos md5 true g' /\ hashes md5 true g = hashes md5 true g'.
Proof. exact fuzzy_contents_graph. Qed.
Print Assumptions C16_fuzzy_contents_graph.

(* The fuzzy chain, any length: component k+1 of [rest] consumes a file made by component k and has no
   other producer ([is_chain]).  If the first producer changes its executable, replaced arguments or
   image, the fuzzy hash of EVERY component of the chain that has one changes (md5 returns digests and,
   position by position, does not collide on the two unambiguous buffers: [good]). *)
Theorem C16_fuzzy_chain : forall md5, (forall s, hex32 (md5 s) = true) ->
  forall c0 c0' rest,
  is_chain 0 rest -> forallb (fun c => forallb wf_ref (c_refs c)) rest = true ->
  good md5 (infos md5 true (c0 :: rest)) (infos md5 true (c0' :: rest)) ->
  (forall i i', nth 0 (infos md5 true (c0 :: rest)) None = Some i -> nth 0 (infos md5 true (c0' :: rest)) None = Some i' ->
                i_exe i <> i_exe i' \/ i_args i <> i_args i' \/ i_image i <> i_image i') ->
  forall k h h', nth k (hashes md5 true (c0 :: rest)) None = Some h -> nth k (hashes md5 true (c0' :: rest)) None = Some h' ->
                 h <> h'.
Proof. exact fuzzy_chain. Qed.
Print Assumptions C16_fuzzy_chain.

(* The argument string at character level.  [resub ref rep s] is re.sub(r'\b' + re.escape(ref) + r'\b', rep, s)
   (tied to Python's re by the correspondence run).  A reference contains no blank, so the replacement is local
   to the blank-separated words of the arguments, whatever they are: *)
Theorem C16_resub_words : forall ref rep ws, blank_free ref = true ->
  resub ref rep (join " " ws) = join " " (map (resub ref rep) ws).
Proof. exact resub_join. Qed.
Print Assumptions C16_resub_words.

(* ... a word that is the reference itself is replaced when the reference begins and ends with a word character,
   and a word in which the reference does not occur is left alone. *)
Theorem C16_resub_word : forall ref rep,
  (headw ref = true -> lastw ref = true -> resub ref rep ref = rep) /\
  (forall w, occurs ref w = false -> resub ref rep w = w).
Proof. intros ref rep. split; [apply resub_self|intros w; apply resub_no_occ]. Qed.
Print Assumptions C16_resub_word.

(* The code's loop (one re.sub per discovered reference, in the code's order: [args_chars]) and the token model
   [args_of] give the same arguments, hence the same info, on blank-delimited arguments: the token list is
   [blanks ws] and every word alone is rewritten to what the token model says ([delimited], a boolean). *)
Theorem C16_regex_is_tokens : forall md5 fuzzy ph disc order c ws,
  c_args c = blanks ws -> delimited md5 fuzzy ph disc order c ws = true ->
  args_chars md5 fuzzy ph disc order c = args_of md5 fuzzy ph (c_refs c) (c_args c) /\
  info_of_chars md5 fuzzy ph disc order c = info_of md5 fuzzy ph c.
Proof. exact regex_is_tokens. Qed.
Print Assumptions C16_regex_is_tokens.

(* ... for whole workflows: the character-level infos are the infos of the token model, so every theorem above
   about [infos]/[hashes] holds of the character-level model on delimited workflows. *)
Theorem C16_regex_is_tokens_graph : forall md5 fuzzy g,
  delimited_graph md5 fuzzy g = true -> infos_chars md5 fuzzy g = infos md5 fuzzy (map fst g).
Proof. exact infos_chars_tokens. Qed.
Print Assumptions C16_regex_is_tokens_graph.

(* The ORDER of the loop.  [simul subs w] is the simultaneous substitution of one word (the replacement of the
   reference the word is, the word itself otherwise).  When no reference is visited before a different reference
   in which it occurs ([ordered]), the references begin and end with a word character ([edges_ok]) and do not
   occur in a replacement ([inert]), the one-after-the-other rewriting of a command line whose words are
   references or contain no reference ([plain_word]) is the simultaneous substitution, word by word ... *)
Theorem C16_visit_order : forall subs ws,
  subs_ok subs = true -> edges_ok subs = true -> ordered subs = true -> inert subs = true ->
  forallb (plain_word subs) ws = true ->
  rewrite_all subs (join " " ws) = join " " (map (simul subs) ws).
Proof. exact ordered_simul. Qed.
Print Assumptions C16_visit_order.

(* ... longest spelling first is such an order ... *)
Theorem C16_longest_first : forall subs ws,
  subs_ok subs = true -> edges_ok subs = true -> longest_first subs = true -> inert subs = true ->
  forallb (plain_word subs) ws = true ->
  ordered subs = true /\ rewrite_all subs (join " " ws) = join " " (map (simul subs) ws).
Proof. exact longest_first_simul. Qed.
Print Assumptions C16_longest_first.

(* ... so for the code's loop [args_chars] on blank-delimited arguments ... *)
Theorem C16_visit_order_args : forall md5 fuzzy ph disc order c ws subs,
  c_args c = blanks ws -> subs_of md5 fuzzy ph disc (c_refs c) order = Some subs ->
  subs_ok subs = true -> edges_ok subs = true -> ordered subs = true -> inert subs = true ->
  forallb (plain_word subs) (map (tok_text (c_refs c)) ws) = true ->
  args_chars md5 fuzzy ph disc order c = Some (join " " (map (simul subs) (map (tok_text (c_refs c)) ws))).
Proof. exact ordered_args. Qed.
Print Assumptions C16_visit_order_args.

(* ... and two such orders of the same distinct references give the same arguments (e.g. ties between references
   of equal length may be broken either way).  Shortest first is refuted (Refuted.C16_shortest_first_refuted); the
   code's sort key is the length of the absolute reference string, which is not the spelling substituted, and its
   order is not always [ordered]: Refuted.C16_sort_key_refuted (open F16e). *)
Theorem C16_order_independent : forall subs subs' ws,
  Permutation subs subs' -> NoDup (map fst subs) ->
  subs_ok subs = true -> edges_ok subs = true -> inert subs = true -> forallb (plain_word subs) ws = true ->
  subs_ok subs' = true -> edges_ok subs' = true -> inert subs' = true -> forallb (plain_word subs') ws = true ->
  ordered subs = true -> ordered subs' = true ->
  rewrite_all subs (join " " ws) = rewrite_all subs' (join " " ws).
Proof. exact order_independent. Qed.
Print Assumptions C16_order_independent.

(* Hashes asked for REPEATEDLY in one process while the referenced files change ([session]: writes to paths and asks on
   objects that compute: reset, never asked, or newly built on the same instance directory).  The answer to an ask is
   the infos of the state of the files at the time of the ask; two histories -- on the same instance or on another one
   (other location, names, stage indices, modification times) -- that end in the same hash-relevant state get the same
   answer: neither what a path contained earlier, nor when it was written, nor what was asked before matters. *)
Theorem C16_history : forall md5 fuzzy sel g ops g' ops',
  map core (final g ops) = map core (final g' ops') ->
  last (session md5 g (ops ++ [OAsk fuzzy sel])) [] = last (session md5 g' (ops' ++ [OAsk fuzzy sel])) [] /\
  last (session md5 g (ops ++ [OAsk fuzzy sel])) [] = pick (infos md5 fuzzy (final g' ops')) sel.
Proof. exact history_independent. Qed.
Print Assumptions C16_history.

(* ... every ask of a session sees exactly the state reached by the operations before it ... *)
Theorem C16_history_each : forall md5 g pre fuzzy sel post,
  nth (length (session md5 g pre)) (session md5 g (pre ++ OAsk fuzzy sel :: post)) [] = pick (infos md5 fuzzy (final g pre)) sel.
Proof. exact session_nth. Qed.
Print Assumptions C16_history_each.

(* ... and writing again, at whatever time, what a path already holds changes nothing the hashes depend on. *)
Theorem C16_rewrite_same : forall loc mt st g,
  (forall c r, In c g -> In r (c_refs c) -> d_location r = loc -> d_state r = st) ->
  map core (write loc mt st g) = map core g.
Proof. exact rewrite_same. Qed.
Print Assumptions C16_rewrite_same.

(* Asks on objects that REMEMBER ([csession]: the same ComponentSpecification objects asked again without
   memoization_reset(); an info that was computed is kept, "no info now" is not).  Whenever what the objects remember
   agrees with the current state of the files, an ask answers exactly the infos of that state -- what objects that were
   never asked answer -- and what is remembered afterwards still agrees with it. *)
Theorem C16_cached_ask : forall md5 g cs cf (fuzzy : bool) sel t,
  valid (if fuzzy then cf else cs) (infos md5 fuzzy g) ->
  hd [] (csession md5 g cs cf (CAsk fuzzy sel :: t)) = pick (infos md5 fuzzy g) sel /\
  valid (remember (if fuzzy then cf else cs) (vals_acc (cstep md5 fuzzy) (if fuzzy then cf else cs) [] g) sel) (infos md5 fuzzy g).
Proof. exact cached_ask. Qed.
Print Assumptions C16_cached_ask.

(* ... the same for the character-level model of the argument rewriting ... *)
Theorem C16_cached_ask_chars : forall md5 g cs cf (fuzzy : bool) sel t,
  valid (if fuzzy then cf else cs) (infos_chars md5 fuzzy g) ->
  hd [] (csession_chars md5 g cs cf (CAsk fuzzy sel :: t)) = pick (infos_chars md5 fuzzy g) sel.
Proof. exact cached_ask_chars. Qed.
Print Assumptions C16_cached_ask_chars.

(* ... in particular a component that was asked EARLY, while a referenced input was missing (no info, no hash), gets the
   info and hash of the work it does as soon as the input is there, on the same objects and without a reset: when the
   writes change none of the infos that the first ask did compute, the second ask answers the infos of the files as they
   are now. *)
Theorem C16_asked_early : forall md5 g (fuzzy : bool) sel ws sel',
  (forall k x, existsb (Nat.eqb k) sel = true -> nth k (infos md5 fuzzy g) None = Some x ->
               nth k (infos md5 fuzzy (writes ws g)) None = Some x) ->
  last (csession md5 g [] [] (CAsk fuzzy sel :: wops ws ++ [CAsk fuzzy sel'])) [] = pick (infos md5 fuzzy (writes ws g)) sel'.
Proof. exact asked_early. Qed.
Print Assumptions C16_asked_early.

(* non-vacuity: a producer and a consumer of its file out.txt and of an input; md5 s = "<s>" *)
Definition ex_md5 (s : string) : string := "<" ++ s ++ ">".
Definition ex_prod : comp := {| c_name := "gen"; c_stage := 0; c_location := "/tmp/i1"; c_exe := "echo";
  c_args := [TLit "-n hello"]; c_refs := []; c_backend := BKube "img:1" |}.
Definition ex_cons (content : string) : comp := {| c_name := "step7"; c_stage := 1; c_location := "/tmp/i1"; c_exe := "cat";
  c_args := [TRef 0; TLit " "; TRef 1];
  c_refs := [ {| d_key := "stage0.gen/out.txt:ref"; d_text := "stage0.gen/out.txt:ref"; d_location := "/tmp/i1/stages/stage0/gen/out.txt";
                 d_mtime := 17; d_prod := Some 0%nat; d_fileref := "out.txt"; d_method := "ref"; d_state := FFile content |};
              {| d_key := "input/in.txt:ref"; d_text := "input/in.txt:ref"; d_location := "/tmp/i1/input/in.txt";
                 d_mtime := 18; d_prod := None; d_fileref := ""; d_method := "ref"; d_state := FFile "abc" |} ];
  c_backend := BLocal |}.
Example C16_nonvacuous :
  infos ex_md5 false [ex_prod; ex_cons "OUT"] =
    [Some {| i_files := []; i_exe := "echo"; i_args := "-n hello"; i_image := Some "img:1" |};
     Some {| i_files := ["<OUT>:ref"; "<abc>:ref"]; i_exe := "cat"; i_args := "file:<OUT>:ref file:<abc>:ref"; i_image := None |}]
  /\ nth 1 (hashes ex_md5 true [ex_prod; ex_cons "OUT"]) None = nth 1 (hashes ex_md5 true [ex_prod; ex_cons "other"]) None
  /\ nth 1 (hashes ex_md5 false [ex_prod; ex_cons "OUT"]) None <> nth 1 (hashes ex_md5 false [ex_prod; ex_cons "other"]) None
  /\ forallb (fun o => match o with Some i => unambiguousb i | None => false end) (infos ex_md5 false [ex_prod; ex_cons "OUT"]) = true.
Proof. vm_compute. repeat split; congruence. Qed.

(* non-vacuity of the hypotheses of C16_files_wellformed / C16_exactly_when / C16_fuzzy_chain: a digest
   function, a chain gen -> mid -> last whose first producer changes its arguments; every component of both
   workflows has a fuzzy hash, all of them well-formed and unambiguous, and all three hashes differ. *)
Example C16_nonvacuous_chain :
  (forall s, hex32 (ex_digest s) = true) /\ is_chain 0 ch_rest /\
  forallb (fun c => forallb wf_ref (c_refs c)) (ch_gen "-n hello" :: ch_rest) = true /\
  good ex_digest (infos ex_digest true (ch_gen "-n hello" :: ch_rest)) (infos ex_digest true (ch_gen "-n bye" :: ch_rest)) /\
  forallb (fun o => match o with Some i => unambiguousb i && wf_files (i_files i) && negb (Nat.eqb (length (i_files i)) 0) | None => false end)
          (tl (infos ex_digest true (ch_gen "-n hello" :: ch_rest))) = true /\
  forallb (fun o => match o with Some i => wf_files (i_files i) | None => false end)
          (infos ex_digest false (ch_gen "-n hello" :: ch_rest)) = true /\
  forallb (fun hh => match hh with (Some h, Some h') => negb (String.eqb h h') | _ => false end)
          (combine (hashes ex_digest true (ch_gen "-n hello" :: ch_rest)) (hashes ex_digest true (ch_gen "-n bye" :: ch_rest))) = true.
Proof.
  split; [exact ex_digest_hex|]. split; [exact ch_is_chain|]. split; [vm_compute; reflexivity|].
  split; [exact ch_good|]. repeat split; vm_compute; reflexivity.
Qed.

(* non-vacuity of [delimited_graph]: the workflow of C16_nonvacuous with the oracles the code computes for it *)
Example C16_nonvacuous_regex :
  let g := [(ex_prod, ([], [])); (ex_cons "OUT", (["stage0.gen/out.txt:ref"; "input/in.txt:ref"], [0%nat; 1%nat]))] in
  delimited_graph ex_md5 false g = true /\ delimited_graph ex_md5 true g = true /\
  nth 1 (infos_chars ex_md5 false g) None =
    Some {| i_files := ["<OUT>:ref"; "<abc>:ref"]; i_exe := "cat"; i_args := "file:<OUT>:ref file:<abc>:ref"; i_image := None |}.
Proof. vm_compute. repeat split; reflexivity. Qed.

(* non-vacuity of the hypotheses of C16_visit_order / _args / C16_longest_first / C16_order_independent: a consumer
   of out.txt of the producers gen and pre-gen of its stage and of an input, in the order the code computes
   ([code_order]: by the length of the ABSOLUTE strings, so input/in.txt:ref comes after the shorter gen/out.txt:ref:
   the order is [ordered] without being longest-spelling-first; the two references to producers are) *)
Definition ex_tail : comp := {| c_name := "consumer"; c_stage := 0; c_location := "/tmp/i1"; c_exe := "diff";
  c_args := blanks [TRef 1; TLit "-q"; TRef 0; TRef 2];
  c_refs := [ {| d_key := "stage0.gen/out.txt:ref"; d_text := "gen/out.txt:ref"; d_location := ""; d_mtime := 0; d_prod := Some 0%nat;
                 d_fileref := "out.txt"; d_method := "ref"; d_state := FFile "ONE" |};
              {| d_key := "stage0.pre-gen/out.txt:ref"; d_text := "pre-gen/out.txt:ref"; d_location := ""; d_mtime := 0; d_prod := Some 1%nat;
                 d_fileref := "out.txt"; d_method := "ref"; d_state := FFile "TWO" |};
              {| d_key := "input/in.txt:ref"; d_text := "input/in.txt:ref"; d_location := ""; d_mtime := 0; d_prod := None;
                 d_fileref := ""; d_method := "ref"; d_state := FFile "abc" |} ];
  c_backend := BLocal |}.
Example C16_nonvacuous_order :
  let disc := ["gen/out.txt:ref"; "pre-gen/out.txt:ref"; "input/in.txt:ref"] in
  let ph := fun _ : nat => @None string in
  code_order (c_refs ex_tail) = [1; 0; 2]%nat /\
  exists subs, subs_of ex_md5 false ph disc (c_refs ex_tail) (code_order (c_refs ex_tail)) = Some subs /\
    map fst subs = ["pre-gen/out.txt:ref"; "gen/out.txt:ref"; "input/in.txt:ref"] /\
    subs_ok subs = true /\ edges_ok subs = true /\ ordered subs = true /\ inert subs = true /\
    longest_first subs = false /\ longest_first (firstn 2 subs) = true /\ inert (firstn 2 subs) = true /\
    NoDup (map fst subs) /\
    forallb (plain_word subs) (map (tok_text (c_refs ex_tail)) [TRef 1; TLit "-q"; TRef 0; TRef 2]) = true /\
    args_chars ex_md5 false ph disc (code_order (c_refs ex_tail)) ex_tail = Some "file:<TWO>:ref -q file:<ONE>:ref file:<abc>:ref" /\
    args_chars ex_md5 false ph disc [0; 1; 2]%nat ex_tail = Some "pre-file:<ONE>:ref -q file:<ONE>:ref file:<abc>:ref".
Proof.
  cbv zeta. split; [vm_compute; reflexivity|]. eexists. split; [vm_compute; reflexivity|].
  repeat split; try (vm_compute; reflexivity).
  vm_compute. repeat (constructor; [cbn; intuition discriminate|]). constructor.
Qed.

(* non-vacuity of C16_history: the consumer is asked, the producer's out.txt is overwritten in place with other contents of
   the same size at the same time (17), the consumer is asked again: the strong answer changes, the fuzzy one does not, and
   the second strong answer is the one of an instance elsewhere, with other names, that has only ever held the new contents *)
Definition ex_elsewhere : list comp :=
  [ {| c_name := "alpha"; c_stage := 3; c_location := "/other"; c_exe := "echo"; c_args := [TLit "-n hello"]; c_refs := [];
       c_backend := BKube "img:1" |};
    {| c_name := "beta"; c_stage := 4; c_location := "/other"; c_exe := "cat"; c_args := [TRef 0; TLit " "; TRef 1];
       c_refs := [ {| d_key := "stage3.alpha/out.txt:ref"; d_text := "stage3.alpha/out.txt:ref"; d_location := "/other/stages/stage3/alpha/out.txt";
                      d_mtime := 99; d_prod := Some 0%nat; d_fileref := "out.txt"; d_method := "ref"; d_state := FFile "TUO" |};
                   {| d_key := "input/in.txt:ref"; d_text := "input/in.txt:ref"; d_location := "/other/input/in.txt";
                      d_mtime := 98; d_prod := None; d_fileref := ""; d_method := "ref"; d_state := FFile "abc" |} ];
       c_backend := BLocal |} ].
Example C16_nonvacuous_history :
  let g := [ex_prod; ex_cons "OUT"] in
  let ops := [OAsk false [1%nat]; OAsk true [1%nat]; OWrite "/tmp/i1/stages/stage0/gen/out.txt" 17 (FFile "TUO")] in
  map core (final g ops) = map core (final ex_elsewhere []) /\
  map core (final g ops) <> map core g /\
  session ex_md5 g (ops ++ [OAsk false [1%nat]]) =
    [ [Some {| i_files := ["<OUT>:ref"; "<abc>:ref"]; i_exe := "cat"; i_args := "file:<OUT>:ref file:<abc>:ref"; i_image := None |}];
      pick (infos ex_md5 true g) [1%nat];
      [Some {| i_files := ["<TUO>:ref"; "<abc>:ref"]; i_exe := "cat"; i_args := "file:<TUO>:ref file:<abc>:ref"; i_image := None |}] ] /\
  last (session ex_md5 g (ops ++ [OAsk false [1%nat]])) [] = pick (infos ex_md5 false ex_elsewhere) [1%nat] /\
  last (session ex_md5 g (ops ++ [OAsk true [1%nat]])) [] = pick (infos ex_md5 true g) [1%nat] /\
  map core (write "/tmp/i1/stages/stage0/gen/out.txt" 99 (FFile "OUT") g) = map core g.
Proof. vm_compute. repeat split; try reflexivity; congruence. Qed.

(* non-vacuity of C16_asked_early: the chain gen -> mid -> last is asked while gen has not written out.txt yet (mid and,
   through the hash of its producer, last have no fuzzy info), gen writes out.txt, the same objects are asked again: all
   three have the infos of an instance that was never asked early.  The hypothesis is needed: when out.txt is then
   overwritten with other contents the objects keep answering what they computed (strong infos). *)
Example C16_nonvacuous_asked_early :
  let full := ch_gen "-n hello" :: ch_rest in
  let g := write "stages/stage0/gen/out.txt" 0 FMissing full in
  let ws := [("stages/stage0/gen/out.txt", 9%Z, FFile "OUT")] in
  let all := [0; 1; 2]%nat in
  (forall k x, existsb (Nat.eqb k) all = true -> nth k (infos ex_digest true g) None = Some x ->
               nth k (infos ex_digest true (writes ws g)) None = Some x) /\
  csession ex_digest g [] [] (CAsk true all :: wops ws ++ [CAsk true all]) =
    [ [nth 0 (infos ex_digest true full) None; None; None]; infos ex_digest true full ] /\
  forallb (fun o => match o with Some _ => true | None => false end) (infos ex_digest true full) = true /\
  (let ops := CAsk false all :: wops [("stages/stage0/gen/out.txt", 10%Z, FFile "TUO")] ++ [CAsk false all] in
   last (csession ex_digest full [] [] ops) [] = infos ex_digest false full /\
   last (csession ex_digest full [] [] ops) [] <> infos ex_digest false (writes [("stages/stage0/gen/out.txt", 10%Z, FFile "TUO")] full)).
Proof.
  cbv zeta. split.
  - intros k x S. do 3 (destruct k as [|k]; [vm_compute; intros H; first [exact H|discriminate H]|]). discriminate S.
  - split; [vm_compute; reflexivity|]. split; [vm_compute; reflexivity|]. split; [vm_compute; reflexivity|].
    vm_compute. intros H. discriminate H.
Qed.
