(* C16 — memoization hashes.
   Model of ComponentSpecification._compute_memoization_info and _memoization_info_to_hash
   (python/experiment/model/graph.py), without a custom embeddingFunction.

   What is an input of the model and what is not.  A component is described by everything the
   coded function could look at: its name, stage index, the location of the instance, its
   executable (the one declared by its blueprint in the unreplicated description), its argument
   string, its references (with the path they resolve to, the modification time and the state of
   that path: missing / directory / file with contents) and its backend.  The model function reads
   only some of these fields; the theorems of Proofs.v state which.

   The argument string is modelled as a token list: literal text and reference tokens (index into
   the reference list).  The regular-expression replacement the code performs (one re.sub with
   \b...\b per reference, longest spelling first) is NOT modelled at character level; the
   correspondence run builds argument strings whose reference spellings are delimited by blanks. *)
From Coq Require Import String Ascii List Bool Arith ZArith.
Import ListNotations.
Require Import V.Lib.PyStr V.Lib.JTree.
Require V.Lib.Harness.   (* used by the generated case files of the correspondence run *)
Open Scope string_scope.

(* ---------------------------------------------------------------- sorting (Python sorted() on str) *)
Fixpoint insert (x : string) (l : list string) : list string :=
  match l with
  | [] => [x]
  | y :: r => if String.leb x y then x :: l else y :: insert x r
  end.
Fixpoint sort (l : list string) : list string :=
  match l with [] => [] | x :: r => insert x (sort r) end.

Fixpoint cat (l : list string) : string :=
  match l with [] => "" | x :: r => x ++ cat r end.

Fixpoint insert_kv (x : string * string) (l : list (string * string)) : list (string * string) :=
  match l with
  | [] => [x]
  | y :: r => if String.leb (fst x) (fst y) then x :: l else y :: insert_kv x r
  end.
Fixpoint sort_kv (l : list (string * string)) : list (string * string) :=
  match l with [] => [] | x :: r => insert_kv x (sort_kv r) end.

(* ---------------------------------------------------------------- _memoization_info_to_hash: the traversal
   remaining = [info]; pop the head; a dict pushes k1, v1, k2, v2, ... (keys ascending) in front;
   a list pushes its elements in ascending order in front; a primitive or None appends str(obj) to
   the buffer.  Nothing separates the pieces.  None = the traversal raises / is not modelled
   (lists are modelled only when all their elements are strings). *)
Definition zstr (z : Z) : string :=
  match z with
  | Z0 => "0"
  | Zpos p => dec (Npos p)
  | Zneg p => "-" ++ dec (Npos p)
  end.

Fixpoint all_strs (l : list jv) : option (list string) :=
  match l with
  | [] => Some []
  | JStr s :: r => option_map (cons s) (all_strs r)
  | _ :: _ => None
  end.

Fixpoint ser_jv (v : jv) : option string :=
  match v with
  | JNull => Some "None"
  | JBool b => Some (if b then "True" else "False")
  | JInt z => Some (zstr z)
  | JFlt r => Some r
  | JStr s => Some s
  | JList l => option_map (fun ss => cat (sort ss)) (all_strs l)
  | JDict m =>
      let fix go (m : list (string * jv)) : option (list (string * string)) :=
        match m with
        | [] => Some []
        | (k, w) :: r => match ser_jv w, go r with
                         | Some s, Some t => Some ((k, s) :: t)
                         | _, _ => None
                         end
        end in
      option_map (fun kvs => cat (map (fun kv => fst kv ++ snd kv) (sort_kv kvs))) (go m)
  end.

(* ---------------------------------------------------------------- the info dictionary *)
Record info := { i_files : list string; i_exe : string; i_args : string; i_image : option string }.

(* the dictionary built at the end of _compute_memoization_info (insertion order of the code) *)
Definition info_jv (i : info) : jv :=
  JDict [("files", JList (map JStr (i_files i)));
         ("command", JDict [("executable", JStr (i_exe i)); ("arguments", JStr (i_args i))]);
         ("backend", JDict (match i_image i with Some s => [("image", JStr s)] | None => [] end))].

(* closed form of the traversal on such a dictionary (ser_info_jv in Proofs.v) *)
Definition ser_image (o : option string) : string := match o with Some s => "image" ++ s | None => "" end.
Definition serialise (i : info) : string :=
  "backend" ++ ser_image (i_image i) ++ "command" ++ "arguments" ++ i_args i ++ "executable" ++ i_exe i
  ++ "files" ++ cat (sort (i_files i)).

(* ---------------------------------------------------------------- components *)
Inductive fstate := FMissing | FDir | FFile (content : string).

Record dref := {
  d_key : string;        (* absolute reference string (names stage and producer) *)
  d_text : string;       (* the spelling of the reference in the argument string *)
  d_location : string;   (* the path it resolves to *)
  d_mtime : Z;           (* modification time of that path *)
  d_prod : option nat;   (* Some p: the producer is component number p of the graph; None: input/data/... *)
  d_fileref : string;    (* path below the producer's directory ("" when the directory is referenced) *)
  d_method : string;
  d_state : fstate }.

Inductive tok := TLit (s : string) | TRef (i : nat).

Inductive backend := BLocal | BKube (image : string) | BLsf (dockerImage : string).

Record comp := {
  c_name : string; c_stage : Z; c_location : string;
  c_exe : string;        (* executable declared by the component's blueprint (unreplicated description) *)
  c_args : list tok; c_refs : list dref; c_backend : backend }.

Definition image_of (b : backend) : option string :=
  match b with
  | BLocal => None
  | BKube i => Some i
  | BLsf "" => None
  | BLsf i => Some i
  end.

Definition is_output (m : string) : bool := String.eqb m "output" || String.eqb m "loopoutput".

Inductive entry := EFail | ESkip | EKeep (h : string).

Section WithMd5.
Variable md5 : string -> string.

(* the loop over the data references: what ends up in info_files[ref]['hash'].
   ph = memoization hash (of the same flavour) of the producers, None when they have none. *)
Definition entry_of (fuzzy : bool) (ph : nat -> option string) (r : dref) : entry :=
  match d_state r with
  | FMissing => EFail                       (* strong: "path does not exist"; fuzzy: the same for
                                               non-producers, and os.path.isfile fails for producers *)
  | FDir => if is_output (d_method r) then EFail else ESkip
  | FFile c =>
      if fuzzy then
        match d_prod r with
        | None => let h := md5 c in if String.eqb h "" then EFail else EKeep h
        | Some p => match ph p with
                    | Some h => EKeep ("fuzzy#" ++ h ++ "#" ++ d_fileref r)
                    | None => EFail         (* '#'.join with None raises *)
                    end
        end
      else let h := md5 c in if String.eqb h "" then EFail else EKeep h
  end.

Fixpoint files_of (fuzzy : bool) (ph : nat -> option string) (rs : list dref) : option (list string) :=
  match rs with
  | [] => Some []
  | r :: t => match entry_of fuzzy ph r with
              | EFail => None
              | ESkip => files_of fuzzy ph t
              | EKeep h => option_map (cons (h ++ ":" ++ d_method r)) (files_of fuzzy ph t)
              end
  end.

(* replacement of one reference token *)
Definition tok_str (fuzzy : bool) (ph : nat -> option string) (rs : list dref) (t : tok) : option string :=
  match t with
  | TLit s => Some s
  | TRef i =>
      match nth_error rs i with
      | None => None                         (* ill-formed case: not produced by the harness *)
      | Some r =>
          match entry_of fuzzy ph r with
          | EKeep h => Some ("file:" ++ h ++ ":" ++ d_method r)
          | EFail => None
          | ESkip =>
              match d_prod r with
              | Some p => match ph p with
                          | Some h => Some ((if fuzzy then "fuzzy:" else "producer:") ++ h ++ ":" ++ d_method r)
                          | None => None      (* "Producer does not have a hash" *)
                          end
              | None => Some (d_text r)       (* directory of a non-component: left as written *)
              end
          end
      end
  end.

Fixpoint args_of (fuzzy : bool) (ph : nat -> option string) (rs : list dref) (ts : list tok) : option string :=
  match ts with
  | [] => Some ""
  | t :: r => match tok_str fuzzy ph rs t, args_of fuzzy ph rs r with
              | Some a, Some b => Some (a ++ b)
              | _, _ => None
              end
  end.

Definition info_of (fuzzy : bool) (ph : nat -> option string) (c : comp) : option info :=
  match files_of fuzzy ph (c_refs c), args_of fuzzy ph (c_refs c) (c_args c) with
  | Some fs, Some a => Some {| i_files := fs; i_exe := c_exe c; i_args := a; i_image := image_of (c_backend c) |}
  | _, _ => None
  end.

Definition hash_info (i : info) : string := md5 (serialise i).
Definition hash_of (fuzzy : bool) (ph : nat -> option string) (c : comp) : option string :=
  option_map hash_info (info_of fuzzy ph c).

(* a graph = components in topological order; producers are referred to by position *)
Definition ph_of (acc : list (option info)) (p : nat) : option string :=
  option_map hash_info (nth p acc None).

Fixpoint infos_acc (fuzzy : bool) (acc : list (option info)) (g : list comp) : list (option info) :=
  match g with
  | [] => acc
  | c :: t => infos_acc fuzzy (acc ++ [info_of fuzzy (ph_of acc) c]) t
  end.
Definition infos (fuzzy : bool) (g : list comp) : list (option info) := infos_acc fuzzy [] g.
Definition hashes (fuzzy : bool) (g : list comp) : list (option string) :=
  map (option_map hash_info) (infos fuzzy g).

End WithMd5.

(* ---------------------------------------------------------------- the fields the hash may depend on *)
Definition core_ref (r : dref) : dref :=
  {| d_key := ""; d_text := match d_prod r with Some _ => "" | None => d_text r end;
     d_location := ""; d_mtime := 0; d_prod := d_prod r; d_fileref := d_fileref r;
     d_method := d_method r; d_state := d_state r |}.
Definition core (c : comp) : comp :=
  {| c_name := ""; c_stage := 0; c_location := ""; c_exe := c_exe c; c_args := c_args c;
     c_refs := map core_ref (c_refs c); c_backend := c_backend c |}.

(* forgetting the contents of the files made by producers (fuzzy hash) *)
Definition blank_ref (r : dref) : dref :=
  match d_prod r, d_state r with
  | Some _, FFile _ =>
      {| d_key := d_key r; d_text := d_text r; d_location := d_location r; d_mtime := d_mtime r;
         d_prod := d_prod r; d_fileref := d_fileref r; d_method := d_method r; d_state := FFile "" |}
  | _, _ => r
  end.
Definition blank (c : comp) : comp :=
  {| c_name := c_name c; c_stage := c_stage c; c_location := c_location c; c_exe := c_exe c;
     c_args := c_args c; c_refs := map blank_ref (c_refs c); c_backend := c_backend c |}.

(* ---------------------------------------------------------------- unambiguous serialisation: every key word
   of the flattened dictionary is found first at the place where the traversal wrote it *)
Definition tail_exe (i : info) : string := i_exe i ++ "files" ++ cat (sort (i_files i)).
Definition tail_args (i : info) : string := i_args i ++ "executable" ++ tail_exe i.
Definition unambiguous (i : info) : Prop :=
  find "executable" (tail_args i) = Some (String.length (i_args i)) /\
  find "files" (tail_exe i) = Some (String.length (i_exe i)) /\
  match i_image i with
  | Some s => find "commandarguments" (s ++ "commandarguments" ++ tail_args i) = Some (String.length s)
  | None => True
  end.
Definition opt_nat_eqb (a b : option nat) : bool :=
  match a, b with Some x, Some y => Nat.eqb x y | None, None => true | _, _ => false end.
Definition unambiguousb (i : info) : bool :=
  opt_nat_eqb (find "executable" (tail_args i)) (Some (String.length (i_args i))) &&
  opt_nat_eqb (find "files" (tail_exe i)) (Some (String.length (i_exe i))) &&
  match i_image i with
  | Some s => opt_nat_eqb (find "commandarguments" (s ++ "commandarguments" ++ tail_args i)) (Some (String.length s))
  | None => true
  end.

(* ---------------------------------------------------------------- the executable lookup before the repair
   (F16b): the component called componentName.rstrip('0123456789') of the same stage *)
Definition blueprint_exe_prefix (g : list comp) (c : comp) : option string :=
  option_map c_exe
    (List.find (fun b => String.eqb (c_name b) (rstrip_digits (c_name c)) && Z.eqb (c_stage b) (c_stage c)) g).

(* ---------------------------------------------------------------- correspondence checkers *)
Definition tbl_md5 (tbl : list (string * string)) (s : string) : string :=
  match lookup s tbl with Some h => h | None => "?" ++ s end.

Fixpoint list_eqb {A} (eqb : A -> A -> bool) (l r : list A) : bool :=
  match l, r with
  | [], [] => true
  | x :: l', y :: r' => eqb x y && list_eqb eqb l' r'
  | _, _ => false
  end.
Definition opt_eqb {A} (eqb : A -> A -> bool) (a b : option A) : bool :=
  match a, b with Some x, Some y => eqb x y | None, None => true | _, _ => false end.

(* what the harness observed for one component and one flavour:
   info (files, executable, arguments, image), the buffer handed to md5, the hash *)
Definition obs := (option (list string * string * string * option string) * option string * option string)%type.

Definition info_matches (i : info) (o : list string * string * string * option string) : bool :=
  let '(fs, e, a, im) := o in
  list_eqb String.eqb (sort (i_files i)) (sort fs) && String.eqb (i_exe i) e && String.eqb (i_args i) a
  && opt_eqb String.eqb (i_image i) im.

Definition obs_matches (tbl : list (string * string)) (mi : option info) (o : obs) : bool :=
  let '(oi, buf, h) := o in
  match mi, oi with
  | None, None => match buf, h with None, None => true | _, _ => false end
  | Some i, Some x =>
      info_matches i x && opt_eqb String.eqb (Some (serialise i)) buf
      && opt_eqb String.eqb (Some (tbl_md5 tbl (serialise i))) h
      && opt_eqb String.eqb (ser_jv (info_jv i)) buf
  | _, _ => false
  end.

Fixpoint all2 {A B} (f : A -> B -> bool) (l : list A) (r : list B) : bool :=
  match l, r with
  | [], [] => true
  | x :: l', y :: r' => f x y && all2 f l' r'
  | _, _ => false
  end.

(* case = (md5 table, graph, (strong observations, fuzzy observations)) *)
Definition check_case (k : list (string * string) * list comp * (list obs * list obs)) : bool :=
  let '(tbl, g, (os, of)) := k in
  all2 (obs_matches tbl) (infos (tbl_md5 tbl) false g) os &&
  all2 (obs_matches tbl) (infos (tbl_md5 tbl) true g) of.

(* the traversal alone, on arbitrary nested dictionaries: (value, buffer) *)
Definition check_ser (k : jv * option string) : bool :=
  opt_eqb String.eqb (ser_jv (fst k)) (snd k).

(* ---------------------------------------------------------------- shape of the file entries.
   strong (and fuzzy, for a file that no component made):  <digest>:<method>
   fuzzy, file made by a component:                         fuzzy#<digest>#<path below the producer>:<method>
   digest = 32 lower-case hexadecimal characters (hashlib md5().hexdigest()); method = one of
   FlowIR.data_reference_methods; the path contains no ':' (a reference has exactly one). *)
Definition is_hex (a : ascii) : bool :=
  is_digit a || (let n := nat_of_ascii a in Nat.leb 97 n && Nat.leb n 102).
Definition hex32 (h : string) : bool := Nat.eqb (String.length h) 32 && all_chars is_hex h.
Definition METHODS : list string :=
  ["copy"; "link"; "ref"; "copyout"; "extract"; "output"; "loopref"; "loopoutput"].
Definition mem (m : string) (l : list string) : bool := existsb (String.eqb m) l.
Definition not_colon (a : ascii) : bool := negb (Ascii.eqb a ":").

Definition wf_strong (e : string) : bool :=
  hex32 (take 32 e) && prefixb ":" (drop 32 e) && mem (drop 33 e) METHODS.
Definition wf_fuzzy (e : string) : bool :=
  prefixb "fuzzy#" e &&
  (let r := drop 6 e in
   hex32 (take 32 r) && prefixb "#" (drop 32 r) &&
   match split1 ":" (drop 33 r) with Some (_, m) => mem m METHODS | None => false end).
Definition wf_entry (e : string) : bool := wf_strong e || wf_fuzzy e.
Definition wf_files (l : list string) : bool := forallb wf_entry l.

(* what the file list of a component is well-formed under: md5 gives digests (on the contents read and on
   the buffers hashed), methods are reference methods, paths below a producer contain no ':' *)
Definition wf_ref (r : dref) : bool := mem (d_method r) METHODS && all_chars not_colon (d_fileref r).

(* ---------------------------------------------------------------- the argument string at character level.
   The code rewrites the argument string once per data reference d (longest absolute reference first):
     pattern = re.compile(r'\b' + re.escape(original_reference) + r'\b');  arguments = re.sub(pattern, replacement, arguments)
   where original_reference is the absolute or else the relative spelling of d, whichever
   FlowIR.discover_reference_strings found in the arguments (none: d is skipped).
   [resub] is that re.sub: left-most non-overlapping occurrences of the literal text ref that have a word
   boundary at both ends (\b: exactly one of the two neighbouring characters is a word character
   [a-zA-Z0-9_]; the ends of the string count as non-word).
   Inputs that are NOT modelled and are handed to the model as oracles by the correspondence run: the list of
   strings discover_reference_strings returns for the argument string ([disc]) and the order in which the
   code visits the references ([order], indices into c_refs). *)
Definition is_lower (a : ascii) : bool := let n := nat_of_ascii a in Nat.leb 97 n && Nat.leb n 122.
Definition is_word (a : ascii) : bool := is_digit a || is_upper a || is_lower a || Ascii.eqb a "_".
Definition headw (s : string) : bool := match s with "" => false | String c _ => is_word c end.
Fixpoint lastw (s : string) : bool :=
  match s with "" => false | String c t => match t with "" => is_word c | _ => lastw t end end.
Fixpoint after_prefix (p s : string) : option string :=
  match p with
  | "" => Some s
  | String a p' => match s with
                   | "" => None
                   | String b s' => if Ascii.eqb a b then after_prefix p' s' else None
                   end
  end.
(* does \b ref \b match at the head of s, when the previous character is a word character iff prev *)
Definition match_here (ref : string) (prev : bool) (s : string) : bool :=
  match after_prefix ref s with
  | Some rest => xorb prev (headw ref) && xorb (lastw ref) (headw rest)
  | None => false
  end.
Fixpoint resub_aux (ref rep : string) (skip : nat) (prev : bool) (s : string) : string :=
  match s with
  | "" => ""
  | String c s' =>
      match skip with
      | S k => resub_aux ref rep k (is_word c) s'
      | O => if match_here ref prev s then rep ++ resub_aux ref rep (String.length ref - 1) (is_word c) s'
             else String c (resub_aux ref rep 0 (is_word c) s')
      end
  end.
Definition resub (ref rep s : string) : string :=
  match ref with "" => s (* never called with "" *) | _ => resub_aux ref rep 0 false s end.

Definition rewrite_all (subs : list (string * string)) (s : string) : string :=
  fold_left (fun acc sr => resub (fst sr) (snd sr) acc) subs s.

(* what the rewriting is meant to be: every word that is a reference becomes the replacement of that reference,
   all at once ([simul]); the conditions under which the code's one-after-the-other loop achieves it: no
   reference is visited before a reference it occurs in ([ordered]; longest SPELLING first is such an order), the
   references begin and end with a word character, and no reference occurs in a replacement. *)
Definition simul (subs : list (string * string)) (w : string) : string :=
  match lookup w subs with Some rep => rep | None => w end.
Definition no_ref_in (subs : list (string * string)) (s : string) : bool :=
  forallb (fun sr => negb (occurs (fst sr) s)) subs.
(* a word of the arguments that is one of the references, or in which no reference occurs at all *)
Definition plain_word (subs : list (string * string)) (w : string) : bool :=
  mem w (map fst subs) || no_ref_in subs w.
Fixpoint longest_first (subs : list (string * string)) : bool :=
  match subs with
  | [] => true
  | sr :: t => forallb (fun sr' => Nat.leb (String.length (fst sr')) (String.length (fst sr))) t && longest_first t
  end.
(* what the order is needed for: no reference occurs in a (different) reference that is visited later *)
Fixpoint ordered (subs : list (string * string)) : bool :=
  match subs with
  | [] => true
  | sr :: t => forallb (fun sr' => String.eqb (fst sr') (fst sr) || negb (occurs (fst sr) (fst sr'))) t && ordered t
  end.
Definition edges_ok (subs : list (string * string)) : bool :=
  forallb (fun sr => headw (fst sr) && lastw (fst sr)) subs.
Definition inert (subs : list (string * string)) : bool := forallb (fun sr => no_ref_in subs (snd sr)) subs.

(* the argument string as written: reference tokens by their spelling *)
Definition tok_text (rs : list dref) (t : tok) : string :=
  match t with TLit s => s | TRef i => match nth_error rs i with Some r => d_text r | None => "" end end.
Definition render (rs : list dref) (ts : list tok) : string := cat (map (tok_text rs) ts).

Section Chars.
Variable md5 : string -> string.

(* the spelling the code looks for *)
Definition orig_ref (disc : list string) (r : dref) : option string :=
  if mem (d_key r) disc then Some (d_key r) else if mem (d_text r) disc then Some (d_text r) else None.

(* the replacement of one reference: None = the code raises; Some None = left alone *)
Definition subst_of (fuzzy : bool) (ph : nat -> option string) (r : dref) : option (option string) :=
  match entry_of md5 fuzzy ph r with
  | EKeep h => Some (Some ("file:" ++ h ++ ":" ++ d_method r))
  | EFail => None
  | ESkip => match d_prod r with
             | Some p => match ph p with
                         | Some h => Some (Some ((if fuzzy then "fuzzy:" else "producer:") ++ h ++ ":" ++ d_method r))
                         | None => None
                         end
             | None => Some None
             end
  end.

Fixpoint subs_of (fuzzy : bool) (ph : nat -> option string) (disc : list string) (rs : list dref) (order : list nat)
  : option (list (string * string)) :=
  match order with
  | [] => Some []
  | j :: t =>
      match nth_error rs j with
      | None => subs_of fuzzy ph disc rs t
      | Some r =>
          match orig_ref disc r with
          | None => subs_of fuzzy ph disc rs t
          | Some o => match subst_of fuzzy ph r with
                      | None => None
                      | Some None => subs_of fuzzy ph disc rs t
                      | Some (Some rep) => option_map (cons (o, rep)) (subs_of fuzzy ph disc rs t)
                      end
          end
      end
  end.

(* the order in which the code visits the references:
     datarefs = sorted(self.dataReferences, key=lambda d: len(d.stringRepresentation), reverse=True)
   self.dataReferences lists the direct references (inputs, data, paths) before the references to components,
   each group in the order of the component's description; sorted() is stable (also with reverse=True) and the
   key is the length of the ABSOLUTE reference string (d_key), not of the spelling that is substituted. *)
Definition klen (rs : list dref) (j : nat) : nat :=
  match nth_error rs j with Some r => String.length (d_key r) | None => 0 end.
Fixpoint insert_len (rs : list dref) (j : nat) (l : list nat) : list nat :=
  match l with
  | [] => [j]
  | k :: t => if Nat.leb (klen rs k) (klen rs j) then j :: l else k :: insert_len rs j t
  end.
Definition is_direct (rs : list dref) (j : nat) : bool :=
  match nth_error rs j with Some r => match d_prod r with None => true | Some _ => false end | None => false end.
Definition listing (rs : list dref) : list nat :=
  let all := seq 0 (List.length rs) in
  filter (is_direct rs) all ++ filter (fun j => negb (is_direct rs j)) all.
Definition code_order (rs : list dref) : list nat := fold_right (insert_len rs) [] (listing rs).

Definition args_chars (fuzzy : bool) (ph : nat -> option string) (disc : list string) (order : list nat) (c : comp)
  : option string :=
  option_map (fun subs => rewrite_all subs (render (c_refs c) (c_args c))) (subs_of fuzzy ph disc (c_refs c) order).

Definition info_of_chars (fuzzy : bool) (ph : nat -> option string) (disc : list string) (order : list nat) (c : comp)
  : option info :=
  match files_of md5 fuzzy ph (c_refs c), args_chars fuzzy ph disc order c with
  | Some fs, Some a => Some {| i_files := fs; i_exe := c_exe c; i_args := a; i_image := image_of (c_backend c) |}
  | _, _ => None
  end.

Fixpoint infos_chars_acc (fuzzy : bool) (acc : list (option info)) (g : list (comp * (list string * list nat)))
  : list (option info) :=
  match g with
  | [] => acc
  | (c, (disc, order)) :: t => infos_chars_acc fuzzy (acc ++ [info_of_chars fuzzy (ph_of md5 acc) disc order c]) t
  end.
Definition infos_chars (fuzzy : bool) (g : list (comp * (list string * list nat))) : list (option info) :=
  infos_chars_acc fuzzy [] g.

(* ---- blank-delimited arguments: tokens separated by single blanks *)
Fixpoint blanks (ws : list tok) : list tok :=
  match ws with
  | [] => []
  | w :: r => match r with [] => [w] | _ => w :: TLit " " :: blanks r end
  end.
Definition not_blank (a : ascii) : bool := negb (Ascii.eqb a " ").
Definition blank_free (s : string) : bool := all_chars not_blank s.
(* one word alone: the character-level rewriting of its text gives what the token model gives *)
Definition word_ok (fuzzy : bool) (ph : nat -> option string) (rs : list dref) (subs : list (string * string)) (w : tok) : bool :=
  match tok_str md5 fuzzy ph rs w with
  | Some v => String.eqb (rewrite_all subs (tok_text rs w)) v
  | None => false
  end.
Definition subs_ok (subs : list (string * string)) : bool :=
  forallb (fun sr => blank_free (fst sr)) subs.   (* a reference contains no blank *)
Definition delimited (fuzzy : bool) (ph : nat -> option string) (disc : list string) (order : list nat) (c : comp)
  (ws : list tok) : bool :=
  match subs_of fuzzy ph disc (c_refs c) order with
  | Some subs => subs_ok subs && forallb (word_ok fuzzy ph (c_refs c) subs) ws
  | None => false
  end.
End Chars.

(* the words of a token list of the form [blanks ws] *)
Fixpoint unblanks (ts : list tok) : list tok :=
  match ts with
  | [] => []
  | w :: r => w :: match r with [] => [] | _ :: r' => unblanks r' end
  end.
Definition tok_eqb (a b : tok) : bool :=
  match a, b with TLit x, TLit y => String.eqb x y | TRef i, TRef j => Nat.eqb i j | _, _ => false end.

(* case = (md5 table, graph with oracles, (strong observations, fuzzy observations)): the character-level
   model against the implementation, and, where the arguments are blank-delimited, the token model too *)
Definition delimited_comp (md5 : string -> string) (fuzzy : bool) (ph : nat -> option string)
  (x : comp * (list string * list nat)) : bool :=
  let '(c, (disc, order)) := x in
  list_eqb tok_eqb (c_args c) (blanks (unblanks (c_args c))) && delimited md5 fuzzy ph disc order c (unblanks (c_args c)).
(* the visiting order the run reports for the implementation is the one the model computes from the description *)
Definition order_ok (x : comp * (list string * list nat)) : bool :=
  let '(c, (_, order)) := x in list_eqb Nat.eqb order (code_order (c_refs c)).
Definition check_case_chars (k : list (string * string) * list (comp * (list string * list nat)) * (list obs * list obs)) : bool :=
  let '(tbl, g, (os, of)) := k in
  forallb order_ok g &&
  all2 (obs_matches tbl) (infos_chars (tbl_md5 tbl) false g) os &&
  all2 (obs_matches tbl) (infos_chars (tbl_md5 tbl) true g) of.
(* the same case restricted to the token model (used for the worlds the harness builds blank-delimited) *)
Definition check_case_tokens (k : list (string * string) * list (comp * (list string * list nat)) * (list obs * list obs)) : bool :=
  let '(tbl, g, o) := k in check_case (tbl, map fst g, o).
(* re.sub alone: (reference, replacement, text, result) *)
Definition check_resub (k : string * string * string * string) : bool :=
  let '(ref, rep, s, out) := k in String.eqb (resub ref rep s) out.
Definition check_case_both (k : list (string * string) * list (comp * (list string * list nat)) * (list obs * list obs)) : bool :=
  check_case_chars k && check_case_tokens k.

(* ---------------------------------------------------------------- one process asking for hashes REPEATEDLY while the
   referenced files change.  md5_of_file opens and reads the path every time it is called and nothing outside the
   ComponentSpecification objects remembers a digest; the objects themselves keep the info/hash they computed until
   memoization_reset().  The model describes the asks that do compute: on objects that were reset, never asked, or newly
   built on the same instance directory (Experiment.experimentFromInstance).
   A write replaces the state (missing / folder / file with contents) and the modification time of one path: every
   reference that resolves to that path sees it.  The size of a file is a function of its contents and the model function
   reads neither it nor the time, so "same size within the same second" is just one kind of write.
   An ask returns the infos (strong or fuzzy) of the selected components in the state of the files AT THE TIME OF THE ASK. *)
Definition set_ref (loc : string) (mt : Z) (st : fstate) (r : dref) : dref :=
  if String.eqb (d_location r) loc then
    {| d_key := d_key r; d_text := d_text r; d_location := d_location r; d_mtime := mt; d_prod := d_prod r;
       d_fileref := d_fileref r; d_method := d_method r; d_state := st |}
  else r.
Definition write_comp (loc : string) (mt : Z) (st : fstate) (c : comp) : comp :=
  {| c_name := c_name c; c_stage := c_stage c; c_location := c_location c; c_exe := c_exe c; c_args := c_args c;
     c_refs := map (set_ref loc mt st) (c_refs c); c_backend := c_backend c |}.
Definition write (loc : string) (mt : Z) (st : fstate) (g : list comp) : list comp := map (write_comp loc mt st) g.

Inductive op := OWrite (loc : string) (mtime : Z) (st : fstate) | OAsk (fuzzy : bool) (sel : list nat).

(* the state of the instance after the operations *)
Fixpoint final (g : list comp) (ops : list op) : list comp :=
  match ops with
  | [] => g
  | OWrite l m s :: t => final (write l m s g) t
  | OAsk _ _ :: t => final g t
  end.

Definition pick {A} (l : list (option A)) (sel : list nat) : list (option A) := map (fun k => nth k l None) sel.

Section Session.
Variable md5 : string -> string.

(* the answers, one per ask, in order *)
Fixpoint session (g : list comp) (ops : list op) : list (list (option info)) :=
  match ops with
  | [] => []
  | OWrite l m s :: t => session (write l m s g) t
  | OAsk f sel :: t => pick (infos md5 f g) sel :: session g t
  end.

(* the same with the character-level model of the argument rewriting (the oracles do not depend on the files) *)
Fixpoint session_chars (g : list (comp * (list string * list nat))) (ops : list op) : list (list (option info)) :=
  match ops with
  | [] => []
  | OWrite l m s :: t => session_chars (map (fun x => (write_comp l m s (fst x), snd x)) g) t
  | OAsk f sel :: t => pick (infos_chars md5 f g) sel :: session_chars g t
  end.
End Session.

(* case = (md5 table, initial graph with oracles, (operations, one list of observations per ask)) *)
Definition check_session_chars
  (k : list (string * string) * list (comp * (list string * list nat)) * (list op * list (list obs))) : bool :=
  let '(tbl, g, (ops, ans)) := k in
  forallb order_ok g && all2 (all2 (obs_matches tbl)) (session_chars (tbl_md5 tbl) g ops) ans.
Definition check_session_tokens
  (k : list (string * string) * list (comp * (list string * list nat)) * (list op * list (list obs))) : bool :=
  let '(tbl, g, (ops, ans)) := k in all2 (all2 (obs_matches tbl)) (session (tbl_md5 tbl) (map fst g) ops) ans.
Definition check_session_both
  (k : list (string * string) * list (comp * (list string * list nat)) * (list op * list (list obs))) : bool :=
  check_session_chars k && check_session_tokens k.

(* ---------------------------------------------------------------- asks on objects that REMEMBER.
   The four properties of ComponentSpecification keep what they computed in the object:
     memoization_info:  if not self._memoization_info: self._memoization_info = self._compute_memoization_info(False)
     memoization_hash:  if not self._memoization_hash: self._memoization_hash = to_hash(self.memoization_info)
   (the same for the fuzzy pair; the strong computation only asks producers for their strong hash, the fuzzy one only for
   their fuzzy hash, so the two caches are independent; a remembered hash is always the hash of the remembered info).
   `not None` is true: the outcome "no info can be computed now" (a referenced input is missing) is NOT remembered, the
   next ask computes again; an info that was computed is returned from then on, whatever happens to the files, until
   memoization_reset() or until a new object is built.  A computation asks the producers through the same properties, so
   it sees the remembered hash of a producer that has one.
   cache = one optional info per position of the graph (missing positions: None).  [vals_acc] = what a get returns for
   every component, in topological order; [remember] = the cache after the components sel were asked.  The selections are
   closed under "consumes from" (the run asks the producers of a selected component explicitly too; [closed_sel]), so the
   objects reached by an ask are exactly the selected ones. *)
Inductive cop := CWrite (loc : string) (mtime : Z) (st : fstate) | CClear | CAsk (fuzzy : bool) (sel : list nat).

Section CachedGen.
Context {X : Type}.
Variable step : list (option info) -> X -> option info.   (* the computation, given the infos of the earlier positions *)
Fixpoint gen_acc (acc : list (option info)) (g : list X) : list (option info) :=
  match g with
  | [] => acc
  | c :: t => gen_acc (acc ++ [step acc c]) t
  end.
Fixpoint vals_acc (cache acc : list (option info)) (g : list X) : list (option info) :=
  match g with
  | [] => acc
  | c :: t => vals_acc cache (acc ++ [match nth (List.length acc) cache None with Some x => Some x | None => step acc c end]) t
  end.
End CachedGen.
Definition remember (cache vals : list (option info)) (sel : list nat) : list (option info) :=
  map (fun k => if existsb (Nat.eqb k) sel then nth k vals None else nth k cache None) (seq 0 (List.length vals)).

Definition closed_sel (g : list comp) (sel : list nat) : bool :=
  forallb (fun i => match nth_error g i with
                    | Some c => forallb (fun r => match d_prod r with Some p => existsb (Nat.eqb p) sel | None => true end) (c_refs c)
                    | None => true
                    end) sel.

Section CSession.
Variable md5 : string -> string.
Definition cstep (fuzzy : bool) (acc : list (option info)) (c : comp) : option info := info_of md5 fuzzy (ph_of md5 acc) c.
Definition cstep_chars (fuzzy : bool) (acc : list (option info)) (x : comp * (list string * list nat)) : option info :=
  info_of_chars md5 fuzzy (ph_of md5 acc) (fst (snd x)) (snd (snd x)) (fst x).

(* the answers, one per ask; cs / cf = what the objects remember (strong / fuzzy) *)
Fixpoint csession (g : list comp) (cs cf : list (option info)) (ops : list cop) : list (list (option info)) :=
  match ops with
  | [] => []
  | CWrite l m s :: t => csession (write l m s g) cs cf t
  | CClear :: t => csession g [] [] t
  | CAsk f sel :: t =>
      let v := vals_acc (cstep f) (if f then cf else cs) [] g in
      let c' := remember (if f then cf else cs) v sel in
      pick v sel :: (if f then csession g cs c' t else csession g c' cf t)
  end.
Fixpoint csession_chars (g : list (comp * (list string * list nat))) (cs cf : list (option info)) (ops : list cop)
  : list (list (option info)) :=
  match ops with
  | [] => []
  | CWrite l m s :: t => csession_chars (map (fun x => (write_comp l m s (fst x), snd x)) g) cs cf t
  | CClear :: t => csession_chars g [] [] t
  | CAsk f sel :: t =>
      let v := vals_acc (cstep_chars f) (if f then cf else cs) [] g in
      let c' := remember (if f then cf else cs) v sel in
      pick v sel :: (if f then csession_chars g cs c' t else csession_chars g c' cf t)
  end.
End CSession.

Definition cop_closed (g : list comp) (o : cop) : bool :=
  match o with CAsk _ sel => closed_sel g sel | _ => true end.
(* case = (md5 table, initial graph with oracles, (operations, one list of observations per ask)) *)
Definition check_csession_chars
  (k : list (string * string) * list (comp * (list string * list nat)) * (list cop * list (list obs))) : bool :=
  let '(tbl, g, (ops, ans)) := k in
  forallb order_ok g && forallb (cop_closed (map fst g)) ops &&
  all2 (all2 (obs_matches tbl)) (csession_chars (tbl_md5 tbl) g [] [] ops) ans.
Definition check_csession_tokens
  (k : list (string * string) * list (comp * (list string * list nat)) * (list cop * list (list obs))) : bool :=
  let '(tbl, g, (ops, ans)) := k in all2 (all2 (obs_matches tbl)) (csession (tbl_md5 tbl) (map fst g) [] [] ops) ans.
Definition check_csession_both
  (k : list (string * string) * list (comp * (list string * list nat)) * (list cop * list (list obs))) : bool :=
  check_csession_chars k && check_csession_tokens k.
