(* C16 — lemmas about the memoization model. *)
From Coq Require Import String Ascii List Bool Arith ZArith Lia NArith Permutation.
Import ListNotations.
Require Import V.Lib.PyStr V.Lib.JTree V.Memo.Model.
Open Scope string_scope.

(* ---------------------------------------------------------------- strings *)
Lemma app_inj_len a b x y : String.length a = String.length b -> a ++ x = b ++ y -> a = b /\ x = y.
Proof.
  revert b; induction a as [|c a IH]; intros [|d b] L E; cbn in *; try discriminate.
  - split; [reflexivity|exact E].
  - injection L as L. injection E as -> E. destruct (IH b L E) as [-> ->]. split; reflexivity.
Qed.

Lemma app_inv_head_str k r r' : k ++ r = k ++ r' -> r = r'.
Proof. induction k as [|c k IH]; cbn; intros E; [exact E|]. injection E as E. exact (IH E). Qed.

Lemma app_inv_tail_str a b x : a ++ x = b ++ x -> a = b.
Proof.
  intros E. assert (L : String.length a = String.length b).
  { apply (f_equal String.length) in E. rewrite !length_append in E. lia. }
  exact (proj1 (app_inj_len a b x x L E)).
Qed.

Lemma split_first k a r a' r' :
  find k (a ++ k ++ r) = Some (String.length a) -> find k (a' ++ k ++ r') = Some (String.length a') ->
  a ++ k ++ r = a' ++ k ++ r' -> a = a' /\ r = r'.
Proof.
  intros H1 H2 E. rewrite E in H1. rewrite H1 in H2. injection H2 as L.
  destruct (app_inj_len a a' (k ++ r) (k ++ r') L E) as [-> E2]. split; [reflexivity|].
  exact (app_inv_head_str _ _ _ E2).
Qed.

(* ---------------------------------------------------------------- order on strings: transitivity *)
Lemma ascii_compare_N a b : Ascii.compare a b = N.compare (N_of_ascii a) (N_of_ascii b).
Proof. reflexivity. Qed.

Lemma compare_le_trans a : forall b c,
  String.compare a b <> Gt -> String.compare b c <> Gt -> String.compare a c <> Gt.
Proof.
  induction a as [|x a IH]; intros [|y b] [|z c]; cbn; try congruence.
  rewrite !ascii_compare_N.
  destruct (N.compare_spec (N_of_ascii x) (N_of_ascii y)) as [E1|L1|G1];
  destruct (N.compare_spec (N_of_ascii y) (N_of_ascii z)) as [E2|L2|G2];
  destruct (N.compare_spec (N_of_ascii x) (N_of_ascii z)) as [E3|L3|G3];
  try congruence; try lia; try (intros; discriminate).
  apply IH.
Qed.

Lemma leb_trans a b c : String.leb a b = true -> String.leb b c = true -> String.leb a c = true.
Proof.
  unfold String.leb. intros H1 H2.
  assert (A : String.compare a b <> Gt) by (destruct (String.compare a b); congruence).
  assert (B : String.compare b c <> Gt) by (destruct (String.compare b c); congruence).
  pose proof (compare_le_trans a b c A B) as C. destruct (String.compare a c); congruence.
Qed.

Lemma leb_false_le a b : String.leb a b = false -> String.leb b a = true.
Proof. intros H. destruct (String.leb_total a b) as [T|T]; congruence. Qed.

(* ---------------------------------------------------------------- sorting is canonical on permutations *)
Lemma insert_comm x y l : insert x (insert y l) = insert y (insert x l).
Proof.
  induction l as [|z r IH]; cbn.
  - destruct (String.leb x y) eqn:XY, (String.leb y x) eqn:YX; try reflexivity.
    + rewrite (String.leb_antisym _ _ XY YX). reflexivity.
    + apply leb_false_le in XY. congruence.
  - destruct (String.leb y z) eqn:YZ, (String.leb x z) eqn:XZ; cbn; rewrite ?YZ, ?XZ.
    + destruct (String.leb x y) eqn:XY, (String.leb y x) eqn:YX; try reflexivity.
      * rewrite (String.leb_antisym _ _ XY YX). reflexivity.
      * apply leb_false_le in XY. congruence.
    + destruct (String.leb x y) eqn:XY.
      * rewrite (leb_trans _ _ _ XY YZ) in XZ. discriminate.
      * cbn. rewrite ?XZ, ?YZ. reflexivity.
    + destruct (String.leb y x) eqn:YX.
      * rewrite (leb_trans _ _ _ YX XZ) in YZ. discriminate.
      * cbn. rewrite ?XZ, ?YZ. reflexivity.
    + rewrite IH. reflexivity.
Qed.

Lemma sort_perm l l' : Permutation l l' -> sort l = sort l'.
Proof.
  induction 1 as [|x l l' _ IH|x y l|l l' l'' _ IH1 _ IH2]; cbn.
  - reflexivity.
  - rewrite IH. reflexivity.
  - apply insert_comm.
  - congruence.
Qed.

(* ---------------------------------------------------------------- the traversal on an info dictionary *)
Lemma all_strs_map l : all_strs (map JStr l) = Some l.
Proof. induction l as [|x l IH]; cbn; [reflexivity|]. rewrite IH. reflexivity. Qed.

Lemma ser_info_jv i : ser_jv (info_jv i) = Some (serialise i).
Proof.
  destruct i as [fs e a im]. unfold info_jv, serialise. cbn [i_files i_exe i_args i_image].
  destruct im as [s|]; cbn [ser_jv]; rewrite all_strs_map; cbn; f_equal;
    repeat (rewrite ?append_nil_r, ?append_assoc; cbn); reflexivity.
Qed.

(* ---------------------------------------------------------------- maps on references that the function
   cannot observe *)
Section Respect.
Variable md5 : string -> string.
Variable fz : bool.
Variable ph : nat -> option string.
Variable f : dref -> dref.
Hypothesis f_entry : forall r, entry_of md5 fz ph (f r) = entry_of md5 fz ph r.
Hypothesis f_method : forall r, d_method (f r) = d_method r.
Hypothesis f_prod : forall r, d_prod (f r) = d_prod r.
Hypothesis f_text : forall r, d_prod r = None -> d_text (f r) = d_text r.

Lemma files_respect rs : files_of md5 fz ph (map f rs) = files_of md5 fz ph rs.
Proof.
  induction rs as [|r t IH]; cbn; [reflexivity|]. rewrite f_entry, f_method, IH. reflexivity.
Qed.

Lemma nth_error_map' {A B} (g : A -> B) l n : nth_error (map g l) n = option_map g (nth_error l n).
Proof. revert n; induction l as [|x l IH]; intros [|n]; cbn; auto. Qed.

Lemma tok_respect rs t : tok_str md5 fz ph (map f rs) t = tok_str md5 fz ph rs t.
Proof.
  destruct t as [s|i]; cbn; [reflexivity|]. rewrite nth_error_map'.
  destruct (nth_error rs i) as [r|]; cbn; [|reflexivity].
  rewrite f_entry, f_method, f_prod. destruct (entry_of md5 fz ph r); try reflexivity.
  destruct (d_prod r) eqn:P; [reflexivity|]. rewrite (f_text r P). reflexivity.
Qed.

Lemma args_respect rs ts : args_of md5 fz ph (map f rs) ts = args_of md5 fz ph rs ts.
Proof. induction ts as [|t r IH]; cbn; [reflexivity|]. rewrite tok_respect, IH. reflexivity. Qed.
End Respect.

(* core_ref: name, location, time, key are never read *)
Lemma info_core md5 fz ph c : info_of md5 fz ph (core c) = info_of md5 fz ph c.
Proof.
  unfold info_of, core. cbn [c_refs c_args c_exe c_backend].
  rewrite (files_respect md5 fz ph core_ref), (args_respect md5 fz ph core_ref); try reflexivity;
    intros r P; cbn; rewrite P; reflexivity.
Qed.

Lemma irrelevant_comp md5 fz ph c c' : core c = core c' -> info_of md5 fz ph c = info_of md5 fz ph c'.
Proof. intros E. rewrite <- (info_core md5 fz ph c), <- (info_core md5 fz ph c'), E. reflexivity. Qed.

Lemma cons_eq {A} (a b : A) l m : a :: l = b :: m -> a = b /\ l = m.
Proof. intros E. injection E as -> ->. split; reflexivity. Qed.

Lemma infos_acc_core md5 fz g : forall g' acc,
  map core g = map core g' -> infos_acc md5 fz acc g = infos_acc md5 fz acc g'.
Proof.
  induction g as [|c g IH]; intros [|c' g'] acc E; try discriminate; [reflexivity|].
  cbn [map] in E. apply cons_eq in E as [Ec Eg]. cbn [infos_acc]. rewrite (irrelevant_comp md5 fz (ph_of md5 acc) c c' Ec). apply IH. exact Eg.
Qed.

Lemma irrelevant_graph md5 fz g g' : map core g = map core g' ->
  infos md5 fz g = infos md5 fz g' /\ hashes md5 fz g = hashes md5 fz g'.
Proof.
  intros E. unfold hashes, infos. rewrite (infos_acc_core md5 fz g g' [] E). split; reflexivity.
Qed.

(* ---------------------------------------------------------------- missing input *)
Lemma files_missing md5 fz ph rs r :
  In r rs -> d_state r = FMissing -> files_of md5 fz ph rs = None.
Proof.
  induction rs as [|r0 t IH]; intros HIn HS; [contradiction|]. cbn.
  destruct HIn as [->|HIn].
  - unfold entry_of. rewrite HS. reflexivity.
  - rewrite (IH HIn HS). destruct (entry_of md5 fz ph r0); reflexivity.
Qed.

Lemma missing_input md5 fz ph c r :
  In r (c_refs c) -> d_state r = FMissing ->
  info_of md5 fz ph c = None /\ hash_of md5 fz ph c = None.
Proof.
  intros HIn HS. unfold hash_of, info_of. rewrite (files_missing md5 fz ph _ r HIn HS). split; reflexivity.
Qed.

(* a folder referenced through :output behaves like a missing file *)
Lemma folder_as_output md5 fz ph c r :
  In r (c_refs c) -> d_state r = FDir -> is_output (d_method r) = true -> info_of md5 fz ph c = None.
Proof.
  intros HIn HS HO. unfold info_of.
  assert (F : files_of md5 fz ph (c_refs c) = None).
  { induction (c_refs c) as [|r0 t IH]; [contradiction|]. cbn. destruct HIn as [->|HIn].
    - unfold entry_of. rewrite HS, HO. reflexivity.
    - rewrite (IH HIn). destruct (entry_of md5 fz ph r0); reflexivity. }
  rewrite F. reflexivity.
Qed.

(* ---------------------------------------------------------------- fuzzy: contents of producer-made files *)
Lemma entry_blank md5 ph r : entry_of md5 true ph (blank_ref r) = entry_of md5 true ph r.
Proof.
  unfold blank_ref. destruct (d_prod r) eqn:P; [|reflexivity].
  destruct (d_state r) eqn:S; try reflexivity.
  unfold entry_of. cbn. rewrite P, S. reflexivity.
Qed.

Lemma blank_method r : d_method (blank_ref r) = d_method r.
Proof. unfold blank_ref. destruct (d_prod r) eqn:P, (d_state r) eqn:S; reflexivity. Qed.
Lemma blank_prod r : d_prod (blank_ref r) = d_prod r.
Proof. unfold blank_ref. destruct (d_prod r) eqn:P, (d_state r) eqn:S; cbn; congruence. Qed.
Lemma blank_text r : d_text (blank_ref r) = d_text r.
Proof. unfold blank_ref. destruct (d_prod r) eqn:P, (d_state r) eqn:S; reflexivity. Qed.

Lemma info_blank md5 ph c : info_of md5 true ph (blank c) = info_of md5 true ph c.
Proof.
  unfold info_of, blank. cbn [c_refs c_args c_exe c_backend].
  rewrite (files_respect md5 true ph blank_ref), (args_respect md5 true ph blank_ref);
    auto using entry_blank, blank_method, blank_prod, blank_text.
Qed.

Lemma fuzzy_contents md5 ph c c' : blank c = blank c' -> info_of md5 true ph c = info_of md5 true ph c'.
Proof. intros E. rewrite <- (info_blank md5 ph c), <- (info_blank md5 ph c'), E. reflexivity. Qed.

(* ---------------------------------------------------------------- the info is a function of the producers'
   hashes (either flavour) *)
Lemma entry_ext md5 fz ph ph' r :
  (forall p, d_prod r = Some p -> ph p = ph' p) -> entry_of md5 fz ph r = entry_of md5 fz ph' r.
Proof.
  intros H. unfold entry_of. destruct (d_state r); try reflexivity.
  destruct fz; [|reflexivity]. destruct (d_prod r) as [p|]; [|reflexivity]. rewrite (H p eq_refl). reflexivity.
Qed.

Lemma files_ext md5 fz ph ph' rs :
  (forall r p, In r rs -> d_prod r = Some p -> ph p = ph' p) -> files_of md5 fz ph rs = files_of md5 fz ph' rs.
Proof.
  induction rs as [|r t IH]; intros H; cbn; [reflexivity|].
  rewrite (entry_ext md5 fz ph ph' r) by (intros p; apply H; left; reflexivity).
  rewrite IH by (intros r' p HIn; apply H; right; exact HIn). reflexivity.
Qed.

Lemma tok_ext md5 fz ph ph' rs t :
  (forall r p, In r rs -> d_prod r = Some p -> ph p = ph' p) -> tok_str md5 fz ph rs t = tok_str md5 fz ph' rs t.
Proof.
  intros H. destruct t as [s|i]; cbn; [reflexivity|].
  destruct (nth_error rs i) as [r|] eqn:N; [|reflexivity]. apply nth_error_In in N.
  rewrite (entry_ext md5 fz ph ph' r) by (intros p; apply H; exact N).
  destruct (entry_of md5 fz ph' r); try reflexivity.
  destruct (d_prod r) as [p|] eqn:P; [|reflexivity]. rewrite (H r p N P). reflexivity.
Qed.

Lemma info_ext md5 fz ph ph' c :
  (forall r p, In r (c_refs c) -> d_prod r = Some p -> ph p = ph' p) ->
  info_of md5 fz ph c = info_of md5 fz ph' c.
Proof.
  intros H. unfold info_of. rewrite (files_ext md5 fz ph ph' _ H).
  assert (A : args_of md5 fz ph (c_refs c) (c_args c) = args_of md5 fz ph' (c_refs c) (c_args c)).
  { induction (c_args c) as [|t r IH]; cbn; [reflexivity|]. rewrite (tok_ext md5 fz ph ph' _ t H), IH. reflexivity. }
  rewrite A. reflexivity.
Qed.

(* ... and it changes when the fuzzy hash of a producer whose file is consumed changes *)
Lemma files_change md5 ph ph' rs r p c h h' : forall fs fs',
  In r rs -> d_prod r = Some p -> d_state r = FFile c -> ph p = Some h -> ph' p = Some h' -> h <> h' ->
  files_of md5 true ph rs = Some fs -> files_of md5 true ph' rs = Some fs' -> fs <> fs'.
Proof.
  induction rs as [|r0 t IH]; intros fs fs' HIn P S Hh Hh' Hne F F'; [contradiction|].
  cbn in F, F'. destruct HIn as [->|HIn].
  - unfold entry_of in F, F'. rewrite S, P in F, F'. rewrite Hh in F. rewrite Hh' in F'.
    destruct (files_of md5 true ph t) as [u|]; [|discriminate].
    destruct (files_of md5 true ph' t) as [u'|]; [|discriminate].
    cbn in F, F'. injection F as <-. injection F' as <-. intros E. injection E as E _.
    apply Hne. rewrite !append_assoc in E. exact (app_inv_tail_str _ _ _ E).
  - assert (K : forall q q', entry_of md5 true q r0 = ESkip -> entry_of md5 true q' r0 = ESkip \/ entry_of md5 true q' r0 = EFail).
    { intros q q'. unfold entry_of. destruct (d_state r0); try (intros; discriminate).
      - destruct (is_output (d_method r0)); auto.
      - destruct (d_prod r0) as [x|].
        + destruct (q x); intros; discriminate.
        + destruct (String.eqb (md5 content) ""); intros; discriminate. }
    destruct (entry_of md5 true ph r0) eqn:E0; [discriminate| |];
    destruct (entry_of md5 true ph' r0) eqn:E0'; try discriminate.
    + exact (IH fs fs' HIn P S Hh Hh' Hne F F').
    + destruct (K ph ph' E0) as [X|X]; congruence.
    + destruct (K ph' ph E0') as [X|X]; congruence.
    + destruct (files_of md5 true ph t) as [u|] eqn:Fu; [|discriminate].
      destruct (files_of md5 true ph' t) as [u'|] eqn:Fu'; [|discriminate].
      cbn in F, F'. injection F as <-. injection F' as <-. intros E. injection E as _ E.
      exact (IH u u' HIn P S Hh Hh' Hne eq_refl eq_refl E).
Qed.

Lemma fuzzy_changes md5 ph ph' cmp r p c h h' i i' :
  In r (c_refs cmp) -> d_prod r = Some p -> d_state r = FFile c -> ph p = Some h -> ph' p = Some h' -> h <> h' ->
  info_of md5 true ph cmp = Some i -> info_of md5 true ph' cmp = Some i' -> i_files i <> i_files i'.
Proof.
  intros HIn P S Hh Hh' Hne I I'. unfold info_of in I, I'.
  destruct (files_of md5 true ph (c_refs cmp)) as [fs|] eqn:F; [|discriminate].
  destruct (files_of md5 true ph' (c_refs cmp)) as [fs'|] eqn:F'; [|discriminate].
  destruct (args_of md5 true ph (c_refs cmp) (c_args cmp)); [|discriminate].
  destruct (args_of md5 true ph' (c_refs cmp) (c_args cmp)); [|discriminate].
  injection I as <-. injection I' as <-. cbn.
  exact (files_change md5 ph ph' _ r p c h h' fs fs' HIn P S Hh Hh' Hne F F').
Qed.

(* ---------------------------------------------------------------- completeness: equal work, equal hash *)
Lemma complete_info md5 i i' :
  i_exe i = i_exe i' -> i_args i = i_args i' -> Permutation (i_files i) (i_files i') -> i_image i = i_image i' ->
  serialise i = serialise i' /\ hash_info md5 i = hash_info md5 i'.
Proof.
  intros E A F I. assert (S : serialise i = serialise i').
  { unfold serialise. rewrite E, A, I, (sort_perm _ _ F). reflexivity. }
  split; [exact S|]. unfold hash_info. rewrite S. reflexivity.
Qed.

(* ---------------------------------------------------------------- partial soundness *)
Lemma sound_serialise i i' :
  unambiguous i -> unambiguous i' -> serialise i = serialise i' ->
  i_image i = i_image i' /\ i_args i = i_args i' /\ i_exe i = i_exe i' /\
  cat (sort (i_files i)) = cat (sort (i_files i')).
Proof.
  intros (A1 & B1 & C1) (A2 & B2 & C2) E. unfold serialise in E.
  apply app_inv_head_str in E.
  assert (T : i_image i = i_image i' /\ tail_args i = tail_args i').
  { destruct (i_image i) as [s|], (i_image i') as [s'|]; cbn [ser_image] in E.
    - apply (app_inv_head_str "image") in E.
      change (s ++ "commandarguments" ++ tail_args i = s' ++ "commandarguments" ++ tail_args i') in E.
      destruct (split_first _ _ _ _ _ C1 C2 E) as [-> R]. split; [reflexivity|exact R].
    - cbn in E. discriminate.
    - cbn in E. discriminate.
    - split; [reflexivity|]. exact (app_inv_head_str "commandarguments" _ _ E). }
  destruct T as [TI TA]. unfold tail_args in TA, A1, A2.
  destruct (split_first _ _ _ _ _ A1 A2 TA) as [EA TE]. unfold tail_exe in TE, B1, B2.
  destruct (split_first _ _ _ _ _ B1 B2 TE) as [EE TF]. auto.
Qed.

Lemma sound_hash md5 i i' :
  (md5 (serialise i) = md5 (serialise i') -> serialise i = serialise i') ->
  unambiguous i -> unambiguous i' -> hash_info md5 i = hash_info md5 i' ->
  i_image i = i_image i' /\ i_args i = i_args i' /\ i_exe i = i_exe i' /\
  cat (sort (i_files i)) = cat (sort (i_files i')).
Proof. intros Inj U U' H. apply sound_serialise; auto. Qed.

Lemma unambiguousb_ok i : unambiguousb i = true -> unambiguous i.
Proof.
  unfold unambiguousb, unambiguous. rewrite !andb_true_iff.
  assert (Q : forall a n, opt_nat_eqb a (Some n) = true -> a = Some n).
  { intros [x|] n H; cbn in H; [|discriminate]. apply Nat.eqb_eq in H. congruence. }
  intros [[A B] C]. repeat split; auto. destruct (i_image i); auto.
Qed.
