(* C16 — the fuzzy hash along a chain of producers (graph-level fold [hashes]). *)
From Coq Require Import String Ascii List Bool Arith ZArith Lia Permutation.
Import ListNotations.
Require Import V.Lib.PyStr V.Lib.JTree V.Memo.Model V.Memo.Proofs V.Memo.Entries.
Open Scope string_scope.

(* ---------------------------------------------------------------- contents of producer-made files: no fuzzy
   hash of the workflow moves *)
Lemma infos_acc_blank md5 g : forall g' acc,
  map blank g = map blank g' -> infos_acc md5 true acc g = infos_acc md5 true acc g'.
Proof.
  induction g as [|c g IH]; intros [|c' g'] acc E; try discriminate; [reflexivity|].
  cbn [map] in E. apply cons_eq in E as [Ec Eg]. cbn [infos_acc].
  rewrite (fuzzy_contents md5 (ph_of md5 acc) c c' Ec). apply IH. exact Eg.
Qed.

Lemma fuzzy_contents_graph md5 g g' : map blank g = map blank g' ->
  infos md5 true g = infos md5 true g' /\ hashes md5 true g = hashes md5 true g'.
Proof. intros E. unfold hashes, infos. rewrite (infos_acc_blank md5 g g' [] E). split; reflexivity. Qed.

(* ---------------------------------------------------------------- the fold *)
Lemma infos_acc_length md5 fz g : forall acc, length (infos_acc md5 fz acc g) = (length acc + length g)%nat.
Proof.
  induction g as [|c g IH]; intros acc; cbn; [lia|]. rewrite IH, app_length. cbn. lia.
Qed.

Lemma infos_acc_prefix md5 fz g : forall acc k, (k < length acc)%nat ->
  nth k (infos_acc md5 fz acc g) None = nth k acc None.
Proof.
  induction g as [|c g IH]; intros acc k L; cbn; [reflexivity|].
  rewrite IH by (rewrite app_length; cbn; lia). apply app_nth1. exact L.
Qed.

(* ---------------------------------------------------------------- one link *)
Definition chain_link (k : nat) (c : comp) : Prop :=
  (exists r content, In r (c_refs c) /\ d_prod r = Some k /\ d_state r = FFile content) /\
  (forall r p, In r (c_refs c) -> d_prod r = Some p -> p = k).
Fixpoint is_chain (k : nat) (g : list comp) : Prop :=
  match g with [] => True | c :: t => chain_link k c /\ is_chain (S k) t end.

Section Link.
Variable md5 : string -> string.
Hypothesis md5_digest : forall s, hex32 (md5 s) = true.

Lemma files_in ph rs : forall fs e, files_of md5 true ph rs = Some fs -> In e fs ->
  exists r x, In r rs /\ entry_of md5 true ph r = EKeep x /\ e = x ++ ":" ++ d_method r.
Proof.
  induction rs as [|r t IH]; intros fs e F I; cbn in F.
  - injection F as <-. contradiction.
  - destruct (entry_of md5 true ph r) as [| |x] eqn:E; [discriminate| |].
    + destruct (IH fs e F I) as (r0 & x & I0 & E0 & ->). exists r0, x. split; [right; exact I0|auto].
    + destruct (files_of md5 true ph t) as [u|] eqn:Fu; [|discriminate]. injection F as <-.
      destruct I as [<-|I].
      * exists r, x. split; [left; reflexivity|auto].
      * destruct (IH u e eq_refl I) as (r0 & x0 & I0 & E0 & ->). exists r0, x0. split; [right; exact I0|auto].
Qed.

Lemma files_has ph rs r k c h : forall fs, files_of md5 true ph rs = Some fs ->
  In r rs -> d_prod r = Some k -> d_state r = FFile c -> ph k = Some h ->
  In (("fuzzy#" ++ h ++ "#" ++ d_fileref r) ++ ":" ++ d_method r) fs.
Proof.
  induction rs as [|r0 t IH]; intros fs F I P S H; [contradiction|]. cbn in F.
  destruct I as [->|I].
  - unfold entry_of in F. rewrite S, P, H in F.
    destruct (files_of md5 true ph t) as [u|]; [|discriminate]. injection F as <-. left. reflexivity.
  - destruct (entry_of md5 true ph r0) as [| |x]; [discriminate|exact (IH fs F I P S H)|].
    destruct (files_of md5 true ph t) as [u|] eqn:Fu; [|discriminate]. injection F as <-.
    right. exact (IH u eq_refl I P S H).
Qed.

Lemma files_none ph rs r k c : In r rs -> d_prod r = Some k -> d_state r = FFile c -> ph k = None ->
  files_of md5 true ph rs = None.
Proof.
  induction rs as [|r0 t IH]; intros I P S H; [contradiction|]. cbn. destruct I as [->|I].
  - unfold entry_of. rewrite S, P, H. reflexivity.
  - rewrite (IH I P S H). destruct (entry_of md5 true ph r0); reflexivity.
Qed.

(* the file lists under two different hashes of the producer are not permutations of each other *)
Lemma files_not_perm ph ph' rs k h h' fs fs' :
  (exists r content, In r rs /\ d_prod r = Some k /\ d_state r = FFile content) ->
  (forall r p, In r rs -> d_prod r = Some p -> p = k) ->
  ph k = Some h -> ph' k = Some h' -> hex32 h = true -> hex32 h' = true -> h <> h' ->
  files_of md5 true ph rs = Some fs -> files_of md5 true ph' rs = Some fs' -> ~ Permutation fs fs'.
Proof.
  intros (r & c & I & P & S) Only H H' X X' Ne F F' Perm.
  pose proof (files_has ph rs r k c h fs F I P S H) as In1.
  apply (Permutation_in _ Perm) in In1.
  destruct (files_in ph' rs fs' _ F' In1) as (r0 & x & I0 & E0 & Eq).
  unfold entry_of in E0. destruct (d_state r0) as [| |c0]; try discriminate.
  { destruct (is_output (d_method r0)); discriminate. }
  destruct (d_prod r0) as [p|] eqn:P0.
  - rewrite (Only r0 p I0 P0) in E0. rewrite H' in E0. injection E0 as <-.
    rewrite !append_assoc in Eq. apply (app_inv_head_str "fuzzy#") in Eq.
    change (h ++ "#" ++ d_fileref r ++ ":" ++ d_method r = (h' ++ "#" ++ d_fileref r0) ++ ":" ++ d_method r0) in Eq.
    rewrite append_assoc in Eq.
    destruct (app_inj_len h h' _ _ (eq_trans (hex32_len _ X) (eq_sym (hex32_len _ X'))) Eq) as [Q _]. exact (Ne Q).
  - destruct (String.eqb (md5 c0) ""); [discriminate|]. injection E0 as <-.
    destruct (hex32_second _ (md5_digest c0)) as (a & b & t & Em & _ & B). rewrite Em in Eq.
    cbn in Eq. injection Eq as _ Eb _. subst b. discriminate.
Qed.

Lemma link_differs ph ph' c k i i' :
  chain_link k c -> forallb wf_ref (c_refs c) = true ->
  (forall p x, ph p = Some x -> hex32 x = true) -> (forall p x, ph' p = Some x -> hex32 x = true) ->
  (forall x x', ph k = Some x -> ph' k = Some x' -> x <> x') ->
  info_of md5 true ph c = Some i -> info_of md5 true ph' c = Some i' ->
  unambiguous i -> unambiguous i' ->
  (md5 (serialise i) = md5 (serialise i') -> serialise i = serialise i') ->
  hash_info md5 i <> hash_info md5 i'.
Proof.
  intros [Ex Only] W D D' Ne I I' U U' Inj Eq.
  pose proof (info_of_wf md5 md5_digest true ph c i D W I) as Wf.
  pose proof (info_of_wf md5 md5_digest true ph' c i' D' W I') as Wf'.
  destruct (sound_files md5 i i' Inj U U' Wf Wf' Eq) as (_ & _ & _ & Perm).
  unfold info_of in I, I'.
  destruct (files_of md5 true ph (c_refs c)) as [fs|] eqn:F; [|discriminate].
  destruct (files_of md5 true ph' (c_refs c)) as [fs'|] eqn:F'; [|discriminate].
  destruct (args_of md5 true ph (c_refs c) (c_args c)); [|discriminate].
  destruct (args_of md5 true ph' (c_refs c) (c_args c)); [|discriminate].
  injection I as <-. injection I' as <-. cbn in Perm.
  destruct Ex as (r & content & In0 & P & S).
  destruct (ph k) as [h0|] eqn:H; [|rewrite (files_none ph _ r k content In0 P S H) in F; discriminate].
  destruct (ph' k) as [h0'|] eqn:H'; [|rewrite (files_none ph' _ r k content In0 P S H') in F'; discriminate].
  apply (files_not_perm ph ph' (c_refs c) k h0 h0' fs fs'); try assumption.
  - exists r, content. auto.
  - exact (D k h0 H).
  - exact (D' k h0' H').
  - apply (Ne h0 h0'); (assumption || reflexivity).
Qed.
End Link.

(* ---------------------------------------------------------------- the whole chain *)
Section ChainThm.
Variable md5 : string -> string.
Hypothesis md5_digest : forall s, hex32 (md5 s) = true.

Definition differ (l l' : list (option info)) : Prop :=
  forall k i i', nth k l None = Some i -> nth k l' None = Some i' -> hash_info md5 i <> hash_info md5 i'.
(* position by position: the two serialisations are unambiguous and md5 does not collide on them *)
Definition good (l l' : list (option info)) : Prop :=
  forall k i i', nth k l None = Some i -> nth k l' None = Some i' ->
    unambiguous i /\ unambiguous i' /\ (md5 (serialise i) = md5 (serialise i') -> serialise i = serialise i').

Lemma ph_of_some acc p h : ph_of md5 acc p = Some h -> exists j, nth p acc None = Some j /\ h = hash_info md5 j.
Proof.
  unfold ph_of. destruct (nth p acc None) as [j|]; cbn; [|discriminate]. intros E. injection E as <-. exists j. auto.
Qed.

Lemma chain_acc rest : forall acc acc' n,
  length acc = S n -> length acc' = S n ->
  is_chain n rest -> forallb (fun c => forallb wf_ref (c_refs c)) rest = true ->
  good (infos_acc md5 true acc rest) (infos_acc md5 true acc' rest) ->
  differ acc acc' -> differ (infos_acc md5 true acc rest) (infos_acc md5 true acc' rest).
Proof.
  induction rest as [|c t IH]; intros acc acc' n L L' Ch W G D; [exact D|].
  cbn [is_chain] in Ch. destruct Ch as [Lk Ch]. cbn [forallb] in W. apply andb_true_iff in W as [Wc Wt].
  cbn [infos_acc] in *.
  apply (IH _ _ (S n)); try assumption; try (rewrite app_length; cbn; lia).
  intros k i i' N N'.
  destruct (Nat.lt_ge_cases k (S n)) as [Lt|Ge].
  - rewrite app_nth1 in N, N' by lia. exact (D k i i' N N').
  - destruct (Nat.eq_dec k (S n)) as [->|Nk].
    + rewrite app_nth2 in N, N' by lia. rewrite L in N. rewrite L' in N'. rewrite Nat.sub_diag in N, N'. cbn in N, N'.
      assert (P : (S n < length (acc ++ [info_of md5 true (ph_of md5 acc) c]))%nat) by (rewrite app_length; cbn; lia).
      assert (P' : (S n < length (acc' ++ [info_of md5 true (ph_of md5 acc') c]))%nat) by (rewrite app_length; cbn; lia).
      pose proof (infos_acc_prefix md5 true t _ (S n) P) as Q. pose proof (infos_acc_prefix md5 true t _ (S n) P') as Q'.
      rewrite app_nth2 in Q, Q' by lia. rewrite L in Q. rewrite L' in Q'. rewrite Nat.sub_diag in Q, Q'. cbn in Q, Q'.
      destruct (G (S n) i i' (eq_trans Q N) (eq_trans Q' N')) as (U & U' & Inj).
      apply (link_differs md5 md5_digest (ph_of md5 acc) (ph_of md5 acc') c n i i'); auto.
      * intros p x. apply ph_of_digest. exact md5_digest.
      * intros p x. apply ph_of_digest. exact md5_digest.
      * intros x x' X X'. destruct (ph_of_some _ _ _ X) as (j & J & ->). destruct (ph_of_some _ _ _ X') as (j' & J' & ->).
        exact (D n j j' J J').
    + rewrite nth_overflow in N by (rewrite app_length; cbn; lia). discriminate.
Qed.

Lemma nth_hashes fz g k : nth k (hashes md5 fz g) None = option_map (hash_info md5) (nth k (infos md5 fz g) None).
Proof. unfold hashes. exact (map_nth (option_map (hash_info md5)) (infos md5 fz g) None k). Qed.

Lemma fuzzy_chain c0 c0' rest :
  is_chain 0 rest -> forallb (fun c => forallb wf_ref (c_refs c)) rest = true ->
  good (infos md5 true (c0 :: rest)) (infos md5 true (c0' :: rest)) ->
  (forall i i', nth 0 (infos md5 true (c0 :: rest)) None = Some i -> nth 0 (infos md5 true (c0' :: rest)) None = Some i' ->
                i_exe i <> i_exe i' \/ i_args i <> i_args i' \/ i_image i <> i_image i') ->
  forall k h h', nth k (hashes md5 true (c0 :: rest)) None = Some h -> nth k (hashes md5 true (c0' :: rest)) None = Some h' ->
                 h <> h'.
Proof.
  intros Ch W G Root k h h' H H'. rewrite nth_hashes in H, H'.
  destruct (nth k (infos md5 true (c0 :: rest)) None) as [i|] eqn:N; [|discriminate].
  destruct (nth k (infos md5 true (c0' :: rest)) None) as [i'|] eqn:N'; [|discriminate].
  cbn in H, H'. injection H as <-. injection H' as <-. revert k i i' N N'.
  unfold infos in *. cbn [infos_acc app] in *.
  apply (chain_acc rest _ _ 0); auto.
  intros k i i' N N'. destruct k as [|k]; [|destruct k; discriminate].
  cbn in N, N'. intros Eq.
  pose proof (infos_acc_prefix md5 true rest [info_of md5 true (ph_of md5 []) c0] 0 (Nat.lt_0_succ 0)) as Q.
  pose proof (infos_acc_prefix md5 true rest [info_of md5 true (ph_of md5 []) c0'] 0 (Nat.lt_0_succ 0)) as Q'.
  cbn [nth] in Q, Q'. pose proof (eq_trans Q N) as R. pose proof (eq_trans Q' N') as R'.
  destruct (G 0%nat i i' R R') as (U & U' & Inj).
  destruct (sound_hash md5 i i' Inj U U' Eq) as (A & B & C & _).
  destruct (Root i i' R R') as [X|[X|X]]; congruence.
Qed.
End ChainThm.
