(* C16 — instances showing that the hypotheses of the theorems are satisfiable together. *)
From Coq Require Import String Ascii List Bool Arith ZArith NArith Lia Permutation.
Import ListNotations.
Require Import V.Lib.PyStr V.Lib.JTree V.Memo.Model V.Memo.Proofs V.Memo.Entries V.Memo.Chain.
Open Scope string_scope.

(* a digest function: 32 hexadecimal characters of a polynomial checksum *)
Definition HEXCHARS : list ascii :=
  ["0";"1";"2";"3";"4";"5";"6";"7";"8";"9";"a";"b";"c";"d";"e";"f"]%char.
Definition hexchar (d : N) : ascii := nth (N.to_nat d) HEXCHARS "0"%char.
Fixpoint hexdigits (n : nat) (x : N) : string :=
  match n with O => "" | S k => String (hexchar (N.modulo x 16)) (hexdigits k (N.div x 16)) end.
Fixpoint checksum (acc : N) (s : string) : N :=
  match s with "" => acc | String c t => checksum (N.modulo (acc * 131 + N_of_ascii c) 340282366920938463463374607431768211297) t end.
Definition ex_digest (s : string) : string := hexdigits 32 (checksum 7 s).

Lemma nth_forallb {A} (P : A -> bool) l d k : forallb P l = true -> P d = true -> P (nth k l d) = true.
Proof.
  revert k; induction l as [|x l IH]; intros [|k] F D; cbn in *; auto;
    apply andb_true_iff in F as [F1 F2]; auto.
Qed.

Lemma hexchar_hex d : is_hex (hexchar d) = true.
Proof. unfold hexchar. apply nth_forallb; reflexivity. Qed.

Lemma hexdigits_ok n : forall x, String.length (hexdigits n x) = n /\ all_chars is_hex (hexdigits n x) = true.
Proof.
  induction n as [|n IH]; intros x; [split; reflexivity|].
  cbn [hexdigits String.length all_chars].
  destruct (IH (N.div x 16)) as [L A]. rewrite L, A, hexchar_hex. split; reflexivity.
Qed.

Lemma ex_digest_hex s : hex32 (ex_digest s) = true.
Proof.
  unfold hex32, ex_digest. destruct (hexdigits_ok 32 (checksum 7 s)) as [L A]. rewrite L, A. reflexivity.
Qed.

(* a chain gen -> mid -> last; the first producer with two different argument strings *)
Definition ch_ref (p : nat) (name content : string) : dref :=
  {| d_key := "stage0." ++ name ++ "/out.txt:ref"; d_text := name ++ "/out.txt:ref";
     d_location := "stages/stage0/" ++ name ++ "/out.txt"; d_mtime := 5; d_prod := Some p;
     d_fileref := "out.txt"; d_method := "ref"; d_state := FFile content |}.
Definition ch_gen (args : string) : comp :=
  {| c_name := "gen"; c_stage := 0; c_location := "instance"; c_exe := "echo"; c_args := [TLit args]; c_refs := [];
     c_backend := BLocal |}.
Definition ch_mid (content : string) : comp :=
  {| c_name := "mid"; c_stage := 0; c_location := "instance"; c_exe := "cat"; c_args := [TRef 0];
     c_refs := [ch_ref 0 "gen" content]; c_backend := BKube "img:1" |}.
Definition ch_last (content : string) : comp :=
  {| c_name := "last"; c_stage := 0; c_location := "instance"; c_exe := "wc"; c_args := [TLit "-l "; TRef 0];
     c_refs := [ch_ref 1 "mid" content;
                {| d_key := "input/in.txt:copy"; d_text := "input/in.txt:copy"; d_location := "input/in.txt"; d_mtime := 0;
                   d_prod := None; d_fileref := ""; d_method := "copy"; d_state := FFile "abc" |}];
     c_backend := BLocal |}.
Definition ch_rest := [ch_mid "OUT"; ch_last "MID"].

Lemma ch_is_chain : is_chain 0 ch_rest.
Proof.
  cbn. repeat split.
  - exists (ch_ref 0 "gen" "OUT"), "OUT". cbn. auto.
  - intros r p [<-|[]] E. cbn in E. congruence.
  - exists (ch_ref 1 "mid" "MID"), "MID". cbn. auto.
  - intros r p [<-|[<-|[]]] E; cbn in E; congruence.
Qed.

Lemma ch_good : good ex_digest (infos ex_digest true (ch_gen "-n hello" :: ch_rest))
                               (infos ex_digest true (ch_gen "-n bye" :: ch_rest)).
Proof.
  remember (infos ex_digest true (ch_gen "-n hello" :: ch_rest)) as l eqn:El.
  remember (infos ex_digest true (ch_gen "-n bye" :: ch_rest)) as l' eqn:El'.
  vm_compute in El, El'. subst l l'.
  intros k i i'.
  do 3 (destruct k as [|k]; [cbn [nth]; intros E E'; injection E as <-; injection E' as <-;
    (split; [|split]); [apply unambiguousb_ok; vm_compute; reflexivity|apply unambiguousb_ok; vm_compute; reflexivity|
                        vm_compute; intros X; discriminate X]|]).
  destruct k; cbn [nth]; intros E; discriminate E.
Qed.
