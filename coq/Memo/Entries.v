(* C16 — the file entries of a memoization info can be read back from their concatenation:
   <digest>:<method> and fuzzy#<digest>#<path>:<method> are self-delimiting. *)
From Coq Require Import String Ascii List Bool Arith ZArith Lia Permutation.
Import ListNotations.
Require Import V.Lib.PyStr V.Lib.JTree V.Memo.Model V.Memo.Proofs.
Open Scope string_scope.

(* ---------------------------------------------------------------- strings *)
Lemma take_drop n s : s = take n s ++ drop n s.
Proof.
  revert s; induction n as [|n IH]; intros s; [reflexivity|].
  destruct s as [|c s]; [reflexivity|]. cbn. f_equal. apply IH.
Qed.

Lemma drop_drop n m s : drop n (drop m s) = drop (m + n) s.
Proof.
  revert s; induction m as [|m IH]; intros s; [reflexivity|].
  destruct s as [|c s]; cbn; [destruct n; reflexivity|]. apply IH.
Qed.

Lemma drop_app a d : drop (String.length a) (a ++ d) = d.
Proof. induction a as [|c a IH]; [reflexivity|]. exact IH. Qed.

Lemma app_eq_cases a : forall b x y, a ++ x = b ++ y ->
  (exists d, b = a ++ d /\ x = d ++ y) \/ (exists d, a = b ++ d /\ y = d ++ x).
Proof.
  induction a as [|c a IH]; intros b x y E.
  - left. exists b. split; [reflexivity|exact E].
  - destruct b as [|c' b].
    + right. exists (String c a). split; [reflexivity|]. symmetry. exact E.
    + cbn in E. injection E as -> E. destruct (IH b x y E) as [(d & -> & ->)|(d & -> & ->)].
      * left. exists d. split; reflexivity.
      * right. exists d. split; reflexivity.
Qed.

Lemma split1_spec c s p m : split1 c s = Some (p, m) ->
  s = p ++ String c m /\ all_chars (fun a => negb (Ascii.eqb a c)) p = true.
Proof.
  revert p m; induction s as [|a s IH]; intros p m H; cbn in H; [discriminate|].
  destruct (Ascii.eqb a c) eqn:E.
  - injection H as <- <-. apply Ascii.eqb_eq in E as ->. split; reflexivity.
  - destruct (split1 c s) as [[l r]|]; [|discriminate]. injection H as <- <-.
    destruct (IH l r eq_refl) as [-> A]. split; [reflexivity|]. cbn. rewrite E, A. reflexivity.
Qed.

(* the text before the first c is determined *)
Lemma split_at_char c p : forall p' x y,
  all_chars (fun a => negb (Ascii.eqb a c)) p = true -> all_chars (fun a => negb (Ascii.eqb a c)) p' = true ->
  p ++ String c x = p' ++ String c y -> p = p' /\ x = y.
Proof.
  induction p as [|a p IH]; intros [|a' p'] x y A A' E; cbn in *.
  - injection E as ->. split; reflexivity.
  - injection E as <- _. rewrite Ascii.eqb_refl in A'. discriminate.
  - injection E as -> _. rewrite Ascii.eqb_refl in A. discriminate.
  - injection E as -> E. apply andb_true_iff in A as [_ A]. apply andb_true_iff in A' as [_ A'].
    destruct (IH p' x y A A' E) as [-> ->]. split; reflexivity.
Qed.

(* ---------------------------------------------------------------- methods are self-delimiting in front of
   an entry (which starts with a hexadecimal character) *)
Definition head_hex (s : string) : bool := match s with "" => false | String c _ => is_hex c end.
Definition starts_ok (s : string) : bool := match s with "" => true | String c _ => is_hex c end.
Definition sepb (m m' : string) : bool :=
  negb (prefixb m m') || String.eqb m m' || negb (head_hex (drop (String.length m) m')).

Lemma sep_half m d x y : sepb m (m ++ d) = true -> starts_ok x = true -> x = d ++ y -> d = "".
Proof.
  unfold sepb. rewrite prefixb_refl, drop_app. cbn [negb orb]. intros S O ->.
  destruct d as [|c d]; [reflexivity|]. cbn in O. cbn [head_hex] in S. rewrite O in S. cbn in S.
  rewrite orb_false_r in S. apply String.eqb_eq in S. apply (f_equal String.length) in S.
  rewrite length_append in S. cbn in S. lia.
Qed.

Lemma methods_sep m m' r r' :
  sepb m m' = true -> sepb m' m = true -> starts_ok r = true -> starts_ok r' = true ->
  m ++ r = m' ++ r' -> m = m' /\ r = r'.
Proof.
  intros S S' O O' E. destruct (app_eq_cases _ _ _ _ E) as [(d & -> & Er)|(d & -> & Er)].
  - pose proof (sep_half m d r r' S O Er) as Z. subst d. rewrite append_nil_r. split; [reflexivity|exact Er].
  - pose proof (sep_half m' d r' r S' O' Er) as Z. subst d. rewrite append_nil_r. split; [reflexivity|]. symmetry. exact Er.
Qed.

Lemma METHODS_sep : forallb (fun m => forallb (sepb m) METHODS) METHODS = true.
Proof. vm_compute. reflexivity. Qed.

Lemma mem_In m l : mem m l = true -> In m l.
Proof.
  unfold mem. intros H. apply existsb_exists in H as (x & I & E). apply String.eqb_eq in E as ->. exact I.
Qed.

Lemma methods_unique m m' r r' :
  mem m METHODS = true -> mem m' METHODS = true -> starts_ok r = true -> starts_ok r' = true ->
  m ++ r = m' ++ r' -> m = m' /\ r = r'.
Proof.
  intros M M'. apply mem_In in M, M'.
  pose proof METHODS_sep as K. rewrite forallb_forall in K.
  pose proof (K m M) as K1. pose proof (K m' M') as K2. rewrite forallb_forall in K1, K2.
  apply methods_sep; auto.
Qed.

(* ---------------------------------------------------------------- the two shapes *)
Definition strong_shape (e : string) : Prop :=
  exists h m, e = h ++ ":" ++ m /\ hex32 h = true /\ mem m METHODS = true.
Definition fuzzy_shape (e : string) : Prop :=
  exists h p m, e = "fuzzy#" ++ h ++ "#" ++ p ++ ":" ++ m /\ hex32 h = true /\
                all_chars not_colon p = true /\ mem m METHODS = true.

Lemma prefixb_char c s : prefixb (String c "") s = true -> s = String c (drop 1 s).
Proof. destruct s as [|a s]; cbn; [discriminate|]. rewrite andb_true_r, Ascii.eqb_eq. intros ->. reflexivity. Qed.

Lemma wf_strong_shape e : wf_strong e = true -> strong_shape e.
Proof.
  unfold wf_strong. rewrite !andb_true_iff. intros [[H C] M].
  exists (take 32 e), (drop 33 e). split; [|split; assumption].
  rewrite (take_drop 32 e) at 1. f_equal. rewrite (prefixb_char _ _ C) at 1. rewrite drop_drop. reflexivity.
Qed.

Lemma wf_fuzzy_shape e : wf_fuzzy e = true -> fuzzy_shape e.
Proof.
  unfold wf_fuzzy. rewrite !andb_true_iff. intros [P [[H C] M]].
  destruct (split1 ":" (drop 33 (drop 6 e))) as [[p m]|] eqn:S; [|discriminate].
  destruct (split1_spec _ _ _ _ S) as [E A].
  exists (take 32 (drop 6 e)), p, m. split; [|split; [exact H|split; [exact A|exact M]]].
  apply prefixb_spec in P as [t P]. rewrite P at 1. cbn [append]. do 6 f_equal.
  assert (T : t = drop 6 e) by (rewrite P; reflexivity). rewrite T.
  rewrite (take_drop 32 (drop 6 e)) at 1. f_equal. rewrite (prefixb_char _ _ C) at 1. rewrite drop_drop. cbn [Nat.add].
  f_equal. exact E.
Qed.

Lemma hex32_len h : hex32 h = true -> String.length h = 32.
Proof. unfold hex32. rewrite andb_true_iff. intros [L _]. apply Nat.eqb_eq in L. exact L. Qed.

Lemma hex32_second h : hex32 h = true -> exists a b t, h = String a (String b t) /\ is_hex a = true /\ is_hex b = true.
Proof.
  unfold hex32. rewrite andb_true_iff. intros [L A]. apply Nat.eqb_eq in L.
  destruct h as [|a [|b t]]; cbn in L; try discriminate. exists a, b, t. cbn in A.
  apply andb_true_iff in A as [A1 A]. apply andb_true_iff in A as [A2 _]. auto.
Qed.

Lemma strong_unique e e' r r' :
  strong_shape e -> strong_shape e' -> starts_ok r = true -> starts_ok r' = true ->
  e ++ r = e' ++ r' -> e = e' /\ r = r'.
Proof.
  intros (h & m & -> & H & M) (h' & m' & -> & H' & M') O O' E.
  rewrite !append_assoc in E.
  destruct (app_inj_len h h' _ _ (eq_trans (hex32_len _ H) (eq_sym (hex32_len _ H'))) E) as [-> E2].
  cbn in E2. injection E2 as E2. destruct (methods_unique m m' r r' M M' O O' E2) as [-> ->]. split; reflexivity.
Qed.

Lemma fuzzy_unique e e' r r' :
  fuzzy_shape e -> fuzzy_shape e' -> starts_ok r = true -> starts_ok r' = true ->
  e ++ r = e' ++ r' -> e = e' /\ r = r'.
Proof.
  intros (h & p & m & -> & H & A & M) (h' & p' & m' & -> & H' & A' & M') O O' E.
  rewrite !append_assoc in E. apply (app_inv_head_str "fuzzy#") in E.
  destruct (app_inj_len h h' _ _ (eq_trans (hex32_len _ H) (eq_sym (hex32_len _ H'))) E) as [-> E2].
  apply (app_inv_head_str "#") in E2. change (":" ++ m ++ r) with (String ":" (m ++ r)) in E2.
  change (":" ++ m' ++ r') with (String ":" (m' ++ r')) in E2.
  destruct (split_at_char ":" p p' _ _ A A' E2) as [-> E3].
  destruct (methods_unique m m' r r' M M' O O' E3) as [-> ->]. split; reflexivity.
Qed.

Lemma mixed_absurd e e' r r' : strong_shape e -> fuzzy_shape e' -> e ++ r = e' ++ r' -> False.
Proof.
  intros (h & m & -> & H & M) (h' & p' & m' & -> & _) E.
  destruct (hex32_second h H) as (a & b & t & -> & _ & B). cbn in E. injection E as _ E _. subst b. discriminate.
Qed.

Lemma wf_entry_shape e : wf_entry e = true -> strong_shape e \/ fuzzy_shape e.
Proof.
  unfold wf_entry. rewrite orb_true_iff. intros [H|H]; [left; apply wf_strong_shape|right; apply wf_fuzzy_shape]; exact H.
Qed.

Lemma entry_unique e e' r r' :
  wf_entry e = true -> wf_entry e' = true -> starts_ok r = true -> starts_ok r' = true ->
  e ++ r = e' ++ r' -> e = e' /\ r = r'.
Proof.
  intros W W' O O' E. destruct (wf_entry_shape e W) as [S|S], (wf_entry_shape e' W') as [S'|S'].
  - apply strong_unique; assumption.
  - destruct (mixed_absurd _ _ _ _ S S' E).
  - symmetry in E. destruct (mixed_absurd _ _ _ _ S' S E).
  - apply fuzzy_unique; assumption.
Qed.

Lemma entry_starts e r : wf_entry e = true -> starts_ok (e ++ r) = true /\ e <> "".
Proof.
  intros W. destruct (wf_entry_shape e W) as [(h & m & -> & H & _)|(h & p & m & -> & _)].
  - destruct (hex32_second h H) as (a & b & t & -> & A & _). cbn. split; [exact A|discriminate].
  - cbn. split; [reflexivity|discriminate].
Qed.

Lemma cat_starts l : forallb wf_entry l = true -> starts_ok (cat l) = true.
Proof.
  destruct l as [|e l]; [reflexivity|]. cbn. rewrite andb_true_iff. intros [W _]. apply entry_starts. exact W.
Qed.

(* the concatenation of well-formed entries determines the list *)
Lemma cat_wf_inj l : forall l', wf_files l = true -> wf_files l' = true -> cat l = cat l' -> l = l'.
Proof.
  unfold wf_files. induction l as [|e l IH]; intros [|e' l'] W W' E; cbn in *.
  - reflexivity.
  - apply andb_true_iff in W' as [W' _]. destruct (entry_starts e' (cat l') W') as [_ N].
    destruct e'; [contradiction|discriminate].
  - apply andb_true_iff in W as [W _]. destruct (entry_starts e (cat l) W) as [_ N].
    destruct e; [contradiction|discriminate].
  - apply andb_true_iff in W as [W Wl]. apply andb_true_iff in W' as [W' Wl'].
    destruct (entry_unique e e' (cat l) (cat l') W W' (cat_starts l Wl) (cat_starts l' Wl') E) as [-> E2].
    rewrite (IH l' Wl Wl' E2). reflexivity.
Qed.

(* ---------------------------------------------------------------- sorting permutes *)
Lemma insert_perm x l : Permutation (insert x l) (x :: l).
Proof.
  induction l as [|y l IH]; cbn; [apply Permutation_refl|].
  destruct (String.leb x y); [apply Permutation_refl|].
  eapply Permutation_trans; [apply perm_skip; exact IH|apply perm_swap].
Qed.

Lemma sort_is_perm l : Permutation (sort l) l.
Proof.
  induction l as [|x l IH]; cbn; [apply perm_nil|].
  eapply Permutation_trans; [apply insert_perm|apply perm_skip; exact IH].
Qed.

Lemma wf_files_perm l l' : Permutation l l' -> wf_files l = true -> wf_files l' = true.
Proof.
  unfold wf_files. intros P W. apply forallb_forall. intros x I. rewrite forallb_forall in W.
  apply W. apply (Permutation_in x (Permutation_sym P)). exact I.
Qed.

Lemma files_from_concat fs fs' :
  wf_files fs = true -> wf_files fs' = true -> cat (sort fs) = cat (sort fs') -> Permutation fs fs'.
Proof.
  intros W W' E.
  assert (S : sort fs = sort fs').
  { apply cat_wf_inj; [| |exact E].
    - exact (wf_files_perm _ _ (Permutation_sym (sort_is_perm fs)) W).
    - exact (wf_files_perm _ _ (Permutation_sym (sort_is_perm fs')) W'). }
  eapply Permutation_trans; [apply Permutation_sym, sort_is_perm|]. rewrite S. apply sort_is_perm.
Qed.

(* ---------------------------------------------------------------- soundness with the file list *)
Lemma sound_files md5 i i' :
  (md5 (serialise i) = md5 (serialise i') -> serialise i = serialise i') ->
  unambiguous i -> unambiguous i' -> wf_files (i_files i) = true -> wf_files (i_files i') = true ->
  hash_info md5 i = hash_info md5 i' ->
  i_image i = i_image i' /\ i_args i = i_args i' /\ i_exe i = i_exe i' /\ Permutation (i_files i) (i_files i').
Proof.
  intros Inj U U' W W' H. destruct (sound_hash md5 i i' Inj U U' H) as (A & B & C & D).
  repeat split; auto. apply files_from_concat; assumption.
Qed.

Lemma exactly_when md5 i i' :
  (md5 (serialise i) = md5 (serialise i') -> serialise i = serialise i') ->
  unambiguous i -> unambiguous i' -> wf_files (i_files i) = true -> wf_files (i_files i') = true ->
  (hash_info md5 i = hash_info md5 i' <->
   i_exe i = i_exe i' /\ i_args i = i_args i' /\ Permutation (i_files i) (i_files i') /\ i_image i = i_image i').
Proof.
  intros Inj U U' W W'. split.
  - intros H. destruct (sound_files md5 i i' Inj U U' W W' H) as (A & B & C & D). auto.
  - intros (A & B & C & D). apply complete_info; assumption.
Qed.

(* ---------------------------------------------------------------- the model only makes well-formed entries *)
Lemma take_app_len a b : take (String.length a) (a ++ b) = a.
Proof. induction a as [|c a IH]; cbn; [destruct b; reflexivity|]. rewrite IH. reflexivity. Qed.

Lemma wf_strong_mk h m : hex32 h = true -> mem m METHODS = true -> wf_strong (h ++ ":" ++ m) = true.
Proof.
  intros H M. unfold wf_strong. pose proof (hex32_len h H) as L.
  replace 33 with (S (String.length h)) by lia. rewrite <- L.
  rewrite take_app_len, H, drop_app.
  replace (S (String.length h)) with (String.length (h ++ ":")) by (rewrite length_append; cbn; lia).
  replace (h ++ ":" ++ m) with ((h ++ ":") ++ m) by (rewrite append_assoc; reflexivity).
  rewrite drop_app. cbn. exact M.
Qed.

Lemma split1_mk c p m : all_chars (fun a => negb (Ascii.eqb a c)) p = true -> split1 c (p ++ String c m) = Some (p, m).
Proof.
  induction p as [|a p IH]; cbn; intros A.
  - rewrite Ascii.eqb_refl. reflexivity.
  - apply andb_true_iff in A as [A1 A]. apply negb_true_iff in A1. rewrite A1, (IH A). reflexivity.
Qed.

Lemma wf_fuzzy_mk h p m : hex32 h = true -> all_chars not_colon p = true -> mem m METHODS = true ->
  wf_fuzzy (("fuzzy#" ++ h ++ "#" ++ p) ++ ":" ++ m) = true.
Proof.
  intros H A M. unfold wf_fuzzy. pose proof (hex32_len h H) as L.
  rewrite !append_assoc.
  replace (drop 6 ("fuzzy#" ++ h ++ "#" ++ p ++ ":" ++ m)) with (h ++ "#" ++ p ++ ":" ++ m) by reflexivity.
  rewrite prefixb_refl.
  replace 33 with (S (String.length h)) by lia. rewrite <- L.
  rewrite take_app_len, H, drop_app.
  replace (S (String.length h)) with (String.length (h ++ "#")) by (rewrite length_append; cbn; lia).
  replace (h ++ "#" ++ p ++ ":" ++ m) with ((h ++ "#") ++ p ++ ":" ++ m) by (rewrite append_assoc; reflexivity).
  rewrite drop_app. change (p ++ ":" ++ m) with (p ++ String ":" m).
  rewrite (split1_mk ":" p m A). cbn. exact M.
Qed.

Section Wf.
Variable md5 : string -> string.
Hypothesis md5_digest : forall s, hex32 (md5 s) = true.

Lemma files_of_wf fz ph rs : forall fs,
  (forall p h, ph p = Some h -> hex32 h = true) -> forallb wf_ref rs = true ->
  files_of md5 fz ph rs = Some fs -> wf_files fs = true.
Proof.
  induction rs as [|r t IH]; intros fs P W F; cbn in F.
  - injection F as <-. reflexivity.
  - cbn in W. apply andb_true_iff in W as [Wr Wt]. unfold wf_ref in Wr. apply andb_true_iff in Wr as [Wm Wp].
    destruct (entry_of md5 fz ph r) as [| |h] eqn:E; [discriminate|exact (IH fs P Wt F)|].
    destruct (files_of md5 fz ph t) as [u|] eqn:Fu; [|discriminate]. injection F as <-.
    change (wf_entry (h ++ ":" ++ d_method r) && wf_files u = true).
    rewrite (IH u P Wt eq_refl), andb_true_r. unfold wf_entry.
    unfold entry_of in E. destruct (d_state r) as [| |c]; try discriminate.
    { destruct (is_output (d_method r)); discriminate. }
    assert (Strong : forall h0, (if String.eqb (md5 c) "" then EFail else EKeep (md5 c)) = EKeep h0 ->
                                wf_strong (h0 ++ ":" ++ d_method r) = true).
    { intros h0 Q. destruct (String.eqb (md5 c) ""); [discriminate|]. injection Q as <-.
      apply wf_strong_mk; auto. }
    destruct fz.
    + destruct (d_prod r) as [p|].
      * destruct (ph p) as [hp|] eqn:Hp; [|discriminate]. injection E as <-.
        apply orb_true_iff. right.
        exact (wf_fuzzy_mk hp (d_fileref r) (d_method r) (P p hp Hp) Wp Wm).
      * rewrite (Strong h E). reflexivity.
    + rewrite (Strong h E). reflexivity.
Qed.

Lemma info_of_wf fz ph c i :
  (forall p h, ph p = Some h -> hex32 h = true) -> forallb wf_ref (c_refs c) = true ->
  info_of md5 fz ph c = Some i -> wf_files (i_files i) = true.
Proof.
  intros P W I. unfold info_of in I.
  destruct (files_of md5 fz ph (c_refs c)) as [fs|] eqn:F; [|discriminate].
  destruct (args_of md5 fz ph (c_refs c) (c_args c)); [|discriminate]. injection I as <-. cbn.
  exact (files_of_wf fz ph _ fs P W F).
Qed.

Lemma ph_of_digest acc p h : ph_of md5 acc p = Some h -> hex32 h = true.
Proof.
  unfold ph_of. destruct (nth p acc None); cbn; [|discriminate]. intros E. injection E as <-. apply md5_digest.
Qed.

Lemma infos_acc_wf fz g : forall acc,
  forallb (fun c => forallb wf_ref (c_refs c)) g = true ->
  Forall (fun o => forall i, o = Some i -> wf_files (i_files i) = true) acc ->
  Forall (fun o => forall i, o = Some i -> wf_files (i_files i) = true) (infos_acc md5 fz acc g).
Proof.
  induction g as [|c g IH]; intros acc W A; cbn; [exact A|].
  cbn in W. apply andb_true_iff in W as [Wc Wg]. apply IH; [exact Wg|].
  apply Forall_app. split; [exact A|]. constructor; [|constructor].
  intros i E. exact (info_of_wf fz _ c i (ph_of_digest acc) Wc E).
Qed.

Lemma infos_wf fz g i :
  forallb (fun c => forallb wf_ref (c_refs c)) g = true -> In (Some i) (infos md5 fz g) -> wf_files (i_files i) = true.
Proof.
  intros W I. pose proof (infos_acc_wf fz g [] W (Forall_nil _)) as F. rewrite Forall_forall in F.
  exact (F _ I i eq_refl).
Qed.
End Wf.
