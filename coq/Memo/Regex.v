(* C16 — the character-level rewriting of the argument string (re.sub with \b at both ends) and the token
   model: they coincide on arguments whose words are separated by blanks. *)
From Coq Require Import String Ascii List Bool Arith ZArith Lia.
Import ListNotations.
Require Import V.Lib.PyStr V.Lib.JTree V.Memo.Model V.Memo.Proofs.
Open Scope string_scope.

(* ---------------------------------------------------------------- matching *)
Lemma after_prefix_app p : forall r, after_prefix p (p ++ r) = Some r.
Proof. induction p as [|a p IH]; intros r; cbn; [reflexivity|]. rewrite Ascii.eqb_refl. apply IH. Qed.

Lemma after_prefix_spec p : forall s r, after_prefix p s = Some r -> s = p ++ r.
Proof.
  induction p as [|a p IH]; intros s r H; cbn in H.
  - injection H as ->. reflexivity.
  - destruct s as [|b s]; [discriminate|]. destruct (Ascii.eqb a b) eqn:E; [|discriminate].
    apply Ascii.eqb_eq in E as ->. cbn. f_equal. apply IH. exact H.
Qed.

Lemma after_prefix_blank p : forall x b, blank_free p = true ->
  after_prefix p (x ++ String " " b) = option_map (fun r => r ++ String " " b) (after_prefix p x).
Proof.
  induction p as [|a p IH]; intros x b F; [reflexivity|].
  cbn in F. apply andb_true_iff in F as [Fa Fp]. unfold not_blank in Fa. apply negb_true_iff in Fa.
  destruct x as [|c x]; cbn.
  - rewrite Fa. reflexivity.
  - destruct (Ascii.eqb a c); [apply IH; exact Fp|reflexivity].
Qed.

Lemma headw_blank r b : headw (r ++ String " " b) = headw r.
Proof. destruct r; reflexivity. Qed.

Lemma match_here_blank ref p x b : blank_free ref = true ->
  match_here ref p (x ++ String " " b) = match_here ref p x.
Proof.
  intros F. unfold match_here. rewrite (after_prefix_blank ref x b F).
  destruct (after_prefix ref x) as [r|]; cbn [option_map]; [|reflexivity]. rewrite headw_blank. reflexivity.
Qed.

Lemma match_here_len ref p x : match_here ref p x = true -> (String.length ref <= String.length x)%nat.
Proof.
  unfold match_here. destruct (after_prefix ref x) as [r|] eqn:A; [|discriminate]. intros _.
  rewrite (after_prefix_spec _ _ _ A), length_append. lia.
Qed.

(* ---------------------------------------------------------------- re.sub distributes over blanks *)
Lemma resub_aux_blank ref rep b : blank_free ref = true -> ref <> "" ->
  forall a skip p, (skip <= String.length a)%nat ->
    resub_aux ref rep skip p (a ++ String " " b) = resub_aux ref rep skip p a ++ String " " (resub_aux ref rep 0 false b).
Proof.
  intros F Ne. induction a as [|c a IH]; intros skip p L.
  - cbn in L. assert (skip = 0%nat) by lia. subst skip. cbn [append resub_aux].
    assert (M : match_here ref p (String " " b) = false).
    { unfold match_here. destruct ref as [|r0 ref]; [contradiction|]. cbn in F. apply andb_true_iff in F as [F0 _].
      unfold not_blank in F0. apply negb_true_iff in F0. cbn. rewrite F0. reflexivity. }
    rewrite M. reflexivity.
  - cbn [append resub_aux]. destruct skip as [|k].
    + change (String c (a ++ String " " b)) with (String c a ++ String " " b). rewrite (match_here_blank ref p (String c a) b F).
      destruct (match_here ref p (String c a)) eqn:M.
      * apply match_here_len in M. cbn in M. rewrite IH by lia. rewrite append_assoc. reflexivity.
      * rewrite IH by lia. reflexivity.
    + cbn in L. apply IH. lia.
Qed.

Lemma resub_join ref rep ws : blank_free ref = true ->
  resub ref rep (join " " ws) = join " " (map (resub ref rep) ws).
Proof.
  intros F. destruct ref as [|r0 ref]; [cbn; rewrite map_id; reflexivity|].
  set (R := String r0 ref) in *. assert (Ne : R <> "") by discriminate.
  change (resub R rep) with (resub_aux R rep 0 false).
  induction ws as [|x ws IH]; [reflexivity|]. destruct ws as [|y ws]; [reflexivity|].
  change (join " " (x :: y :: ws)) with (x ++ String " " (join " " (y :: ws))).
  rewrite (resub_aux_blank R rep _ F Ne x 0 false (Nat.le_0_l _)). rewrite IH. reflexivity.
Qed.

Lemma rewrite_join subs : forall ws, subs_ok subs = true ->
  rewrite_all subs (join " " ws) = join " " (map (rewrite_all subs) ws).
Proof.
  unfold rewrite_all, subs_ok. induction subs as [|[ref rep] subs IH]; intros ws S; cbn [fold_left].
  - rewrite map_id. reflexivity.
  - cbn [forallb fst snd] in S. apply andb_true_iff in S as [F S]. cbn [fst snd].
    rewrite (resub_join ref rep ws F), (IH _ S), map_map. reflexivity.
Qed.

(* ---------------------------------------------------------------- single words *)
Lemma resub_aux_skip ref rep : forall s skip p, (String.length s <= skip)%nat -> resub_aux ref rep skip p s = "".
Proof.
  induction s as [|c s IH]; intros skip p L; [reflexivity|]. cbn in L. destruct skip as [|k]; [lia|].
  cbn. apply IH. lia.
Qed.

(* the whole word is the reference, which begins and ends with a word character: replaced *)
Lemma resub_self ref rep : headw ref = true -> lastw ref = true -> resub ref rep ref = rep.
Proof.
  intros H L. destruct ref as [|c t]; [discriminate|]. unfold resub. cbn [resub_aux].
  assert (M : match_here (String c t) false (String c t) = true).
  { unfold match_here. rewrite <- (append_nil_r (String c t)) at 2. rewrite after_prefix_app. rewrite H, L. reflexivity. }
  rewrite M. rewrite resub_aux_skip by (cbn; lia). apply append_nil_r.
Qed.

Lemma after_prefix_prefixb p s r : after_prefix p s = Some r -> prefixb p s = true.
Proof. intros A. rewrite (after_prefix_spec _ _ _ A). apply prefixb_refl. Qed.

(* the reference does not occur in the word: untouched *)
Lemma resub_no_occ ref rep w : occurs ref w = false -> resub ref rep w = w.
Proof.
  intros O. destruct ref as [|r0 ref]; [reflexivity|]. unfold resub. set (R := String r0 ref) in *.
  assert (G : forall p, resub_aux R rep 0 p w = w); [|apply G].
  induction w as [|c w IH]; intros p; [reflexivity|]. cbn [occurs] in O. apply orb_false_iff in O as [O1 O2].
  cbn [resub_aux]. assert (M : match_here R p (String c w) = false).
  { unfold match_here. destruct (after_prefix R (String c w)) as [r|] eqn:A; [|reflexivity].
    rewrite (after_prefix_prefixb _ _ _ A) in O1. discriminate. }
  rewrite M, (IH O2). reflexivity.
Qed.

(* ---------------------------------------------------------------- the token model on blank-separated words *)
Lemma render_blanks rs ws : render rs (blanks ws) = join " " (map (tok_text rs) ws).
Proof.
  unfold render. induction ws as [|w ws IH]; [reflexivity|]. destruct ws as [|y ws].
  - cbn. apply append_nil_r.
  - change (blanks (w :: y :: ws)) with (w :: TLit " " :: blanks (y :: ws)).
    cbn [map cat tok_text]. rewrite IH. reflexivity.
Qed.

Lemma args_of_blanks md5 fz ph rs ws : forall vs,
  map (tok_str md5 fz ph rs) ws = map Some vs -> args_of md5 fz ph rs (blanks ws) = Some (join " " vs).
Proof.
  induction ws as [|w ws IH]; intros [|v vs] E; try discriminate; [reflexivity|].
  cbn [map] in E. apply cons_eq in E as [Ew E]. destruct ws as [|y ws].
  - destruct vs; [|discriminate]. cbn. rewrite Ew. rewrite append_nil_r. reflexivity.
  - destruct vs as [|v2 vs]; [discriminate|].
    change (blanks (w :: y :: ws)) with (w :: TLit " " :: blanks (y :: ws)).
    cbn [args_of]. rewrite Ew. cbn [tok_str]. rewrite (IH (v2 :: vs) E). reflexivity.
Qed.

Lemma word_ok_vs md5 fz ph rs subs ws : forallb (word_ok md5 fz ph rs subs) ws = true ->
  map (tok_str md5 fz ph rs) ws = map Some (map (rewrite_all subs) (map (tok_text rs) ws)).
Proof.
  induction ws as [|w ws IH]; intros H; [reflexivity|]. cbn [forallb] in H. apply andb_true_iff in H as [Hw H].
  cbn [map]. rewrite (IH H). f_equal. unfold word_ok in Hw.
  destruct (tok_str md5 fz ph rs w) as [v|]; [|discriminate]. apply String.eqb_eq in Hw. rewrite Hw. reflexivity.
Qed.

(* the character-level rewriting and the token model agree on blank-delimited arguments *)
Lemma regex_is_tokens md5 fz ph disc order c ws :
  c_args c = blanks ws -> delimited md5 fz ph disc order c ws = true ->
  args_chars md5 fz ph disc order c = args_of md5 fz ph (c_refs c) (c_args c) /\
  info_of_chars md5 fz ph disc order c = info_of md5 fz ph c.
Proof.
  intros A D. unfold delimited in D.
  assert (E : args_chars md5 fz ph disc order c = args_of md5 fz ph (c_refs c) (c_args c)).
  { unfold args_chars. destruct (subs_of md5 fz ph disc (c_refs c) order) as [subs|]; [|discriminate].
    apply andb_true_iff in D as [S W]. cbn [option_map]. rewrite A, render_blanks, (rewrite_join subs _ S).
    symmetry. apply args_of_blanks. apply word_ok_vs. exact W. }
  split; [exact E|]. unfold info_of_chars, info_of. rewrite E. reflexivity.
Qed.

(* ---------------------------------------------------------------- whole workflows *)
Fixpoint delimited_acc (md5 : string -> string) (fz : bool) (acc : list (option info))
  (g : list (comp * (list string * list nat))) : bool :=
  match g with
  | [] => true
  | (c, (disc, order)) :: t =>
      delimited_comp md5 fz (ph_of md5 acc) (c, (disc, order)) &&
      delimited_acc md5 fz (acc ++ [info_of md5 fz (ph_of md5 acc) c]) t
  end.
Definition delimited_graph md5 fz g := delimited_acc md5 fz [] g.

Lemma list_eqb_tok l : forall r, list_eqb tok_eqb l r = true -> l = r.
Proof.
  induction l as [|x l IH]; intros [|y r] H; cbn in H; try discriminate; [reflexivity|].
  apply andb_true_iff in H as [H1 H2]. rewrite (IH r H2). f_equal.
  destruct x, y; cbn in H1; try discriminate; [apply String.eqb_eq in H1|apply Nat.eqb_eq in H1]; congruence.
Qed.

Lemma infos_chars_acc_tokens md5 fz g : forall acc, delimited_acc md5 fz acc g = true ->
  infos_chars_acc md5 fz acc g = infos_acc md5 fz acc (map fst g).
Proof.
  induction g as [|[c [disc order]] g IH]; intros acc D; [reflexivity|].
  cbn [delimited_acc] in D. apply andb_true_iff in D as [Dc Dg]. cbn [map fst infos_chars_acc infos_acc].
  unfold delimited_comp in Dc. apply andb_true_iff in Dc as [Ea Dc]. apply list_eqb_tok in Ea.
  destruct (regex_is_tokens md5 fz (ph_of md5 acc) disc order c _ Ea Dc) as [_ ->]. apply IH. exact Dg.
Qed.

Lemma infos_chars_tokens md5 fz g : delimited_graph md5 fz g = true ->
  infos_chars md5 fz g = infos md5 fz (map fst g).
Proof. apply infos_chars_acc_tokens. Qed.
