(* C16 — asks on objects that REMEMBER what they computed (no memoization_reset, same objects): an info that was computed
   stays; the outcome "no info now" (a referenced input is missing) is not remembered.  Whenever what the objects
   remember still agrees with the files, an ask answers exactly what objects that never were asked answer. *)
From Coq Require Import String Ascii List Bool Arith ZArith Lia.
Import ListNotations.
Require Import V.Lib.PyStr V.Lib.JTree V.Memo.Model V.Memo.Proofs V.Memo.History.
Open Scope string_scope.
Open Scope list_scope.

(* what is remembered agrees with l: every remembered info is the one l has at that position *)
Definition valid (cache l : list (option info)) : Prop :=
  forall k x, nth k cache None = Some x -> nth k l None = Some x.

Lemma valid_nil l : valid [] l.
Proof. intros [|k] x H; discriminate H. Qed.

Section Gen.
Context {X : Type}.
Variable step : list (option info) -> X -> option info.

Lemma gen_acc_prefix : forall g acc, exists r, gen_acc step acc g = acc ++ r.
Proof.
  induction g as [|c t IH]; intros acc; cbn.
  - exists []. now rewrite app_nil_r.
  - destruct (IH (acc ++ [step acc c])) as [r E]. exists (step acc c :: r). rewrite E, <- app_assoc. reflexivity.
Qed.

Lemma gen_acc_here c t acc : nth (length acc) (gen_acc step acc (c :: t)) None = step acc c.
Proof.
  cbn. destruct (gen_acc_prefix t (acc ++ [step acc c])) as [r E]. rewrite E, <- app_assoc.
  rewrite app_nth2, Nat.sub_diag; [reflexivity|lia].
Qed.

(* the values the remembering objects return are the freshly computed ones when what they remember is still valid *)
Lemma vals_valid cache : forall g acc,
  valid cache (gen_acc step acc g) -> vals_acc step cache acc g = gen_acc step acc g.
Proof.
  induction g as [|c t IH]; intros acc V; [reflexivity|].
  cbn [vals_acc gen_acc].
  assert (E : match nth (length acc) cache None with Some x => Some x | None => step acc c end = step acc c).
  { destruct (nth (length acc) cache None) as [x|] eqn:N; [|reflexivity].
    apply V in N. rewrite gen_acc_here in N. now rewrite N. }
  rewrite E. apply IH. exact V.
Qed.

Lemma vals_length cache : forall g acc, length (vals_acc step cache acc g) = (length acc + length g)%nat.
Proof.
  induction g as [|c t IH]; intros acc; cbn; [lia|]. rewrite IH, app_length. cbn. lia.
Qed.
End Gen.

Lemma nth_map_seq {A} (f : nat -> A) d n k : (k < n)%nat -> nth k (map f (seq 0 n)) d = f k.
Proof.
  intros H. rewrite (nth_indep _ d (f 0%nat)) by now rewrite map_length, seq_length.
  rewrite map_nth, seq_nth; auto.
Qed.

Lemma remember_valid cache l sel : valid cache l -> valid (remember cache l sel) l.
Proof.
  intros V k x H. unfold remember in H.
  destruct (Nat.lt_ge_cases k (length l)) as [L|L].
  - rewrite nth_map_seq in H by exact L. destruct (existsb (Nat.eqb k) sel); [exact H|exact (V _ _ H)].
  - rewrite nth_overflow in H; [discriminate H|now rewrite map_length, seq_length].
Qed.

(* only the selected positions change *)
Lemma remember_other cache l sel k : (k < length l)%nat -> existsb (Nat.eqb k) sel = false ->
  nth k (remember cache l sel) None = nth k cache None.
Proof. intros L E. unfold remember. rewrite nth_map_seq by exact L. now rewrite E. Qed.
Lemma remember_sel cache l sel k : (k < length l)%nat -> existsb (Nat.eqb k) sel = true ->
  nth k (remember cache l sel) None = nth k l None.
Proof. intros L E. unfold remember. rewrite nth_map_seq by exact L. now rewrite E. Qed.

Section Tokens.
Variable md5 : string -> string.

Lemma gen_acc_infos f : forall g acc, gen_acc (cstep md5 f) acc g = infos_acc md5 f acc g.
Proof. induction g as [|c t IH]; intros acc; cbn; [reflexivity|apply IH]. Qed.

Lemma gen_acc_infos_chars f : forall g acc, gen_acc (cstep_chars md5 f) acc g = infos_chars_acc md5 f acc g.
Proof. induction g as [|[c [d o]] t IH]; intros acc; cbn; [reflexivity|apply IH]. Qed.

(* one ask: when what is remembered agrees with the current state of the files, the answer is the infos of that state
   (what objects that were never asked give), and what is remembered afterwards still agrees with it *)
Lemma cached_ask g cs cf (f : bool) sel t :
  valid (if f then cf else cs) (infos md5 f g) ->
  hd [] (csession md5 g cs cf (CAsk f sel :: t)) = pick (infos md5 f g) sel /\
  valid (remember (if f then cf else cs) (vals_acc (cstep md5 f) (if f then cf else cs) [] g) sel) (infos md5 f g).
Proof.
  intros V. unfold infos in *. rewrite <- gen_acc_infos in *.
  cbn [csession hd]. rewrite vals_valid by exact V. split; [reflexivity|]. apply remember_valid. exact V.
Qed.

Lemma cached_ask_chars g cs cf (f : bool) sel t :
  valid (if f then cf else cs) (infos_chars md5 f g) ->
  hd [] (csession_chars md5 g cs cf (CAsk f sel :: t)) = pick (infos_chars md5 f g) sel.
Proof.
  intros V. unfold infos_chars in *. rewrite <- gen_acc_infos_chars in *.
  cbn [csession_chars hd]. rewrite vals_valid by exact V. reflexivity.
Qed.

(* writes do not touch what the objects remember *)
Definition wops (ws : list (string * Z * fstate)) : list cop := map (fun w => CWrite (fst (fst w)) (snd (fst w)) (snd w)) ws.
Definition writes (ws : list (string * Z * fstate)) (g : list comp) : list comp :=
  fold_left (fun g w => write (fst (fst w)) (snd (fst w)) (snd w) g) ws g.

Lemma csession_writes : forall ws g cs cf t, csession md5 g cs cf (wops ws ++ t) = csession md5 (writes ws g) cs cf t.
Proof. induction ws as [|[[l m] s] r IH]; intros g cs cf t; cbn; [reflexivity|apply IH]. Qed.

(* asked EARLY: objects never asked before are asked (some answers are None: an input is missing), files are written
   (the missing input appears), the same objects are asked again without reset.  When the infos that the first ask did
   compute are not changed by the writes, the second ask answers the infos of the files as they are now: in particular
   every component that had no info at the first ask is computed again *)
Lemma asked_early g (f : bool) sel ws sel' :
  (forall k x, existsb (Nat.eqb k) sel = true -> nth k (infos md5 f g) None = Some x ->
               nth k (infos md5 f (writes ws g)) None = Some x) ->
  last (csession md5 g [] [] (CAsk f sel :: wops ws ++ [CAsk f sel'])) [] = pick (infos md5 f (writes ws g)) sel'.
Proof.
  intros K.
  assert (V0 : valid [] (infos md5 f g)) by apply valid_nil.
  assert (E : vals_acc (cstep md5 f) [] [] g = infos md5 f g).
  { unfold infos. rewrite <- gen_acc_infos. apply vals_valid. rewrite gen_acc_infos. exact V0. }
  assert (V1 : valid (remember [] (infos md5 f g) sel) (infos md5 f (writes ws g))).
  { intros k x H. destruct (Nat.lt_ge_cases k (length (infos md5 f g))) as [L|L].
    - destruct (existsb (Nat.eqb k) sel) eqn:S.
      + rewrite remember_sel in H by assumption. exact (K k x S H).
      + rewrite remember_other in H by assumption. destruct k; discriminate H.
    - unfold remember in H. rewrite nth_overflow in H; [discriminate H|now rewrite map_length, seq_length]. }
  destruct f; cbn [csession]; rewrite E, csession_writes; cbn [csession last]; f_equal;
    (rewrite vals_valid; [apply gen_acc_infos | rewrite gen_acc_infos; exact V1]).
Qed.
End Tokens.
