(* C16 — parts of the full statement that are false of the faithful model. *)
From Coq Require Import String List Bool ZArith Permutation.
Import ListNotations.
Require Import V.Lib.PyStr V.Lib.JTree V.Memo.Model.
Open Scope string_scope.

Definition cmd (name exe args : string) : comp :=
  {| c_name := name; c_stage := 0; c_location := "instance"; c_exe := exe; c_args := [TLit args]; c_refs := [];
     c_backend := BLocal |}.

(* F16 (open): the traversal writes keys and values without separators.  Two different commands,
   one buffer, hence one strong (and fuzzy) hash whatever md5 is; the first command is not
   [unambiguous]. *)
Theorem C16_sound_refuted :
  let a := cmd "A" "foo" "-x executable" in
  let b := cmd "B1" "executablefoo" "-x " in
  forall md5 fuzzy ph,
    exists ia ib, info_of md5 fuzzy ph a = Some ia /\ info_of md5 fuzzy ph b = Some ib /\
      i_exe ia <> i_exe ib /\ i_args ia <> i_args ib /\
      serialise ia = serialise ib /\ hash_of md5 fuzzy ph a = hash_of md5 fuzzy ph b /\
      unambiguousb ia = false.
Proof.
  intros a b md5 fuzzy ph.
  exists {| i_files := []; i_exe := "foo"; i_args := "-x executable"; i_image := None |},
         {| i_files := []; i_exe := "executablefoo"; i_args := "-x "; i_image := None |}.
  destruct fuzzy; vm_compute; repeat split; try reflexivity; discriminate.
Qed.
Print Assumptions C16_sound_refuted.

(* F16b (repaired by a fix: commit): the pinned code took the executable from the component called
   componentName.rstrip('0123456789') of the same stage: step7 was hashed with the executable of step,
   and a component like lone9 (no component "lone") got no hash at all. *)
Theorem C16_blueprint_prefix_refuted :
  let g := [cmd "step" "cat" "zzz"; cmd "step7" "echo" "b"; cmd "lone9" "ls" "-l"] in
  blueprint_exe_prefix g (cmd "step7" "echo" "b") = Some "cat" /\
  blueprint_exe_prefix g (cmd "lone9" "ls" "-l") = None.
Proof. vm_compute. split; reflexivity. Qed.
Print Assumptions C16_blueprint_prefix_refuted.

(* F16d (open): a folder of a producer consumed through :copy / :link (never named on the command line) leaves no
   trace in either info: the consumer's hash follows neither its producer nor the files of that folder. *)
Theorem C16_folder_copy_refuted :
  let c := {| c_name := "w"; c_stage := 0; c_location := "instance"; c_exe := "ls"; c_args := [TLit "-l"];
              c_refs := [ {| d_key := "stage0.gen:copy"; d_text := "gen:copy"; d_location := "stages/stage0/gen"; d_mtime := 0;
                             d_prod := Some 0%nat; d_fileref := ""; d_method := "copy"; d_state := FDir |} ];
              c_backend := BLocal |} in
  forall md5 fuzzy ph ph', info_of md5 fuzzy ph c = info_of md5 fuzzy ph' c /\ info_of md5 fuzzy ph c <> None.
Proof. intros c md5 fuzzy ph ph'. destruct fuzzy; vm_compute; split; congruence. Qed.
Print Assumptions C16_folder_copy_refuted.

(* Without the shape of the entries ([wf_files]) the concatenation the hash sees does not determine the file
   list: the hypothesis of C16_files_determined / C16_exactly_when is necessary.  (The code only produces
   well-formed entries — C16_files_wellformed — so this is not a finding.) *)
Theorem C16_files_concat_refuted :
  let i  := {| i_files := ["ab"; "c"]; i_exe := "cat"; i_args := "-n"; i_image := None |} in
  let i' := {| i_files := ["a"; "bc"]; i_exe := "cat"; i_args := "-n"; i_image := None |} in
  unambiguousb i = true /\ unambiguousb i' = true /\ serialise i = serialise i' /\
  (forall md5, hash_info md5 i = hash_info md5 i') /\ ~ Permutation (i_files i) (i_files i') /\
  wf_files (i_files i) = false.
Proof.
  cbv zeta. repeat split; try (vm_compute; reflexivity).
  intros P. apply (Permutation_in "ab") in P; [|left; reflexivity].
  cbn in P. destruct P as [P|[P|[]]]; discriminate P.
Qed.
Print Assumptions C16_files_concat_refuted.

(* F16c (open): \b<reference>\b does not match a reference to an absolute path ('/' is not a word character:
   no boundary after a blank, after '=' or at the start) nor a reference directly followed by a word character.
   The reference stays as written: the token model (what the property asks for) gives two components that read
   equal contents at two absolute paths the same info, the code gives them different arguments. *)
Definition abs_comp (path : string) : comp :=
  {| c_name := "A"; c_stage := 0; c_location := "instance"; c_exe := "cat"; c_args := [TLit "-n"; TLit " "; TRef 0];
     c_refs := [ {| d_key := path ++ ":ref"; d_text := path ++ ":ref"; d_location := path; d_mtime := 0; d_prod := None;
                    d_fileref := ""; d_method := "ref"; d_state := FFile "AAA" |} ];
     c_backend := BLocal |}.
Theorem C16_word_boundary_refuted :
  resub "/dir/a.txt:ref" "file:H:ref" "cat /dir/a.txt:ref --in=/dir/a.txt:ref" = "cat /dir/a.txt:ref --in=/dir/a.txt:ref" /\
  resub "/dir/a.txt:ref" "file:H:ref" "/dir/a.txt:ref" = "/dir/a.txt:ref" /\
  resub "gen/out.txt:ref" "file:H:ref" "gen/out.txt:ref_1 gen/out.txt:ref" = "gen/out.txt:ref_1 file:H:ref" /\
  let md5 := fun s => "<" ++ s ++ ">" in
  forall fuzzy ph,
    info_of md5 fuzzy ph (abs_comp "/dir/a.txt") = info_of md5 fuzzy ph (abs_comp "/dir/b.txt") /\
    option_map i_args (info_of md5 fuzzy ph (abs_comp "/dir/a.txt")) = Some "-n file:<AAA>:ref" /\
    option_map i_args (info_of_chars md5 fuzzy ph ["/dir/a.txt:ref"] [0%nat] (abs_comp "/dir/a.txt")) = Some "-n /dir/a.txt:ref" /\
    option_map i_args (info_of_chars md5 fuzzy ph ["/dir/b.txt:ref"] [0%nat] (abs_comp "/dir/b.txt")) = Some "-n /dir/b.txt:ref" /\
    option_map i_files (info_of_chars md5 fuzzy ph ["/dir/a.txt:ref"] [0%nat] (abs_comp "/dir/a.txt")) =
    option_map i_files (info_of_chars md5 fuzzy ph ["/dir/b.txt:ref"] [0%nat] (abs_comp "/dir/b.txt")).
Proof.
  repeat split; try (vm_compute; reflexivity); destruct fuzzy; vm_compute; reflexivity.
Qed.
Print Assumptions C16_word_boundary_refuted.

(* The order of the one-after-the-other rewriting.  A consumer of the files out.txt of two producers of its own
   stage, the name of one being a \b-delimited tail of the name of the other (gen / pre-gen, gen / pre.gen) or a
   producer and a file of another producer below a folder called like it (gen/out.txt / outer/gen/out.txt).
   Visited shortest spelling first, the short reference is replaced INSIDE the long one: a fragment of the producer
   name survives and the hash of the wrong file stands for the second file, whereas longest first (the code's order,
   [code_order]) gives the simultaneous substitution (C16_longest_first in Property.v). *)
Definition pfile (key text : string) (p : nat) (content : string) : dref :=
  {| d_key := key; d_text := text; d_location := ""; d_mtime := 0; d_prod := Some p; d_fileref := "out.txt";
     d_method := "ref"; d_state := FFile content |}.
Definition tail_comp (long : string) : comp :=
  {| c_name := "consumer"; c_stage := 0; c_location := "instance"; c_exe := "diff"; c_args := [TRef 1; TLit " "; TRef 0];
     c_refs := [pfile "stage0.gen/out.txt:ref" "gen/out.txt:ref" 0 "ONE"; pfile ("stage0." ++ long) long 1 "TWO"];
     c_backend := BLocal |}.
Theorem C16_shortest_first_refuted :
  let md5 := fun s => "<" ++ s ++ ">" in
  forall ph,
  forallb (fun long =>
    let c := tail_comp long in let disc := ["gen/out.txt:ref"; long] in
    (* the code's order is longest first and gives what the property asks for *)
    list_eqb Nat.eqb (code_order (c_refs c)) [1; 0]%nat &&
    opt_eqb String.eqb (option_map i_args (info_of_chars md5 false ph disc (code_order (c_refs c)) c)) (Some "file:<TWO>:ref file:<ONE>:ref") &&
    opt_eqb String.eqb (option_map i_args (info_of md5 false ph c)) (Some "file:<TWO>:ref file:<ONE>:ref") &&
    (* shortest first does not *)
    negb (opt_eqb String.eqb (option_map i_args (info_of_chars md5 false ph disc [0; 1]%nat c)) (option_map i_args (info_of md5 false ph c))))
    ["pre-gen/out.txt:ref"; "pre.gen/out.txt:ref"; "outer/gen/out.txt:ref"; "stage0.pre-gen/out.txt:ref"] = true /\
  option_map i_args (info_of_chars md5 false ph ["gen/out.txt:ref"; "pre-gen/out.txt:ref"] [0; 1]%nat (tail_comp "pre-gen/out.txt:ref"))
    = Some "pre-file:<ONE>:ref file:<ONE>:ref" /\
  rewrite_all [("gen:ref", "producer:H1:ref"); ("a.gen:ref", "producer:H2:ref")] "a.gen:ref gen:ref" = "a.producer:H1:ref producer:H1:ref" /\
  longest_first [("gen/out.txt:ref", "file:<ONE>:ref"); ("pre-gen/out.txt:ref", "file:<TWO>:ref")] = false.
Proof. intros md5 ph. repeat split; vm_compute; reflexivity. Qed.
Print Assumptions C16_shortest_first_refuted.

(* The code sorts by the length of the ABSOLUTE reference string, not of the spelling it substitutes.
   A consumer in stage 1 that reads out.txt of the producer gen of its own stage (written gen/out.txt:ref) and of
   the producer gen of stage 0 (stage0.gen/out.txt:ref): both absolute strings have the same length, the sort is
   stable, so when the relative reference is listed first it is visited first and replaced inside the absolute
   one: "stage0." survives (the hash depends on the stage index) and the contents of the file of stage 0 are not
   in the arguments.  With a consumer in stage 10 and the other producer in stage 1 the listing order does not
   matter: the absolute string of the relative reference is the longer one.
   NOT REACHABLE through a validated experiment: ComponentSpecification.checkDataReferences (the validation of the
   command line) rejects these descriptions, so no finding is recorded; the run keeps generating them and counts
   them as rejected. *)
Definition same_name_comp (own other : string) (swap : bool) : comp :=
  let r_own := pfile ("stage" ++ own ++ ".gen/out.txt:ref") "gen/out.txt:ref" 1 "TWO" in
  let r_other := pfile ("stage" ++ other ++ ".gen/out.txt:ref") ("stage" ++ other ++ ".gen/out.txt:ref") 0 "ONE" in
  {| c_name := "consumer"; c_stage := 1; c_location := "instance"; c_exe := "diff";
     c_args := if swap then [TRef 1; TLit " "; TRef 0] else [TRef 0; TLit " "; TRef 1];
     c_refs := if swap then [r_other; r_own] else [r_own; r_other]; c_backend := BLocal |}.
Theorem C16_sort_key_refuted :
  let md5 := fun s => "<" ++ s ++ ">" in
  forall ph,
  let run := fun own other swap =>
    let c := same_name_comp own other swap in
    option_map i_args (info_of_chars md5 false ph ["gen/out.txt:ref"; "stage" ++ other ++ ".gen/out.txt:ref"] (code_order (c_refs c)) c) in
  (* listed first: visited first *)
  code_order (c_refs (same_name_comp "1" "0" false)) = [0; 1]%nat /\
  run "1" "0" false = Some "file:<TWO>:ref stage0.file:<TWO>:ref" /\
  option_map i_args (info_of md5 false ph (same_name_comp "1" "0" false)) = Some "file:<TWO>:ref file:<ONE>:ref" /\
  (* the same work with the other producer in another stage: other arguments, other hash *)
  run "3" "2" false = Some "file:<TWO>:ref stage2.file:<TWO>:ref" /\
  (* listed second: fine *)
  run "1" "0" true = Some "file:<TWO>:ref file:<ONE>:ref" /\
  (* stage 10 / stage 1: whatever the listing *)
  run "10" "1" true = Some "file:<TWO>:ref stage1.file:<TWO>:ref" /\
  run "10" "1" false = Some "file:<TWO>:ref stage1.file:<TWO>:ref".
Proof. intros md5 ph. repeat split; vm_compute; reflexivity. Qed.
Print Assumptions C16_sort_key_refuted.

(* F16e (open): a later substitution also rewrites what an earlier one wrote ([inert] fails).  The fuzzy
   replacement of a file made by a producer ends in <path below the producer>:<method>; the consumer reads
   outer/gen/out.txt:ref and gen/out.txt:ref (producers outer and gen of its stage): the code's order visits the
   long reference first, then rewrites the tail of its replacement.  The fuzzy arguments (hence the fuzzy hash)
   depend on the name of the producer gen: called alpha (file outer/gen/out.txt unchanged), the same work gets
   the arguments the property asks for.  The strong replacement (file:<md5>:ref) is inert. *)
Definition inner_comp (name : string) : comp :=
  {| c_name := "consumer"; c_stage := 0; c_location := "instance"; c_exe := "cat"; c_args := [TRef 0; TLit " "; TRef 1];
     c_refs := [ {| d_key := "stage0.outer/gen/out.txt:ref"; d_text := "outer/gen/out.txt:ref"; d_location := ""; d_mtime := 0;
                    d_prod := Some 1%nat; d_fileref := "gen/out.txt"; d_method := "ref"; d_state := FFile "TWO" |};
                 pfile ("stage0." ++ name ++ "/out.txt:ref") (name ++ "/out.txt:ref") 0 "ONE" ];
     c_backend := BLocal |}.
Theorem C16_fuzzy_replacement_refuted :
  let md5 := fun s => "<" ++ s ++ ">" in
  let ph := fun p : nat => Some (if Nat.eqb p 0 then "H0" else "H1") in
  let run := fun fuzzy name =>
    option_map i_args (info_of_chars md5 fuzzy ph ["outer/gen/out.txt:ref"; name ++ "/out.txt:ref"] (code_order (c_refs (inner_comp name)))
                                     (inner_comp name)) in
  code_order (c_refs (inner_comp "gen")) = [0; 1]%nat /\
  run true "gen" = Some "file:fuzzy#H1#file:fuzzy#H0#out.txt:ref file:fuzzy#H0#out.txt:ref" /\
  option_map i_args (info_of md5 true ph (inner_comp "gen")) = Some "file:fuzzy#H1#gen/out.txt:ref file:fuzzy#H0#out.txt:ref" /\
  run true "alpha" = Some "file:fuzzy#H1#gen/out.txt:ref file:fuzzy#H0#out.txt:ref" /\
  run false "gen" = option_map i_args (info_of md5 false ph (inner_comp "gen")) /\
  inert [("outer/gen/out.txt:ref", "file:fuzzy#H1#gen/out.txt:ref"); ("gen/out.txt:ref", "file:fuzzy#H0#out.txt:ref")] = false.
Proof. repeat split; vm_compute; reflexivity. Qed.
Print Assumptions C16_fuzzy_replacement_refuted.
