(* C16 — parts of the full statement that are false of the faithful model. *)
From Coq Require Import String List Bool ZArith Permutation.
Import ListNotations.
Require Import V.Lib.PyStr V.Lib.JTree V.Memo.Model.
Open Scope string_scope.

Definition cmd (name exe args : string) : comp :=
  {| c_name := name; c_stage := 0; c_location := "instance"; c_exe := exe; c_args := [TLit args]; c_refs := [];
     c_backend := BLocal |}.

(* F16 (open): the traversal writes keys and values without separators.  Two different commands,
   one buffer, hence one strong (and fuzzy) hash whatever md5 is; the first command is not
   [unambiguous]. *)
Theorem C16_sound_refuted :
  let a := cmd "A" "foo" "-x executable" in
  let b := cmd "B1" "executablefoo" "-x " in
  forall md5 fuzzy ph,
    exists ia ib, info_of md5 fuzzy ph a = Some ia /\ info_of md5 fuzzy ph b = Some ib /\
      i_exe ia <> i_exe ib /\ i_args ia <> i_args ib /\
      serialise ia = serialise ib /\ hash_of md5 fuzzy ph a = hash_of md5 fuzzy ph b /\
      unambiguousb ia = false.
Proof.
  intros a b md5 fuzzy ph.
  exists {| i_files := []; i_exe := "foo"; i_args := "-x executable"; i_image := None |},
         {| i_files := []; i_exe := "executablefoo"; i_args := "-x "; i_image := None |}.
  destruct fuzzy; vm_compute; repeat split; try reflexivity; discriminate.
Qed.
Print Assumptions C16_sound_refuted.

(* F16b (repaired by a fix: commit): the pinned code took the executable from the component called
   componentName.rstrip('0123456789') of the same stage: step7 was hashed with the executable of step,
   and a component like lone9 (no component "lone") got no hash at all. *)
Theorem C16_blueprint_prefix_refuted :
  let g := [cmd "step" "cat" "zzz"; cmd "step7" "echo" "b"; cmd "lone9" "ls" "-l"] in
  blueprint_exe_prefix g (cmd "step7" "echo" "b") = Some "cat" /\
  blueprint_exe_prefix g (cmd "lone9" "ls" "-l") = None.
Proof. vm_compute. split; reflexivity. Qed.
Print Assumptions C16_blueprint_prefix_refuted.

(* F16d (open): a folder of a producer consumed through :copy / :link (never named on the command line) leaves no
   trace in either info: the consumer's hash follows neither its producer nor the files of that folder. *)
Theorem C16_folder_copy_refuted :
  let c := {| c_name := "w"; c_stage := 0; c_location := "instance"; c_exe := "ls"; c_args := [TLit "-l"];
              c_refs := [ {| d_key := "stage0.gen:copy"; d_text := "gen:copy"; d_location := "stages/stage0/gen"; d_mtime := 0;
                             d_prod := Some 0%nat; d_fileref := ""; d_method := "copy"; d_state := FDir |} ];
              c_backend := BLocal |} in
  forall md5 fuzzy ph ph', info_of md5 fuzzy ph c = info_of md5 fuzzy ph' c /\ info_of md5 fuzzy ph c <> None.
Proof. intros c md5 fuzzy ph ph'. destruct fuzzy; vm_compute; split; congruence. Qed.
Print Assumptions C16_folder_copy_refuted.

(* Without the shape of the entries ([wf_files]) the concatenation the hash sees does not determine the file
   list: the hypothesis of C16_files_determined / C16_exactly_when is necessary.  (The code only produces
   well-formed entries — C16_files_wellformed — so this is not a finding.) *)
Theorem C16_files_concat_refuted :
  let i  := {| i_files := ["ab"; "c"]; i_exe := "cat"; i_args := "-n"; i_image := None |} in
  let i' := {| i_files := ["a"; "bc"]; i_exe := "cat"; i_args := "-n"; i_image := None |} in
  unambiguousb i = true /\ unambiguousb i' = true /\ serialise i = serialise i' /\
  (forall md5, hash_info md5 i = hash_info md5 i') /\ ~ Permutation (i_files i) (i_files i') /\
  wf_files (i_files i) = false.
Proof.
  cbv zeta. repeat split; try (vm_compute; reflexivity).
  intros P. apply (Permutation_in "ab") in P; [|left; reflexivity].
  cbn in P. destruct P as [P|[P|[]]]; discriminate P.
Qed.
Print Assumptions C16_files_concat_refuted.

(* F16c (open): \b<reference>\b does not match a reference to an absolute path ('/' is not a word character:
   no boundary after a blank, after '=' or at the start) nor a reference directly followed by a word character.
   The reference stays as written: the token model (what the property asks for) gives two components that read
   equal contents at two absolute paths the same info, the code gives them different arguments. *)
Definition abs_comp (path : string) : comp :=
  {| c_name := "A"; c_stage := 0; c_location := "instance"; c_exe := "cat"; c_args := [TLit "-n"; TLit " "; TRef 0];
     c_refs := [ {| d_key := path ++ ":ref"; d_text := path ++ ":ref"; d_location := path; d_mtime := 0; d_prod := None;
                    d_fileref := ""; d_method := "ref"; d_state := FFile "AAA" |} ];
     c_backend := BLocal |}.
Theorem C16_word_boundary_refuted :
  resub "/dir/a.txt:ref" "file:H:ref" "cat /dir/a.txt:ref --in=/dir/a.txt:ref" = "cat /dir/a.txt:ref --in=/dir/a.txt:ref" /\
  resub "/dir/a.txt:ref" "file:H:ref" "/dir/a.txt:ref" = "/dir/a.txt:ref" /\
  resub "gen/out.txt:ref" "file:H:ref" "gen/out.txt:ref_1 gen/out.txt:ref" = "gen/out.txt:ref_1 file:H:ref" /\
  let md5 := fun s => "<" ++ s ++ ">" in
  forall fuzzy ph,
    info_of md5 fuzzy ph (abs_comp "/dir/a.txt") = info_of md5 fuzzy ph (abs_comp "/dir/b.txt") /\
    option_map i_args (info_of md5 fuzzy ph (abs_comp "/dir/a.txt")) = Some "-n file:<AAA>:ref" /\
    option_map i_args (info_of_chars md5 fuzzy ph ["/dir/a.txt:ref"] [0%nat] (abs_comp "/dir/a.txt")) = Some "-n /dir/a.txt:ref" /\
    option_map i_args (info_of_chars md5 fuzzy ph ["/dir/b.txt:ref"] [0%nat] (abs_comp "/dir/b.txt")) = Some "-n /dir/b.txt:ref" /\
    option_map i_files (info_of_chars md5 fuzzy ph ["/dir/a.txt:ref"] [0%nat] (abs_comp "/dir/a.txt")) =
    option_map i_files (info_of_chars md5 fuzzy ph ["/dir/b.txt:ref"] [0%nat] (abs_comp "/dir/b.txt")).
Proof.
  repeat split; try (vm_compute; reflexivity); destruct fuzzy; vm_compute; reflexivity.
Qed.
Print Assumptions C16_word_boundary_refuted.
