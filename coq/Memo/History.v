(* C16 — hashes asked for repeatedly in one process while the referenced files change: every answer is a function of
   the state of the files at the time of the ask, not of what the same paths contained earlier, of the time of the
   writes, or of the asks made before. *)
From Coq Require Import String Ascii List Bool Arith ZArith Lia.
Import ListNotations.
Require Import V.Lib.PyStr V.Lib.JTree V.Memo.Model V.Memo.Proofs.
Open Scope string_scope.
Open Scope list_scope.

Lemma final_app g : forall ops ops', final g (ops ++ ops') = final (final g ops) ops'.
Proof.
  intros ops; revert g; induction ops as [|[l m s|f sel] t IH]; intros g ops'; cbn; auto.
Qed.

Lemma session_app md5 : forall ops g ops',
  session md5 g (ops ++ ops') = session md5 g ops ++ session md5 (final g ops) ops'.
Proof.
  induction ops as [|[l m s|f sel] t IH]; intros g ops'; cbn; auto. rewrite IH. reflexivity.
Qed.

(* the answer to an ask is the infos of the current state, whatever happened before *)
Lemma session_last md5 g ops f sel :
  last (session md5 g (ops ++ [OAsk f sel])) [] = pick (infos md5 f (final g ops)) sel.
Proof. rewrite session_app. cbn. apply last_last. Qed.

(* ... every answer of a session: the k-th ask sees the state reached by the operations before it *)
Lemma session_nth md5 g pre f sel post :
  nth (length (session md5 g pre)) (session md5 g (pre ++ OAsk f sel :: post)) [] = pick (infos md5 f (final g pre)) sel.
Proof. rewrite session_app. rewrite app_nth2, Nat.sub_diag; [reflexivity|lia]. Qed.

(* two histories, on the same or on different instances (other location, names, stage indices, times), that end with the
   same hash-relevant state: the same answers *)
Lemma history_independent md5 f sel g ops g' ops' :
  map core (final g ops) = map core (final g' ops') ->
  last (session md5 g (ops ++ [OAsk f sel])) [] = last (session md5 g' (ops' ++ [OAsk f sel])) [] /\
  last (session md5 g (ops ++ [OAsk f sel])) [] = pick (infos md5 f (final g' ops')) sel.
Proof.
  intros E. rewrite !session_last. destruct (irrelevant_graph md5 f _ _ E) as [-> _]. split; reflexivity.
Qed.

(* writing again what a path already holds, at whatever time, changes nothing the hash may depend on *)
Lemma core_set_ref_same loc mt st r : (d_location r = loc -> d_state r = st) -> core_ref (set_ref loc mt st r) = core_ref r.
Proof.
  intros H. unfold set_ref. destruct (String.eqb (d_location r) loc) eqn:E; [|reflexivity].
  apply String.eqb_eq in E. rewrite <- (H E). reflexivity.
Qed.

Lemma rewrite_same loc mt st g :
  (forall c r, In c g -> In r (c_refs c) -> d_location r = loc -> d_state r = st) ->
  map core (write loc mt st g) = map core g.
Proof.
  intros H. unfold write. rewrite map_map. apply map_ext_in. intros c Hc.
  unfold core, write_comp; cbn. f_equal. rewrite map_map. apply map_ext_in. intros r Hr.
  apply core_set_ref_same. exact (H c r Hc Hr).
Qed.

(* a write is seen by every reference to the path and by no other reference *)
Lemma set_ref_state loc mt st r :
  d_state (set_ref loc mt st r) = if String.eqb (d_location r) loc then st else d_state r.
Proof. unfold set_ref. destruct (String.eqb (d_location r) loc); reflexivity. Qed.
