(* C14 — proofs over the model: atomicity of temp+rename transactions under every fault,
   round trip of the status codec, histories. *)
From Coq Require Import String Ascii List Bool Arith Lia Permutation.
Import ListNotations.
Require Import V.Lib.PyStr V.Fs.Model.
Open Scope string_scope.
Open Scope nat_scope.

(* ================================================================ file system *)
Lemma read_del_same p s : read p (del p s) = None.
Proof.
  induction s as [|[q c] r IH]; cbn; [reflexivity|].
  destruct (String.eqb p q) eqn:E; [exact IH|]. cbn. rewrite E. exact IH.
Qed.

Lemma read_del_other p q s : p <> q -> read p (del q s) = read p s.
Proof.
  intros N. induction s as [|[a c] r IH]; cbn; [reflexivity|].
  destruct (String.eqb q a) eqn:E.
  - apply String.eqb_eq in E. subst a. rewrite IH.
    destruct (String.eqb p q) eqn:E2; [apply String.eqb_eq in E2; contradiction|reflexivity].
  - cbn. rewrite IH. reflexivity.
Qed.

Lemma read_write_same p c s : read p (write p c s) = Some c.
Proof. unfold write. cbn. rewrite String.eqb_refl. reflexivity. Qed.

Lemma read_write_other p q c s : p <> q -> read p (write q c s) = read p s.
Proof.
  intros N. unfold write. cbn.
  destruct (String.eqb p q) eqn:E; [apply String.eqb_eq in E; contradiction|]. apply read_del_other. exact N.
Qed.

Lemma run_app a b s : run (a ++ b)%list s = run b (run a s).
Proof. unfold run. apply fold_left_app. Qed.

(* operations that only touch the temporary file t *)
Definition on_tmp (t : path) (o : fsop) : Prop :=
  match o with
  | Create p | Append p _ | Close p | Remove p => p = t
  | Rename _ _ => False
  end.

Lemma apply_on_tmp t o p s : on_tmp t o -> p <> t -> read p (apply o s) = read p s.
Proof.
  intros H N. destruct o as [q|q b|q|q q2|q]; cbn in H; try subst q; cbn.
  - apply read_write_other. exact N.
  - destruct (read t s); [apply read_write_other; exact N|reflexivity].
  - reflexivity.
  - contradiction.
  - apply read_del_other. exact N.
Qed.

Lemma run_on_tmp t ops : Forall (on_tmp t) ops -> forall p s, p <> t -> read p (run ops s) = read p s.
Proof.
  induction 1 as [|o r Ho _ IH]; intros p s N; [reflexivity|].
  change (run (o :: r) s) with (run r (apply o s)). rewrite IH by exact N. apply (apply_on_tmp t); assumption.
Qed.

Lemma run_appends t cs : forall s c, read t s = Some c ->
  read t (run (map (Append t) cs) s) = Some (c ++ concat_str cs).
Proof.
  induction cs as [|b r IH]; intros s c H; cbn.
  - rewrite append_nil_r. exact H.
  - change (run (Append t b :: map (Append t) r) s) with (run (map (Append t) r) (apply (Append t b) s)).
    rewrite (IH _ (c ++ b)).
    + rewrite append_assoc. reflexivity.
    + cbn. rewrite H. apply read_write_same.
Qed.

Definition pre (t : path) (cs : list string) : list fsop := (Create t :: map (Append t) cs ++ [Close t])%list.

Lemma pre_on_tmp t cs : Forall (on_tmp t) (pre t cs).
Proof.
  unfold pre. constructor; [reflexivity|]. apply Forall_app. split.
  - apply Forall_forall. intros o Ho. apply in_map_iff in Ho as [b [<- _]]. reflexivity.
  - constructor; [reflexivity|constructor].
Qed.

Lemma run_pre_tmp t cs s : read t (run (pre t cs) s) = Some (concat_str cs).
Proof.
  unfold pre. change (run (Create t :: ?l) s) with (run l (apply (Create t) s)).
  rewrite run_app. cbn [run fold_left apply].
  rewrite (run_appends t cs _ ""); [reflexivity|]. cbn. apply read_write_same.
Qed.

Definition good (x : txn) : Prop :=
  inplace x = false /\ commit_on_write_fail x = false /\ tmp x <> dst x.

Lemma body_good x cs : inplace x = false -> body x cs = (pre (tmp x) cs ++ [Rename (tmp x) (dst x)])%list.
Proof. intros H. unfold body, target, pre. rewrite H. reflexivity. Qed.

(* the complete transaction installs the new text and touches nothing else *)
Lemma run_body_dst x cs s : good x -> read (dst x) (run (body x cs) s) = Some (concat_str cs).
Proof.
  intros [Hi [_ Hn]]. rewrite body_good by exact Hi. rewrite run_app. cbn [run fold_left apply].
  rewrite run_pre_tmp. apply read_write_same.
Qed.

Lemma run_body_other x cs s p : good x -> p <> tmp x -> p <> dst x -> read p (run (body x cs) s) = read p s.
Proof.
  intros [Hi [_ Hn]] N1 N2. rewrite body_good by exact Hi. rewrite run_app. cbn [run fold_left apply].
  rewrite run_pre_tmp. rewrite read_write_other by exact N2. rewrite read_del_other by exact N1.
  apply (run_on_tmp (tmp x)); [apply pre_on_tmp|exact N1].
Qed.

Lemma partial_on_tmp t e o j : on_tmp t o -> Forall (on_tmp t) (partial e o j).
Proof.
  destruct o as [q|q b|q|q q2|q]; cbn; intros H; try contradiction; try constructor; try exact H; try constructor.
  destruct e; [constructor; [exact H|constructor]|constructor].
Qed.

Lemma firstn_on_tmp t l k : Forall (on_tmp t) l -> Forall (on_tmp t) (firstn k l).
Proof.
  intros H. rewrite <- (firstn_skipn k l) in H. apply Forall_app in H. exact (proj1 H).
Qed.

(* what reaches the disk when the fault hits operation k of a transaction, and the error handling
   that follows, only touch the temporary file *)
Lemma fault_prefix_on_tmp x cs k j e : good x -> k < length (body x cs) ->
  Forall (on_tmp (tmp x)) (firstn k (body x cs) ++ partial e (nth k (body x cs) (Close "")) j)%list /\
  Forall (on_tmp (tmp x)) (handler x (nth k (body x cs) (Close ""))).
Proof.
  intros G Hk. pose proof G as [Hi [Hc Hn]]. rewrite body_good in * by exact Hi.
  pose proof (pre_on_tmp (tmp x) cs) as HP.
  rewrite app_length in Hk. change (length [Rename (tmp x) (dst x)]) with 1 in Hk.
  assert (C : k < length (pre (tmp x) cs) \/ k = length (pre (tmp x) cs)) by lia.
  destruct C as [C|C].
  - rewrite firstn_app. replace (k - length (pre (tmp x) cs)) with 0 by lia. cbn [firstn]. rewrite app_nil_r.
    rewrite app_nth1 by exact C.
    assert (Ho : on_tmp (tmp x) (nth k (pre (tmp x) cs) (Close ""))).
    { eapply Forall_forall; [exact HP|]. apply nth_In. exact C. }
    split.
    + apply Forall_app. split; [apply firstn_on_tmp; exact HP|apply partial_on_tmp; exact Ho].
    + destruct (nth k (pre (tmp x) cs) (Close "")) as [q|q b|q|q q2|q]; cbn in Ho; try contradiction; cbn.
      * constructor.
      * subst q. unfold after_write_fail. rewrite Hi, Hc.
        constructor; [reflexivity|]. destruct (rm_on_write_fail x); repeat constructor.
      * unfold after_write_fail. rewrite Hi, Hc. destruct (rm_on_write_fail x); repeat constructor.
      * constructor.
  - subst k. rewrite firstn_app. rewrite Nat.sub_diag. cbn [firstn]. rewrite app_nil_r.
    rewrite firstn_all. rewrite app_nth2 by lia. rewrite Nat.sub_diag. cbn [nth partial handler].
    split.
    + rewrite app_nil_r. exact HP.
    + destruct (rm_on_rename_fail x); repeat constructor.
Qed.

(* ---- the update as a whole *)
Definition version_of (xs : list txn) (p : path) (c : string) : Prop :=
  exists x b, In x xs /\ dst x = p /\ c = concat_str (chunks x b).

Definition old_or_new (xs : list txn) (p : path) (s s' : fs) : Prop :=
  read p s' = read p s \/ exists c, read p s' = Some c /\ version_of xs p c.

Lemma version_cons x r p c : version_of r p c -> version_of (x :: r) p c.
Proof. intros [y [b [H1 H2]]]. exists y, b. split; [right; exact H1|exact H2]. Qed.

Lemma chain x r p s s1 s2 :
  old_or_new [x] p s s1 -> old_or_new r p s1 s2 -> old_or_new (x :: r) p s s2.
Proof.
  intros [A|[c [A1 [y [b [Hy A2]]]]]] [B|[c2 [B1 B2]]].
  - left. congruence.
  - right. exists c2. split; [exact B1|apply version_cons; exact B2].
  - right. exists c. split; [congruence|]. destruct Hy as [<-|[]]. exists x, b. split; [left; reflexivity|exact A2].
  - right. exists c2. split; [exact B1|apply version_cons; exact B2].
Qed.

Lemma full_step x b p s : good x -> tmp x <> p -> old_or_new [x] p s (run (body x (chunks x b)) s).
Proof.
  intros G N. destruct (String.eqb p (dst x)) eqn:E.
  - apply String.eqb_eq in E. subst p. right. exists (concat_str (chunks x b)). split.
    + apply run_body_dst. exact G.
    + exists x, b. repeat split. left. reflexivity.
  - apply String.eqb_neq in E. left. apply run_body_other; [exact G|congruence|exact E].
Qed.

Theorem exec_atomic xs : Forall good xs -> forall p, (forall x, In x xs -> tmp x <> p) ->
  forall b f s, old_or_new xs p s (run (exec xs b f) s).
Proof.
  induction 1 as [|x r G _ IH]; intros p Hp b f s.
  - destruct f; left; reflexivity.
  - assert (Np : tmp x <> p) by (apply Hp; left; reflexivity).
    assert (Hr : forall y, In y r -> tmp y <> p) by (intros y Hy; apply Hp; right; exact Hy).
    specialize (IH p Hr).
    assert (Np' : p <> tmp x) by congruence.
    destruct f as [|k j|k j]; cbn [exec].
    + rewrite run_app. eapply chain; [apply full_step; assumption|apply IH].
    + destruct (k <? length (body x (chunks x b))) eqn:E.
      * apply Nat.ltb_lt in E. left.
        apply (run_on_tmp (tmp x)); [|exact Np']. apply (fault_prefix_on_tmp x (chunks x b) k j false G E).
      * rewrite run_app. eapply chain; [apply full_step; assumption|apply IH].
    + destruct (k <? length (body x (chunks x b))) eqn:E.
      * apply Nat.ltb_lt in E.
        destruct (fault_prefix_on_tmp x (chunks x b) k j true G E) as [F1 F2].
        set (ops := body x (chunks x b)) in *.
        set (A := firstn k ops) in *. set (B := partial true (nth k ops (Close "")) j) in *.
        set (H := handler x (nth k ops (Close ""))) in *.
        replace (A ++ B ++ H ++ exec r false NoFault)%list with (((A ++ B) ++ H) ++ exec r false NoFault)%list
          by (rewrite <- !app_assoc; reflexivity).
        rewrite run_app. eapply chain; [|apply IH]. left. apply (run_on_tmp (tmp x)); [|exact Np'].
        apply Forall_app. split; [exact F1|exact F2].
      * rewrite run_app. eapply chain; [apply full_step; assumption|apply IH].
Qed.

(* files that are neither a temporary nor a target are never touched *)
Corollary exec_frame xs : Forall good xs -> forall p, (forall x, In x xs -> tmp x <> p /\ dst x <> p) ->
  forall b f s, read p (run (exec xs b f) s) = read p s.
Proof.
  intros G p Hp b f s.
  destruct (exec_atomic xs G p (fun x Hx => proj1 (Hp x Hx)) b f s) as [A|[c [_ [x [b' [Hx [Hd _]]]]]]]; [exact A|].
  exfalso. exact (proj2 (Hp x Hx) Hd).
Qed.

(* without a fault every target ends with its complete new text *)
Theorem exec_complete xs : Forall good xs -> NoDup (map dst xs) ->
  (forall x y, In x xs -> In y xs -> tmp x <> dst y) ->
  forall x s, In x xs -> read (dst x) (run (exec xs true NoFault) s) = Some (concat_str (chunks x true)).
Proof.
  induction 1 as [|y r G Gr IH]; intros ND HT x s Hx; [destruct Hx|].
  cbn [exec]. rewrite run_app. inversion ND as [|? ? Hnin ND']; subst.
  destruct Hx as [<-|Hx].
  - rewrite exec_frame.
    + apply run_body_dst. exact G.
    + exact Gr.
    + intros z Hz. split.
      * apply HT; [right; exact Hz|left; reflexivity].
      * intros E. apply Hnin. rewrite <- E. apply in_map. exact Hz.
  - apply IH; [exact ND'| |exact Hx]. intros a c Ha Hc. apply HT; right; assumption.
Qed.

(* ================================================================ codec: characters *)
Definition printable (c : ascii) : bool := (32 <=? nat_of_ascii c) && (nat_of_ascii c <=? 126).

Lemma ascii_all (P : ascii -> Prop) :
  (forall b0 b1 b2 b3 b4 b5 b6 b7, P (Ascii b0 b1 b2 b3 b4 b5 b6 b7)) -> forall c, P c.
Proof. intros H [b0 b1 b2 b3 b4 b5 b6 b7]. apply H. Qed.

Lemma unescape_escape_char c r : unescape (escape_char c ++ r) = ocons c (unescape r).
Proof.
  destruct c as [[] [] [] [] [] [] [] []]; reflexivity.
Qed.

Lemma unescape_escape s : unescape (escape s) = Some s.
Proof.
  induction s as [|c r IH]; [reflexivity|].
  cbn [escape]. rewrite unescape_escape_char, IH. reflexivity.
Qed.

Lemma escape_char_printable c : all_chars printable (escape_char c) = true.
Proof. destruct c as [[] [] [] [] [] [] [] []]; reflexivity. Qed.

Lemma all_chars_app p a b : all_chars p (a ++ b) = all_chars p a && all_chars p b.
Proof. induction a as [|c a IH]; cbn; [reflexivity|]. rewrite IH. apply andb_assoc. Qed.

Lemma escape_printable s : all_chars printable (escape s) = true.
Proof.
  induction s as [|c r IH]; [reflexivity|]. cbn [escape]. rewrite all_chars_app, escape_char_printable, IH. reflexivity.
Qed.

