(* C14 — Experiment state files are updated atomically and read back faithfully.
   Executable model.  Two parts:
   (1) a tiny file system (path -> text) with the operations the updaters perform, transactions
       "write a temporary file, then rename it over the target" with the error handling each real
       updater has, and faults (process death / I/O error at the k-th operation, inside an append
       after j characters);
   (2) the status.txt codec at character level (Status.writeToStream / Status.statusFromFile +
       Status.__init__): key=value lines, unicode_escape of error-description, universal newlines,
       split('\n'), split('=',1), strip(), lower().
   A character is a code point 0..255 (Coq ascii); larger code points are outside the model (the
   harness checks them against the real code only). *)
From Coq Require Import String Ascii List Bool Arith Lia NArith.
Import ListNotations.
Require Import V.Lib.PyStr.
Open Scope string_scope.
Open Scope nat_scope.

(* ================================================================ file system *)
Definition path := string.
Inductive fsop :=
| Create (p : path)               (* open(p,'w'): truncating open *)
| Append (p : path) (b : string)  (* f.write(b) *)
| Close (p : path)
| Rename (p q : path)             (* os.rename / os.replace: atomic (POSIX, assumed) *)
| Remove (p : path).

Definition fs := list (path * string).

Fixpoint read (p : path) (s : fs) : option string :=
  match s with [] => None | (q, c) :: r => if String.eqb p q then Some c else read p r end.
Fixpoint del (p : path) (s : fs) : fs :=
  match s with [] => [] | (q, c) :: r => if String.eqb p q then del p r else (q, c) :: del p r end.
Definition write (p : path) (c : string) (s : fs) : fs := (p, c) :: del p s.

Definition apply (o : fsop) (s : fs) : fs :=
  match o with
  | Create p => write p "" s
  | Append p b => match read p s with Some c => write p (c ++ b) s | None => s end
  | Close _ => s
  | Rename p q => match read p s with Some c => write q c (del p s) | None => s end
  | Remove p => del p s
  end.
Definition run (ops : list fsop) (s : fs) : fs := fold_left (fun s o => apply o s) ops s.

(* ---- transactions *)
Record txn := mkTxn {
  tmp : path;                      (* temporary file (fresh name in the directory of dst) *)
  dst : path;                      (* the state file *)
  chunks : bool -> list string;    (* the successive write() arguments; the flag says whether the
                                      previous transaction of the same update committed
                                      (output.json is generated from output.txt) *)
  inplace : bool;                  (* pinned conf.py: open(dst,'w') and write in place, no rename *)
  rm_on_write_fail : bool;         (* remove tmp when writing it failed *)
  rm_on_rename_fail : bool;        (* remove tmp when the rename failed *)
  commit_on_write_fail : bool      (* pinned try_generate_status_details: rename even after a failed write *)
}.

Definition target (x : txn) : path := if inplace x then dst x else tmp x.

Definition body (x : txn) (cs : list string) : list fsop :=
  (Create (target x) :: map (Append (target x)) cs ++ [Close (target x)])%list
  ++ (if inplace x then [] else [Rename (tmp x) (dst x)])%list.

Inductive fault := NoFault | Die (k j : nat) | EIO (k j : nat).

(* what of the faulting operation itself still happens *)
Definition partial (eio : bool) (o : fsop) (j : nat) : list fsop :=
  match o with
  | Append p b => [Append p (take j b)]
  | Close p => if eio then [Close p] else []
  | _ => []
  end.

Definition after_write_fail (x : txn) : list fsop :=
  if inplace x then []
  else if commit_on_write_fail x then [Rename (tmp x) (dst x)]
  else if rm_on_write_fail x then [Remove (tmp x)] else [].

(* the error handling of the updater after operation o raised an I/O error *)
Definition handler (x : txn) (o : fsop) : list fsop :=
  match o with
  | Create _ => []                                   (* nothing was opened; remove/rename of a missing file fail *)
  | Append p _ => (Close p :: after_write_fail x)%list   (* the with-statement closes the file *)
  | Close _ => after_write_fail x
  | Rename _ _ => if rm_on_rename_fail x then [Remove (tmp x)] else []
  | Remove _ => []
  end.

(* operations performed by one call of an updater = a sequence of transactions, each in its own
   try/except, under a fault placed at the k-th operation of the call *)
Fixpoint exec (xs : list txn) (prev_ok : bool) (f : fault) : list fsop :=
  match xs with
  | [] => []
  | x :: r =>
      let ops := body x (chunks x prev_ok) in
      let n := length ops in
      match f with
      | NoFault => (ops ++ exec r true NoFault)%list
      | Die k j => if (k <? n)%nat then (firstn k ops ++ partial false (nth k ops (Close "")) j)%list
                   else (ops ++ exec r true (Die (k - n) j))%list
      | EIO k j => if (k <? n)%nat
                   then (firstn k ops ++ partial true (nth k ops (Close "")) j
                         ++ handler x (nth k ops (Close "")) ++ exec r false NoFault)%list
                   else (ops ++ exec r true (EIO (k - n) j))%list
      end
  end.

Definition concat_str (l : list string) : string := fold_right append "" l.

(* ================================================================ status codec *)
Definition nl : ascii := ascii_of_nat 10.
Definition cr : ascii := ascii_of_nat 13.
Definition bsl : ascii := ascii_of_nat 92.
Definition eqc : ascii := ascii_of_nat 61.
Definition ED : string := "error-description".

Definition hexchar (n : nat) : ascii :=
  if n <? 10 then ascii_of_nat (48 + n) else ascii_of_nat (87 + n).   (* lower case a-f *)

(* str.encode('unicode_escape') for one code point < 256 *)
Definition escape_char (c : ascii) : string :=
  let n := nat_of_ascii c in
  if n =? 92 then String bsl (String bsl "")
  else if n =? 9 then String bsl "t"
  else if n =? 10 then String bsl "n"
  else if n =? 13 then String bsl "r"
  else if (n <? 32) || (126 <? n) then String bsl (String "x" (String (hexchar (n / 16)) (String (hexchar (n mod 16)) "")))
  else String c "".
Fixpoint escape (s : string) : string :=
  match s with "" => "" | String c r => escape_char c ++ escape r end.

Definition hexval (c : ascii) : option nat :=
  let n := nat_of_ascii c in
  if (48 <=? n) && (n <=? 57) then Some (n - 48)
  else if (97 <=? n) && (n <=? 102) then Some (n - 87)
  else if (65 <=? n) && (n <=? 70) then Some (n - 55)
  else None.
Definition octval (c : ascii) : option nat :=
  let n := nat_of_ascii c in if (48 <=? n) && (n <=? 55) then Some (n - 48) else None.

Definition simple_escape (e : ascii) : option ascii :=
  let n := nat_of_ascii e in
  if n =? 92 then Some bsl else if n =? 39 then Some e else if n =? 34 then Some e
  else if n =? 98 then Some (ascii_of_nat 8) else if n =? 102 then Some (ascii_of_nat 12)
  else if n =? 116 then Some (ascii_of_nat 9) else if n =? 110 then Some nl
  else if n =? 114 then Some cr else if n =? 118 then Some (ascii_of_nat 11)
  else if n =? 97 then Some (ascii_of_nat 7) else None.

Definition ocons (c : ascii) (r : option string) : option string := option_map (String c) r.

(* text.encode('utf-8').decode('unicode_escape'): None = UnicodeDecodeError, or an escape whose
   value is a code point > 255 / \u \U \N (outside the model; never produced by [escape]) *)
Fixpoint unescape (s : string) : option string :=
  match s with
  | "" => Some ""
  | String c r =>
      if Ascii.eqb c bsl then
        match r with
        | "" => None                                           (* "\ at end of string" *)
        | String e r2 =>
            match simple_escape e with
            | Some a => ocons a (unescape r2)
            | None =>
                if Ascii.eqb e nl then unescape r2             (* backslash-newline is dropped *)
                else if Ascii.eqb e "x" then
                  match r2 with
                  | String h1 (String h2 r3) =>
                      match hexval h1, hexval h2 with
                      | Some a, Some b => ocons (ascii_of_nat (16 * a + b)) (unescape r3)
                      | _, _ => None
                      end
                  | _ => None
                  end
                else if Ascii.eqb e "u" || Ascii.eqb e "U" || Ascii.eqb e "N" then None
                else match octval e with
                     | Some d1 =>
                         match r2 with
                         | String o2 r3 =>
                             match octval o2 with
                             | Some d2 =>
                                 match r3 with
                                 | String o3 r4 =>
                                     match octval o3 with
                                     | Some d3 => if 8 * (8 * d1 + d2) + d3 <? 256
                                                  then ocons (ascii_of_nat (8 * (8 * d1 + d2) + d3)) (unescape r4)
                                                  else None
                                     | None => ocons (ascii_of_nat (8 * d1 + d2)) (unescape r3)
                                     end
                                 | "" => ocons (ascii_of_nat (8 * d1 + d2)) (unescape r3)
                                 end
                             | None => ocons (ascii_of_nat d1) (unescape r2)
                             end
                         | "" => ocons (ascii_of_nat d1) (unescape r2)
                         end
                     | None => ocons bsl (unescape r)          (* unknown escape: the backslash is kept *)
                     end
            end
        end
      else if 127 <? nat_of_ascii c then                       (* utf-8 bytes read as latin-1 *)
        ocons (ascii_of_nat (192 + nat_of_ascii c / 64)) (ocons (ascii_of_nat (128 + nat_of_ascii c mod 64)) (unescape r))
      else ocons c (unescape r)
  end.

(* str.strip(): Python white space among code points < 256 *)
Definition is_space (c : ascii) : bool :=
  let n := nat_of_ascii c in
  ((9 <=? n) && (n <=? 13)) || ((28 <=? n) && (n <=? 32)) || (n =? 133) || (n =? 160).
Fixpoint lstrip (s : string) : string :=
  match s with String c r => if is_space c then lstrip r else s | "" => "" end.
Definition strip (s : string) : string := rev_str (lstrip (rev_str (lstrip s))).

(* str.lower() on code points < 256 *)
Definition lower1 (c : ascii) : ascii :=
  let n := nat_of_ascii c in
  if ((65 <=? n) && (n <=? 90)) || ((192 <=? n) && (n <=? 222) && negb (n =? 215)) then ascii_of_nat (n + 32) else c.
Fixpoint lower_l1 (s : string) : string :=
  match s with "" => "" | String c r => String (lower1 c) (lower_l1 r) end.

(* reading in text mode: "\r\n" and "\r" become "\n" *)
Fixpoint univ_nl (s : string) : string :=
  match s with
  | "" => ""
  | String c r =>
      if Ascii.eqb c cr then
        match r with
        | String c2 r2 => if Ascii.eqb c2 nl then String nl (univ_nl r2) else String nl (univ_nl r)
        | "" => String nl ""
        end
      else String c (univ_nl r)
  end.

(* Python dict *)
Fixpoint lookup (k : string) (d : list (string * string)) : option string :=
  match d with [] => None | (q, v) :: r => if String.eqb k q then Some v else lookup k r end.
Fixpoint dict_set (k v : string) (d : list (string * string)) : list (string * string) :=
  match d with
  | [] => [(k, v)]
  | (q, w) :: r => if String.eqb k q then (q, v) :: r else (q, w) :: dict_set k v r
  end.

(* sorted(keys) *)
Fixpoint insert_kv (x : string * string) (l : list (string * string)) : list (string * string) :=
  match l with
  | [] => [x]
  | y :: r => if String.leb (fst x) (fst y) then x :: l else y :: insert_kv x r
  end.
Definition sort_keys (d : list (string * string)) : list (string * string) := fold_right insert_kv [] d.

(* Status.writeToStream (after the F14a repair): one write per key, sorted *)
Definition enc_value (k v : string) : string := if String.eqb k ED then escape v else v.
Definition status_line (kv : string * string) : string :=
  fst kv ++ String eqc (enc_value (fst kv) (snd kv)) ++ String nl "".
Definition status_chunks (d : list (string * string)) : list string := map status_line (sort_keys d).
Definition status_print (d : list (string * string)) : string := concat_str (status_chunks d).

(* Status.statusFromFile + Status.__init__ : the key/value pairs that come from the file.
   None = the loader raises (bad escape, no 'stages' line) *)
Definition raw_dict (text : string) : list (string * string) :=
  fold_left (fun d el => match split1 eqc el with Some (k, v) => dict_set k v d | None => d end)
            (split_on nl (univ_nl text)) [].
Definition normalise (raw : list (string * string)) : list (string * string) :=
  fold_left (fun d kv => dict_set (lower_l1 (strip (fst kv))) (strip (snd kv)) d) raw [].
(* before the F14c repair: Status.__init__ strip()ped the un-escaped error description like any other value *)
Definition status_parse_pinned (text : string) : option (list (string * string)) :=
  let raw := raw_dict text in
  let raw' := match lookup ED raw with
              | Some e => option_map (fun e' => dict_set ED e' raw) (unescape e)
              | None => Some raw
              end in
  match raw' with
  | None => None
  | Some r =>
      match lookup "stages" r with
      | None => None
      | Some st => Some (dict_set "stages" (strip st) (normalise r))
      end
  end.
(* after the F14c repair: statusFromFile stores the un-escaped error description into the object after
   Status.__init__ has normalised the other values *)
Definition status_parse (text : string) : option (list (string * string)) :=
  let raw := raw_dict text in
  match lookup ED raw with
  | Some e =>
      match unescape e with
      | None => None
      | Some e' =>
          let r := dict_set ED e' raw in
          match lookup "stages" r with
          | None => None
          | Some st => Some (dict_set ED e' (dict_set "stages" (strip st) (normalise r)))
          end
      end
  | None =>
      match lookup "stages" raw with
      | None => None
      | Some st => Some (dict_set "stages" (strip st) (normalise raw))
      end
  end.

(* the pinned writeToStream stored the escaped text back into the object: state after n updates *)
Definition old_update (d : list (string * string)) : list (string * string) :=
  map (fun kv => (fst kv, enc_value (fst kv) (snd kv))) d.
Fixpoint old_history (n : nat) (d : list (string * string)) : string :=   (* file after n >= 1 updates *)
  match n with
  | O => status_print d
  | S O => status_print d
  | S m => old_history m (old_update d)
  end.

(* ================================================================ the updaters *)
Definition good_txn (t f : path) (cs : bool -> list string) (rmw rmr : bool) : txn :=
  mkTxn t f cs false rmw rmr false.

(* Status.update *)
Definition status_update (d : list (string * string)) : list txn :=
  [good_txn "T1" "status.txt" (fun _ => status_chunks d) false false].

(* OutputAgent.updateLogs: output.txt then output.json (generated from the output.txt on disk) *)
Definition keyout_chunks (r : list string) : list string :=
  (* r = [name; filename; filepath; description; type; creationTime; version; production; final] *)
  match r with
  | [n; fn; fp; de; ty; ct; ve; pr; fi] =>
      ["[" ++ n ++ "]" ++ String nl ""; "filename=" ++ fn ++ String nl ""; "filepath=" ++ fp ++ String nl "";
       "description=" ++ de ++ String nl ""; "type=" ++ ty ++ String nl ""; "creationTime=" ++ ct ++ String nl "";
       "version=" ++ ve ++ String nl ""; "production=" ++ pr ++ String nl ""; "final=" ++ fi ++ String nl "";
       String nl ""]
  | _ => []
  end.
Definition logs_update (recs : list (list string)) (json_new json_old : string) : list txn :=
  [good_txn "T1" "output.txt" (fun _ => flat_map keyout_chunks recs) false true;
   good_txn "T1" "output.json" (fun ok => if ok then [json_new; " "] else [json_old; " "]) false true].

(* StatusMonitor.try_generate_status_details (json.dump chunks are an oracle input) *)
Definition details_update (cs : list string) : list txn :=
  [good_txn "T1" "status_details.json" (fun _ => cs) false false].
Definition details_update_pinned (cs : list string) : list txn :=
  [mkTxn "T1" "status_details.json" (fun _ => cs) false false false true].

(* conf.py after the F14b repair (yaml_dump chunks are an oracle input) *)
Definition store_update (cs : list string) : list txn :=
  [good_txn "T1" "flowir_instance.yaml" (fun _ => cs) true true].
Definition instance_update (ci cm : list string) : list txn :=
  [good_txn "T1" "flowir_instance.yaml" (fun _ => ci) true true;
   good_txn "T2" "manifest.yaml" (fun _ => cm) true true].
Definition store_update_pinned (cs : list string) : list txn :=
  [mkTxn "T1" "flowir_instance.yaml" (fun _ => cs) true false false false].

(* Experiment._store_extracted_input_ids / _store_additional_input_data / _store_extracted_measured_properties
   (output/input-ids.json, additional_input_data.json, properties.csv) after the F14g repair: the same helper
   as conf.py (json.dump / DataFrame.to_csv chunks are an oracle input); before it: written in place *)
Definition file_update (f : path) (cs : list string) : list txn :=
  [good_txn "T1" f (fun _ => cs) true true].
Definition file_update_pinned (f : path) (cs : list string) : list txn :=
  [mkTxn "T1" f (fun _ => cs) true false false false].

(* ================================================================ checkers used by the harness *)
Definition fsop_eqb (a b : fsop) : bool :=
  match a, b with
  | Create p, Create q => String.eqb p q
  | Append p x, Append q y => String.eqb p q && String.eqb x y
  | Close p, Close q => String.eqb p q
  | Rename p p2, Rename q q2 => String.eqb p q && String.eqb p2 q2
  | Remove p, Remove q => String.eqb p q
  | _, _ => false
  end.
Fixpoint list_eqb {A} (e : A -> A -> bool) (a b : list A) : bool :=
  match a, b with
  | [], [] => true
  | x :: r, y :: s => e x y && list_eqb e r s
  | _, _ => false
  end.
Definition ostr_eqb (a b : option string) : bool :=
  match a, b with Some x, Some y => String.eqb x y | None, None => true | _, _ => false end.

(* shape of an operation: the written text is replaced by its length *)
Definition shape (o : fsop) : fsop :=
  match o with Append p b => Append p (dec (N.of_nat (String.length b))) | _ => o end.

(* what was observed in a file after a faulted re-run: absent, the text before the update, the complete
   new text, some other text, or (temporary files) only its length *)
Inductive otag := OAbs | OOld | ONew | OStr (s : string) | OLen (n : nat).
Fixpoint new_of (xs : list txn) (p : path) : option string :=
  match xs with
  | [] => None
  | x :: r => match new_of r p with
              | Some c => Some c
              | None => if String.eqb (dst x) p then Some (concat_str (chunks x true)) else None
              end
  end.
Definition otag_ok (xs : list txn) (s0 s1 : fs) (p : path) (t : otag) : bool :=
  match t with
  | OAbs => match read p s1 with None => true | _ => false end
  | OOld => match read p s1 with Some c => ostr_eqb (Some c) (read p s0) | None => false end
  | ONew => match read p s1 with Some c => ostr_eqb (Some c) (new_of xs p) | None => false end
  | OStr c => ostr_eqb (read p s1) (Some c)
  | OLen n => match read p s1 with Some c => Nat.eqb (String.length c) n | None => false end
  end.

(* one faulted re-run of an update: the fault, the shape of the observed trace, and what was observed
   in every file of interest afterwards *)
Definition fcase := (fault * (list fsop * list (path * otag)))%type.
(* one update: its transactions, the files before, the observed fault-free trace, the faulted re-runs *)
Definition ucase := (list txn * (fs * (list fsop * list fcase)))%type.

Definition check_fault (xs : list txn) (s0 : fs) (c : fcase) : bool :=
  let ops := exec xs true (fst c) in
  list_eqb fsop_eqb (map shape ops) (fst (snd c)) &&
  forallb (fun pc => otag_ok xs s0 (run ops s0) (fst pc) (snd pc)) (snd (snd c)).

Definition check_update (u : ucase) : bool :=
  let xs := fst u in let s0 := fst (snd u) in
  list_eqb fsop_eqb (exec xs true NoFault) (fst (snd (snd u))) &&
  forallb (check_fault xs s0) (snd (snd (snd u))).

(* codec: (text, observed loader result) ; and (dictionary, observed file text) *)
Definition odict_eqb (a b : option (list (string * string))) : bool :=
  match a, b with
  | Some x, Some y => list_eqb (fun p q => String.eqb (fst p) (fst q) && String.eqb (snd p) (snd q)) (sort_keys x) (sort_keys y)
  | None, None => true
  | _, _ => false
  end.
Definition check_parse (c : string * option (list (string * string))) : bool :=
  odict_eqb (status_parse (fst c)) (snd c).
Definition check_print (c : list (string * string) * string) : bool :=
  String.eqb (status_print (fst c)) (snd c).

(* ================================================================ creation of an instance *)
(* Experiment.experimentFromPackage / experimentFromInstance -> Experiment.__init__: the FIRST write of the state
   files, when there is no previous version.  Two phases:
   phase 1 (xs) FlowIRExperimentConfiguration._generate_instance_files: conf/flowir_instance.yaml then
           conf/manifest.yaml, each in its own try/except, the errors are collected; when there is one,
           Experiment.__init__ raises before phase 2, and experimentFromPackage then removes the whole instance
           directory ([wipe] = true; experimentFromInstance leaves the directory as it is: [wipe] = false);
   phase 2 (ys) output/status.txt by Status.update() when the file does not exist; an I/O error is logged and
           the constructor returns.
   A process death is a death wherever it falls. *)
Definition wipe_ops (xs : list txn) : list fsop := map Remove (flat_map (fun x => [tmp x; dst x]) xs).
Definition aborts (xs : list txn) (f : fault) : bool :=
  match f with EIO k _ => k <? length (exec xs true NoFault) | _ => false end.
Definition exec2 (wipe : bool) (xs ys : list txn) (f : fault) : list fsop :=
  if aborts xs f then (exec xs true f ++ (if wipe then wipe_ops (xs ++ ys) else []))%list
  else exec (xs ++ ys)%list true f.

Definition create_conf (ci cm : list string) : list txn :=
  [good_txn "T1" "flowir_instance.yaml" (fun _ => ci) true true;
   good_txn "T2" "manifest.yaml" (fun _ => cm) true true].
(* status.txt is only written when it does not exist yet (otherwise it is loaded) *)
Definition create_status (d : option (list (string * string))) : list txn :=
  match d with
  | Some d => [good_txn "T3" "status.txt" (fun _ => status_chunks d) false false]
  | None => []
  end.

(* one creation: (removes the directory on failure?, phase 1, phase 2), the files before, the observed fault-free
   trace, and per fault: the shape of the observed trace (without the removal of the directory), whether the
   instance directory was gone afterwards, and what was observed in every file of interest *)
Definition kcase := (fault * (list fsop * (bool * list (path * otag))))%type.
Definition ccase := ((bool * (list txn * list txn)) * (fs * (list fsop * list kcase)))%type.

Definition check_create_fault (w : bool) (xs ys : list txn) (s0 : fs) (c : kcase) : bool :=
  let f := fst c in
  list_eqb fsop_eqb (map shape (exec2 false xs ys f)) (fst (snd c)) &&
  Bool.eqb (fst (snd (snd c))) (w && aborts xs f) &&
  forallb (fun pc => otag_ok (xs ++ ys)%list s0 (run (exec2 w xs ys f) s0) (fst pc) (snd pc)) (snd (snd (snd c))).

Definition check_create (u : ccase) : bool :=
  let w := fst (fst u) in let xs := fst (snd (fst u)) in let ys := snd (snd (fst u)) in
  let s0 := fst (snd u) in
  list_eqb fsop_eqb (exec2 w xs ys NoFault) (fst (snd (snd u))) &&
  forallb (check_create_fault w xs ys s0) (snd (snd (snd u))).

(* ================================================================ overlapping updates *)
(* Two updates of state files that OVERLAP inside one process (Status.update has no lock of its own: the
   StatusMonitor thread and the thread that handles a failure / a shutdown signal, each with a Status object on
   the same output/status.txt, or sharing one): the operations of the two calls reach the file system in some
   interleaving, chosen by the scheduler ([true] = the next operation of the first call).  When one call has
   nothing left the other one runs to its end.  The path-level file system above stands for the real one as
   long as no two overlapping updates use the same temporary path (a descriptor that stays open on a path the
   other update truncates or renames is outside it) - which is what the theorems assume and the
   correspondence checks on the recorded traces: every update writes a temporary file of its own. *)
Fixpoint interleave (sch : list bool) (a b : list fsop) : list fsop :=
  match sch with
  | [] => (a ++ b)%list
  | true :: r => match a with o :: a' => o :: interleave r a' b | [] => b end
  | false :: r => match b with o :: b' => o :: interleave r a b' | [] => a end
  end.

(* Status.update of one of two overlapping calls: t = the (canonical) name of ITS temporary file *)
Definition status_update_as (t : path) (d : list (string * string)) : list txn :=
  [good_txn t "status.txt" (fun _ => status_chunks d) false false].
(* the conf.py / interface-file helper, likewise *)
Definition file_update_as (t f : path) (cs : list string) : list txn :=
  [good_txn t f (fun _ => cs) true true].

(* texts of the state file p after every operation of a trace (every one is a point where the process may die) *)
Fixpoint states_after (p : path) (ops : list fsop) (s : fs) : list (option string) :=
  match ops with
  | [] => []
  | o :: r => read p (apply o s) :: states_after p r (apply o s)
  end.

(* one faulted re-run of an overlap: the faults of the two calls (a death of the process = the first n operations
   of the interleaving, the dying call carrying the partial write), the schedule, n, the shape of the observed
   trace and what was observed in the files afterwards *)
Definition ofcase := ((fault * fault) * (list bool * (nat * (list fsop * list (path * otag)))))%type.
(* one overlap: the two updates, the files before, the schedule, the observed fault-free trace, the observed
   text of the state file after each of its operations, the faulted re-runs *)
Definition ovcase :=
  ((list txn * list txn) * (fs * (list bool * (list fsop * ((path * list (option string)) * list ofcase)))))%type.

Definition check_ofault (xs ys : list txn) (s0 : fs) (c : ofcase) : bool :=
  let fa := fst (fst c) in let fb := snd (fst c) in
  let sch := fst (snd c) in let n := fst (snd (snd c)) in
  let ops := firstn n (interleave sch (exec xs true fa) (exec ys true fb)) in
  list_eqb fsop_eqb (map shape ops) (fst (snd (snd (snd c)))) &&
  forallb (fun pc => otag_ok (xs ++ ys)%list s0 (run ops s0) (fst pc) (snd pc)) (snd (snd (snd (snd c)))).

Definition check_overlap (u : ovcase) : bool :=
  let xs := fst (fst u) in let ys := snd (fst u) in
  let s0 := fst (snd u) in let sch := fst (snd (snd u)) in
  let obs := fst (snd (snd (snd u))) in
  let p := fst (fst (snd (snd (snd (snd u))))) in
  let sts := snd (fst (snd (snd (snd (snd u))))) in
  let m := interleave sch (exec xs true NoFault) (exec ys true NoFault) in
  list_eqb fsop_eqb m obs &&
  list_eqb ostr_eqb (states_after p m s0) sts &&
  forallb (check_ofault xs ys s0) (snd (snd (snd (snd (snd u))))).
