(* C14 — Experiment state files are updated atomically and read back faithfully.  Property theorems only. *)
From Coq Require Import String Ascii List Bool Arith.
Import ListNotations.
Require Import V.Lib.PyStr V.Fs.Model V.Fs.Proofs V.Fs.Codec.
Open Scope string_scope.

(* An update made of temp+rename transactions (each: create a temporary file, write it in any number
   of pieces, close it, rename it over the state file; temporary names differ from every state file),
   interrupted by ANY fault - the process dies at operation k after j characters of a write, or
   operation k raises an I/O error and the updater's own error handling (close / remove the temporary
   file, go on with the next transaction) runs - leaves in every file p that is not a temporary file
   either its previous text or the complete text of one of the update's transactions for p. *)
Theorem C14_atomic_tmp_rename : forall xs : list txn, Forall good xs ->
  forall p, (forall x, In x xs -> tmp x <> p) ->
  forall (b : bool) (f : fault) (s : fs),
    read p (run (exec xs b f) s) = read p s \/
    exists c, read p (run (exec xs b f) s) = Some c /\
              exists x b', In x xs /\ dst x = p /\ c = concat_str (chunks x b').
Proof. exact exec_atomic. Qed.
Print Assumptions C14_atomic_tmp_rename.

(* ... files that are neither temporary nor a target are untouched, and without a fault every state
   file ends with its complete new text. *)
Theorem C14_frame_and_completion : forall xs : list txn, Forall good xs ->
  (forall p, (forall x, In x xs -> tmp x <> p /\ dst x <> p) ->
     forall b f s, read p (run (exec xs b f) s) = read p s) /\
  (NoDup (map dst xs) -> (forall x y, In x xs -> In y xs -> tmp x <> dst y) ->
     forall x s, In x xs -> read (dst x) (run (exec xs true NoFault) s) = Some (concat_str (chunks x true))).
Proof. intros xs G. split; [exact (exec_frame xs G)|exact (exec_complete xs G)]. Qed.
Print Assumptions C14_frame_and_completion.

(* The protocols of the five real updaters (the functions compared with the recorded traces) are such
   updates: status.txt, output.txt + output.json, status_details.json, flowir_instance.yaml (+ manifest.yaml). *)
Theorem C14_updaters_follow_the_protocol : forall d recs jn jo cs ci cm,
  let ok xs := Forall good xs /\ forall x y, In x xs -> In y xs -> tmp x <> dst y in
  ok (status_update d) /\ ok (logs_update recs jn jo) /\ ok (details_update cs) /\
  ok (store_update cs) /\ ok (instance_update ci cm).
Proof.
  intros. unfold ok.
  repeat split; try (repeat constructor; try reflexivity; discriminate);
    intros x y Hx Hy; cbn in Hx, Hy;
    repeat (destruct Hx as [<-|Hx]; [|]); try contradiction;
    repeat (destruct Hy as [<-|Hy]; [|]); try contradiction; discriminate.
Qed.
Print Assumptions C14_updaters_follow_the_protocol.

(* The status file codec: a dictionary whose keys are distinct, lower-case, visible ASCII without '=',
   contains 'stages', and whose values have no outer white space and - except error-description, which
   may contain ANY characters - no line break, is read back exactly (as a map), by a loader that succeeds. *)
Theorem C14_codec_roundtrip : forall d, pairs_ok d ->
  status_parse (status_print d) = Some (sort_keys d) /\ forall k, lookup k (sort_keys d) = lookup k d.
Proof. exact codec_roundtrip. Qed.
Print Assumptions C14_codec_roundtrip.

(* the escaping itself, for every string of code points < 256 *)
Theorem C14_escape_roundtrip : forall s, unescape (escape s) = Some s /\ all_chars printable (escape s) = true.
Proof. intros s. split; [apply unescape_escape|apply escape_printable]. Qed.
Print Assumptions C14_escape_roundtrip.

(* Histories: after any number of completed Status.update calls the file parses to the values of the
   last one; a fault during the next update leaves a file that parses to the last or to the next values. *)
Theorem C14_history : forall ds d d' f s, pairs_ok d -> pairs_ok d' ->
  (exists text, read "status.txt" (run (status_history_ops (ds ++ [d])) s) = Some text /\
                status_parse text = Some (sort_keys d)) /\
  (exists text, read "status.txt" (run (exec (status_update d') true f) (run (status_history_ops (ds ++ [d])) s)) = Some text /\
                (status_parse text = Some (sort_keys d) \/ status_parse text = Some (sort_keys d'))).
Proof. intros. split; [apply history_last; assumption|apply history_fault; assumption]. Qed.
Print Assumptions C14_history.

(* non-vacuity: a dictionary with a nasty error description satisfies the guard and round-trips; an I/O
   error in the middle of the second write of the next update leaves the previous status.txt *)
Definition ex_d : list (string * string) :=
  [("stages", "['stage0', 'stage1']"); ("exit-status", "a = b \ c");
   (ED, String "a" (String nl (String bsl (String "n" (String (ascii_of_nat 133) (String "=" (String (ascii_of_nat 0) "b")))))))].
Example C14_nonvacuous :
  pairs_ok ex_d /\
  status_parse (status_print ex_d) = Some (sort_keys ex_d) /\
  read "status.txt" (run (exec (status_update ex_d) true (EIO 2 3)) [("status.txt", "old")]) = Some "old" /\
  exec (status_update [("stages", "[]")]) true (EIO 1 3) = [Create "T1"; Append "T1" "sta"; Close "T1"].
Proof.
  split; [|split; [|split]]; try reflexivity.
  unfold pairs_ok, ex_d. split; [|split].
  - repeat constructor; cbn; intuition discriminate.
  - left. reflexivity.
  - intros k v H. cbn in H. destruct H as [H|[H|[H|[]]]]; inversion H; subst; split; try reflexivity;
      split; try reflexivity; intros N; try reflexivity; exfalso; apply N; reflexivity.
Qed.
