(* C14 — Experiment state files are updated atomically and read back faithfully.  Property theorems only. *)
From Coq Require Import String Ascii List Bool Arith.
Import ListNotations.
From Coq Require Import NArith.
Require Import V.Lib.PyStr V.Fs.Model V.Fs.Proofs V.Fs.Codec V.Fs.Wide V.Fs.Create V.Fs.Overlap.
Open Scope string_scope.

(* An update made of temp+rename transactions (each: create a temporary file, write it in any number
   of pieces, close it, rename it over the state file; temporary names differ from every state file),
   interrupted by ANY fault - the process dies at operation k after j characters of a write, or
   operation k raises an I/O error and the updater's own error handling (close / remove the temporary
   file, go on with the next transaction) runs - leaves in every file p that is not a temporary file
   either its previous text or the complete text of one of the update's transactions for p. *)
Theorem C14_atomic_tmp_rename : forall xs : list txn, Forall good xs ->
  forall p, (forall x, In x xs -> tmp x <> p) ->
  forall (b : bool) (f : fault) (s : fs),
    read p (run (exec xs b f) s) = read p s \/
    exists c, read p (run (exec xs b f) s) = Some c /\
              exists x b', In x xs /\ dst x = p /\ c = concat_str (chunks x b').
Proof. exact exec_atomic. Qed.
Print Assumptions C14_atomic_tmp_rename.

(* ... files that are neither temporary nor a target are untouched, and without a fault every state
   file ends with its complete new text. *)
Theorem C14_frame_and_completion : forall xs : list txn, Forall good xs ->
  (forall p, (forall x, In x xs -> tmp x <> p /\ dst x <> p) ->
     forall b f s, read p (run (exec xs b f) s) = read p s) /\
  (NoDup (map dst xs) -> (forall x y, In x xs -> In y xs -> tmp x <> dst y) ->
     forall x s, In x xs -> read (dst x) (run (exec xs true NoFault) s) = Some (concat_str (chunks x true))).
Proof. intros xs G. split; [exact (exec_frame xs G)|exact (exec_complete xs G)]. Qed.
Print Assumptions C14_frame_and_completion.

(* The protocols of the real updaters (the functions compared with the recorded traces) are such updates:
   status.txt, output.txt + output.json, status_details.json, flowir_instance.yaml (+ manifest.yaml), and the
   interface files output/input-ids.json, additional_input_data.json, properties.csv (any file name). *)
Theorem C14_updaters_follow_the_protocol : forall d recs jn jo cs ci cm,
  let ok xs := Forall good xs /\ forall x y, In x xs -> In y xs -> tmp x <> dst y in
  ok (status_update d) /\ ok (logs_update recs jn jo) /\ ok (details_update cs) /\
  ok (store_update cs) /\ ok (instance_update ci cm) /\
  (forall f, "T1" <> f -> ok (file_update f cs)).
Proof.
  intros. unfold ok.
  split; [|split; [|split; [|split; [|split]]]];
  try (split; [repeat constructor; try reflexivity; discriminate|
    intros x y Hx Hy; cbn in Hx, Hy;
    repeat (destruct Hx as [<-|Hx]; [|]); try contradiction;
    repeat (destruct Hy as [<-|Hy]; [|]); try contradiction; discriminate]).
  intros f Hf. split.
  - repeat constructor; try reflexivity. exact Hf.
  - intros x y [<-|[]] [<-|[]]. exact Hf.
Qed.
Print Assumptions C14_updaters_follow_the_protocol.

(* The status file codec: a dictionary whose keys are distinct, lower-case, visible ASCII without '=',
   contains 'stages', and whose values other than error-description have no outer white space and no line
   break, is read back exactly (as a map), by a loader that succeeds.  error-description is ANY text
   (pairs_ok puts no condition on it since the F14c repair: outer white space and line breaks included). *)
Theorem C14_codec_roundtrip : forall d, pairs_ok d ->
  status_parse (status_print d) = Some (sort_keys d) /\ forall k, lookup k (sort_keys d) = lookup k d.
Proof. exact codec_roundtrip. Qed.
Print Assumptions C14_codec_roundtrip.

(* the escaping itself, for every string of code points < 256 *)
Theorem C14_escape_roundtrip : forall s, unescape (escape s) = Some s /\ all_chars printable (escape s) = true.
Proof. intros s. split; [apply unescape_escape|apply escape_printable]. Qed.
Print Assumptions C14_escape_roundtrip.

(* the escaping over ALL code points of a Python str (0 .. 0x10FFFF; \xhh, \uhhhh, \Uhhhhhhhh): the loader's
   text.encode('utf-8').decode('unicode_escape') gives back the string the writer escaped, and the escaped
   text is printable ASCII - one line of the file, whatever the description contains; on code points
   < 256 it is the escape of the file-level model above. *)
Theorem C14_escape_roundtrip_all_code_points : forall s : list N, Forall (fun n => (n < 1114112)%N) s ->
  unescape_text (wide (escape_w s)) = Some s /\ all_chars printable (escape_w s) = true /\
  forall t : string, escape_w (wide t) = escape t.
Proof.
  intros s V. destruct (escape_roundtrip_wide s V) as [A B]. split; [exact A|split; [exact B|exact escape_w_narrow]].
Qed.
Print Assumptions C14_escape_roundtrip_all_code_points.

(* Histories: after any number of completed Status.update calls the file parses to the values of the
   last one; a fault during the next update leaves a file that parses to the last or to the next values. *)
Theorem C14_history : forall ds d d' f s, pairs_ok d -> pairs_ok d' ->
  (exists text, read "status.txt" (run (status_history_ops (ds ++ [d])) s) = Some text /\
                status_parse text = Some (sort_keys d)) /\
  (exists text, read "status.txt" (run (exec (status_update d') true f) (run (status_history_ops (ds ++ [d])) s)) = Some text /\
                (status_parse text = Some (sort_keys d) \/ status_parse text = Some (sort_keys d'))).
Proof. intros. split; [apply history_last; assumption|apply history_fault; assumption]. Qed.
Print Assumptions C14_history.

(* ... and ANY number of further update attempts, each one completed or hit by any fault (followed by the
   updater's error handling; the next attempt is made by the same object or by a restart that read the
   file), in any interleaving: the file is the complete print of one value set d that was submitted - the
   one of the last completed update or of a faulted attempt after it ([candidates]) -, it loads, and reads
   back exactly d.  When the last attempt completes, d is that attempt's values. *)
Theorem C14_history_any_faults : forall ds d0 (l : list attempt) s,
  pairs_ok d0 -> Forall (fun a : attempt => pairs_ok (fst a)) l ->
  (exists d, In d (candidates [d0] l) /\
     read "status.txt" (run_attempts l (run (status_history_ops (ds ++ [d0])) s)) = Some (status_print d) /\
     status_parse (status_print d) = Some (sort_keys d) /\ forall k, lookup k (sort_keys d) = lookup k d) /\
  (forall l' d acc, candidates acc (l' ++ [(d, NoFault)]) = [d]).
Proof.
  intros. split; [apply history_attempts; assumption|intros; apply candidates_snoc_complete].
Qed.
Print Assumptions C14_history_any_faults.

(* The CREATION path: the first write of the state files, when an instance is created
   (Experiment.experimentFromPackage: w = true) or an instance that lacks some of them is opened
   (Experiment.experimentFromInstance: w = false) - two phases, xs = the configuration files (an I/O error
   there gives the creation up: phase 2 is not reached and, for w = true, the instance directory is removed),
   ys = status.txt.  After ANY fault every file that is not a temporary file holds what it held before
   (for a new instance: it does not exist), or does not exist, or holds the complete text of one of the
   transactions for it - never part of a text. *)
Theorem C14_creation_atomic : forall (w : bool) (xs ys : list txn), Forall good (xs ++ ys) ->
  forall p, (forall x, In x (xs ++ ys) -> tmp x <> p) ->
  forall (f : fault) (s : fs),
    let s' := run (exec2 w xs ys f) s in
    read p s' = read p s \/ read p s' = None \/
    exists c, read p s' = Some c /\ exists x b', In x (xs ++ ys) /\ dst x = p /\ c = concat_str (chunks x b').
Proof. exact exec2_atomic. Qed.
Print Assumptions C14_creation_atomic.

(* ... opening an existing instance never loses a state file (previous or complete new); a creation that is
   given up leaves no state file at all; a creation that is not interrupted writes every state file completely. *)
Theorem C14_creation_reopen_abort_complete : forall (xs ys : list txn), Forall good (xs ++ ys) ->
  (forall p, (forall x, In x (xs ++ ys) -> tmp x <> p) -> forall f s,
     read p (run (exec2 false xs ys f) s) = read p s \/
     exists c, read p (run (exec2 false xs ys f) s) = Some c /\
               exists x b', In x (xs ++ ys) /\ dst x = p /\ c = concat_str (chunks x b')) /\
  (forall f s, aborts xs f = true -> forall x, In x (xs ++ ys) -> read (dst x) (run (exec2 true xs ys f) s) = None) /\
  (NoDup (map dst (xs ++ ys)) -> (forall x y, In x (xs ++ ys) -> In y (xs ++ ys) -> tmp x <> dst y) ->
     forall w x s, In x (xs ++ ys) -> read (dst x) (run (exec2 w xs ys NoFault) s) = Some (concat_str (chunks x true))).
Proof.
  intros xs ys G. split; [|split].
  - intros p Hp f s. exact (exec2_reopen xs ys G p Hp f s).
  - intros f s A x Hx. exact (exec2_abort_removes xs ys f s A x Hx).
  - intros N T w x s Hx. exact (exec2_complete w xs ys G N T x s Hx).
Qed.
Print Assumptions C14_creation_reopen_abort_complete.

(* the protocol of the real creation path (compared with the recorded traces of Experiment.experimentFromPackage /
   experimentFromInstance) meets these hypotheses, and no temporary file is a state file *)
Theorem C14_creation_follows_the_protocol : forall ci cm d,
  let zs := (create_conf ci cm ++ create_status d)%list in
  Forall good zs /\ NoDup (map dst zs) /\ (forall x y, In x zs -> In y zs -> tmp x <> dst y) /\
  (forall x, In x zs -> tmp x <> "flowir_instance.yaml" /\ tmp x <> "manifest.yaml" /\ tmp x <> "status.txt").
Proof. exact creation_good. Qed.
Print Assumptions C14_creation_follows_the_protocol.

(* OVERLAPPING updates: two updates (xs, ys: e.g. two Status.update calls on the same output/status.txt from two
   threads of one process - Status.update takes no lock) whose operations reach the file system in ANY
   interleaving sch, each of them hit by any fault (or none), the process dying after any number n of
   operations of the interleaving: PROVIDED every update writes temporary files of its own (no temporary path
   of one is a temporary path of the other, none is a state file), every file that is not a temporary file holds
   at every moment its previous text or the complete text of one of the transactions of the two updates. *)
Theorem C14_overlap_atomic : forall xs ys : list txn, Forall good xs -> Forall good ys ->
  (forall x y, In x xs -> In y ys -> tmp x <> tmp y) ->
  (forall x y, In x (xs ++ ys) -> In y (xs ++ ys) -> tmp x <> dst y) ->
  forall p, (forall x, In x (xs ++ ys) -> tmp x <> p) ->
  forall (ba bb : bool) (fa fb : fault) (sch : list bool) (n : nat) (s : fs),
    let s' := run (firstn n (interleave sch (exec xs ba fa) (exec ys bb fb))) s in
    read p s' = read p s \/
    exists c, read p s' = Some c /\ exists x b', In x (xs ++ ys) /\ dst x = p /\ c = concat_str (chunks x b').
Proof. exact overlap_atomic. Qed.
Print Assumptions C14_overlap_atomic.

(* ... and when neither of the two overlapping updates is hit by a fault, whatever the interleaving, every state
   file one of them targets ends with a complete NEW version (that of the update that renamed last). *)
Theorem C14_overlap_complete : forall xs ys : list txn, Forall good xs -> Forall good ys ->
  (forall x y, In x xs -> In y ys -> tmp x <> tmp y) ->
  (forall x y, In x (xs ++ ys) -> In y (xs ++ ys) -> tmp x <> dst y) ->
  forall x, In x (xs ++ ys) -> forall (sch : list bool) (s : fs),
    exists c, read (dst x) (run (interleave sch (exec xs true NoFault) (exec ys true NoFault)) s) = Some c /\
              exists z b', In z (xs ++ ys) /\ dst z = dst x /\ c = concat_str (chunks z b').
Proof. exact overlap_complete. Qed.
Print Assumptions C14_overlap_complete.

(* the protocol of two overlapping real updates (compared with the recorded traces: the temporary files of the two
   calls are named after the call that opened them first) meets these hypotheses as soon as the two temporary
   names differ and are not the state file *)
Theorem C14_overlap_follows_the_protocol : forall t u f da db ca cb, t <> u -> t <> f -> u <> f ->
  t <> "status.txt" -> u <> "status.txt" ->
  let ok xs ys := Forall good xs /\ Forall good ys /\ (forall x y, In x xs -> In y ys -> tmp x <> tmp y) /\
                  (forall x y, In x (xs ++ ys) -> In y (xs ++ ys) -> tmp x <> dst y) in
  ok (status_update_as t da) (status_update_as u db) /\ ok (file_update_as t f ca) (file_update_as u f cb).
Proof.
  intros t u f da db ca cb Htu Htf Huf Hts Hus ok. unfold ok.
  split; (split; [repeat constructor; try reflexivity; assumption|
          split; [repeat constructor; try reflexivity; assumption|
          split; [intros x y [<-|[]] [<-|[]]; exact Htu|
                  intros x y [<-|[<-|[]]] [<-|[<-|[]]]; cbn; assumption]]]).
Qed.
Print Assumptions C14_overlap_follows_the_protocol.

(* non-vacuity: a dictionary with a nasty error description (outer blanks, line breaks, backslashes, NUL,
   NEL) satisfies the guard and round-trips; an I/O error in the middle of the second write of the next
   update leaves the previous status.txt; a history of faulted and completed attempts; a description with
   code points above 255 *)
Definition ex_d : list (string * string) :=
  [("stages", "['stage0', 'stage1']"); ("exit-status", "a = b \ c");
   (ED, String " " (String "a" (String nl (String bsl (String "n" (String (ascii_of_nat 133) (String "=" (String (ascii_of_nat 0) (String "b" (String nl ""))))))))))].
Definition ex_d2 : list (string * string) := [("stages", "['stage0', 'stage1']"); ("exit-status", "Failed")].
Definition ex_d3 : list (string * string) := [("stages", "['stage0', 'stage1']"); ("exit-status", "Succes")].
Definition ex_sch : list bool := [true; false; false; false; false; false].
Definition ex_overlap : list fsop :=
  interleave ex_sch (exec (status_update_as "T1" ex_d3) true NoFault) (exec (status_update_as "U1" ex_d2) true NoFault).
Definition ex_conf : list txn := create_conf ["components:"; " []"] ["conf:"; " c"].
Definition ex_status : list txn := create_status (Some ex_d2).
Definition ex_files : list string := ["flowir_instance.yaml"; "manifest.yaml"; "status.txt"].
Example C14_nonvacuous :
  pairs_ok ex_d /\ pairs_ok ex_d2 /\
  status_parse (status_print ex_d) = Some (sort_keys ex_d) /\
  read "status.txt" (run (exec (status_update ex_d) true (EIO 2 3)) [("status.txt", "old")]) = Some "old" /\
  exec (status_update [("stages", "[]")]) true (EIO 1 3) = [Create "T1"; Append "T1" "sta"; Close "T1"] /\
  candidates [ex_d] [(ex_d2, Die 1 2); (ex_d, NoFault); (ex_d2, EIO 3 0); (ex_d2, Die 4 0)] = [ex_d2; ex_d2; ex_d] /\
  read "status.txt" (run_attempts [(ex_d2, Die 1 2); (ex_d, NoFault); (ex_d2, EIO 3 0); (ex_d2, Die 4 0)] []) = Some (status_print ex_d) /\
  escape_w [10%N; 233%N; 256%N; 8364%N; 128512%N] = "\n\xe9\u0100\u20ac\U0001f600" /\
  unescape_text (wide (escape_w [10%N; 233%N; 256%N; 8364%N; 128512%N; 55296%N; 1114111%N])) = Some [10%N; 233%N; 256%N; 8364%N; 128512%N; 55296%N; 1114111%N] /\
  (* creation of a new instance: not interrupted; death inside the first write of status.txt; I/O error in
     manifest.yaml (the creation is given up, the directory removed); the same when the instance is reopened *)
  map (fun p => read p (run (exec2 true ex_conf ex_status NoFault) [])) ex_files
    = [Some "components: []"; Some "conf: c"; Some (status_print ex_d2)] /\
  map (fun p => read p (run (exec2 true ex_conf ex_status (Die 11 3)) [])) ex_files
    = [Some "components: []"; Some "conf: c"; None] /\
  aborts ex_conf (EIO 6 2) = true /\
  map (fun p => read p (run (exec2 true ex_conf ex_status (EIO 6 2)) [])) ex_files = [None; None; None] /\
  map (fun p => read p (run (exec2 false ex_conf ex_status (EIO 6 2)) [("manifest.yaml", "old")])) ex_files
    = [Some "components: []"; Some "old"; None] /\
  (* two overlapping Status.update calls: the second runs completely between the open and the first write of the
     first; the text of status.txt after each operation; and an I/O error in the second write of the first call *)
  map shape ex_overlap = [Create "T1"; Create "U1"; Append "U1" "19"; Append "U1" "28"; Close "U1";
                          Rename "U1" "status.txt"; Append "T1" "19"; Append "T1" "28"; Close "T1"; Rename "T1" "status.txt"] /\
  states_after "status.txt" ex_overlap [("status.txt", "old")]
    = [Some "old"; Some "old"; Some "old"; Some "old"; Some "old"; Some (status_print ex_d2); Some (status_print ex_d2);
       Some (status_print ex_d2); Some (status_print ex_d2); Some (status_print ex_d3)] /\
  read "status.txt" (run (interleave ex_sch (exec (status_update_as "T1" ex_d3) true (EIO 2 4)) (exec (status_update_as "U1" ex_d2) true NoFault))
                         [("status.txt", "old")]) = Some (status_print ex_d2).
Proof.
  assert (P1 : pairs_ok ex_d).
  { unfold pairs_ok, ex_d. split; [|split].
    - repeat constructor; cbn; intuition discriminate.
    - left. reflexivity.
    - intros k v H. cbn in H. destruct H as [H|[H|[H|[]]]]; inversion H; subst; split; try reflexivity;
        intros N; try (split; reflexivity); exfalso; apply N; reflexivity. }
  assert (P2 : pairs_ok ex_d2).
  { unfold pairs_ok, ex_d2. split; [|split].
    - repeat constructor; cbn; intuition discriminate.
    - left. reflexivity.
    - intros k v H. cbn in H. destruct H as [H|[H|[]]]; inversion H; subst; split; try reflexivity;
        intros N; split; reflexivity. }
  split; [exact P1|split; [exact P2|]]. repeat split; vm_compute; reflexivity.
Qed.
