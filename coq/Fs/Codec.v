(* C14 — proofs over the model: round trip of the status codec. *)
From Coq Require Import String Ascii List Bool Arith Lia Permutation.
Import ListNotations.
Require Import V.Lib.PyStr V.Fs.Model V.Fs.Proofs.
Open Scope string_scope.
Open Scope nat_scope.

(* ================================================================ codec: lines *)
Definition nonl (c : ascii) : bool := negb (Ascii.eqb c nl).
Definition nocr (c : ascii) : bool := negb (Ascii.eqb c cr).
Definition clean (c : ascii) : bool := nonl c && nocr c.
Definition noeq (c : ascii) : bool := negb (Ascii.eqb c eqc).
Definition nsp (c : ascii) : bool := negb (is_space c).
(* characters of a key: visible ASCII, not '=', not upper case *)
Definition key_char (c : ascii) : bool :=
  let n := nat_of_ascii c in (33 <=? n) && (n <=? 126) && negb (n =? 61) && negb ((65 <=? n) && (n <=? 90)).

Lemma key_char_facts c : key_char c = true -> clean c = true /\ noeq c = true /\ nsp c = true /\ lower1 c = c.
Proof.
  destruct c as [[] [] [] [] [] [] [] []]; vm_compute; intros H; try discriminate H; repeat split; reflexivity.
Qed.

Lemma printable_clean c : printable c = true -> clean c = true.
Proof.
  destruct c as [[] [] [] [] [] [] [] []]; vm_compute; intros H; try discriminate H; reflexivity.
Qed.

Lemma all_chars_impl (p q : ascii -> bool) s : (forall c, p c = true -> q c = true) ->
  all_chars p s = true -> all_chars q s = true.
Proof.
  intros I. induction s as [|c r IH]; cbn; [reflexivity|].
  intros H. apply andb_true_iff in H as [H1 H2]. rewrite (I c H1), (IH H2). reflexivity.
Qed.

Lemma univ_nl_id s : all_chars nocr s = true -> univ_nl s = s.
Proof.
  induction s as [|c r IH]; [reflexivity|]. cbn [all_chars univ_nl]. intros H. apply andb_true_iff in H as [H1 H2].
  unfold nocr in H1. destruct (Ascii.eqb c cr); [discriminate|]. rewrite IH by exact H2. reflexivity.
Qed.

Lemma split_on_aux_line a : forall acc r, all_chars nonl a = true ->
  split_on_aux nl acc (a ++ String nl r) = (acc ++ a) :: split_on_aux nl "" r.
Proof.
  induction a as [|c a IH]; intros acc r H.
  - cbn [append split_on_aux]. rewrite Ascii.eqb_refl, append_nil_r. reflexivity.
  - cbn [all_chars] in H. apply andb_true_iff in H as [H1 H2]. cbn [append split_on_aux].
    unfold nonl in H1. destruct (Ascii.eqb c nl); [discriminate|].
    rewrite IH by exact H2. rewrite append_assoc. reflexivity.
Qed.

Lemma split1_line k e : all_chars noeq k = true -> split1 eqc (k ++ String eqc e) = Some (k, e).
Proof.
  induction k as [|c k IH]; intros H.
  - cbn [append split1]. rewrite Ascii.eqb_refl. reflexivity.
  - cbn [all_chars] in H. apply andb_true_iff in H as [H1 H2]. cbn [append split1].
    unfold noeq in H1. destruct (Ascii.eqb c eqc); [discriminate|]. rewrite IH by exact H2. reflexivity.
Qed.

(* ---- strip / lower *)
Lemma rev_str_app a b : rev_str (a ++ b) = rev_str b ++ rev_str a.
Proof.
  induction a as [|c a IH]; cbn; [rewrite append_nil_r; reflexivity|]. rewrite IH, append_assoc. reflexivity.
Qed.

Lemma rev_str_invol s : rev_str (rev_str s) = s.
Proof. induction s as [|c s IH]; cbn; [reflexivity|]. rewrite rev_str_app, IH. reflexivity. Qed.

Lemma all_chars_rev p s : all_chars p (rev_str s) = all_chars p s.
Proof.
  induction s as [|c s IH]; cbn; [reflexivity|]. rewrite all_chars_app, IH. cbn. rewrite andb_true_r. apply andb_comm.
Qed.

Lemma lstrip_id t : all_chars nsp t = true -> lstrip t = t.
Proof.
  destruct t as [|c t]; cbn; [reflexivity|]. intros H. apply andb_true_iff in H as [H _].
  unfold nsp in H. destruct (is_space c); [discriminate|reflexivity].
Qed.

Lemma strip_id s : all_chars nsp s = true -> strip s = s.
Proof.
  intros H. unfold strip. rewrite (lstrip_id s H). rewrite lstrip_id by (rewrite all_chars_rev; exact H).
  apply rev_str_invol.
Qed.

Lemma lower_id s : all_chars key_char s = true -> lower_l1 s = s.
Proof.
  induction s as [|c s IH]; cbn; [reflexivity|]. intros H. apply andb_true_iff in H as [H1 H2].
  rewrite IH by exact H2. destruct (key_char_facts c H1) as [_ [_ [_ ->]]]. reflexivity.
Qed.

(* ---- dictionaries *)
Lemma dict_set_fresh k v d : ~ In k (map fst d) -> dict_set k v d = (d ++ [(k, v)])%list.
Proof.
  induction d as [|[q w] r IH]; cbn; intros H; [reflexivity|].
  destruct (String.eqb k q) eqn:E.
  - apply String.eqb_eq in E. exfalso. apply H. left. symmetry. exact E.
  - rewrite IH; [reflexivity|]. intros I. apply H. right. exact I.
Qed.

Lemma dict_set_same k v d : lookup k d = Some v -> dict_set k v d = d.
Proof.
  induction d as [|[q w] r IH]; cbn; [discriminate|].
  destruct (String.eqb k q) eqn:E; intros H.
  - inversion H. reflexivity.
  - rewrite IH by exact H. reflexivity.
Qed.

Lemma lookup_in k d : In k (map fst d) -> exists v, lookup k d = Some v.
Proof.
  induction d as [|[q w] r IH]; cbn; [intros []|]. intros [H|H].
  - subst q. rewrite String.eqb_refl. eauto.
  - destruct (String.eqb k q); [eauto|apply IH; exact H].
Qed.

Lemma lookup_In k v d : lookup k d = Some v -> In (k, v) d.
Proof.
  induction d as [|[q w] r IH]; cbn; [discriminate|].
  destruct (String.eqb k q) eqn:E; intros H.
  - apply String.eqb_eq in E. inversion H. subst. left. reflexivity.
  - right. apply IH. exact H.
Qed.

Lemma lookup_none k d : lookup k d = None -> ~ In k (map fst d).
Proof.
  intros H I. apply lookup_in in I as [v I]. congruence.
Qed.

(* building a dictionary from pairs with distinct keys keeps them in order *)
Lemma fold_pairs {A} (h : A -> option (string * string)) (l : list A) (ps : list (string * string)) :
  map h l = map Some ps -> NoDup (map fst ps) -> forall acc,
  (forall k, In k (map fst ps) -> ~ In k (map fst acc)) ->
  fold_left (fun d a => match h a with Some (k, v) => dict_set k v d | None => d end) l acc = (acc ++ ps)%list.
Proof.
  revert ps. induction l as [|a l IH]; intros ps Hm ND acc Hd.
  - destruct ps; [|discriminate]. cbn. rewrite app_nil_r. reflexivity.
  - destruct ps as [|[k v] ps]; [discriminate|]. cbn in Hm. injection Hm as Ha Hm. cbn [fold_left]. rewrite Ha.
    inversion ND as [|? ? Hn ND']; subst.
    rewrite dict_set_fresh by (apply Hd; left; reflexivity).
    rewrite (IH ps Hm ND').
    + rewrite <- app_assoc. reflexivity.
    + intros q Hq I. rewrite map_app in I. apply in_app_or in I as [I|I].
      * apply (Hd q); [right; exact Hq|exact I].
      * cbn in I. destruct I as [I|[]]. subst q. apply Hn. exact Hq.
Qed.

(* ---- the encoded pairs *)
Definition encp (kv : string * string) : string * string := (fst kv, enc_value (fst kv) (snd kv)).
Definition line' (kv : string * string) : string := fst kv ++ String eqc (enc_value (fst kv) (snd kv)).

Lemma status_line_eq kv : status_line kv = line' kv ++ String nl "".
Proof. unfold status_line, line'. rewrite append_assoc. reflexivity. Qed.

Lemma encp_id s : ~ In ED (map fst s) -> map encp s = s.
Proof.
  induction s as [|[k v] r IH]; intros H; [reflexivity|]. cbn [map fst] in *.
  change (encp (k, v)) with (k, enc_value k v).
  rewrite IH by (intros I; apply H; right; exact I).
  unfold enc_value. destruct (String.eqb k ED) eqn:E; [|reflexivity].
  apply String.eqb_eq in E. exfalso. apply H. left. exact E.
Qed.

Lemma lookup_encp s : lookup ED (map encp s) = option_map escape (lookup ED s).
Proof.
  induction s as [|[k v] r IH]; [reflexivity|].
  cbn [map]. change (encp (k, v)) with (k, enc_value k v). cbn [lookup].
  destruct (String.eqb ED k) eqn:E; [|exact IH].
  apply String.eqb_eq in E. subst k. unfold enc_value. rewrite String.eqb_refl. reflexivity.
Qed.

Lemma dict_set_decode s v : NoDup (map fst s) -> lookup ED s = Some v -> dict_set ED v (map encp s) = s.
Proof.
  induction s as [|[k w] r IH]; [intros _ H; discriminate H|]. cbn [map fst lookup]. intros ND H.
  inversion ND as [|? ? Hn ND']; subst.
  change (encp (k, w)) with (k, enc_value k w). cbn [dict_set].
  destruct (String.eqb ED k) eqn:E.
  - apply String.eqb_eq in E. subst k. inversion H. subst w. rewrite encp_id by exact Hn. reflexivity.
  - rewrite IH by assumption. unfold enc_value. rewrite String.eqb_sym, E. reflexivity.
Qed.

(* ---- Status.__init__ strips every value; statusFromFile then restores the error description *)
Definition stripv (kv : string * string) : string * string := (fst kv, strip (snd kv)).

Lemma lookup_stripv k s : lookup k (map stripv s) = option_map strip (lookup k s).
Proof.
  induction s as [|[q w] r IH]; [reflexivity|]. cbn [map]. change (stripv (q, w)) with (q, strip w). cbn [lookup].
  destruct (String.eqb k q); [reflexivity|exact IH].
Qed.

Lemma stripv_id s : (forall k v, In (k, v) s -> strip v = v) -> map stripv s = s.
Proof.
  induction s as [|[k v] r IH]; intros H; [reflexivity|]. cbn [map]. change (stripv (k, v)) with (k, strip v).
  rewrite (H k v) by (left; reflexivity). rewrite IH; [reflexivity|]. intros q w Hin. apply (H q w). right. exact Hin.
Qed.

Lemma restore_ed s v : NoDup (map fst s) -> lookup ED s = Some v ->
  (forall k w, In (k, w) s -> k <> ED -> strip w = w) -> dict_set ED v (map stripv s) = s.
Proof.
  induction s as [|[k w] r IH]; [intros _ H; discriminate H|]. cbn [map fst lookup]. intros ND H Hs.
  inversion ND as [|? ? Hn ND']; subst.
  change (stripv (k, w)) with (k, strip w). cbn [dict_set].
  destruct (String.eqb ED k) eqn:E.
  - apply String.eqb_eq in E. subst k. inversion H. subst w. rewrite stripv_id; [reflexivity|].
    intros q u Hin. apply (Hs q u); [right; exact Hin|]. intros E. subst q. apply Hn. apply (in_map fst) in Hin. exact Hin.
  - apply String.eqb_neq in E. rewrite (Hs k w) by (try (left; reflexivity); congruence).
    rewrite IH; [reflexivity|exact ND'|exact H|]. intros q u Hin. apply (Hs q u). right. exact Hin.
Qed.

(* ---- the guard *)
Definition key_ok (k : string) : Prop := all_chars key_char k = true.
(* error-description: ANY text; any other value: no outer white space, no line break *)
Definition value_ok (k v : string) : Prop :=
  k <> ED -> strip v = v /\ all_chars clean v = true.
Definition pairs_ok (d : list (string * string)) : Prop :=
  NoDup (map fst d) /\ In "stages" (map fst d) /\ forall k v, In (k, v) d -> key_ok k /\ value_ok k v.

Lemma line_clean k v : key_ok k -> value_ok k v -> all_chars clean (line' (k, v)) = true.
Proof.
  intros Hk Hv. unfold line'. cbn [fst snd]. rewrite all_chars_app. apply andb_true_iff. split.
  - eapply all_chars_impl; [|exact Hk]. intros c Hc. apply key_char_facts. exact Hc.
  - cbn [all_chars]. apply andb_true_iff. split; [reflexivity|]. unfold enc_value. destruct (String.eqb k ED) eqn:E.
    + eapply all_chars_impl; [apply printable_clean|apply escape_printable].
    + apply String.eqb_neq in E. exact (proj2 (Hv E)).
Qed.

Lemma text_lines s : (forall kv, In kv s -> all_chars clean (line' kv) = true) ->
  all_chars nocr (concat_str (map status_line s)) = true /\
  split_on_aux nl "" (concat_str (map status_line s)) = (map line' s ++ [""])%list.
Proof.
  induction s as [|kv r IH]; intros H; [split; reflexivity|].
  destruct IH as [I1 I2]; [intros x Hx; apply H; right; exact Hx|].
  assert (Hc : all_chars clean (line' kv) = true) by (apply H; left; reflexivity).
  cbn [map concat_str fold_right]. change (fold_right append "" (map status_line r)) with (concat_str (map status_line r)).
  rewrite status_line_eq. rewrite append_assoc. cbn [append]. split.
  - rewrite all_chars_app. apply andb_true_iff. split.
    + eapply all_chars_impl; [|exact Hc]. intros c Q. unfold clean in Q. apply andb_true_iff in Q. apply Q.
    + cbn [all_chars]. rewrite I1. reflexivity.
  - rewrite split_on_aux_line.
    + cbn [append]. rewrite I2. reflexivity.
    + eapply all_chars_impl; [|exact Hc]. intros c Q. unfold clean in Q. apply andb_true_iff in Q. apply Q.
Qed.

Theorem parse_print_pairs s : pairs_ok s -> status_parse (concat_str (map status_line s)) = Some s.
Proof.
  intros [ND [Hst Hok]].
  assert (Hl : forall kv, In kv s -> all_chars clean (line' kv) = true).
  { intros [k v] Hin. destruct (Hok k v Hin). apply line_clean; assumption. }
  destruct (text_lines s Hl) as [T1 T2].
  assert (R : raw_dict (concat_str (map status_line s)) = map encp s).
  { unfold raw_dict. rewrite univ_nl_id by exact T1. unfold split_on. rewrite T2.
    rewrite fold_left_app. cbn [fold_left split1].
    pose (h := fun el : string => split1 eqc el).
    change (fold_left (fun d el => match split1 eqc el with Some (k, v) => dict_set k v d | None => d end)
                      (map line' s) [])
      with (fold_left (fun d el => match h el with Some (k, v) => dict_set k v d | None => d end) (map line' s) []).
    rewrite (fold_pairs h (map line' s) (map encp s)).
    - reflexivity.
    - rewrite !map_map. apply map_ext_in. intros [k v] Hin. unfold h, line', encp. cbn [fst snd].
      apply split1_line. destruct (Hok k v Hin) as [Hk _].
      eapply all_chars_impl; [|exact Hk]. intros c Hc. apply key_char_facts. exact Hc.
    - rewrite map_map. erewrite map_ext; [exact ND|]. intros [k v]. reflexivity.
    - intros k _ []. }
  unfold status_parse. rewrite R. rewrite lookup_encp.
  destruct (lookup_in "stages" s Hst) as [st Lst].
  assert (Sst : strip st = st).
  { destruct (Hok "stages" st (lookup_In _ _ _ Lst)) as [_ Hv]. apply Hv. discriminate. }
  assert (Hs : forall k v, In (k, v) s -> k <> ED -> strip v = v).
  { intros k v Hin Hk. destruct (Hok k v Hin) as [_ Hv]. apply (Hv Hk). }
  assert (N : normalise s = map stripv s).
  { unfold normalise.
    pose (h := fun kv : string * string => Some (lower_l1 (strip (fst kv)), strip (snd kv))).
    change (fold_left (fun d kv => dict_set (lower_l1 (strip (fst kv))) (strip (snd kv)) d) s [])
      with (fold_left (fun d kv => match h kv with Some (k, v) => dict_set k v d | None => d end) s []).
    rewrite (fold_pairs h s (map stripv s)); [reflexivity| | |intros k _ []].
    - rewrite map_map. apply map_ext_in. intros [k v] Hin. unfold h, stripv. cbn [fst snd]. destruct (Hok k v Hin) as [Hk _].
      rewrite strip_id by (eapply all_chars_impl; [|exact Hk]; intros c Hc; apply key_char_facts; exact Hc).
      rewrite lower_id by exact Hk. reflexivity.
    - rewrite map_map. erewrite map_ext; [exact ND|]. intros [k v]. reflexivity. }
  assert (L2 : lookup "stages" (map stripv s) = Some st).
  { rewrite lookup_stripv, Lst. cbn [option_map]. rewrite Sst. reflexivity. }
  destruct (lookup ED s) as [v|] eqn:L; cbn [option_map].
  - rewrite unescape_escape. cbv zeta. rewrite (dict_set_decode s v ND L). rewrite Lst, N, Sst.
    rewrite (dict_set_same "stages" st _ L2). f_equal. apply restore_ed; assumption.
  - rewrite encp_id by (apply lookup_none; exact L). rewrite Lst, N, Sst.
    rewrite (dict_set_same "stages" st _ L2). f_equal. apply stripv_id. intros k v Hin. apply (Hs k v Hin).
    intros E. subst k. apply (lookup_none _ _ L). apply (in_map fst) in Hin. exact Hin.
Qed.

(* ---- sorting *)
Lemma insert_perm x l : Permutation (insert_kv x l) (x :: l).
Proof.
  induction l as [|y r IH]; cbn; [apply Permutation_refl|].
  destruct (String.leb (fst x) (fst y)); [apply Permutation_refl|].
  eapply Permutation_trans; [apply perm_skip; exact IH|apply perm_swap].
Qed.

Lemma sort_perm d : Permutation (sort_keys d) d.
Proof.
  induction d as [|x r IH]; cbn; [apply Permutation_refl|].
  eapply Permutation_trans; [apply insert_perm|apply perm_skip; exact IH].
Qed.

Lemma pairs_ok_perm d d' : Permutation d d' -> pairs_ok d -> pairs_ok d'.
Proof.
  intros P [ND [Hs Hok]]. split; [|split].
  - eapply Permutation_NoDup; [apply Permutation_map; exact P|exact ND].
  - eapply Permutation_in; [apply Permutation_map; exact P|exact Hs].
  - intros k v H. apply (Hok k v). eapply Permutation_in; [apply Permutation_sym; exact P|exact H].
Qed.

Lemma lookup_perm k l l' : Permutation l l' -> NoDup (map fst l) -> lookup k l = lookup k l'.
Proof.
  induction 1 as [|[q v] l l' P IH|[q v] [q2 v2] l|l l2 l3 P1 IH1 P2 IH2]; intros ND.
  - reflexivity.
  - cbn. inversion ND; subst. rewrite IH by assumption. reflexivity.
  - cbn. destruct (String.eqb k q2) eqn:E1, (String.eqb k q) eqn:E2; try reflexivity.
    apply String.eqb_eq in E1, E2. subst. inversion ND as [|? ? Hn _]; subst. exfalso. apply Hn. left. reflexivity.
  - rewrite IH1 by exact ND. apply IH2. eapply Permutation_NoDup; [apply Permutation_map; exact P1|exact ND].
Qed.

Theorem codec_roundtrip d : pairs_ok d ->
  status_parse (status_print d) = Some (sort_keys d) /\ forall k, lookup k (sort_keys d) = lookup k d.
Proof.
  intros H. split.
  - unfold status_print, status_chunks. apply parse_print_pairs.
    eapply pairs_ok_perm; [apply Permutation_sym; apply sort_perm|exact H].
  - intros k. apply lookup_perm; [apply sort_perm|].
    destruct H as [ND _]. eapply Permutation_NoDup; [apply Permutation_map; apply Permutation_sym; apply sort_perm|exact ND].
Qed.

(* ================================================================ histories of Status.update *)
Definition status_history_ops (ds : list (list (string * string))) : list fsop :=
  flat_map (fun d => exec (status_update d) true NoFault) ds.

Lemma status_update_good d : Forall good (status_update d).
Proof. constructor; [|constructor]. repeat split; try reflexivity. discriminate. Qed.

Lemma status_update_complete d s :
  read "status.txt" (run (exec (status_update d) true NoFault) s) = Some (status_print d).
Proof.
  apply (exec_complete (status_update d) (status_update_good d)) with
    (x := good_txn "T1" "status.txt" (fun _ => status_chunks d) false false).
  - repeat constructor. intros [].
  - intros x y [<-|[]] [<-|[]]. discriminate.
  - left. reflexivity.
Qed.

Theorem history_last ds d s : pairs_ok d ->
  exists text, read "status.txt" (run (status_history_ops (ds ++ [d])) s) = Some text /\
               status_parse text = Some (sort_keys d).
Proof.
  intros H. exists (status_print d). split; [|apply codec_roundtrip; exact H].
  unfold status_history_ops. rewrite flat_map_app, run_app. cbn [flat_map]. rewrite app_nil_r.
  apply status_update_complete.
Qed.

Theorem history_fault ds d d' f s : pairs_ok d -> pairs_ok d' ->
  exists text, read "status.txt" (run (exec (status_update d') true f) (run (status_history_ops (ds ++ [d])) s)) = Some text /\
               (status_parse text = Some (sort_keys d) \/ status_parse text = Some (sort_keys d')).
Proof.
  intros H H'. destruct (history_last ds d s H) as [t [R P]].
  destruct (exec_atomic (status_update d') (status_update_good d') "status.txt") with (b := true) (f := f)
    (s := run (status_history_ops (ds ++ [d])) s) as [A|[c [A [x [b [Hx [_ Hc]]]]]]].
  - intros x [<-|[]]. discriminate.
  - exists t. split; [rewrite A; exact R|left; exact P].
  - exists c. split; [exact A|right]. destruct Hx as [<-|[]]. subst c. apply codec_roundtrip. exact H'.
Qed.

(* ================================================================ histories with any number of faulted updates *)
(* one attempted update = the values it writes and the fault (NoFault = it completes) that hits it; after a
   fault the updater's own error handling runs (part of [exec]), the object keeps running / is re-created by
   a restart that reads the file, and the next attempt follows *)
Definition attempt := (list (string * string) * fault)%type.
Definition run_attempts (l : list attempt) (s : fs) : fs :=
  fold_left (fun s a => run (exec (status_update (fst a)) true (snd a)) s) l s.

(* the value sets the file may hold afterwards: those of the last completed update, or of a faulted update
   that came after it (a fault after the rename, or none of the operations was reached) *)
Fixpoint candidates (acc : list (list (string * string))) (l : list attempt) : list (list (string * string)) :=
  match l with
  | [] => acc
  | (d, NoFault) :: r => candidates [d] r
  | (d, _) :: r => candidates (d :: acc) r
  end.

Lemma candidates_snoc_complete l d : forall acc, candidates acc (l ++ [(d, NoFault)]) = [d].
Proof.
  induction l as [|[d' f] r IH]; intros acc; [reflexivity|].
  cbn [app candidates]. destruct f; apply IH.
Qed.

Lemma candidates_sub l : forall acc d, In d (candidates acc l) -> In d acc \/ In d (map fst l).
Proof.
  induction l as [|[d' f] r IH]; intros acc d H; [left; exact H|]. cbn [candidates] in H. cbn [map fst].
  destruct f; apply IH in H as [H|H]; try (right; right; exact H).
  - destruct H as [<-|[]]. right. left. reflexivity.
  - destruct H as [<-|H]; [right; left; reflexivity|left; exact H].
  - destruct H as [<-|H]; [right; left; reflexivity|left; exact H].
Qed.

Lemma attempt_step d' f s t : read "status.txt" s = Some t ->
  let s' := run (exec (status_update d') true f) s in
  (f = NoFault -> read "status.txt" s' = Some (status_print d')) /\
  (read "status.txt" s' = Some t \/ read "status.txt" s' = Some (status_print d')).
Proof.
  intros R s'. split.
  - intros ->. apply status_update_complete.
  - destruct (exec_atomic (status_update d') (status_update_good d') "status.txt") with (b := true) (f := f) (s := s)
      as [A|[c [A [x [b [Hx [_ Hc]]]]]]].
    + intros x [<-|[]]. discriminate.
    + left. unfold s'. rewrite A. exact R.
    + right. destruct Hx as [<-|[]]. subst c. exact A.
Qed.

Theorem attempts_text l : forall acc s,
  (exists d, In d acc /\ read "status.txt" s = Some (status_print d)) ->
  exists d, In d (candidates acc l) /\ read "status.txt" (run_attempts l s) = Some (status_print d).
Proof.
  induction l as [|[d' f] r IH]; intros acc s H; [exact H|].
  destruct H as [d [Hin R]].
  destruct (attempt_step d' f s _ R) as [S1 S2].
  change (run_attempts ((d', f) :: r) s) with (run_attempts r (run (exec (status_update d') true f) s)).
  cbn [candidates]. destruct f as [|k j|k j].
  - apply IH. exists d'. split; [left; reflexivity|apply S1; reflexivity].
  - apply IH. destruct S2 as [S2|S2]; [exists d|exists d']; (split; [|exact S2]); [right; exact Hin|left; reflexivity].
  - apply IH. destruct S2 as [S2|S2]; [exists d|exists d']; (split; [|exact S2]); [right; exact Hin|left; reflexivity].
Qed.

Theorem history_attempts ds d0 l s : pairs_ok d0 -> Forall (fun a : attempt => pairs_ok (fst a)) l ->
  exists d, In d (candidates [d0] l) /\
    read "status.txt" (run_attempts l (run (status_history_ops (ds ++ [d0])) s)) = Some (status_print d) /\
    status_parse (status_print d) = Some (sort_keys d) /\ forall k, lookup k (sort_keys d) = lookup k d.
Proof.
  intros H0 Hl.
  destruct (attempts_text l [d0] (run (status_history_ops (ds ++ [d0])) s)) as [d [Hin R]].
  - exists d0. split; [left; reflexivity|].
    unfold status_history_ops. rewrite flat_map_app, run_app. cbn [flat_map]. rewrite app_nil_r.
    apply status_update_complete.
  - exists d. split; [exact Hin|split; [exact R|]]. apply codec_roundtrip.
    apply candidates_sub in Hin as [[<-|[]]|Hin]; [exact H0|].
    apply in_map_iff in Hin as [a [<- Ha]]. rewrite Forall_forall in Hl. apply (Hl a Ha).
Qed.
