(* C14 — parts of the full statement that are false of the (faithful) model of the pinned code. *)
From Coq Require Import String Ascii List Bool Arith.
Import ListNotations.
Require Import V.Lib.PyStr V.Fs.Model V.Fs.Proofs V.Fs.Codec.
Open Scope string_scope.

(* F14b (repaired): the pinned conf.py wrote flowir_instance.yaml / manifest.yaml in place; dying
   right after the truncating open leaves an empty file - neither the previous nor the new version. *)
Theorem C14_inplace_refuted : exists cs old f,
  let s := [("flowir_instance.yaml", old)] in
  let after := read "flowir_instance.yaml" (run (exec (store_update_pinned cs) true f) s) in
  after = Some "" /\ after <> Some old /\ after <> Some (concat_str cs).
Proof.
  exists ["components: []"; String nl ""], "components: [a]", (Die 1 0). cbn. repeat split; discriminate.
Qed.
Print Assumptions C14_inplace_refuted.

(* F14g (repaired): Experiment._store_extracted_input_ids / _store_additional_input_data /
   _store_extracted_measured_properties wrote output/input-ids.json, additional_input_data.json and
   properties.csv in place: an I/O error (or death) in the middle leaves a truncated document. *)
Theorem C14_interface_inplace_refuted : exists cs old f,
  let s := [("input-ids.json", old)] in
  let after := read "input-ids.json" (run (exec (file_update_pinned "input-ids.json" cs) true f) s) in
  after = Some "[" /\ after <> Some old /\ after <> Some (concat_str cs).
Proof.
  exists ["["; """mol-0"""; "]"], "[]", (EIO 2 0). cbn. repeat split; discriminate.
Qed.
Print Assumptions C14_interface_inplace_refuted.

(* F14e (repaired): the pinned try_generate_status_details renamed the temporary file over
   status_details.json even when writing it had raised an I/O error. *)
Theorem C14_details_ioerror_refuted : exists cs old f,
  let s := [("status_details.json", old)] in
  let after := read "status_details.json" (run (exec (details_update_pinned cs) true f) s) in
  after = Some "{" /\ after <> Some old /\ after <> Some (concat_str cs).
Proof.
  exists ["{"; """a"""; ": 1"; "}"], "{}", (EIO 2 0). cbn. repeat split; discriminate.
Qed.
Print Assumptions C14_details_ioerror_refuted.

(* F14a (repaired): the pinned writeToStream stored the escaped error-description back, so the second
   update wrote it escaped twice and the file no longer parsed to the values set. *)
Theorem C14_history_refuted : exists d,
  pairs_ok d /\ status_parse (old_history 1 d) = Some (sort_keys d) /\
  status_parse (old_history 2 d) <> Some (sort_keys d).
Proof.
  exists [("stages", "[]"); (ED, String "a" (String nl "b"))]. split; [|split].
  - split; [|split].
    + repeat constructor; cbn; intuition discriminate.
    + left. reflexivity.
    + intros k v H. cbn in H. destruct H as [H|[H|[]]]; inversion H; subst; split; try reflexivity;
        intros N; try (split; reflexivity); exfalso; apply N; reflexivity.
  - reflexivity.
  - vm_compute. discriminate.
Qed.
Print Assumptions C14_history_refuted.

(* F14c (repaired for error-description): the pinned loader let Status.__init__ strip() the un-escaped error
   description, so a description ending in a line break (a traceback) was read back without it; the repaired
   loader reads it back exactly. *)
Theorem C14_description_stripped_refuted : exists d v,
  lookup ED d = Some v /\
  option_map (lookup ED) (status_parse_pinned (status_print d)) = Some (Some "boom") /\
  Some v <> Some "boom" /\
  option_map (lookup ED) (status_parse (status_print d)) = Some (Some v).
Proof.
  exists [("stages", "['stage0']"); (ED, String "b" (String "o" (String "o" (String "m" (String nl "")))))].
  eexists. split; [reflexivity|]. split; [reflexivity|]. split; [discriminate|reflexivity].
Qed.
Print Assumptions C14_description_stripped_refuted.

(* F14d (open): the guard that C14_codec_roundtrip keeps for the values OTHER than error-description is
   necessary: such a value is written verbatim, so its outer white space is stripped by the loader, and a
   line break in it starts a new line that is read as another key. *)
Theorem C14_codec_guard_refuted :
  (exists d, lookup "exit-status" d = Some " x" /\
             option_map (lookup "exit-status") (status_parse (status_print d)) = Some (Some "x")) /\
  (exists d, lookup "cost" d = Some "0" /\
             option_map (lookup "cost") (status_parse (status_print d)) = Some (Some "99")).
Proof.
  split.
  - exists [("stages", "[]"); ("exit-status", " x")]. split; reflexivity.
  - exists [("stages", "['stage0']"); ("cost", "0"); ("exit-status", String "x" (String nl "cost=99"))]. split; reflexivity.
Qed.
Print Assumptions C14_codec_guard_refuted.
