(* C14 — proofs for the creation path (Experiment.__init__ via experimentFromPackage / experimentFromInstance):
   the first write of the state files is atomic too: after any fault every state file is absent (or, when an
   instance is reopened, still what it was) or complete. *)
From Coq Require Import String Ascii List Bool Arith Lia.
Import ListNotations.
Require Import V.Lib.PyStr V.Fs.Model V.Fs.Proofs.
Open Scope string_scope.
Open Scope nat_scope.

Lemma read_del_none p q s : read p s = None -> read p (del q s) = None.
Proof.
  intros H. destruct (String.eqb p q) eqn:E.
  - apply String.eqb_eq in E. subst q. apply read_del_same.
  - apply String.eqb_neq in E. rewrite read_del_other by exact E. exact H.
Qed.

Lemma run_removes_none l : forall p s, read p s = None -> read p (run (map Remove l) s) = None.
Proof.
  induction l as [|q l IH]; intros p s H; [exact H|].
  change (run (map Remove (q :: l)) s) with (run (map Remove l) (del q s)). apply IH. apply read_del_none. exact H.
Qed.

Lemma run_removes_in l : forall p s, In p l -> read p (run (map Remove l) s) = None.
Proof.
  induction l as [|q l IH]; intros p s H; [destruct H|].
  change (run (map Remove (q :: l)) s) with (run (map Remove l) (del q s)).
  destruct (String.eqb p q) eqn:E.
  - apply String.eqb_eq in E. subst q. apply run_removes_none. apply read_del_same.
  - apply String.eqb_neq in E. destruct H as [H|H]; [congruence|]. apply IH. exact H.
Qed.

Lemma run_removes_notin l : forall p s, ~ In p l -> read p (run (map Remove l) s) = read p s.
Proof.
  induction l as [|q l IH]; intros p s H; [reflexivity|].
  change (run (map Remove (q :: l)) s) with (run (map Remove l) (del q s)).
  rewrite IH by (intros C; apply H; right; exact C).
  apply read_del_other. intros C. apply H. left. congruence.
Qed.

Lemma run_removes_cases l p s :
  read p (run (map Remove l) s) = read p s \/ read p (run (map Remove l) s) = None.
Proof.
  destruct (in_dec string_dec p l) as [H|H].
  - right. apply run_removes_in. exact H.
  - left. apply run_removes_notin. exact H.
Qed.

Lemma version_app_l xs ys p c : version_of xs p c -> version_of (xs ++ ys) p c.
Proof. intros [x [b [H1 H2]]]. exists x, b. split; [apply in_or_app; left; exact H1|exact H2]. Qed.

Lemma dst_in_wipe xs x : In x xs -> In (dst x) (flat_map (fun x => [tmp x; dst x]) xs).
Proof. intros H. apply in_flat_map. exists x. split; [exact H|right; left; reflexivity]. Qed.

(* the three-way statement: previous text, nothing, or a complete new text *)
Definition absent_old_or_new (xs : list txn) (p : path) (s s' : fs) : Prop :=
  read p s' = read p s \/ read p s' = None \/ exists c, read p s' = Some c /\ version_of xs p c.

Theorem exec2_atomic w xs ys : Forall good (xs ++ ys) -> forall p, (forall x, In x (xs ++ ys) -> tmp x <> p) ->
  forall f s, absent_old_or_new (xs ++ ys) p s (run (exec2 w xs ys f) s).
Proof.
  intros G p Hp f s. unfold exec2. destruct (aborts xs f) eqn:A.
  - apply Forall_app in G as [Gx _].
    assert (Hx : forall x, In x xs -> tmp x <> p) by (intros x Hx; apply Hp; apply in_or_app; left; exact Hx).
    rewrite run_app.
    pose proof (exec_atomic xs Gx p Hx true f s) as H1.
    destruct w.
    + unfold wipe_ops. destruct (run_removes_cases (flat_map (fun x => [tmp x; dst x]) (xs ++ ys)) p (run (exec xs true f) s)) as [R|R].
      * destruct H1 as [H1|[c [H1 H2]]].
        -- left. congruence.
        -- right. right. exists c. split; [congruence|apply version_app_l; exact H2].
      * right. left. exact R.
    + cbn [run fold_left]. change (fold_left (fun s o => apply o s) [] ?x) with x.
      destruct H1 as [H1|[c [H1 H2]]].
      * left. exact H1.
      * right. right. exists c. split; [exact H1|apply version_app_l; exact H2].
  - destruct (exec_atomic (xs ++ ys) G p Hp true f s) as [H1|H1].
    + left. exact H1.
    + right. right. exact H1.
Qed.

(* reopening an instance never loses a file: previous or complete new *)
Theorem exec2_reopen xs ys : Forall good (xs ++ ys) -> forall p, (forall x, In x (xs ++ ys) -> tmp x <> p) ->
  forall f s, old_or_new (xs ++ ys) p s (run (exec2 false xs ys f) s).
Proof.
  intros G p Hp f s. unfold exec2. destruct (aborts xs f) eqn:A.
  - apply Forall_app in G as [Gx _].
    assert (Hx : forall x, In x xs -> tmp x <> p) by (intros x Hx; apply Hp; apply in_or_app; left; exact Hx).
    rewrite app_nil_r. destruct (exec_atomic xs Gx p Hx true f s) as [H1|[c [H1 H2]]].
    + left. exact H1.
    + right. exists c. split; [exact H1|apply version_app_l; exact H2].
  - apply exec_atomic; assumption.
Qed.

(* a creation that is given up leaves no state file behind *)
Theorem exec2_abort_removes xs ys f s : aborts xs f = true ->
  forall x, In x (xs ++ ys) -> read (dst x) (run (exec2 true xs ys f) s) = None.
Proof.
  intros A x Hx. unfold exec2. rewrite A. rewrite run_app. unfold wipe_ops.
  apply run_removes_in. apply dst_in_wipe. exact Hx.
Qed.

(* a creation that is not interrupted writes every state file completely *)
Theorem exec2_complete w xs ys : Forall good (xs ++ ys) -> NoDup (map dst (xs ++ ys)) ->
  (forall x y, In x (xs ++ ys) -> In y (xs ++ ys) -> tmp x <> dst y) ->
  forall x s, In x (xs ++ ys) -> read (dst x) (run (exec2 w xs ys NoFault) s) = Some (concat_str (chunks x true)).
Proof. intros G N T x s Hx. unfold exec2. cbn [aborts]. apply exec_complete; assumption. Qed.

(* the protocol of the real creation path meets the hypotheses *)
Lemma creation_good ci cm d :
  let zs := (create_conf ci cm ++ create_status d)%list in
  Forall good zs /\ NoDup (map dst zs) /\ (forall x y, In x zs -> In y zs -> tmp x <> dst y) /\
  (forall x, In x zs -> tmp x <> "flowir_instance.yaml" /\ tmp x <> "manifest.yaml" /\ tmp x <> "status.txt").
Proof.
  destruct d as [d|]; cbn.
  - split; [|split; [|split]].
    + repeat constructor; try reflexivity; discriminate.
    + repeat constructor; cbn; intuition discriminate.
    + intros x y Hx Hy.
      repeat (destruct Hx as [<-|Hx]; [|]); try contradiction;
      repeat (destruct Hy as [<-|Hy]; [|]); try contradiction; discriminate.
    + intros x Hx. repeat (destruct Hx as [<-|Hx]; [|]); try contradiction; repeat split; discriminate.
  - split; [|split; [|split]].
    + repeat constructor; try reflexivity; discriminate.
    + repeat constructor; cbn; intuition discriminate.
    + intros x y Hx Hy.
      repeat (destruct Hx as [<-|Hx]; [|]); try contradiction;
      repeat (destruct Hy as [<-|Hy]; [|]); try contradiction; discriminate.
    + intros x Hx. repeat (destruct Hx as [<-|Hx]; [|]); try contradiction; repeat split; discriminate.
Qed.
