(* C14 — overlapping updates: two updates whose operations are interleaved in any order (two threads of one
   process on the same status.txt, Status.update has no lock of its own), each hit by any fault, the process
   dying after any number of operations: as long as every update writes a temporary file of its OWN, every
   state file holds its previous text or the complete text of one of the two updates at every moment. *)
From Coq Require Import String Ascii List Bool Arith Lia.
Import ListNotations.
Require Import V.Lib.PyStr V.Fs.Model V.Fs.Proofs.
Open Scope string_scope.
Open Scope nat_scope.

Section Discipline.
  (* T = the temporary paths of this update, T' = those of the other one, V = the complete versions *)
  Variables T T' : path -> Prop.
  Variable V : path -> string -> Prop.

  Definition op_ok (loc : fs) (o : fsop) : Prop :=
    match o with
    | Create p | Append p _ | Close p | Remove p => T p
    | Rename p q => T p /\ ~ T q /\ ~ T' q /\ forall c, read p loc = Some c -> V q c
    end.

  (* the update only writes its own temporary files, and what it renames over a file is a complete version;
     loc = the file system as this update alone would have made it *)
  Fixpoint ok_trace (loc : fs) (l : list fsop) : Prop :=
    match l with
    | [] => True
    | o :: r => op_ok loc o /\ ok_trace (apply o loc) r
    end.

  Lemma ok_trace_app l1 : forall loc l2, ok_trace loc (l1 ++ l2) <-> ok_trace loc l1 /\ ok_trace (run l1 loc) l2.
  Proof.
    induction l1 as [|o r IH]; intros loc l2; cbn [app ok_trace].
    - cbn. tauto.
    - change (run (o :: r) loc) with (run r (apply o loc)). rewrite IH. tauto.
  Qed.

  Lemma ok_trace_firstn l : forall loc n, ok_trace loc l -> ok_trace loc (firstn n l).
  Proof.
    induction l as [|o r IH]; intros loc n H; destruct n; cbn; try exact I.
    destruct H as [H1 H2]. split; [exact H1|apply IH; exact H2].
  Qed.

  Lemma ok_on_tmp t l : T t -> Forall (on_tmp t) l -> forall loc, ok_trace loc l.
  Proof.
    intros Ht. induction 1 as [|o r Ho _ IH]; intros loc; [exact I|].
    split; [|apply IH]. destruct o; cbn in Ho |- *; try contradiction; subst; exact Ht.
  Qed.
End Discipline.

Lemma ok_trace_mono (T T' : path -> Prop) (V V' : path -> string -> Prop) :
  (forall q c, V q c -> V' q c) -> forall l loc, ok_trace T T' V loc l -> ok_trace T T' V' loc l.
Proof.
  intros M. induction l as [|o r IH]; intros loc H; [exact I|].
  destruct H as [H1 H2]. split; [|apply IH; exact H2].
  destruct o; cbn in *; try exact H1. destruct H1 as [A [B [C D]]]. repeat split; try assumption.
  intros c Hc. apply M. apply D. exact Hc.
Qed.

Definition agree (T : path -> Prop) (loc s : fs) : Prop := forall t, T t -> read t loc = read t s.

Definition old_or (V : path -> string -> Prop) (p : path) (s s' : fs) : Prop :=
  read p s' = read p s \/ exists c, read p s' = Some c /\ V p c.

Lemma old_or_trans V p s s1 s2 : old_or V p s s1 -> old_or V p s1 s2 -> old_or V p s s2.
Proof.
  intros [A|[c [A1 A2]]] [B|[c2 [B1 B2]]].
  - left. congruence.
  - right. exists c2. split; assumption.
  - right. exists c. split; [congruence|exact A2].
  - right. exists c2. split; assumption.
Qed.

(* one operation of the update that owns T: its private view stays exact, the other update's view is not
   disturbed, and a file that is nobody's temporary keeps its text or receives a complete version *)
Lemma step_owner (T T' : path -> Prop) V o loc loc' s :
  (forall p, T p -> T' p -> False) ->
  agree T loc s -> agree T' loc' s -> op_ok T T' V loc o ->
  agree T (apply o loc) (apply o s) /\ agree T' loc' (apply o s) /\
  forall p, ~ T p -> ~ T' p -> old_or V p s (apply o s).
Proof.
  intros D A A' H.
  destruct o as [q|q b|q|q q2|q]; cbn in H.
  - (* Create *) cbn. split; [|split].
    + intros t Ht. destruct (String.eqb t q) eqn:E.
      * apply String.eqb_eq in E. subst. rewrite !read_write_same. reflexivity.
      * apply String.eqb_neq in E. rewrite !read_write_other by exact E. apply A. exact Ht.
    + intros t Ht. rewrite read_write_other; [apply A'; exact Ht|]. intros ->. exact (D _ H Ht).
    + intros p N N'. left. apply read_write_other. intros ->. exact (N H).
  - (* Append *) cbn. rewrite (A q H). destruct (read q s) as [c|].
    + split; [|split].
      * intros t Ht. destruct (String.eqb t q) eqn:E.
        -- apply String.eqb_eq in E. subst. rewrite !read_write_same. reflexivity.
        -- apply String.eqb_neq in E. rewrite !read_write_other by exact E. apply A. exact Ht.
      * intros t Ht. rewrite read_write_other; [apply A'; exact Ht|]. intros ->. exact (D _ H Ht).
      * intros p N N'. left. apply read_write_other. intros ->. exact (N H).
    + split; [exact A|split; [exact A'|]]. intros p _ _. left. reflexivity.
  - (* Close *) cbn. split; [exact A|split; [exact A'|]]. intros p _ _. left. reflexivity.
  - (* Rename *) destruct H as [Hq [Nq [Nq' HV]]]. cbn. rewrite (A q Hq).
    destruct (read q s) as [c|] eqn:R.
    + assert (Rl : read q loc = Some c) by (rewrite (A q Hq); exact R).
      split; [|split].
      * intros t Ht.
        assert (t <> q2) by (intros ->; exact (Nq Ht)).
        rewrite !read_write_other by assumption.
        destruct (String.eqb t q) eqn:E.
        -- apply String.eqb_eq in E. subst. rewrite !read_del_same. reflexivity.
        -- apply String.eqb_neq in E. rewrite !read_del_other by exact E. apply A. exact Ht.
      * intros t Ht.
        assert (t <> q2) by (intros ->; exact (Nq' Ht)).
        assert (t <> q) by (intros ->; exact (D _ Hq Ht)).
        rewrite read_write_other by assumption. rewrite read_del_other by assumption. apply A'. exact Ht.
      * intros p N N'. destruct (String.eqb p q2) eqn:E.
        -- apply String.eqb_eq in E. subst. right. exists c. split; [apply read_write_same|apply HV; exact Rl].
        -- apply String.eqb_neq in E. left. rewrite read_write_other by exact E.
           apply read_del_other. intros ->. exact (N Hq).
    + split; [exact A|split; [exact A'|]]. intros p _ _. left. reflexivity.
  - (* Remove *) cbn. split; [|split].
    + intros t Ht. destruct (String.eqb t q) eqn:E.
      * apply String.eqb_eq in E. subst. rewrite !read_del_same. reflexivity.
      * apply String.eqb_neq in E. rewrite !read_del_other by exact E. apply A. exact Ht.
    + intros t Ht. rewrite read_del_other; [apply A'; exact Ht|]. intros ->. exact (D _ H Ht).
    + intros p N N'. left. apply read_del_other. intros ->. exact (N H).
Qed.

(* one update running alone for a while *)
Lemma solo (T T' : path -> Prop) V : (forall p, T p -> T' p -> False) ->
  forall l loc loc' s, agree T loc s -> agree T' loc' s -> ok_trace T T' V loc l ->
  agree T (run l loc) (run l s) /\ agree T' loc' (run l s) /\
  forall p, ~ T p -> ~ T' p -> old_or V p s (run l s).
Proof.
  intros D. induction l as [|o r IH]; intros loc loc' s A A' H.
  - split; [exact A|split; [exact A'|]]. intros p _ _. left. reflexivity.
  - destruct H as [H1 H2].
    destruct (step_owner T T' V o loc loc' s D A A' H1) as [B [B' P]].
    change (run (o :: r) loc) with (run r (apply o loc)). change (run (o :: r) s) with (run r (apply o s)).
    destruct (IH _ _ _ B B' H2) as [C [C' Q]].
    split; [exact C|split; [exact C'|]]. intros p N N'. eapply old_or_trans; [apply P|apply Q]; assumption.
Qed.

(* any interleaving of two disciplined updates, cut after any number of operations *)
Theorem interleave_inv (TA TB : path -> Prop) V : (forall p, TA p -> TB p -> False) ->
  forall sch a b la lb s, agree TA la s -> agree TB lb s ->
  ok_trace TA TB V la a -> ok_trace TB TA V lb b ->
  forall n p, ~ TA p -> ~ TB p -> old_or V p s (run (firstn n (interleave sch a b)) s).
Proof.
  intros D. assert (D' : forall p, TB p -> TA p -> False) by (intros p X Y; exact (D p Y X)).
  induction sch as [|w r IH]; intros a b la lb s A B Ha Hb n p N N'.
  - cbn [interleave]. rewrite firstn_app, run_app.
    destruct (solo TA TB V D _ la lb s A B (ok_trace_firstn TA TB V a la n Ha)) as [A1 [B1 P1]].
    destruct (solo TB TA V D' _ lb (run (firstn n a) la) _ B1 A1 (ok_trace_firstn TB TA V b lb (n - length a) Hb)) as [_ [_ P2]].
    eapply old_or_trans; [apply P1|apply P2]; assumption.
  - destruct w; cbn [interleave].
    + destruct a as [|o a'].
      * destruct (solo TB TA V D' _ lb la s B A (ok_trace_firstn TB TA V b lb n Hb)) as [_ [_ P]]. apply P; assumption.
      * destruct n; [left; reflexivity|]. cbn [firstn]. destruct Ha as [H1 H2].
        destruct (step_owner TA TB V o la lb s D A B H1) as [A1 [B1 P]].
        change (run (o :: ?l) s) with (run l (apply o s)).
        eapply old_or_trans; [apply P; assumption|]. eapply IH; eassumption.
    + destruct b as [|o b'].
      * destruct (solo TA TB V D _ la lb s A B (ok_trace_firstn TA TB V a la n Ha)) as [_ [_ P]]. apply P; assumption.
      * destruct n; [left; reflexivity|]. cbn [firstn]. destruct Hb as [H1 H2].
        destruct (step_owner TB TA V o lb la s D' B A H1) as [B1 [A1 P]].
        change (run (o :: ?l) s) with (run l (apply o s)).
        eapply old_or_trans; [apply P; assumption|]. eapply IH; eassumption.
Qed.

(* ---- the updaters are disciplined *)
Definition tmps (xs : list txn) (p : path) : Prop := exists x, In x xs /\ tmp x = p.

Lemma exec_disciplined (T' : path -> Prop) xs : Forall good xs ->
  (forall x, In x xs -> ~ tmps xs (dst x) /\ ~ T' (dst x)) ->
  forall b f loc, ok_trace (tmps xs) T' (version_of xs) loc (exec xs b f).
Proof.
  intros G. revert T'. induction G as [|x r G _ IH]; intros T' HD b f loc.
  - destruct f; exact I.
  - assert (Tx : tmps (x :: r) (tmp x)) by (exists x; split; [left; reflexivity|reflexivity]).
    assert (R : forall b f loc, ok_trace (tmps (x :: r)) T' (version_of (x :: r)) loc (exec r b f)).
    { intros b0 f0 loc0.
      specialize (IH (fun p => T' p \/ p = tmp x)).
      assert (H0 : forall y, In y r -> ~ tmps r (dst y) /\ ~ (T' (dst y) \/ dst y = tmp x)).
      { intros y Hy. destruct (HD y (or_intror Hy)) as [N1 N2]. split.
        - intros [z [Hz E]]. apply N1. exists z. split; [right; exact Hz|exact E].
        - intros [C|C]; [exact (N2 C)|]. apply N1. exists x. split; [left; reflexivity|congruence]. }
      specialize (IH H0 b0 f0 loc0).
      clear - IH. revert loc0 IH. generalize (exec r b0 f0) as l.
      induction l as [|o l IHl]; intros loc0 H; [exact I|]. destruct H as [H1 H2]. split; [|apply IHl; exact H2].
      destruct o as [q|q c|q|q q2|q]; cbn in H1 |- *;
        try (destruct H1 as [z [Hz E]]; exists z; split; [right; exact Hz|exact E]).
      destruct H1 as [[z [Hz E]] [N1 [N2 HV]]]. split; [exists z; split; [right; exact Hz|exact E]|].
      split; [|split].
      - intros [z' [[<-|Hz'] E']]; [apply N2; right; congruence|apply N1; exists z'; split; assumption].
      - intros C. apply N2. left. exact C.
      - intros c0 Hc. apply version_cons. apply HV. exact Hc. }
    assert (FULL : forall b0 loc0, ok_trace (tmps (x :: r)) T' (version_of (x :: r)) loc0 (body x (chunks x b0))).
    { intros b0 loc0. pose proof G as [Hi [_ Hn]]. rewrite body_good by exact Hi.
      apply ok_trace_app. split; [apply (ok_on_tmp _ _ _ (tmp x)); [exact Tx|apply pre_on_tmp]|].
      cbn [ok_trace op_ok]. split; [|exact I]. destruct (HD x (or_introl eq_refl)) as [N1 N2].
      split; [exact Tx|split; [exact N1|split; [exact N2|]]].
      intros c Hc. rewrite run_pre_tmp in Hc. inversion Hc. exists x, b0. split; [left; reflexivity|split; reflexivity]. }
    destruct f as [|k j|k j]; cbn [exec].
    + apply ok_trace_app. split; [apply FULL|apply R].
    + destruct (k <? length (body x (chunks x b))) eqn:E.
      * apply Nat.ltb_lt in E. apply (ok_on_tmp _ _ _ (tmp x)); [exact Tx|].
        apply (fault_prefix_on_tmp x (chunks x b) k j false G E).
      * apply ok_trace_app. split; [apply FULL|apply R].
    + destruct (k <? length (body x (chunks x b))) eqn:E.
      * apply Nat.ltb_lt in E. destruct (fault_prefix_on_tmp x (chunks x b) k j true G E) as [F1 F2].
        rewrite !app_assoc. apply ok_trace_app. split; [|apply R].
        apply (ok_on_tmp _ _ _ (tmp x)); [exact Tx|]. apply Forall_app. split; [exact F1|exact F2].
      * apply ok_trace_app. split; [apply FULL|apply R].
Qed.

Lemma version_app_l xs ys p c : version_of xs p c -> version_of (xs ++ ys) p c.
Proof. intros [x [b [H1 H2]]]. exists x, b. split; [apply in_or_app; left; exact H1|exact H2]. Qed.
Lemma version_app_r xs ys p c : version_of ys p c -> version_of (xs ++ ys) p c.
Proof. intros [x [b [H1 H2]]]. exists x, b. split; [apply in_or_app; right; exact H1|exact H2]. Qed.

Theorem overlap_atomic (xs ys : list txn) : Forall good xs -> Forall good ys ->
  (forall x y, In x xs -> In y ys -> tmp x <> tmp y) ->
  (forall x y, In x (xs ++ ys) -> In y (xs ++ ys) -> tmp x <> dst y) ->
  forall p, (forall x, In x (xs ++ ys) -> tmp x <> p) ->
  forall ba bb fa fb sch n s,
    old_or_new (xs ++ ys) p s (run (firstn n (interleave sch (exec xs ba fa) (exec ys bb fb))) s).
Proof.
  intros Gx Gy Dt Dd p Hp ba bb fa fb sch n s.
  assert (D : forall q, tmps xs q -> tmps ys q -> False).
  { intros q [x [Hx Ex]] [y [Hy Ey]]. apply (Dt x y Hx Hy). congruence. }
  assert (Nd : forall (zs : list txn), (forall z, In z zs -> In z (xs ++ ys)) ->
               forall z, In z (xs ++ ys) -> ~ tmps zs (dst z)).
  { intros zs Hz z Iz [w [Hw E]]. apply (Dd w z); [apply Hz; exact Hw|exact Iz|exact E]. }
  assert (Ha : ok_trace (tmps xs) (tmps ys) (version_of (xs ++ ys)) s (exec xs ba fa)).
  { apply (ok_trace_mono _ _ (version_of xs)); [intros; apply version_app_l; assumption|].
    apply exec_disciplined; [exact Gx|]. intros x Hx. split; apply Nd; try (apply in_or_app; left; exact Hx);
      intros z Hz; apply in_or_app; [left|right]; exact Hz. }
  assert (Hb : ok_trace (tmps ys) (tmps xs) (version_of (xs ++ ys)) s (exec ys bb fb)).
  { apply (ok_trace_mono _ _ (version_of ys)); [intros; apply version_app_r; assumption|].
    apply exec_disciplined; [exact Gy|]. intros y Hy. split; apply Nd; try (apply in_or_app; right; exact Hy);
      intros z Hz; apply in_or_app; [right|left]; exact Hz. }
  assert (NA : ~ tmps xs p) by (intros [x [Hx E]]; apply (Hp x); [apply in_or_app; left; exact Hx|exact E]).
  assert (NB : ~ tmps ys p) by (intros [y [Hy E]]; apply (Hp y); [apply in_or_app; right; exact Hy|exact E]).
  exact (interleave_inv (tmps xs) (tmps ys) (version_of (xs ++ ys)) D sch _ _ s s s
           (fun _ _ => eq_refl) (fun _ _ => eq_refl) Ha Hb n p NA NB).
Qed.

(* ================================================================ completion *)
(* when neither update is hit by a fault and the interleaving runs to its end, every state file one of them targets
   holds a complete NEW version (of the update that renamed last) *)
Definition op_strict (loc : fs) (o : fsop) : Prop :=
  match o with Rename p _ => exists c, read p loc = Some c | _ => True end.
Fixpoint strict_trace (loc : fs) (l : list fsop) : Prop :=
  match l with [] => True | o :: r => op_strict loc o /\ strict_trace (apply o loc) r end.

Lemma strict_trace_app l1 : forall loc l2, strict_trace loc (l1 ++ l2) <-> strict_trace loc l1 /\ strict_trace (run l1 loc) l2.
Proof.
  induction l1 as [|o r IH]; intros loc l2; cbn [app strict_trace].
  - cbn. tauto.
  - change (run (o :: r) loc) with (run r (apply o loc)). rewrite IH. tauto.
Qed.

Lemma strict_on_tmp t l : Forall (on_tmp t) l -> forall loc, strict_trace loc l.
Proof.
  induction 1 as [|o r Ho _ IH]; intros loc; [exact I|]. split; [|apply IH].
  destruct o; cbn in Ho |- *; try exact I. contradiction.
Qed.

Definition touched (V : path -> string -> Prop) (p : path) (s : fs) : Prop := exists c, read p s = Some c /\ V p c.
Definition renames_to (p : path) (l : list fsop) : Prop := exists t, In (Rename t p) l.

Lemma old_or_touched V p s s' : touched V p s -> old_or V p s s' -> touched V p s'.
Proof.
  intros [c [R Hv]] [E|[c' [R' Hv']]]; [exists c; split; [congruence|exact Hv]|exists c'; split; assumption].
Qed.

Lemma step_rename (T T' : path -> Prop) V t p loc s :
  agree T loc s -> op_ok T T' V loc (Rename t p) -> op_strict loc (Rename t p) -> touched V p (apply (Rename t p) s).
Proof.
  intros A [Ht [_ [_ HV]]] [c Hc]. cbn. rewrite <- (A t Ht), Hc. exists c. split; [apply read_write_same|apply HV; exact Hc].
Qed.

Lemma solo_touch (T T' : path -> Prop) V p : (forall q, T q -> T' q -> False) -> ~ T p -> ~ T' p ->
  forall l loc loc' s, agree T loc s -> agree T' loc' s -> ok_trace T T' V loc l -> strict_trace loc l ->
  touched V p s \/ renames_to p l -> touched V p (run l s).
Proof.
  intros D N N'. induction l as [|o r IH]; intros loc loc' s A A' H S C.
  - destruct C as [C|[t []]]. exact C.
  - destruct H as [H1 H2]. destruct S as [S1 S2].
    destruct (step_owner T T' V o loc loc' s D A A' H1) as [B [B' P]].
    change (run (o :: r) s) with (run r (apply o s)).
    apply (IH _ _ _ B B' H2 S2).
    destruct C as [C|[t [E|I0]]].
    + left. eapply old_or_touched; [exact C|apply P; assumption].
    + subst o. left. exact (step_rename T T' V t p loc s A H1 S1).
    + right. exists t. exact I0.
Qed.

Theorem interleave_complete (TA TB : path -> Prop) V p : (forall q, TA q -> TB q -> False) -> ~ TA p -> ~ TB p ->
  forall sch a b la lb s, agree TA la s -> agree TB lb s ->
  ok_trace TA TB V la a -> ok_trace TB TA V lb b -> strict_trace la a -> strict_trace lb b ->
  touched V p s \/ renames_to p a \/ renames_to p b -> touched V p (run (interleave sch a b) s).
Proof.
  intros D N N'. assert (D' : forall q, TB q -> TA q -> False) by (intros q X Y; exact (D q Y X)).
  induction sch as [|w r IH]; intros a b la lb s A B Ha Hb Sa Sb C.
  - cbn [interleave]. rewrite run_app.
    destruct (solo TA TB V D a la lb s A B Ha) as [A1 [B1 _]].
    apply (solo_touch TB TA V p D' N' N b lb (run a la) _ B1 A1 Hb Sb).
    destruct C as [C|[C|C]].
    + left. apply (solo_touch TA TB V p D N N' a la lb s A B Ha Sa). left. exact C.
    + left. apply (solo_touch TA TB V p D N N' a la lb s A B Ha Sa). right. exact C.
    + right. exact C.
  - destruct w; cbn [interleave].
    + destruct a as [|o a'].
      * apply (solo_touch TB TA V p D' N' N b lb la s B A Hb Sb). destruct C as [C|[[t []]|C]]; [left|right]; exact C.
      * destruct Ha as [H1 H2]. destruct Sa as [S1 S2].
        destruct (step_owner TA TB V o la lb s D A B H1) as [A1 [B1 P]].
        change (run (o :: ?l) s) with (run l (apply o s)).
        apply (IH a' b _ lb _ A1 B1 H2 Hb S2 Sb).
        destruct C as [C|[[t [E|I0]]|C]].
        -- left. eapply old_or_touched; [exact C|apply P; assumption].
        -- subst o. left. exact (step_rename TA TB V t p la s A H1 S1).
        -- right. left. exists t. exact I0.
        -- right. right. exact C.
    + destruct b as [|o b'].
      * apply (solo_touch TA TB V p D N N' a la lb s A B Ha Sa). destruct C as [C|[C|[t []]]]; [left|right]; exact C.
      * destruct Hb as [H1 H2]. destruct Sb as [S1 S2].
        destruct (step_owner TB TA V o lb la s D' B A H1) as [B1 [A1 P]].
        change (run (o :: ?l) s) with (run l (apply o s)).
        apply (IH a b' la _ _ A1 B1 Ha H2 Sa S2).
        destruct C as [C|[C|[t [E|I0]]]].
        -- left. eapply old_or_touched; [exact C|apply P; assumption].
        -- right. left. exact C.
        -- subst o. left. exact (step_rename TB TA V t p lb s B H1 S1).
        -- right. right. exists t. exact I0.
Qed.

Lemma exec_strict xs : Forall good xs -> forall b loc, strict_trace loc (exec xs b NoFault).
Proof.
  induction 1 as [|x r G _ IH]; intros b loc; [exact I|].
  cbn [exec]. apply strict_trace_app. split; [|apply IH].
  pose proof G as [Hi _]. rewrite body_good by exact Hi. apply strict_trace_app. split; [apply (strict_on_tmp (tmp x)); apply pre_on_tmp|].
  cbn [strict_trace op_strict]. split; [|exact I]. rewrite run_pre_tmp. eexists. reflexivity.
Qed.

Lemma exec_renames xs x : Forall good xs -> In x xs -> forall b, renames_to (dst x) (exec xs b NoFault).
Proof.
  intros G. induction G as [|y r Gy _ IH]; intros Hx b; [destruct Hx|].
  cbn [exec]. destruct Hx as [<-|Hx].
  - exists (tmp y). apply in_or_app. left. destruct Gy as [Hi _]. rewrite body_good by exact Hi.
    apply in_or_app. right. left. reflexivity.
  - destruct (IH Hx true) as [t Ht]. exists t. apply in_or_app. right. exact Ht.
Qed.

Theorem overlap_complete (xs ys : list txn) : Forall good xs -> Forall good ys ->
  (forall x y, In x xs -> In y ys -> tmp x <> tmp y) ->
  (forall x y, In x (xs ++ ys) -> In y (xs ++ ys) -> tmp x <> dst y) ->
  forall x, In x (xs ++ ys) -> forall sch s,
    exists c, read (dst x) (run (interleave sch (exec xs true NoFault) (exec ys true NoFault)) s) = Some c /\
              version_of (xs ++ ys) (dst x) c.
Proof.
  intros Gx Gy Dt Dd x Hx sch s.
  assert (D : forall q, tmps xs q -> tmps ys q -> False).
  { intros q [a [Ha Ea]] [b [Hb Eb]]. apply (Dt a b Ha Hb). congruence. }
  assert (Nd : forall (zs : list txn), (forall z, In z zs -> In z (xs ++ ys)) ->
               forall z, In z (xs ++ ys) -> ~ tmps zs (dst z)).
  { intros zs Hz z Iz [w [Hw E]]. apply (Dd w z); [apply Hz; exact Hw|exact Iz|exact E]. }
  assert (Ha : ok_trace (tmps xs) (tmps ys) (version_of (xs ++ ys)) s (exec xs true NoFault)).
  { apply (ok_trace_mono _ _ (version_of xs)); [intros; apply version_app_l; assumption|].
    apply exec_disciplined; [exact Gx|]. intros a Ia. split; apply Nd; try (apply in_or_app; left; exact Ia);
      intros z Hz; apply in_or_app; [left|right]; exact Hz. }
  assert (Hb : ok_trace (tmps ys) (tmps xs) (version_of (xs ++ ys)) s (exec ys true NoFault)).
  { apply (ok_trace_mono _ _ (version_of ys)); [intros; apply version_app_r; assumption|].
    apply exec_disciplined; [exact Gy|]. intros b Ib. split; apply Nd; try (apply in_or_app; right; exact Ib);
      intros z Hz; apply in_or_app; [right|left]; exact Hz. }
  assert (NA : ~ tmps xs (dst x)) by (apply Nd; [intros z Hz; apply in_or_app; left; exact Hz|exact Hx]).
  assert (NB : ~ tmps ys (dst x)) by (apply Nd; [intros z Hz; apply in_or_app; right; exact Hz|exact Hx]).
  apply (interleave_complete (tmps xs) (tmps ys) (version_of (xs ++ ys)) (dst x) D NA NB sch _ _ s s s
           (fun _ _ => eq_refl) (fun _ _ => eq_refl) Ha Hb (exec_strict xs Gx true s) (exec_strict ys Gy true s)).
  right. apply in_app_or in Hx. destruct Hx as [Hx|Hx]; [left|right]; apply exec_renames; assumption.
Qed.
