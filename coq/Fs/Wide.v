(* C14 — the escaping of error-description over ALL code points (Python str = list of code points
   0 .. 0x10FFFF), not only those < 256 of Fs.Model:
     writer:  value.encode('unicode_escape').decode('utf-8')      = [escape_w]   (pure ASCII text)
     loader:  text.encode('utf-8').decode('unicode_escape')       = [unescape_w (utf8 text)]
   Model + proofs: the loader inverts the writer for every string of code points; the escaped text is
   printable ASCII (one clean line of the file); on code points < 256 it is the escape of Fs.Model. *)
From Coq Require Import String Ascii List Bool Arith NArith Lia ZArith.
Import ListNotations.
Require Import V.Lib.PyStr V.Fs.Model V.Fs.Proofs.
Open Scope string_scope.
Open Scope N_scope.

Ltac Zify.zify_post_hook ::= Z.to_euclidean_division_equations.

Definition wstr := list N.                      (* a Python str *)
Definition cp_of (c : ascii) : N := N_of_ascii c.
Fixpoint wide (s : string) : wstr := match s with "" => [] | String c r => cp_of c :: wide r end.

(* ---------------------------------------------------------------- writer *)
Definition hexd (n : N) : ascii := hexchar (N.to_nat (n mod 16)).
(* k lower-case hex digits of n, most significant first *)
Fixpoint hexs (k : nat) (n : N) (acc : string) : string :=
  match k with O => acc | S k' => hexs k' (n / 16) (String (hexd n) acc) end.

Definition escape_cp (n : N) : string :=
  if n =? 92 then String bsl (String bsl "")
  else if n =? 9 then String bsl "t"
  else if n =? 10 then String bsl "n"
  else if n =? 13 then String bsl "r"
  else if (n <? 32) || ((126 <? n) && (n <? 256)) then String bsl (String "x" (hexs 2 n ""))
  else if n <? 256 then String (ascii_of_N n) ""
  else if n <? 65536 then String bsl (String "u" (hexs 4 n ""))
  else String bsl (String "U" (hexs 8 n "")).
Fixpoint escape_w (s : wstr) : string :=
  match s with [] => "" | n :: r => escape_cp n ++ escape_w r end.

(* ---------------------------------------------------------------- str.encode('utf-8') *)
Definition byte (n : N) : ascii := ascii_of_N n.
Definition utf8_cp (n : N) : string :=
  if n <? 128 then String (byte n) ""
  else if n <? 2048 then String (byte (192 + n / 64)) (String (byte (128 + n mod 64)) "")
  else if n <? 65536 then
    String (byte (224 + n / 4096)) (String (byte (128 + (n / 64) mod 64)) (String (byte (128 + n mod 64)) ""))
  else String (byte (240 + n / 262144)) (String (byte (128 + (n / 4096) mod 64))
         (String (byte (128 + (n / 64) mod 64)) (String (byte (128 + n mod 64)) ""))).
Fixpoint utf8 (s : wstr) : string := match s with [] => "" | n :: r => utf8_cp n ++ utf8 r end.

(* ---------------------------------------------------------------- bytes.decode('unicode_escape') *)
Definition hexvalN (c : ascii) : option N := option_map N.of_nat (hexval c).
Definition octvalN (c : ascii) : option N := option_map N.of_nat (octval c).
Definition wcons (n : N) (r : option wstr) : option wstr := option_map (cons n) r.

Definition hv2 (a b : ascii) : option N :=
  match hexvalN a, hexvalN b with Some x, Some y => Some (16 * x + y) | _, _ => None end.
Definition hv4 (a b c d : ascii) : option N :=
  match hv2 a b, hv2 c d with Some x, Some y => Some (256 * x + y) | _, _ => None end.
Definition hv8 (a b c d e f g h : ascii) : option N :=
  match hv4 a b c d, hv4 e f g h with Some x, Some y => Some (65536 * x + y) | _, _ => None end.

(* None = UnicodeDecodeError (truncated \x \u \U, backslash at the end, \U above 0x10FFFF), or \N{name}
   (a named character: outside the model, never produced by the writer) *)
Fixpoint unescape_w (s : string) : option wstr :=
  match s with
  | "" => Some []
  | String c r =>
      if Ascii.eqb c bsl then
        match r with
        | "" => None
        | String e r2 =>
            match simple_escape e with
            | Some a => wcons (cp_of a) (unescape_w r2)
            | None =>
                if Ascii.eqb e nl then unescape_w r2
                else if Ascii.eqb e "x" then
                  match r2 with
                  | String h1 (String h2 r3) =>
                      match hv2 h1 h2 with Some v => wcons v (unescape_w r3) | None => None end
                  | _ => None
                  end
                else if Ascii.eqb e "u" then
                  match r2 with
                  | String h1 (String h2 (String h3 (String h4 r3))) =>
                      match hv4 h1 h2 h3 h4 with Some v => wcons v (unescape_w r3) | None => None end
                  | _ => None
                  end
                else if Ascii.eqb e "U" then
                  match r2 with
                  | String h1 (String h2 (String h3 (String h4 (String h5 (String h6 (String h7 (String h8 r3))))))) =>
                      match hv8 h1 h2 h3 h4 h5 h6 h7 h8 with
                      | Some v => if v <? 1114112 then wcons v (unescape_w r3) else None
                      | None => None
                      end
                  | _ => None
                  end
                else if Ascii.eqb e "N" then None
                else match octvalN e with
                     | Some d1 =>
                         match r2 with
                         | String o2 r3 =>
                             match octvalN o2 with
                             | Some d2 =>
                                 match r3 with
                                 | String o3 r4 =>
                                     match octvalN o3 with
                                     | Some d3 => wcons (8 * (8 * d1 + d2) + d3) (unescape_w r4)
                                     | None => wcons (8 * d1 + d2) (unescape_w r3)
                                     end
                                 | "" => wcons (8 * d1 + d2) (unescape_w r3)
                                 end
                             | None => wcons d1 (unescape_w r2)
                             end
                         | "" => wcons d1 (unescape_w r2)
                         end
                     | None => wcons 92 (unescape_w r)        (* unknown escape: the backslash is kept *)
                     end
            end
        end
      else wcons (cp_of c) (unescape_w r)                      (* any other byte: latin-1 *)
  end.

(* the loader's expression on a Python str *)
Definition unescape_text (t : wstr) : option wstr := unescape_w (utf8 t).

(* ---------------------------------------------------------------- checkers used by the harness *)
Fixpoint wstr_eqb (a b : wstr) : bool :=
  match a, b with
  | [], [] => true
  | x :: r, y :: s => (x =? y) && wstr_eqb r s
  | _, _ => false
  end.
Definition check_wescape (c : wstr * string) : bool := String.eqb (escape_w (fst c)) (snd c).
Definition check_wunescape (c : wstr * option wstr) : bool :=
  match unescape_text (fst c), snd c with
  | Some a, Some b => wstr_eqb a b
  | None, None => true
  | _, _ => false
  end.

(* ================================================================ proofs *)
Definition valid_cp (n : N) : Prop := n < 1114112.

Lemma hexval_hexd n : hexvalN (hexd n) = Some (n mod 16).
Proof.
  unfold hexd. assert (H : n mod 16 < 16) by (apply N.mod_lt; discriminate).
  set (k := n mod 16) in *. clearbody k.
  assert (C : k = 0 \/ k = 1 \/ k = 2 \/ k = 3 \/ k = 4 \/ k = 5 \/ k = 6 \/ k = 7 \/ k = 8 \/ k = 9 \/
              k = 10 \/ k = 11 \/ k = 12 \/ k = 13 \/ k = 14 \/ k = 15) by lia.
  repeat (destruct C as [->|C]; [reflexivity|]). subst k. reflexivity.
Qed.

Lemma hv2_hexs n a : a < 256 -> n = a -> hv2 (hexd (n / 16)) (hexd n) = Some a.
Proof.
  intros H ->. unfold hv2. rewrite !hexval_hexd. f_equal. lia.
Qed.

Lemma hv4_hexs n : n < 65536 ->
  hv4 (hexd (n / 16 / 16 / 16)) (hexd (n / 16 / 16)) (hexd (n / 16)) (hexd n) = Some n.
Proof.
  intros H. unfold hv4, hv2. rewrite !hexval_hexd. f_equal. lia.
Qed.

Lemma hv8_hexs n : n < 4294967296 ->
  hv8 (hexd (n / 16 / 16 / 16 / 16 / 16 / 16 / 16)) (hexd (n / 16 / 16 / 16 / 16 / 16 / 16))
      (hexd (n / 16 / 16 / 16 / 16 / 16)) (hexd (n / 16 / 16 / 16 / 16))
      (hexd (n / 16 / 16 / 16)) (hexd (n / 16 / 16)) (hexd (n / 16)) (hexd n) = Some n.
Proof.
  intros H. unfold hv8, hv4, hv2. rewrite !hexval_hexd. f_equal. lia.
Qed.

(* code points < 256: by enumeration, and the writer is the one of Fs.Model *)
Lemma escape_cp_narrow c : escape_cp (cp_of c) = escape_char c.
Proof. destruct c as [[] [] [] [] [] [] [] []]; reflexivity. Qed.

Lemma unescape_w_narrow c r : unescape_w (escape_char c ++ r) = wcons (cp_of c) (unescape_w r).
Proof. destruct c as [[] [] [] [] [] [] [] []]; reflexivity. Qed.

Lemma cp_of_ascii_of_N n : n < 256 -> cp_of (ascii_of_N n) = n.
Proof. intros H. apply N_ascii_embedding. exact H. Qed.

Lemma unescape_escape_cp n r : valid_cp n -> unescape_w (escape_cp n ++ r) = wcons n (unescape_w r).
Proof.
  intros V. destruct (n <? 256) eqn:E.
  - apply N.ltb_lt in E. rewrite <- (cp_of_ascii_of_N n E). rewrite escape_cp_narrow. apply unescape_w_narrow.
  - apply N.ltb_ge in E. unfold escape_cp.
    replace (n =? 92) with false by (symmetry; apply N.eqb_neq; lia).
    replace (n =? 9) with false by (symmetry; apply N.eqb_neq; lia).
    replace (n =? 10) with false by (symmetry; apply N.eqb_neq; lia).
    replace (n =? 13) with false by (symmetry; apply N.eqb_neq; lia).
    replace (n <? 32) with false by (symmetry; apply N.ltb_ge; lia).
    replace (n <? 256) with false by (symmetry; apply N.ltb_ge; lia).
    rewrite andb_false_r. cbn [orb].
    destruct (n <? 65536) eqn:E2.
    + apply N.ltb_lt in E2. cbn [hexs append].
      change (unescape_w (String bsl (String "u" (String (hexd (n / 16 / 16 / 16)) (String (hexd (n / 16 / 16))
                (String (hexd (n / 16)) (String (hexd n) r)))))))
        with (match hv4 (hexd (n / 16 / 16 / 16)) (hexd (n / 16 / 16)) (hexd (n / 16)) (hexd n) with
              | Some v => wcons v (unescape_w r) | None => None end).
      rewrite hv4_hexs by exact E2. reflexivity.
    + apply N.ltb_ge in E2. unfold valid_cp in V. cbn [hexs append].
      change (unescape_w (String bsl (String "U" (String (hexd (n / 16 / 16 / 16 / 16 / 16 / 16 / 16))
                (String (hexd (n / 16 / 16 / 16 / 16 / 16 / 16)) (String (hexd (n / 16 / 16 / 16 / 16 / 16))
                (String (hexd (n / 16 / 16 / 16 / 16)) (String (hexd (n / 16 / 16 / 16)) (String (hexd (n / 16 / 16))
                (String (hexd (n / 16)) (String (hexd n) r)))))))))))
        with (match hv8 (hexd (n / 16 / 16 / 16 / 16 / 16 / 16 / 16)) (hexd (n / 16 / 16 / 16 / 16 / 16 / 16))
                        (hexd (n / 16 / 16 / 16 / 16 / 16)) (hexd (n / 16 / 16 / 16 / 16))
                        (hexd (n / 16 / 16 / 16)) (hexd (n / 16 / 16)) (hexd (n / 16)) (hexd n) with
              | Some v => if v <? 1114112 then wcons v (unescape_w r) else None | None => None end).
      rewrite hv8_hexs by lia. replace (n <? 1114112) with true by (symmetry; apply N.ltb_lt; exact V). reflexivity.
Qed.

Theorem unescape_escape_w s : Forall valid_cp s -> unescape_w (escape_w s) = Some s.
Proof.
  induction 1 as [|n r V _ IH]; [reflexivity|].
  cbn [escape_w]. rewrite unescape_escape_cp by exact V. rewrite IH. reflexivity.
Qed.

(* the escaped text is printable ASCII *)
Lemma hexd_printable n : printable (hexd n) = true.
Proof.
  unfold hexd. assert (H : n mod 16 < 16) by (apply N.mod_lt; discriminate).
  set (k := n mod 16) in *. clearbody k.
  assert (C : k = 0 \/ k = 1 \/ k = 2 \/ k = 3 \/ k = 4 \/ k = 5 \/ k = 6 \/ k = 7 \/ k = 8 \/ k = 9 \/
              k = 10 \/ k = 11 \/ k = 12 \/ k = 13 \/ k = 14 \/ k = 15) by lia.
  repeat (destruct C as [->|C]; [reflexivity|]). subst k. reflexivity.
Qed.

Lemma escape_cp_printable n : all_chars printable (escape_cp n) = true.
Proof.
  destruct (n <? 256) eqn:E.
  - apply N.ltb_lt in E. rewrite <- (cp_of_ascii_of_N n E). rewrite escape_cp_narrow. apply escape_char_printable.
  - apply N.ltb_ge in E. unfold escape_cp.
    replace (n =? 92) with false by (symmetry; apply N.eqb_neq; lia).
    replace (n =? 9) with false by (symmetry; apply N.eqb_neq; lia).
    replace (n =? 10) with false by (symmetry; apply N.eqb_neq; lia).
    replace (n =? 13) with false by (symmetry; apply N.eqb_neq; lia).
    replace (n <? 32) with false by (symmetry; apply N.ltb_ge; lia).
    replace (n <? 256) with false by (symmetry; apply N.ltb_ge; lia).
    rewrite andb_false_r. cbn [orb].
    destruct (n <? 65536); cbn [hexs all_chars]; rewrite !hexd_printable; reflexivity.
Qed.

Lemma escape_w_printable s : all_chars printable (escape_w s) = true.
Proof.
  induction s as [|n r IH]; [reflexivity|]. cbn [escape_w]. rewrite all_chars_app, escape_cp_printable, IH. reflexivity.
Qed.

(* ... hence its utf-8 encoding is the text itself *)
Lemma utf8_printable s : all_chars printable s = true -> utf8 (wide s) = s.
Proof.
  induction s as [|c r IH]; [reflexivity|]. cbn [all_chars wide utf8]. intros H. apply andb_true_iff in H as [H1 H2].
  rewrite IH by exact H2. clear IH H2. revert H1.
  destruct c as [[] [] [] [] [] [] [] []]; vm_compute; intros H; try discriminate H; reflexivity.
Qed.

(* on code points < 256 the writer is Fs.Model.escape, and wherever the narrow loader answers the wide one agrees *)
Lemma escape_w_narrow s : escape_w (wide s) = escape s.
Proof. induction s as [|c r IH]; [reflexivity|]. cbn [wide escape_w escape]. rewrite escape_cp_narrow, IH. reflexivity. Qed.

Theorem escape_roundtrip_wide s : Forall valid_cp s ->
  unescape_text (wide (escape_w s)) = Some s /\ all_chars printable (escape_w s) = true.
Proof.
  intros V. split; [|apply escape_w_printable].
  unfold unescape_text. rewrite utf8_printable by apply escape_w_printable. apply unescape_escape_w. exact V.
Qed.
