From Coq Require Import List Bool Arith Lia.
Import ListNotations.
Require Import V.Restart.Model V.Sched.Model.

(* ------------------------------------------------------------------ basics *)
Lemma memn_In x l : memn x l = true <-> In x l.
Proof.
  unfold memn. rewrite existsb_exists. split.
  - intros [y [Hy E]]. apply Nat.eqb_eq in E. subst. exact Hy.
  - intros H. exists x. split; [exact H|apply Nat.eqb_refl].
Qed.

Lemma upd_same f c d : upd f c d c = d.
Proof. unfold upd. rewrite Nat.eqb_refl. reflexivity. Qed.

Lemma upd_other f c d x : x <> c -> upd f c d x = f x.
Proof. intros H. unfold upd. apply Nat.eqb_neq in H. rewrite H. reflexivity. Qed.

Lemma In_remove1 x y l : In x (remove1 y l) -> In x l.
Proof.
  induction l as [|z l IH]; cbn; [auto|]. destruct (Nat.eqb y z); cbn; intros H; [auto|]. destruct H; auto.
Qed.

Lemma is_fin_ctl d : is_fin (cstate d) = true <-> exists f, ctl d = Some f.
Proof.
  unfold cstate. destruct (ctl d) as [f|]; cbn.
  - split; [intros _; exists f; reflexivity|reflexivity].
  - destruct (e d); cbn; split; try discriminate; intros [f H]; discriminate.
Qed.

Lemma is_run_spec d : is_run (cstate d) = true <-> ctl d = None /\ (forall r, e d <> Exited r).
Proof.
  unfold cstate. destruct (ctl d) as [f|]; cbn.
  - split; [discriminate|intros [H _]; discriminate].
  - destruct (e d); cbn; split; intros H; try reflexivity; try discriminate; try (split; [reflexivity|intros r0 H0; discriminate]).
    destruct H as [_ H]. exfalso. exact (H r eq_refl).
Qed.

(* ------------------------------------------------------------------ local invariant of one component *)
Record linv (d : dyn) : Prop := {
  l_unstaged : staged d = false -> e d = Idle /\ ctl d = None /\ runs d = 0 /\ finish_called d = false;
  l_ctl : forall f, ctl d = Some f -> finish_called d = true /\ exists r, e d = Exited r;
  l_launched : staged d = true -> finish_called d = false -> 0 < runs d;
  l_kill : kill_req d = true -> finish_called d = true;
  l_active : e d = Active -> 0 < runs d;
  l_exited : forall r, e d = Exited r -> finish_called d = false -> 0 < runs d
}.

Lemma linv_dyn0 : linv dyn0.
Proof. constructor; cbn; intros; try discriminate; auto. Qed.

Lemma linv_staged_of_nonidle d : linv d -> e d <> Idle -> staged d = true.
Proof. intros L H. destruct (staged d) eqn:E; [reflexivity|]. destruct (l_unstaged d L E) as [X _]. contradiction. Qed.

Lemma linv_ctl_none_of_not_fc d : linv d -> finish_called d = false -> ctl d = None.
Proof. intros L H. destruct (ctl d) as [f|] eqn:E; [|reflexivity]. destruct (l_ctl d L f E) as [X _]. congruence. Qed.

(* finish on a staged component whose controller state is not yet set *)
Lemma d_finish_linv f d : linv d -> ctl d = None -> staged d = true -> linv (d_finish f d).
Proof.
  intros L Hc Hs. unfold d_finish. destruct (is_run (cstate d)) eqn:R.
  - apply is_run_spec in R as [_ Rn].
    constructor; cbn; intros; try congruence; auto.
    + destruct (l_ctl d L f0 H) as [_ X]. split; [reflexivity|exact X].
    + exact (l_active d L H).
  - assert (Ex : exists r, e d = Exited r).
    { unfold cstate in R. rewrite Hc in R. destruct (e d) eqn:E; cbn in R; try discriminate. eauto. }
    constructor; cbn; intros; try congruence; auto.
    exact (l_active d L H).
Qed.

Lemma d_finish_ctl f d : ctl d = None -> (ctl (d_finish f d) = None \/ ctl (d_finish f d) = Some f).
Proof. intros H. unfold d_finish. destruct (is_run (cstate d)); cbn; auto. Qed.

Lemma d_finish_frame f d :
  staged (d_finish f d) = staged d /\ runs (d_finish f d) = runs d /\ finish_called (d_finish f d) = true /\
  e (d_finish f d) = e d /\ restarts (d_finish f d) = restarts d /\ resub (d_finish f d) = resub d.
Proof. unfold d_finish. destruct (is_run (cstate d)); cbn; repeat split. Qed.

Lemma d_finish_cstate_run f d : is_run (cstate d) = true -> cstate (d_finish f d) = cstate d.
Proof. intros R. unfold d_finish. rewrite R. unfold cstate. cbn. reflexivity. Qed.

(* stage + finish of a component that was never staged (fake finish) *)
Lemma fake_linv f d : linv d -> staged d = false -> linv (d_finish f (d_stage d)).
Proof.
  intros L Hs. destruct (l_unstaged d L Hs) as [He [Hc [Hr Hf]]].
  unfold d_finish, d_stage, cstate. cbn. rewrite Hc, He. cbn.
  constructor; cbn; intros; try congruence; auto; try discriminate.
Qed.

Lemma fake_cstate f d : linv d -> staged d = false -> cstate (d_finish f (d_stage d)) = cstate d /\ cstate d = CRun.
Proof.
  intros L Hs. destruct (l_unstaged d L Hs) as [He [Hc [Hr Hf]]].
  unfold d_finish, d_stage, cstate. cbn. rewrite Hc, He. cbn. split; reflexivity.
Qed.

(* stage + run of a component that was never staged *)
Lemma launch_linv d : linv d -> staged d = false -> linv (d_launch (d_stage d)) /\ runs (d_launch (d_stage d)) = 1.
Proof.
  intros L Hs. destruct (l_unstaged d L Hs) as [He [Hc [Hr Hf]]].
  unfold d_launch, d_stage, cstate. cbn. rewrite Hc, He. cbn. split; [|lia].
  constructor; cbn; intros; try congruence; try lia; try discriminate.
  - exact (l_kill d L H).
Qed.
