From Coq Require Import List Bool Arith Lia.
Import ListNotations.
Require Import V.Restart.Model V.Sched.Model.

(* ------------------------------------------------------------------ basics *)
Lemma memn_In x l : memn x l = true <-> In x l.
Proof.
  unfold memn. rewrite existsb_exists. split.
  - intros [y [Hy E]]. apply Nat.eqb_eq in E. subst. exact Hy.
  - intros H. exists x. split; [exact H|apply Nat.eqb_refl].
Qed.

Lemma upd_same f c d : upd f c d c = d.
Proof. unfold upd. rewrite Nat.eqb_refl. reflexivity. Qed.

Lemma upd_other f c d x : x <> c -> upd f c d x = f x.
Proof. intros H. unfold upd. apply Nat.eqb_neq in H. rewrite H. reflexivity. Qed.

Lemma In_remove1 x y l : In x (remove1 y l) -> In x l.
Proof.
  induction l as [|z l IH]; cbn; [auto|]. destruct (Nat.eqb y z); cbn; intros H; [auto|]. destruct H; auto.
Qed.

Lemma is_fin_ctl d : is_fin (cstate d) = true <-> exists f, ctl d = Some f.
Proof.
  unfold cstate. destruct (ctl d) as [f|]; cbn.
  - split; [intros _; exists f; reflexivity|reflexivity].
  - destruct (e d); cbn; split; try discriminate; intros [f H]; discriminate.
Qed.

Lemma is_run_spec d : is_run (cstate d) = true <-> ctl d = None /\ (forall r, e d <> Exited r).
Proof.
  unfold cstate. destruct (ctl d) as [f|]; cbn.
  - split; [discriminate|intros [H _]; discriminate].
  - destruct (e d); cbn; split; intros H; try reflexivity; try discriminate; try (split; [reflexivity|intros r0 H0; discriminate]).
    destruct H as [_ H]. exfalso. exact (H r eq_refl).
Qed.

(* ------------------------------------------------------------------ local invariant of one component *)
Record linv (d : dyn) : Prop := {
  l_unstaged : staged d = false -> e d = Idle /\ ctl d = None /\ runs d = 0 /\ finish_called d = false;
  l_ctl : forall f, ctl d = Some f -> finish_called d = true /\ exists r, e d = Exited r;
  l_launched : staged d = true -> finish_called d = false -> 0 < runs d;
  l_kill : kill_req d = true -> finish_called d = true;
  l_active : e d = Active -> 0 < runs d;
  l_exited : forall r, e d = Exited r -> finish_called d = false -> 0 < runs d
}.

Lemma linv_dyn0 : linv dyn0.
Proof. constructor; cbn; intros; try discriminate; auto. Qed.

Lemma linv_staged_of_nonidle d : linv d -> e d <> Idle -> staged d = true.
Proof. intros L H. destruct (staged d) eqn:E; [reflexivity|]. destruct (l_unstaged d L E) as [X _]. contradiction. Qed.

Lemma linv_ctl_none_of_not_fc d : linv d -> finish_called d = false -> ctl d = None.
Proof. intros L H. destruct (ctl d) as [f|] eqn:E; [|reflexivity]. destruct (l_ctl d L f E) as [X _]. congruence. Qed.

(* finish on a staged component whose controller state is not yet set *)
Lemma d_finish_linv f d : linv d -> ctl d = None -> staged d = true -> linv (d_finish f d).
Proof.
  intros L Hc Hs. unfold d_finish. destruct (is_run (cstate d)) eqn:R.
  - constructor; cbn.
    + intros H. congruence.
    + intros g H. congruence.
    + intros _ H. discriminate.
    + intros _. reflexivity.
    + intros H. exact (l_active d L H).
    + intros r _ H. discriminate.
  - assert (Ex : exists r, e d = Exited r).
    { unfold cstate in R. rewrite Hc in R. destruct (e d) eqn:E; cbn in R; try discriminate. eauto. }
    constructor; cbn.
    + intros H. congruence.
    + intros g _. split; [reflexivity|exact Ex].
    + intros _ H. discriminate.
    + intros _. reflexivity.
    + intros H. exact (l_active d L H).
    + intros r _ H. discriminate.
Qed.

Lemma d_finish_ctl f d : ctl d = None -> (ctl (d_finish f d) = None \/ ctl (d_finish f d) = Some f).
Proof. intros H. unfold d_finish. destruct (is_run (cstate d)); cbn; auto. Qed.

Lemma d_finish_frame f d :
  staged (d_finish f d) = staged d /\ runs (d_finish f d) = runs d /\ finish_called (d_finish f d) = true /\
  e (d_finish f d) = e d /\ restarts (d_finish f d) = restarts d /\ resub (d_finish f d) = resub d.
Proof. unfold d_finish. destruct (is_run (cstate d)); cbn; repeat split. Qed.

Lemma d_finish_cstate_run f d : is_run (cstate d) = true -> cstate (d_finish f d) = cstate d.
Proof. intros R. unfold d_finish. rewrite R. unfold cstate. cbn. reflexivity. Qed.

(* stage + finish of a component that was never staged (fake finish) *)
Lemma fake_linv f d : linv d -> staged d = false -> linv (d_finish f (d_stage d)).
Proof.
  intros L Hs. destruct (l_unstaged d L Hs) as [He [Hc [Hr Hf]]].
  unfold d_finish, d_stage, cstate. cbn. rewrite Hc, He. cbn.
  constructor; cbn.
  - intros H. discriminate.
  - intros g H. congruence.
  - intros _ H. discriminate.
  - intros _. reflexivity.
  - intros H. congruence.
  - intros r H. congruence.
Qed.

Lemma fake_cstate f d : linv d -> staged d = false -> cstate (d_finish f (d_stage d)) = cstate d /\ cstate d = CRun.
Proof.
  intros L Hs. destruct (l_unstaged d L Hs) as [He [Hc [Hr Hf]]].
  unfold d_finish, d_stage, cstate. cbn. rewrite Hc, He. cbn. split; reflexivity.
Qed.

(* stage + run of a component that was never staged *)
Lemma launch_linv d : linv d -> staged d = false -> linv (d_launch (d_stage d)) /\ runs (d_launch (d_stage d)) = 1.
Proof.
  intros L Hs. destruct (l_unstaged d L Hs) as [He [Hc [Hr Hf]]].
  unfold d_launch, d_stage, cstate. cbn. rewrite Hc, He. cbn. split; [|lia].
  constructor; cbn.
  - intros H. discriminate.
  - intros g H. congruence.
  - intros _ _. lia.
  - intros H. exact (l_kill d L H).
  - intros _. lia.
  - intros r H. discriminate.
Qed.

(* ------------------------------------------------------------------ global invariant and monotone extension *)
Definition Inv (s : state) : Prop :=
  (forall c, linv (dy s c)) /\
  (forall c, In c (done s) -> is_fin (pstate s c) = true) /\
  (forall c, In c (finq s) -> is_fin (pstate s c) = true).

Record ext (s s' : state) : Prop := {
  x_ctl : forall c f, ctl (dy s c) = Some f -> ctl (dy s' c) = Some f;
  x_staged : forall c, staged (dy s c) = true -> staged (dy s' c) = true;
  x_fc : forall c, finish_called (dy s c) = true -> finish_called (dy s' c) = true;
  x_done : forall c, In c (done s) -> In c (done s');
  x_runs : forall c, runs (dy s c) <= runs (dy s' c)
}.

Lemma ext_refl s : ext s s.
Proof. constructor; auto. Qed.

Lemma ext_trans a b c : ext a b -> ext b c -> ext a c.
Proof.
  intros [A1 A2 A3 A4 A5] [B1 B2 B3 B4 B5]. constructor; auto.
  intros x. specialize (A5 x). specialize (B5 x). lia.
Qed.

(* the fields no component-level operation touches *)
Definition core (s : state) := (done s, stop s, cur s, pmq s, running s, verdict s).

Lemma Inv_state0 : Inv state0.
Proof. split; [intros c; exact linv_dyn0|split; intros c H; destruct H]. Qed.

Lemma is_fin_stable s s' c : ext s s' -> is_fin (pstate s c) = true -> is_fin (pstate s' c) = true.
Proof.
  intros X H. unfold pstate in *. apply is_fin_ctl in H as [f H]. apply is_fin_ctl. exists f. exact (x_ctl _ _ X c f H).
Qed.

(* ---- finish *)
Lemma finish_ok s c f :
  Inv s -> ctl (dy s c) = None -> staged (dy s c) = true ->
  Inv (finish s c f) /\ ext s (finish s c f) /\ core (finish s c f) = core s /\
  (forall x, x <> c -> dy (finish s c f) x = dy s x) /\
  dy (finish s c f) c = d_finish f (dy s c) /\
  (forall x, In x (finq s) -> In x (finq (finish s c f))).
Proof.
  intros [I1 [I2 I3]] Hc Hs.
  assert (D : forall x, dy (finish s c f) x = if Nat.eqb x c then d_finish f (dy s c) else dy s x).
  { intros x. unfold finish. destruct (negb _ && negb _); cbn; reflexivity. }
  assert (Dc : dy (finish s c f) c = d_finish f (dy s c)) by (rewrite D, Nat.eqb_refl; reflexivity).
  assert (Do : forall x, x <> c -> dy (finish s c f) x = dy s x).
  { intros x Hx. rewrite D. apply Nat.eqb_neq in Hx. rewrite Hx. reflexivity. }
  assert (Core : core (finish s c f) = core s).
  { unfold finish. destruct (negb _ && negb _); reflexivity. }
  assert (Fq : forall x, In x (finq (finish s c f)) -> In x (finq s) \/
                (x = c /\ is_run (cstate (dy s c)) = false)).
  { intros x. unfold finish. destruct (negb (is_run (cstate (dy s c))) && negb (is_fin (cstate (dy s c)))) eqn:G; cbn.
    - intros H. apply in_app_or in H as [H|[H|[]]]; [left; exact H|right]. split; [auto|].
      apply andb_true_iff in G as [G _]. destruct (is_run (cstate (dy s c))); [discriminate|reflexivity].
    - auto. }
  assert (Fq2 : forall x, In x (finq s) -> In x (finq (finish s c f))).
  { intros x H. unfold finish. destruct (negb _ && negb _); cbn; [apply in_or_app; left|]; exact H. }
  assert (X : ext s (finish s c f)).
  { constructor.
    - intros x g H. destruct (Nat.eq_dec x c) as [->|N]; [congruence|rewrite (Do x N); exact H].
    - intros x H. destruct (Nat.eq_dec x c) as [->|N]; [rewrite Dc; destruct (d_finish_frame f (dy s c)) as [A _]; congruence|rewrite (Do x N); exact H].
    - intros x H. destruct (Nat.eq_dec x c) as [->|N]; [rewrite Dc; destruct (d_finish_frame f (dy s c)) as [_ [_ [A _]]]; exact A|rewrite (Do x N); exact H].
    - intros x H. unfold core in Core. congruence.
    - intros x. destruct (Nat.eq_dec x c) as [->|N]; [rewrite Dc; destruct (d_finish_frame f (dy s c)) as [_ [A _]]; lia|rewrite (Do x N); lia]. }
  split; [|split; [exact X|split; [exact Core|split; [exact Do|split; [exact Dc|exact Fq2]]]]].
  split; [|split].
  - intros x. destruct (Nat.eq_dec x c) as [->|N]; [rewrite Dc; apply d_finish_linv; auto|rewrite (Do x N); apply I1].
  - intros x H. assert (H' : In x (done s)) by (unfold core in Core; congruence).
    exact (is_fin_stable s _ x X (I2 x H')).
  - intros x H. destruct (Fq x H) as [H'|[-> R]].
    + exact (is_fin_stable s _ x X (I3 x H')).
    + unfold pstate. rewrite Dc. unfold d_finish. rewrite R. reflexivity.
Qed.

(* ---- fake finish of a never-staged component *)
Lemma fake_finish_ok s c f :
  Inv s -> staged (dy s c) = false ->
  Inv (fake_finish s c f) /\ ext s (fake_finish s c f) /\ core (fake_finish s c f) = core s /\
  finq (fake_finish s c f) = finq s /\
  (forall x, x <> c -> dy (fake_finish s c f) x = dy s x) /\
  dy (fake_finish s c f) c = d_finish f (d_stage (dy s c)) /\
  (forall x, pstate (fake_finish s c f) x = pstate s x) /\
  (forall x, runs (dy (fake_finish s c f) x) = runs (dy s x)).
Proof.
  intros [I1 [I2 I3]] Hs.
  destruct (l_unstaged _ (I1 c) Hs) as [He [Hc [Hr Hf]]].
  assert (R : is_run (cstate (d_stage (dy s c))) = true).
  { unfold cstate, d_stage. cbn. rewrite Hc, He. reflexivity. }
  assert (E : fake_finish s c f = set_dy (set_dy s c (d_stage (dy s c))) c (d_finish f (d_stage (dy s c)))).
  { unfold fake_finish, finish. cbn. rewrite upd_same, R. cbn. reflexivity. }
  assert (Dc : dy (fake_finish s c f) c = d_finish f (d_stage (dy s c))).
  { rewrite E. cbn. apply upd_same. }
  assert (Do : forall x, x <> c -> dy (fake_finish s c f) x = dy s x).
  { intros x N. rewrite E. cbn. rewrite !upd_other by exact N. reflexivity. }
  assert (Core : core (fake_finish s c f) = core s) by (rewrite E; reflexivity).
  assert (Fq : finq (fake_finish s c f) = finq s) by (rewrite E; reflexivity).
  destruct (fake_cstate f _ (I1 c) Hs) as [C1 C2].
  assert (Ps : forall x, pstate (fake_finish s c f) x = pstate s x).
  { intros x. unfold pstate. destruct (Nat.eq_dec x c) as [->|N]; [rewrite Dc; exact C1|rewrite (Do x N); reflexivity]. }
  assert (Rn : forall x, runs (dy (fake_finish s c f) x) = runs (dy s x)).
  { intros x. destruct (Nat.eq_dec x c) as [->|N]; [rewrite Dc|rewrite (Do x N); reflexivity].
    destruct (d_finish_frame f (d_stage (dy s c))) as [_ [A _]]. rewrite A. reflexivity. }
  assert (X : ext s (fake_finish s c f)).
  { constructor.
    - intros x g H. destruct (Nat.eq_dec x c) as [->|N]; [congruence|rewrite (Do x N); exact H].
    - intros x H. destruct (Nat.eq_dec x c) as [->|N]; [congruence|rewrite (Do x N); exact H].
    - intros x H. destruct (Nat.eq_dec x c) as [->|N]; [congruence|rewrite (Do x N); exact H].
    - intros x H. unfold core in Core. congruence.
    - intros x. rewrite Rn. lia. }
  split; [|split; [exact X|split; [exact Core|split; [exact Fq|split; [exact Do|split; [exact Dc|split; [exact Ps|exact Rn]]]]]]].
  split; [|split].
  - intros x. destruct (Nat.eq_dec x c) as [->|N]; [rewrite Dc; apply fake_linv; auto|rewrite (Do x N); apply I1].
  - intros x H. rewrite Ps. apply I2. unfold core in Core. congruence.
  - intros x H. rewrite Ps. apply I3. congruence.
Qed.

Lemma NoDup_app_nodup_snoc {A} (l : list A) x : NoDup l -> ~ In x l -> NoDup (l ++ [x]).
Proof.
  intros H N. induction H as [|y l Hy H IH]; cbn; [constructor; [intros []|constructor]|].
  constructor.
  - intros Hi. apply in_app_or in Hi as [Hi|[Hi|[]]]; [contradiction|]. subst. apply N. left. reflexivity.
  - apply IH. intros Hi. apply N. right. exact Hi.
Qed.

Lemma existsb_ext' {A} (f g : A -> bool) l : (forall x, f x = g x) -> existsb f l = existsb g l.
Proof. intros H. induction l as [|x l IH]; cbn; [reflexivity|]. rewrite H, IH. reflexivity. Qed.
Lemma forallb_ext' {A} (f g : A -> bool) l : (forall x, f x = g x) -> forallb f l = forallb g l.
Proof. intros H. induction l as [|x l IH]; cbn; [reflexivity|]. rewrite H, IH. reflexivity. Qed.

(* ------------------------------------------------------------------ one scheduler pass *)
Section Pass.
Variable W : list comp.

(* what the scheduler has checked, in terms of the state before the pass *)
Definition Guard (s : state) (c : nat) : Prop :=
  (forall p, In p (preds (cmp W c)) ->
     In p (done s) \/
     (is_subject W c p = true /\ staged (dy s p) = true /\ finish_called (dy s p) = false)) /\
  shutdown_rule W s c = false.

Record PassInv (s : state) (si : state) (ready : list nat) : Prop := {
  p_inv : Inv si;
  p_ext : ext s si;
  p_core : core si = core s;
  p_finq : finq si = finq s;
  p_pstate : forall x, pstate si x = pstate s x;
  p_runs : forall x, runs (dy si x) = runs (dy s x);
  p_sub : forall x, staged (dy si x) = true -> finish_called (dy si x) = false ->
                    staged (dy s x) = true /\ finish_called (dy s x) = false;
  p_unst : forall x, staged (dy si x) = false -> dy si x = dy s x;
  p_ready : forall c, In c ready -> staged (dy si c) = false /\ Guard s c;
  p_nodup : NoDup ready
}.

Lemma shutdown_rule_pstate s si c :
  (forall x, pstate si x = pstate s x) -> shutdown_rule W si c = shutdown_rule W s c.
Proof.
  intros H. unfold shutdown_rule.
  assert (E1 : forall l, existsb (fun p => is_failed (pstate si p)) l = existsb (fun p => is_failed (pstate s p)) l).
  { intros l. apply existsb_ext'. intros p. rewrite H. reflexivity. }
  assert (E2 : forall l, existsb (fun p => is_shutdown (pstate si p)) l = existsb (fun p => is_shutdown (pstate s p)) l).
  { intros l. apply existsb_ext'. intros p. rewrite H. reflexivity. }
  assert (E3 : forall l, forallb (fun p => is_shutdown (pstate si p)) l = forallb (fun p => is_shutdown (pstate s p)) l).
  { intros l. apply forallb_ext'. intros p. rewrite H. reflexivity. }
  rewrite E1, !E2, E3. reflexivity.
Qed.

Lemma deps_ok_guard s si c :
  done si = done s ->
  (forall x, staged (dy si x) = true -> finish_called (dy si x) = false ->
             staged (dy s x) = true /\ finish_called (dy s x) = false) ->
  deps_ok W true si c = true ->
  forall p, In p (preds (cmp W c)) ->
     In p (done s) \/ (is_subject W c p = true /\ staged (dy s p) = true /\ finish_called (dy s p) = false).
Proof.
  intros Hd Hsub H p Hp. unfold deps_ok in H. rewrite forallb_forall in H. specialize (H p Hp).
  apply orb_true_iff in H as [H|H].
  - left. apply memn_In in H. rewrite Hd in H. exact H.
  - right. apply andb_true_iff in H as [H H3]. apply andb_true_iff in H as [H1 H2]. cbn in H3.
    apply negb_true_iff in H3. destruct (Hsub p H2 H3) as [A B]. auto.
Qed.

Lemma visit_ok s si ready c :
  PassInv s si ready -> ~ In c ready ->
  let '(si', ready') := sched_visit W true (si, ready) c in
  PassInv s si' ready' /\ (forall x, In x ready' -> In x ready \/ x = c).
Proof.
  intros P Hn. unfold sched_visit.
  destruct (memn c (done si) || is_fin (pstate si c) || staged (dy si c) || negb (deps_ok W true si c)) eqn:G.
  { split; [exact P|auto]. }
  apply orb_false_iff in G as [G G4]. apply orb_false_iff in G as [G G3]. apply orb_false_iff in G as [G1 G2].
  apply negb_false_iff in G4.
  assert (Gd : forall p, In p (preds (cmp W c)) ->
     In p (done s) \/ (is_subject W c p = true /\ staged (dy s p) = true /\ finish_called (dy s p) = false)).
  { apply (deps_ok_guard s si c); [pose proof (p_core _ _ _ P) as C; unfold core in C; congruence|exact (p_sub _ _ _ P)|exact G4]. }
  destruct (shutdown_rule W si c) eqn:Sr.
  - (* fake finish *)
    destruct (fake_finish_ok si c Shutdown (p_inv _ _ _ P) G3) as [I' [X' [C' [F' [Do [Dc [Ps Rn]]]]]]].
    split; [|auto]. constructor.
    + exact I'.
    + exact (ext_trans _ _ _ (p_ext _ _ _ P) X').
    + rewrite C'. exact (p_core _ _ _ P).
    + rewrite F'. exact (p_finq _ _ _ P).
    + intros x. rewrite Ps. exact (p_pstate _ _ _ P x).
    + intros x. rewrite Rn. exact (p_runs _ _ _ P x).
    + intros x Hs Hf. destruct (Nat.eq_dec x c) as [->|N].
      * rewrite Dc in Hf. destruct (d_finish_frame Shutdown (d_stage (dy si c))) as [_ [_ [A _]]]. congruence.
      * rewrite (Do x N) in Hs, Hf. exact (p_sub _ _ _ P x Hs Hf).
    + intros x Hs. destruct (Nat.eq_dec x c) as [->|N].
      * rewrite Dc in Hs. destruct (d_finish_frame Shutdown (d_stage (dy si c))) as [A _]. rewrite A in Hs. discriminate.
      * rewrite (Do x N) in Hs |- *. exact (p_unst _ _ _ P x Hs).
    + intros x Hx. assert (N : x <> c) by (intros ->; contradiction).
      rewrite (Do x N). exact (p_ready _ _ _ P x Hx).
    + exact (p_nodup _ _ _ P).
  - (* ready *)
    split.
    + constructor; try (destruct P; assumption).
      * intros x Hx. apply in_app_or in Hx as [Hx|[<-|[]]]; [exact (p_ready _ _ _ P x Hx)|].
        split; [exact G3|]. split; [exact Gd|].
        rewrite <- (shutdown_rule_pstate s si c (p_pstate _ _ _ P)). exact Sr.
      * apply NoDup_app_nodup_snoc; [exact (p_nodup _ _ _ P)|exact Hn].
    + intros x Hx. apply in_app_or in Hx as [Hx|[<-|[]]]; auto.
Qed.

Lemma visits_ok s : forall l si ready,
  PassInv s si ready -> NoDup l -> (forall c, In c ready -> ~ In c l) ->
  PassInv s (fst (fold_left (sched_visit W true) l (si, ready))) (snd (fold_left (sched_visit W true) l (si, ready))).
Proof.
  induction l as [|c l IH]; intros si ready P Hl Hr; cbn [fold_left]; [exact P|].
  inversion Hl as [|? ? Hc Hl']; subst.
  assert (Hn : ~ In c ready) by (intros H; apply (Hr c H); left; reflexivity).
  pose proof (visit_ok s si ready c P Hn) as V.
  destruct (sched_visit W true (si, ready) c) as [si' ready'] eqn:E. destruct V as [P' Sub].
  apply IH; [exact P'|exact Hl'|].
  intros x Hx Hi. destruct (Sub x Hx) as [H|H]; [apply (Hr x H); right; exact Hi|subst x; contradiction].
Qed.

Lemma PassInv_init s : Inv s -> PassInv s s [].
Proof.
  intros I. constructor.
  - exact I.
  - apply ext_refl.
  - reflexivity.
  - reflexivity.
  - reflexivity.
  - reflexivity.
  - intros x H1 H2. split; assumption.
  - reflexivity.
  - intros c H. destruct H.
  - constructor.
Qed.

End Pass.

Lemma fold_set_dy (F : dyn -> dyn) : forall l s, NoDup l ->
  (forall x, dy (fold_left (fun s c => set_dy s c (F (dy s c))) l s) x = if memn x l then F (dy s x) else dy s x) /\
  core (fold_left (fun s c => set_dy s c (F (dy s c))) l s) = core s /\
  finq (fold_left (fun s c => set_dy s c (F (dy s c))) l s) = finq s.
Proof.
  induction l as [|c l IH]; intros s Hl; cbn [fold_left]; [split; [reflexivity|split; reflexivity]|].
  inversion Hl as [|? ? Hc Hl']; subst.
  destruct (IH (set_dy s c (F (dy s c))) Hl') as [A [B C]]. split; [|split; [rewrite B; reflexivity|rewrite C; reflexivity]].
  intros x. rewrite A. cbn [memn existsb]. fold (memn x l). cbn [set_dy dy].
  destruct (Nat.eq_dec x c) as [->|N].
  - rewrite Nat.eqb_refl. cbn. rewrite upd_same.
    destruct (memn c l) eqn:M; [apply memn_In in M; contradiction|reflexivity].
  - rewrite upd_other by exact N. apply Nat.eqb_neq in N. rewrite N. reflexivity.
Qed.

Lemma submit_spec s ready : NoDup ready ->
  (forall x, dy (submit s ready) x = if memn x ready then d_launch (d_stage (dy s x)) else dy s x) /\
  core (submit s ready) = core s /\ finq (submit s ready) = finq s.
Proof.
  intros Hn. unfold submit.
  destruct (fold_set_dy d_stage ready s Hn) as [A1 [B1 C1]].
  destruct (fold_set_dy d_launch ready (fold_left (fun s c => set_dy s c (d_stage (dy s c))) ready s) Hn) as [A2 [B2 C2]].
  split; [|split; [rewrite B2, B1; reflexivity|rewrite C2, C1; reflexivity]].
  intros x. rewrite A2, A1. destruct (memn x ready); reflexivity.
Qed.

(* the whole pass *)
Lemma sched_pass_ok W s :
  Inv s ->
  Inv (sched_pass W true s) /\ ext s (sched_pass W true s) /\ core (sched_pass W true s) = core s /\
  finq (sched_pass W true s) = finq s /\
  (forall x, pstate (sched_pass W true s) x = pstate s x) /\
  (forall c, runs (dy s c) = 0 -> 0 < runs (dy (sched_pass W true s) c) ->
             stop s = false /\ staged (dy s c) = false /\ Guard W s c).
Proof.
  intros I. unfold sched_pass.
  pose proof (visits_ok W s (nodes W) s [] (PassInv_init W s I) (seq_NoDup _ _) (fun c H => match H with end)) as P.
  destruct (fold_left (sched_visit W true) (nodes W) (s, [])) as [s1 ready] eqn:E. cbn [fst snd] in P.
  assert (St : stop s1 = stop s) by (pose proof (p_core _ _ _ _ P) as C; unfold core in C; congruence).
  destruct (stop s1) eqn:S1.
  - split; [exact (p_inv _ _ _ _ P)|]. split; [exact (p_ext _ _ _ _ P)|]. split; [exact (p_core _ _ _ _ P)|].
    split; [exact (p_finq _ _ _ _ P)|]. split; [exact (p_pstate _ _ _ _ P)|].
    intros c H0 H1. rewrite (p_runs _ _ _ _ P c) in H1. lia.
  - destruct (submit_spec s1 ready (p_nodup _ _ _ _ P)) as [D [C F]].
    pose proof (p_inv _ _ _ _ P) as [I1 [I2 I3]].
    assert (Dl : forall x, In x ready -> linv (dy (submit s1 ready) x) /\ runs (dy (submit s1 ready) x) = 1 /\
                  cstate (dy (submit s1 ready) x) = cstate (dy s1 x) /\ staged (dy (submit s1 ready) x) = true /\
                  finish_called (dy (submit s1 ready) x) = finish_called (dy s1 x) /\ ctl (dy (submit s1 ready) x) = ctl (dy s1 x)).
    { intros x Hx. rewrite D. apply memn_In in Hx as M. rewrite M.
      destruct (p_ready _ _ _ _ P x Hx) as [Us _].
      destruct (launch_linv _ (I1 x) Us) as [L R]. split; [exact L|split; [exact R|]].
      destruct (l_unstaged _ (I1 x) Us) as [He [Hc [Hr Hf]]].
      unfold d_launch, d_stage, cstate. cbn. rewrite Hc, He. cbn. auto. }
    assert (Dn : forall x, ~ In x ready -> dy (submit s1 ready) x = dy s1 x).
    { intros x Hx. rewrite D. destruct (memn x ready) eqn:M; [apply memn_In in M; contradiction|reflexivity]. }
    assert (Ps : forall x, pstate (submit s1 ready) x = pstate s1 x).
    { intros x. unfold pstate. destruct (in_dec Nat.eq_dec x ready) as [Hx|Hx];
        [destruct (Dl x Hx) as [_ [_ [A _]]]; exact A|rewrite (Dn x Hx); reflexivity]. }
    assert (X : ext s1 (submit s1 ready)).
    { constructor.
      - intros x g H. destruct (in_dec Nat.eq_dec x ready) as [Hx|Hx];
          [destruct (Dl x Hx) as [_ [_ [_ [_ [_ A]]]]]; congruence|rewrite (Dn x Hx); exact H].
      - intros x H. destruct (in_dec Nat.eq_dec x ready) as [Hx|Hx];
          [destruct (Dl x Hx) as [_ [_ [_ [A _]]]]; exact A|rewrite (Dn x Hx); exact H].
      - intros x H. destruct (in_dec Nat.eq_dec x ready) as [Hx|Hx];
          [destruct (Dl x Hx) as [_ [_ [_ [_ [A _]]]]]; congruence|rewrite (Dn x Hx); exact H].
      - intros x H. unfold core in C. congruence.
      - intros x. destruct (in_dec Nat.eq_dec x ready) as [Hx|Hx].
        + destruct (Dl x Hx) as [_ [A _]]. rewrite A. destruct (p_ready _ _ _ _ P x Hx) as [Us _].
          destruct (l_unstaged _ (I1 x) Us) as [_ [_ [Hr _]]]. lia.
        + rewrite (Dn x Hx). lia. }
    split; [|split; [exact (ext_trans _ _ _ (p_ext _ _ _ _ P) X)|split; [rewrite C; exact (p_core _ _ _ _ P)|
             split; [rewrite F; exact (p_finq _ _ _ _ P)|split]]]].
    + split; [|split].
      * intros x. destruct (in_dec Nat.eq_dec x ready) as [Hx|Hx]; [exact (proj1 (Dl x Hx))|rewrite (Dn x Hx); apply I1].
      * intros x H. rewrite Ps. apply I2. unfold core in C. congruence.
      * intros x H. rewrite Ps. apply I3. congruence.
    + intros x. rewrite Ps. exact (p_pstate _ _ _ _ P x).
    + intros c H0 H1. destruct (in_dec Nat.eq_dec c ready) as [Hx|Hx].
      * destruct (p_ready _ _ _ _ P c Hx) as [Us G]. split; [congruence|]. split; [|exact G].
        rewrite <- (p_unst _ _ _ _ P c Us). exact Us.
      * rewrite (Dn c Hx), (p_runs _ _ _ _ P c) in H1. lia.
Qed.

(* ------------------------------------------------------------------ the other controller actions *)
Lemma alive_ctl d : alive d = true -> ctl d = None.
Proof.
  unfold alive. intros H. apply negb_true_iff in H. destruct (ctl d) as [f|] eqn:E; [|reflexivity].
  assert (X : is_fin (cstate d) = true) by (apply is_fin_ctl; eauto). congruence.
Qed.

Lemma stop_components_ok : forall cs s,
  Inv s -> (forall c, In c cs -> staged (dy s c) = true) ->
  Inv (stop_components s cs) /\ ext s (stop_components s cs) /\ core (stop_components s cs) = core s /\
  (forall x, In x (finq s) -> In x (finq (stop_components s cs))).
Proof.
  induction cs as [|c cs IH]; intros s I Hs; cbn [stop_components fold_left].
  - split; [exact I|split; [apply ext_refl|split; [reflexivity|auto]]].
  - fold (stop_components (if alive (dy s c) && negb (finish_called (dy s c)) then finish s c Shutdown else s) cs).
    destruct (alive (dy s c) && negb (finish_called (dy s c))) eqn:G.
    + apply andb_true_iff in G as [G1 G2].
      destruct (finish_ok s c Shutdown I (alive_ctl _ G1) (Hs c (or_introl eq_refl))) as [I' [X' [C' [_ [_ F']]]]].
      destruct (IH (finish s c Shutdown) I') as [I2 [X2 [C2 F2]]].
      { intros x Hx. apply (x_staged _ _ X'). apply Hs. right. exact Hx. }
      split; [exact I2|split; [exact (ext_trans _ _ _ X' X2)|split; [congruence|auto]]].
    + apply IH; [exact I|]. intros x Hx. apply Hs. right. exact Hx.
Qed.

Definition set_stop (s : state) (b : bool) : state :=
  {| dy := dy s; done := done s; stop := b; cur := cur s; pmq := pmq s; finq := finq s;
     running := running s; verdict := verdict s |}.

Lemma kill_fold_ok : forall l s,
  Inv s ->
  let s' := fold_left (fun s c => if negb (finish_called (dy s c)) && alive (dy s c)
                        then (if staged (dy s c) then finish s c Shutdown else fake_finish s c Shutdown)
                        else s) l s in
  Inv s' /\ ext s s' /\ done s' = done s /\ (forall x, In x (finq s) -> In x (finq s')).
Proof.
  induction l as [|c l IH]; intros s I; cbn [fold_left].
  - split; [exact I|split; [apply ext_refl|split; [reflexivity|auto]]].
  - destruct (negb (finish_called (dy s c)) && alive (dy s c)) eqn:G.
    + apply andb_true_iff in G as [G1 G2]. destruct (staged (dy s c)) eqn:St.
      * destruct (finish_ok s c Shutdown I (alive_ctl _ G2) St) as [I' [X' [C' [_ [_ F']]]]].
        destruct (IH (finish s c Shutdown) I') as [I2 [X2 [D2 F2]]].
        split; [exact I2|split; [exact (ext_trans _ _ _ X' X2)|split; [unfold core in C'; congruence|auto]]].
      * destruct (fake_finish_ok s c Shutdown I St) as [I' [X' [C' [F' _]]]].
        destruct (IH (fake_finish s c Shutdown) I') as [I2 [X2 [D2 F2]]].
        split; [exact I2|split; [exact (ext_trans _ _ _ X' X2)|split; [unfold core in C'; congruence|]]].
        intros x Hx. apply F2. rewrite F'. exact Hx.
    + apply IH. exact I.
Qed.

Lemma kill_all_ok W s : Inv s ->
  Inv (kill_all W s) /\ ext s (kill_all W s) /\ done (kill_all W s) = done s /\
  (forall x, In x (finq s) -> In x (finq (kill_all W s))).
Proof.
  intros I. unfold kill_all.
  assert (I0 : Inv (set_stop s true)) by exact I.
  destruct (kill_fold_ok (nodes W) (set_stop s true) I0) as [A [B [C D]]].
  split; [exact A|split; [|split; [exact C|exact D]]].
  destruct B as [B1 B2 B3 B4 B5]. constructor; auto.
Qed.

Lemma fake_fold_ok : forall cs s,
  Inv s ->
  let s' := fold_left (fun s x => if negb (staged (dy s x)) && negb (finish_called (dy s x))
                                  then fake_finish s x Shutdown else s) cs s in
  Inv s' /\ ext s s' /\ core s' = core s /\ finq s' = finq s /\ (forall c, In c cs -> staged (dy s' c) = true).
Proof.
  induction cs as [|c cs IH]; intros s I; cbn [fold_left].
  - split; [exact I|split; [apply ext_refl|split; [reflexivity|split; [reflexivity|intros c []]]]].
  - destruct (negb (staged (dy s c)) && negb (finish_called (dy s c))) eqn:G.
    + apply andb_true_iff in G as [G1 _]. apply negb_true_iff in G1.
      destruct (fake_finish_ok s c Shutdown I G1) as [I' [X' [C' [F' [_ [Dc _]]]]]].
      destruct (IH (fake_finish s c Shutdown) I') as [I2 [X2 [C2 [F2 S2]]]].
      split; [exact I2|split; [exact (ext_trans _ _ _ X' X2)|split; [congruence|split; [congruence|]]]].
      intros x [<-|Hx]; [|exact (S2 x Hx)]. apply (x_staged _ _ X2). rewrite Dc.
      destruct (d_finish_frame Shutdown (d_stage (dy s c))) as [A _]. rewrite A. reflexivity.
    + destruct (IH s I) as [I2 [X2 [C2 [F2 S2]]]].
      split; [exact I2|split; [exact X2|split; [exact C2|split; [exact F2|]]]].
      intros x [<-|Hx]; [|exact (S2 x Hx)]. apply (x_staged _ _ X2).
      destruct (staged (dy s c)) eqn:St; [reflexivity|]. cbn in G.
      destruct I as [I1 _]. destruct (l_unstaged _ (I1 c) St) as [_ [_ [_ Hf]]]. rewrite Hf in G. discriminate.
Qed.

(* ---- run counts are touched only by the scheduler pass and by restarts *)
Lemma finish_runs s c f x : runs (dy (finish s c f) x) = runs (dy s x).
Proof.
  unfold finish. destruct (negb _ && negb _); cbn; unfold upd; destruct (Nat.eqb x c) eqn:E; try reflexivity;
    apply Nat.eqb_eq in E; subst; destruct (d_finish_frame f (dy s c)) as [_ [A _]]; exact A.
Qed.

Lemma fake_finish_runs s c f x : runs (dy (fake_finish s c f) x) = runs (dy s x).
Proof.
  unfold fake_finish. rewrite finish_runs. cbn. unfold upd. destruct (Nat.eqb x c) eqn:E; [|reflexivity].
  apply Nat.eqb_eq in E; subst. reflexivity.
Qed.

Lemma stop_components_runs : forall cs s x, runs (dy (stop_components s cs) x) = runs (dy s x).
Proof.
  induction cs as [|c cs IH]; intros s x; cbn [stop_components fold_left]; [reflexivity|].
  fold (stop_components (if alive (dy s c) && negb (finish_called (dy s c)) then finish s c Shutdown else s) cs).
  rewrite IH. destruct (alive (dy s c) && negb (finish_called (dy s c))); [apply finish_runs|reflexivity].
Qed.

Lemma kill_fold_runs : forall l s x,
  runs (dy (fold_left (fun s c => if negb (finish_called (dy s c)) && alive (dy s c)
                        then (if staged (dy s c) then finish s c Shutdown else fake_finish s c Shutdown)
                        else s) l s) x) = runs (dy s x).
Proof.
  induction l as [|c l IH]; intros s x; cbn [fold_left]; [reflexivity|]. rewrite IH.
  destruct (negb (finish_called (dy s c)) && alive (dy s c)); [|reflexivity].
  destruct (staged (dy s c)); [apply finish_runs|apply fake_finish_runs].
Qed.

Lemma fake_fold_runs : forall cs s x,
  runs (dy (fold_left (fun s x => if negb (staged (dy s x)) && negb (finish_called (dy s x))
                                  then fake_finish s x Shutdown else s) cs s) x) = runs (dy s x).
Proof.
  induction cs as [|c cs IH]; intros s x; cbn [fold_left]; [reflexivity|]. rewrite IH.
  destruct (negb (staged (dy s c)) && negb (finish_called (dy s c))); [apply fake_finish_runs|reflexivity].
Qed.

(* ------------------------------------------------------------------ every event preserves the invariant *)
Section Steps.
Variable W : list comp.
Variable outcome : nat -> nat -> reason.

Lemma Inv_sub s s' :
  Inv s -> dy s' = dy s -> (forall x, In x (done s') -> In x (done s)) -> (forall x, In x (finq s') -> In x (finq s)) -> Inv s'.
Proof.
  intros [I1 [I2 I3]] Hd H1 H2. unfold Inv, pstate. rewrite Hd. split; [exact I1|split; intros x Hx; [apply I2|apply I3]; auto].
Qed.

Lemma ext_same_dy s s' : dy s' = dy s -> (forall x, In x (done s) -> In x (done s')) -> ext s s'.
Proof. intros Hd H. constructor; rewrite ?Hd; auto. Qed.

Lemma set_dy_ok s c d' :
  Inv s -> linv d' ->
  (forall g, ctl (dy s c) = Some g -> ctl d' = Some g) ->
  (staged (dy s c) = true -> staged d' = true) ->
  (finish_called (dy s c) = true -> finish_called d' = true) ->
  runs (dy s c) <= runs d' ->
  Inv (set_dy s c d') /\ ext s (set_dy s c d').
Proof.
  intros [I1 [I2 I3]] L H1 H2 H3 H4.
  assert (X : ext s (set_dy s c d')).
  { constructor; cbn; auto; intros x; unfold upd; destruct (Nat.eqb x c) eqn:E;
      try (apply Nat.eqb_eq in E; subst x); auto. }
  split; [|exact X]. split; [|split].
  - intros x. cbn. unfold upd. destruct (Nat.eqb x c); [exact L|apply I1].
  - intros x Hx. exact (is_fin_stable s _ x X (I2 x Hx)).
  - intros x Hx. exact (is_fin_stable s _ x X (I3 x Hx)).
Qed.

Lemma add_finq_ok s c : Inv s -> is_fin (pstate s c) = true -> Inv (add_finq s c) /\ ext s (add_finq s c).
Proof.
  intros [I1 [I2 I3]] H. split; [|apply ext_same_dy; [reflexivity|auto]].
  split; [exact I1|split; [exact I2|]]. intros x Hx. cbn in Hx. apply in_app_or in Hx as [Hx|[Hx|[]]].
  - exact (I3 x Hx).
  - subst x. exact H.
Qed.

Lemma exit_ok s c s' : Inv s -> exit_comp W outcome s c = Some s' ->
  Inv s' /\ ext s s' /\ (forall x, runs (dy s' x) = runs (dy s x)).
Proof.
  intros I H. unfold exit_comp in H. pose proof I as [I1 [I2 I3]].
  destruct (negb (c <? ncomp W) || negb (exit_enabled (dy s c))) eqn:G; [discriminate|].
  apply orb_false_iff in G as [_ G]. apply negb_false_iff in G.
  pose proof (I1 c) as L.
  assert (Hctl : ctl (dy s c) = None).
  { destruct (ctl (dy s c)) as [g|] eqn:E; [|reflexivity]. destruct (l_ctl _ L g E) as [_ [r Er]].
    unfold exit_enabled in G. rewrite Er in G. discriminate. }
  assert (Hst : staged (dy s c) = true).
  { destruct (staged (dy s c)) eqn:E; [reflexivity|]. destruct (l_unstaged _ L E) as [He [_ [_ Hf]]].
    unfold exit_enabled in G. rewrite He in G. apply (l_kill _ L) in G. congruence. }
  remember (match e (dy s c) with Idle => Killed | _ => outcome c (Nat.pred (runs (dy s c))) end) as r.
  assert (Runs : forall d', runs d' = runs (dy s c) -> forall x, runs (upd (dy s) c d' x) = runs (dy s x)).
  { intros d' Hr x. unfold upd. destruct (Nat.eqb x c) eqn:E; [apply Nat.eqb_eq in E; subst; exact Hr|reflexivity]. }
  destruct (finish_called (dy s c)) eqn:Fc.
  - match type of H with context [set_dy s c ?D] => set (d' := D) in * end.
    assert (L' : linv d').
    { constructor; unfold d'; cbn.
      - intros E. congruence.
      - intros g _. split; [reflexivity|eauto].
      - intros _ E. discriminate.
      - intros _. reflexivity.
      - intros E. discriminate.
      - intros r0 _ E. discriminate. }
    destruct (set_dy_ok s c d' I L') as [Ia Xa]; unfold d'; cbn; auto; try congruence.
    destruct (pending (dy s c)) as [g|] eqn:Pd; inversion H; subst s'.
    + destruct (add_finq_ok (set_dy s c d') c Ia) as [Ib Xb].
      { unfold pstate. cbn. rewrite upd_same. apply is_fin_ctl. unfold d'. cbn. eauto. }
      split; [exact Ib|split; [exact (ext_trans _ _ _ Xa Xb)|]]. intros x. cbn. apply Runs. reflexivity.
    + split; [exact Ia|split; [exact Xa|]]. intros x. cbn. apply Runs. reflexivity.
  - match type of H with context [set_dy s c ?D] => set (d' := D) in * end.
    assert (Act : e (dy s c) = Active).
    { unfold exit_enabled in G. destruct (e (dy s c)) eqn:E; [|reflexivity|discriminate].
      apply (l_kill _ L) in G. congruence. }
    assert (L' : linv d').
    { constructor; unfold d'; cbn.
      - intros E. congruence.
      - intros g E. congruence.
      - intros _ _. exact (l_active _ L Act).
      - intros E. pose proof (l_kill _ L E). congruence.
      - intros E. discriminate.
      - intros r0 _ _. exact (l_active _ L Act). }
    destruct (set_dy_ok s c d' I L') as [Ia Xa]; unfold d'; cbn; auto; try congruence.
    inversion H; subst s'. split; [|split].
    + apply (Inv_sub (set_dy s c d')); [exact Ia|reflexivity|auto|auto].
    + apply (ext_trans _ _ _ Xa). apply ext_same_dy; [reflexivity|auto].
    + intros x. cbn. apply Runs. reflexivity.
Qed.

Definition launch_free (s s' : state) : Prop := forall x, runs (dy s x) = 0 -> runs (dy s' x) = 0.

Lemma deliver_pm_ok s c s' : Inv s -> deliver_pm W s c = Some s' -> Inv s' /\ ext s s' /\ launch_free s s'.
Proof.
  intros I H. unfold deliver_pm in H. destruct (negb (memn c (pmq s))); [discriminate|].
  match type of H with context [dy ?S0 c] => set (s0 := S0) in * end.
  assert (I0 : Inv s0) by (apply (Inv_sub s); auto).
  assert (X0 : ext s s0) by (apply ext_same_dy; auto).
  assert (Ds : dy s0 = dy s) by reflexivity. clearbody s0.
  pose proof I0 as [I1 _]. pose proof (I1 c) as L.
  destruct (finish_called (dy s0 c)) eqn:Fc.
  { inversion H; subst. split; [exact I0|split; [exact X0|intros x Hx; rewrite Ds; exact Hx]]. }
  destruct (e (dy s0 c)) as [| |r] eqn:Ee;
    try (inversion H; subst; split; [exact I0|split; [exact X0|intros x Hx; rewrite Ds; exact Hx]]).
  assert (Hctl : ctl (dy s0 c) = None) by (apply linv_ctl_none_of_not_fc; auto).
  assert (Hst : staged (dy s0 c) = true) by (apply linv_staged_of_nonidle; [exact L|congruence]).
  assert (Hrun : 0 < runs (dy s0 c)) by exact (l_exited _ L r Ee Fc).
  destruct (restart_decision W c (dy s0 c) r) as [d'|] eqn:Rd.
  - (* restarted *)
    assert (Ed : exists a b, d' = {| staged := staged (dy s0 c); runs := S (runs (dy s0 c));
                 finish_called := finish_called (dy s0 c); pending := pending (dy s0 c);
                 kill_req := kill_req (dy s0 c); e := Active; ctl := ctl (dy s0 c);
                 restarts := a; resub := b; shut := shut (dy s0 c) |}).
    { unfold restart_decision, try_restart in Rd.
      destruct (reason_eqb r SubmissionFailed); [destruct (resub (dy s0 c) <? 5); [|discriminate]|
        destruct (mem r (restart_on (cmp W c))); [|discriminate]];
      destruct (shut (dy s0 c)); try discriminate; destruct (max_r (cmp W c) <? S (restarts (dy s0 c))); try discriminate;
      inversion Rd; eauto. }
    destruct Ed as [a [b ->]].
    match type of H with context [set_dy s0 c ?D] => set (d' := D) in * end.
    assert (L' : linv d').
    { constructor; unfold d'; cbn.
      - intros E. congruence.
      - intros g E. congruence.
      - intros _ _. lia.
      - intros E. exact (l_kill _ L E).
      - intros _. lia.
      - intros r0 E. discriminate. }
    destruct (set_dy_ok s0 c d' I0 L') as [Ia Xa]; unfold d'; cbn; auto; try congruence.
    inversion H; subst s'. split; [exact Ia|split; [exact (ext_trans _ _ _ X0 Xa)|]].
    intros x Hx. cbn. unfold upd. destruct (Nat.eqb x c) eqn:E; [|rewrite Ds; exact Hx].
    apply Nat.eqb_eq in E. subst x. rewrite <- Ds in Hx. lia.
  - destruct (finish_ok s0 c (final_of_reason W c r) I0 Hctl Hst) as [Ia [Xa _]].
    inversion H; subst s'. split; [exact Ia|split; [exact (ext_trans _ _ _ X0 Xa)|]].
    intros x Hx. rewrite finish_runs, Ds. exact Hx.
Qed.

Lemma deliver_fin_ok s c s' : Inv s -> deliver_fin W s c = Some s' -> Inv s' /\ ext s s' /\ launch_free s s'.
Proof.
  intros I H. unfold deliver_fin in H. destruct (memn c (finq s)) eqn:M; [|discriminate]. cbn [negb] in H.
  apply memn_In in M.
  match type of H with context [is_failed (pstate ?S0 c)] => set (s0 := S0) in * end.
  assert (I0 : Inv s0).
  { apply (Inv_sub s); auto. intros x Hx. cbn in Hx. exact (In_remove1 _ _ _ Hx). }
  assert (X0 : ext s s0) by (apply ext_same_dy; auto).
  assert (Fc : is_fin (pstate s0 c) = true) by (destruct I as [_ [_ I3]]; exact (I3 c M)).
  match type of H with Some {| dy := dy ?S1; done := _; stop := _; cur := _; pmq := _; finq := _; running := _; verdict := _ |} = _ =>
    set (s1 := S1) in * end.
  assert (K : Inv s1 /\ ext s0 s1 /\ (forall x, runs (dy s1 x) = runs (dy s0 x))).
  { unfold s1. destruct (is_failed (pstate s0 c)).
    - destruct (match cur s0 with Some i => i <? stage (cmp W c) | None => true end).
      + destruct (kill_all_ok W s0 I0) as [A [B _]]. split; [exact A|split; [exact B|]].
        intros x. unfold kill_all. rewrite kill_fold_runs. reflexivity.
      + destruct (fake_fold_ok (stage_nodes W (stage (cmp W c))) s0 I0) as [A [B [_ [_ St]]]].
        destruct (stop_components_ok (stage_nodes W (stage (cmp W c))) _ A St) as [A2 [B2 _]].
        split; [exact A2|split; [exact (ext_trans _ _ _ B B2)|]].
        intros x. rewrite stop_components_runs, fake_fold_runs. reflexivity.
    - split; [exact I0|split; [apply ext_refl|reflexivity]]. }
  destruct K as [I1 [X1 R1]]. inversion H; subst s'.
  assert (X2 : ext s1 {| dy := dy s1; done := done s1 ++ [c]; stop := stop s1; cur := cur s1; pmq := pmq s1;
                         finq := finq s1; running := running s1; verdict := verdict s1 |}).
  { apply ext_same_dy; [reflexivity|]. intros x Hx. cbn. apply in_or_app. left. exact Hx. }
  split; [|split; [exact (ext_trans _ _ _ X0 (ext_trans _ _ _ X1 X2))|]].
  - destruct I1 as [J1 [J2 J3]]. split; [exact J1|split; [|exact J3]].
    intros x Hx. cbn in Hx. apply in_app_or in Hx as [Hx|[Hx|[]]]; [exact (J2 x Hx)|].
    subst x. exact (is_fin_stable s0 s1 c X1 Fc).
  - intros x Hx. cbn. rewrite R1. exact Hx.
Qed.

Lemma end_stage_ok s i : Inv s -> stage_done W s i = true ->
  Inv (end_stage W s i) /\ ext s (end_stage W s i) /\ launch_free s (end_stage W s i).
Proof.
  intros I Hd. unfold end_stage.
  assert (St : forall c, In c (stage_nodes W i) -> staged (dy s c) = true).
  { intros c Hc. unfold stage_done in Hd. rewrite forallb_forall in Hd. specialize (Hd c Hc). apply memn_In in Hd.
    destruct I as [I1 [I2 _]]. specialize (I2 c Hd). unfold pstate in I2. apply is_fin_ctl in I2 as [f Hf].
    destruct (l_ctl _ (I1 c) f Hf) as [_ [r Er]]. apply linv_staged_of_nonidle; [apply I1|congruence]. }
  destruct (stop_components_ok (stage_nodes W i) s I St) as [A [B _]].
  split; [apply (Inv_sub (stop_components s (stage_nodes W i))); auto|split].
  - apply (ext_trans _ _ _ B). apply ext_same_dy; auto.
  - intros x Hx. cbn. rewrite stop_components_runs. exact Hx.
Qed.

(* a scheduler pass is the only place where a component is launched for the first time *)
Definition launch_guarded (s s' : state) : Prop :=
  forall c, runs (dy s c) = 0 -> 0 < runs (dy s' c) ->
    (forall p, In p (preds (cmp W c)) ->
       (In p (done s) /\ is_fin (pstate s p) = true) \/
       (is_subject W c p = true /\ 0 < runs (dy s p) /\ finish_called (dy s p) = false)) /\
    shutdown_rule W s c = false.

Lemma guard_to_launch_guarded s c : Inv s -> Guard W s c ->
  (forall p, In p (preds (cmp W c)) ->
       (In p (done s) /\ is_fin (pstate s p) = true) \/
       (is_subject W c p = true /\ 0 < runs (dy s p) /\ finish_called (dy s p) = false)) /\
  shutdown_rule W s c = false.
Proof.
  intros [I1 [I2 _]] [G1 G2]. split; [|exact G2]. intros p Hp. destruct (G1 p Hp) as [H|[A [B C]]].
  - left. split; [exact H|exact (I2 p H)].
  - right. split; [exact A|split; [exact (l_launched _ (I1 p) B C)|exact C]].
Qed.

Lemma launch_free_guarded s s' : launch_free s s' -> launch_guarded s s'.
Proof. intros H c H0 H1. rewrite (H c H0) in H1. lia. Qed.

Lemma tick_ok s s' : Inv s -> tick W true s = Some s' -> Inv s' /\ ext s s' /\ launch_guarded s s'.
Proof.
  intros I H. unfold tick in H. destruct (cur s) as [i|]; [|discriminate]. destruct (running s); [|discriminate].
  inversion H; subst s'. destruct (stage_done W s i) eqn:Sd.
  - destruct (end_stage_ok s i I Sd) as [A [B C]]. split; [exact A|split; [exact B|apply launch_free_guarded; exact C]].
  - destruct (sched_pass_ok W s I) as [A [B [_ [_ [_ G]]]]]. split; [exact A|split; [exact B|]].
    intros c H0 H1. destruct (G c H0 H1) as [_ [_ Gd]]. exact (guard_to_launch_guarded s c I Gd).
Qed.

Lemma start_ok s s' : Inv s -> start_stage W true s = Some s' -> Inv s' /\ ext s s' /\ launch_guarded s s'.
Proof.
  intros I H. unfold start_stage in H. destruct (running s); [discriminate|].
  match type of H with (if ?b then _ else _) = _ => destruct b; [|discriminate] end.
  match type of H with Some (sched_pass W true ?S0) = _ => set (s0 := S0) in * end.
  assert (I0 : Inv s0) by (apply (Inv_sub s); auto).
  assert (X0 : ext s s0) by (apply ext_same_dy; auto).
  destruct (sched_pass_ok W s0 I0) as [A [B [_ [_ [_ G]]]]].
  inversion H; subst s'. split; [exact A|split; [exact (ext_trans _ _ _ X0 B)|]].
  intros c H0 H1. destruct (G c H0 H1) as [_ [_ Gd]]. exact (guard_to_launch_guarded s0 c I0 Gd).
Qed.

Lemma step_ok s ev s' : Inv s -> step W true outcome s ev = Some s' -> Inv s' /\ ext s s' /\ launch_guarded s s'.
Proof.
  intros I H. destruct ev as [| |c|c|c]; cbn [step] in H.
  - exact (start_ok s s' I H).
  - exact (tick_ok s s' I H).
  - destruct (exit_ok s c s' I H) as [A [B C]]. split; [exact A|split; [exact B|]].
    apply launch_free_guarded. intros x Hx. rewrite C. exact Hx.
  - destruct (deliver_pm_ok s c s' I H) as [A [B C]]. split; [exact A|split; [exact B|apply launch_free_guarded; exact C]].
  - destruct (deliver_fin_ok s c s' I H) as [A [B C]]. split; [exact A|split; [exact B|apply launch_free_guarded; exact C]].
Qed.

Lemma run_ok : forall evs s s', Inv s -> run W true outcome s evs = Some s' -> Inv s' /\ ext s s'.
Proof.
  induction evs as [|ev evs IH]; intros s s' I H; cbn [run] in H.
  - inversion H; subst. split; [exact I|apply ext_refl].
  - destruct (step W true outcome s ev) as [s1|] eqn:E; [|discriminate].
    destruct (step_ok s ev s1 I E) as [A [B _]]. destruct (IH s1 s' A H) as [A' B'].
    split; [exact A'|exact (ext_trans _ _ _ B B')].
Qed.

(* ---- consequences *)
Lemma shutdown_rule_failed s c p :
  In p (preds (cmp W c)) -> is_failed (pstate s p) = true -> shutdown_rule W s c = true.
Proof.
  intros Hp Hf. unfold shutdown_rule.
  assert (E : existsb (fun p => is_failed (pstate s p)) (preds (cmp W c)) = true) by (apply existsb_exists; eauto).
  rewrite E. reflexivity.
Qed.

Lemma shutdown_rule_shutdown s c p :
  In p (preds (cmp W c)) -> is_aggregate (cmp W c) = false -> is_shutdown (pstate s p) = true ->
  shutdown_rule W s c = true.
Proof.
  intros Hp Ha Hs. unfold shutdown_rule. rewrite Ha.
  destruct (existsb (fun p => is_failed (pstate s p)) (preds (cmp W c))); [reflexivity|].
  apply existsb_exists. eauto.
Qed.

(* once a producer is failed (or, for a non-aggregating consumer, shut down) the consumer is never launched *)
Lemma blocked_forever : forall evs s s' c p,
  Inv s -> run W true outcome s evs = Some s' ->
  In p (preds (cmp W c)) ->
  (ctl (dy s p) = Some Failed \/ (is_aggregate (cmp W c) = false /\ ctl (dy s p) = Some Shutdown)) ->
  runs (dy s c) = 0 -> runs (dy s' c) = 0.
Proof.
  induction evs as [|ev evs IH]; intros s s' c p I H Hp Hb H0; cbn [run] in H.
  - inversion H; subst. exact H0.
  - destruct (step W true outcome s ev) as [s1|] eqn:E; [|discriminate].
    destruct (step_ok s ev s1 I E) as [A [B G]].
    assert (R1 : runs (dy s1 c) = 0).
    { destruct (Nat.eq_dec (runs (dy s1 c)) 0) as [Z|Z]; [exact Z|]. exfalso.
      destruct (G c H0 ltac:(lia)) as [_ Sr].
      destruct Hb as [Hb|[Ha Hb]].
      - rewrite (shutdown_rule_failed s c p Hp) in Sr; [discriminate|]. unfold pstate, cstate. rewrite Hb. reflexivity.
      - rewrite (shutdown_rule_shutdown s c p Hp Ha) in Sr; [discriminate|]. unfold pstate, cstate. rewrite Hb. reflexivity. }
    apply (IH s1 s' c p A H Hp); [|exact R1].
    destruct Hb as [Hb|[Ha Hb]]; [left|right; split; [exact Ha|]]; exact (x_ctl _ _ B p _ Hb).
Qed.
End Steps.
