(* C01 — live patch of a running workflow (elaunch LivePatcher.live_patch): the controller is put to sleep, the
   experiment is switched to a NEW WorkflowGraph object (Experiment.switchWorkflowGraph) that holds patched-in
   components and additional edges, Controller.parse_workflow_graph() registers the new ComponentStates, and the
   controller is woken up.  The controller keeps no copy of the graph: every decision of _schedule,
   _input_dependencies_satisfied, the stage loop and the stage verdict reads `self.workflowGraph.graph` at the moment
   it is taken.  In the model this is: the workflow W is a parameter of every single step (Sched/Model.v, Sleep.v),
   the dynamic state is indexed by component number and does not mention W, so a patch changes W between two
   steps and nothing else.  A patch is accepted only while the controller sleeps. *)
From Coq Require Import List Bool Arith Lia.
Import ListNotations.
Require Import V.Restart.Model V.Sched.Model V.Sched.Sleep.

Inductive pevent := PE (e : sevent) | PPatch (W' : list comp).

(* what a patch may do to a component that exists already: only add producers *)
Definition comp_extends (a b : comp) : bool :=
  Nat.eqb (stage a) (stage b) && Bool.eqb (is_repeat a) (is_repeat b) && Bool.eqb (is_aggregate a) (is_aggregate b) &&
  Bool.eqb (is_replica a) (is_replica b) && forallb (fun p => memn p (preds b)) (preds a).

Fixpoint extends (W W' : list comp) : bool :=
  match W, W' with
  | [], _ => true
  | a :: r, b :: r' => comp_extends a b && extends r r'
  | _ :: _, [] => false
  end.

Section PatchModel.
Variable outcome : nat -> nat -> reason.

Fixpoint prun (W : list comp) (ss : sstate) (evs : list pevent) : option (list comp * sstate) :=
  match evs with
  | [] => Some (W, ss)
  | PE e :: r => match sstep W outcome ss e with Some ss' => prun W ss' r | None => None end
  | PPatch W' :: r => if asleep ss && extends W W' then prun W' ss r else None
  end.

(* a run without patches is a run of Sleep.v *)
Lemma prun_unpatched : forall evs W ss,
  prun W ss (map PE evs) = match srun W outcome ss evs with Some ss' => Some (W, ss') | None => None end.
Proof.
  induction evs as [|e evs IH]; intros W ss; cbn [map prun srun]; [reflexivity|].
  destruct (sstep W outcome ss e) as [s1|]; [apply IH|reflexivity].
Qed.
End PatchModel.

(* ---- correspondence: trace of the real controller with sleep / live patch / wake_up *)
Fixpoint check_ptrace (outcome : nat -> nat -> reason) (W : list comp)
         (ss : sstate) (tr : list (pevent * option obs)) (k : nat) : nat :=
  match tr with
  | [] => 0
  | (PPatch W', o) :: r =>
      if asleep ss && extends W W'
      then if match o with Some o => obs_matches (length W') (base ss) o | None => true end
           then check_ptrace outcome W' ss r (S k) else S k
      else S k
  | (PE ev, o) :: r =>
      match sstep W outcome ss ev with
      | Some ss' => if match o with Some o => obs_matches (length W) (base ss') o | None => true end
                    then check_ptrace outcome W ss' r (S k) else S k
      | None => S k
      end
  end.

Definition check_pcase (k : list comp * list (list reason) * list (pevent * option obs)) : bool :=
  let '(W, tbl, tr) := k in
  Nat.eqb (check_ptrace (outcome_of tbl) W sstate0 tr 0) 0.
