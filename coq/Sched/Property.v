From Coq Require Import List.
Require Import V.Sched.Model.
Theorem C01_placeholder : True. Proof. exact I. Qed.
Print Assumptions C01_placeholder.
