(* C01 — Tasks start only after everything they consume from is finished.  Property theorems only.
   "Reachable" = any state obtained from the initial state by any list of events (Start, Tick, Exit c,
   PM c, Fin c) that the controller accepts, for any workflow W and any task-outcome oracle. *)
From Coq Require Import List Bool Arith.
Import ListNotations.
Require Import V.Restart.Model V.Sched.Model V.Sched.Proofs V.Sched.Sleep V.Sched.SleepProofs V.Sched.Patch V.Sched.PatchProofs.

(* Whenever a component's task is launched for the first time, every component it consumes from has
   been observed finished and is in a final state — except a same-stage producer of a repeating
   consumer, which has itself been launched — and no producer is failed, and for a non-aggregating
   consumer none is shut down. *)
Theorem C01_launch_guard : forall W outcome evs s ev s' c,
  run W true outcome state0 evs = Some s -> step W true outcome s ev = Some s' ->
  runs (dy s c) = 0 -> 0 < runs (dy s' c) ->
  (forall p, In p (preds (cmp W c)) ->
     ((In p (done s) /\ is_fin (pstate s p) = true) \/
      (is_subject W c p = true /\ 0 < runs (dy s p) /\ finish_called (dy s p) = false)) /\
     is_failed (pstate s p) = false /\
     (is_aggregate (cmp W c) = false -> is_shutdown (pstate s p) = false)).
Proof.
  intros W outcome evs s ev s' c Hr Hs H0 H1.
  destruct (run_ok W outcome evs state0 s Inv_state0 Hr) as [I _].
  destruct (step_ok W outcome s ev s' I Hs) as [_ [_ G]]. destruct (G c H0 H1) as [G1 G2].
  intros p Hp. split; [exact (G1 p Hp)|split].
  - destruct (is_failed (pstate s p)) eqn:E; [|reflexivity].
    rewrite (shutdown_rule_failed W s c p Hp E) in G2. discriminate.
  - intros Ha. destruct (is_shutdown (pstate s p)) eqn:E; [|reflexivity].
    rewrite (shutdown_rule_shutdown W s c p Hp Ha E) in G2. discriminate.
Qed.
Print Assumptions C01_launch_guard.

(* A component recorded as done is in a final state. *)
Theorem C01_done_is_final : forall W outcome evs s c,
  run W true outcome state0 evs = Some s -> In c (done s) -> is_fin (pstate s c) = true.
Proof.
  intros W outcome evs s c Hr Hc. destruct (run_ok W outcome evs state0 s Inv_state0 Hr) as [[_ [I2 _]] _]. exact (I2 c Hc).
Qed.
Print Assumptions C01_done_is_final.

(* A final state never changes along any continuation. *)
Theorem C01_final_stable : forall W outcome evs evs' s s' c f,
  run W true outcome state0 evs = Some s -> run W true outcome s evs' = Some s' ->
  ctl (dy s c) = Some f -> ctl (dy s' c) = Some f.
Proof.
  intros W outcome evs evs' s s' c f Hr Hr' Hc.
  destruct (run_ok W outcome evs state0 s Inv_state0 Hr) as [I _].
  destruct (run_ok W outcome evs' s s' I Hr') as [_ X]. exact (x_ctl _ _ X c f Hc).
Qed.
Print Assumptions C01_final_stable.

(* A component that consumes from a failed producer is never launched, nor is a non-aggregating
   component that consumes from a shut-down one — in any continuation of any reachable state. *)
Theorem C01_never_after_failed_producer : forall W outcome evs evs' s s' c p,
  run W true outcome state0 evs = Some s -> run W true outcome s evs' = Some s' ->
  In p (preds (cmp W c)) ->
  (ctl (dy s p) = Some Failed \/ (is_aggregate (cmp W c) = false /\ ctl (dy s p) = Some Shutdown)) ->
  runs (dy s c) = 0 -> runs (dy s' c) = 0.
Proof.
  intros W outcome evs evs' s s' c p Hr Hr' Hp Hb H0.
  destruct (run_ok W outcome evs state0 s Inv_state0 Hr) as [I _].
  exact (blocked_forever W outcome evs' s s' c p I Hr' Hp Hb H0).
Qed.
Print Assumptions C01_never_after_failed_producer.

(* non-vacuity: chain P -> S -> O (O repeating, same stage), P succeeds: after the listed 9 events O has
   been launched once, after S, and P is recorded done *)
Definition exW : list comp :=
  [ {| stage := 0; is_repeat := false; is_aggregate := false; is_replica := false; preds := []; cshutdown_on := [KnownIssue]; restart_on := []; max_r := 0 |};
    {| stage := 0; is_repeat := false; is_aggregate := false; is_replica := false; preds := [0]; cshutdown_on := []; restart_on := []; max_r := 0 |};
    {| stage := 0; is_repeat := true; is_aggregate := false; is_replica := false; preds := [1]; cshutdown_on := []; restart_on := []; max_r := 0 |} ].
Example C01_nonvacuous :
  match run exW true (fun _ _ => Success) state0 [Start; Tick; Exit 0; PM 0; Tick; Fin 0; Tick; Tick; Exit 1] with
  | Some s => done s = [0] /\ runs (dy s 1) = 1 /\ runs (dy s 2) = 1 /\ cstate (dy s 0) = CFin Finished
  | None => False
  end.
Proof. vm_compute. repeat split. Qed.

(* ---- the same statements for the controller that can be put to sleep and woken up at any point
   (Controller.sleep / wake_up; coq/Sched/Sleep.v): orderings are now lists over Start, Tick, Exit c, PM c, Fin c,
   Sleep, Wake.  Nothing is launched while the controller sleeps, nor by wake_up itself; a first launch is guarded
   exactly as above. *)
Theorem C01_sleep_launch_guard : forall W outcome evs ss ev ss' c,
  srun W outcome sstate0 evs = Some ss -> sstep W outcome ss ev = Some ss' ->
  runs (dy (base ss) c) = 0 -> 0 < runs (dy (base ss') c) ->
  asleep ss = false /\
  (forall p, In p (preds (cmp W c)) ->
     ((In p (done (base ss)) /\ is_fin (pstate (base ss) p) = true) \/
      (is_subject W c p = true /\ 0 < runs (dy (base ss) p) /\ finish_called (dy (base ss) p) = false)) /\
     is_failed (pstate (base ss) p) = false /\
     (is_aggregate (cmp W c) = false -> is_shutdown (pstate (base ss) p) = false)).
Proof.
  intros W outcome evs ss ev ss' c Hr Hs H0 H1.
  destruct (srun_ok W outcome evs sstate0 ss SInv0 Hr) as [S _].
  destruct (sstep_ok W outcome ss ev ss' S Hs) as [_ [_ [G F]]]. destruct (G c H0 H1) as [G1 G2].
  split.
  - destruct (asleep ss) eqn:A; [|reflexivity]. exfalso. rewrite (F eq_refl c H0) in H1. inversion H1.
  - intros p Hp. split; [exact (G1 p Hp)|split].
    + destruct (is_failed (pstate (base ss) p)) eqn:E; [|reflexivity].
      rewrite (shutdown_rule_failed W (base ss) c p Hp E) in G2. discriminate.
    + intros Ha. destruct (is_shutdown (pstate (base ss) p)) eqn:E; [|reflexivity].
      rewrite (shutdown_rule_shutdown W (base ss) c p Hp Ha E) in G2. discriminate.
Qed.
Print Assumptions C01_sleep_launch_guard.

(* done => final, final states are stable, blocked consumers stay blocked: also with sleep / wake_up.  (While the
   controller sleeps finishedCheck still records the component as done — its `finally` clause — and postpones only
   the handling of a failure.) *)
Theorem C01_sleep_stability : forall W outcome evs evs' ss ss',
  srun W outcome sstate0 evs = Some ss -> srun W outcome ss evs' = Some ss' ->
  (forall c, In c (done (base ss)) -> is_fin (pstate (base ss) c) = true) /\
  (forall c f, ctl (dy (base ss) c) = Some f -> ctl (dy (base ss') c) = Some f) /\
  (forall c p, In p (preds (cmp W c)) ->
     (ctl (dy (base ss) p) = Some Failed \/ (is_aggregate (cmp W c) = false /\ ctl (dy (base ss) p) = Some Shutdown)) ->
     runs (dy (base ss) c) = 0 -> runs (dy (base ss') c) = 0).
Proof.
  intros W outcome evs evs' ss ss' Hr Hr'.
  destruct (srun_ok W outcome evs sstate0 ss SInv0 Hr) as [S _]. pose proof S as [[_ [I2 _]] _].
  destruct (srun_ok W outcome evs' ss ss' S Hr') as [_ X].
  split; [exact I2|split; [intros c f Hc; exact (x_ctl _ _ X c f Hc)|]].
  intros c p Hp Hb H0. exact (sblocked_forever W outcome evs' ss ss' c p S Hr' Hp Hb H0).
Qed.
Print Assumptions C01_sleep_stability.

(* a run in which the controller never sleeps is a run of the model above (so the theorems above are instances) *)
Theorem C01_sleep_conservative : forall W outcome evs,
  srun W outcome sstate0 (map Ev evs) =
  match run W true outcome state0 evs with Some s => Some {| base := s; asleep := false; sleepq := [] |} | None => None end.
Proof. intros W outcome evs. rewrite (srun_awake W outcome evs sstate0 eq_refl). reflexivity. Qed.
Print Assumptions C01_sleep_conservative.

(* non-vacuity: first (done) -> sim -> monitor (repeating): the controller sleeps while sim becomes ready; sim is
   launched only after wake_up, and monitor after sim *)
Example C01_sleep_nonvacuous :
  match srun exW (fun _ _ => Success) sstate0
          [Ev Start; Ev Tick; Ev (Exit 0); Ev (PM 0); Ev (Fin 0); Sleep; Ev Tick; Ev Tick],
        srun exW (fun _ _ => Success) sstate0
          [Ev Start; Ev Tick; Ev (Exit 0); Ev (PM 0); Ev (Fin 0); Sleep; Ev Tick; Wake; Ev Tick; Ev Tick] with
  | Some a, Some b => runs (dy (base a) 1) = 0 /\ runs (dy (base a) 2) = 0 /\ asleep a = true /\
                      runs (dy (base b) 1) = 1 /\ runs (dy (base b) 2) = 1 /\ done (base b) = [0]
  | _, _ => False
  end.
Proof. vm_compute. repeat split. Qed.

(* ---- live patch (coq/Sched/Patch.v): while the controller sleeps the experiment may be switched, any number of
   times, to a new workflow that holds further components and gives existing components further producers.  A first
   launch is guarded by the workflow IN FORCE WHEN IT HAPPENS: a component that was given a patched-in producer
   before its launch waits for that producer too. *)
Theorem C01_patch_launch_guard : forall outcome W0 evs W ss ev ss' c,
  prun outcome W0 sstate0 evs = Some (W, ss) -> sstep W outcome ss ev = Some ss' ->
  runs (dy (base ss) c) = 0 -> 0 < runs (dy (base ss') c) ->
  asleep ss = false /\
  (forall p, In p (preds (cmp W c)) ->
     ((In p (done (base ss)) /\ is_fin (pstate (base ss) p) = true) \/
      (is_subject W c p = true /\ 0 < runs (dy (base ss) p) /\ finish_called (dy (base ss) p) = false)) /\
     is_failed (pstate (base ss) p) = false /\
     (is_aggregate (cmp W c) = false -> is_shutdown (pstate (base ss) p) = false)).
Proof.
  intros outcome W0 evs W ss ev ss' c Hr Hs H0 H1.
  destruct (patched_step_guard outcome evs W0 W ss ev ss' Hr Hs) as [G F]. destruct (G c H0 H1) as [G1 G2].
  split.
  - destruct (asleep ss) eqn:A; [|reflexivity]. exfalso. rewrite (F eq_refl c H0) in H1. inversion H1.
  - intros p Hp. split; [exact (G1 p Hp)|split].
    + destruct (is_failed (pstate (base ss) p)) eqn:E; [|reflexivity].
      rewrite (shutdown_rule_failed W (base ss) c p Hp E) in G2. discriminate.
    + intros Ha. destruct (is_shutdown (pstate (base ss) p)) eqn:E; [|reflexivity].
      rewrite (shutdown_rule_shutdown W (base ss) c p Hp Ha E) in G2. discriminate.
Qed.
Print Assumptions C01_patch_launch_guard.

(* done => final, final states are stable, and a consumer blocked by a failed (or, if it does not aggregate, a
   shut-down) producer stays blocked whatever is patched in later *)
Theorem C01_patch_stability : forall outcome W0 evs W ss evs' W' ss',
  prun outcome W0 sstate0 evs = Some (W, ss) -> prun outcome W ss evs' = Some (W', ss') ->
  (forall c, In c (done (base ss)) -> is_fin (pstate (base ss) c) = true) /\
  (forall c f, ctl (dy (base ss) c) = Some f -> ctl (dy (base ss') c) = Some f) /\
  (forall c p, In p (preds (cmp W c)) ->
     (ctl (dy (base ss) p) = Some Failed \/ (is_aggregate (cmp W c) = false /\ ctl (dy (base ss) p) = Some Shutdown)) ->
     runs (dy (base ss) c) = 0 -> runs (dy (base ss') c) = 0).
Proof.
  intros outcome W0 evs W ss evs' W' ss' Hr Hr'.
  destruct (prun_ok outcome evs W0 sstate0 W ss SInv0 Hr) as [S _]. pose proof S as [[_ [I2 _]] _].
  destruct (prun_ok outcome evs' W ss W' ss' S Hr') as [_ X].
  split; [exact I2|split; [intros c f Hc; exact (x_ctl _ _ X c f Hc)|]].
  intros c p Hp Hb H0. exact (pblocked_forever outcome evs' W ss W' ss' c p S Hr' Hp Hb H0).
Qed.
Print Assumptions C01_patch_stability.

(* a run that is never patched is a run of the sleeping controller (the theorems above are instances) *)
Theorem C01_patch_conservative : forall outcome W evs,
  prun outcome W sstate0 (map PE evs) =
  match srun W outcome sstate0 evs with Some ss => Some (W, ss) | None => None end.
Proof. intros outcome W evs. apply prun_unpatched. Qed.
Print Assumptions C01_patch_conservative.

(* non-vacuity: first -> sim -> monitor; while first runs the workflow is patched: a new component `extra` (3) is
   added and sim is made to consume from it.  sim is launched only after BOTH first and extra are done; without the
   patch it is launched as soon as first is done *)
Definition exW_patched : list comp :=
  [ {| stage := 0; is_repeat := false; is_aggregate := false; is_replica := false; preds := []; cshutdown_on := [KnownIssue]; restart_on := []; max_r := 0 |};
    {| stage := 0; is_repeat := false; is_aggregate := false; is_replica := false; preds := [0; 3]; cshutdown_on := []; restart_on := []; max_r := 0 |};
    {| stage := 0; is_repeat := true; is_aggregate := false; is_replica := false; preds := [1]; cshutdown_on := []; restart_on := []; max_r := 0 |};
    {| stage := 0; is_repeat := false; is_aggregate := false; is_replica := false; preds := []; cshutdown_on := []; restart_on := []; max_r := 0 |} ].
Example C01_patch_nonvacuous :
  extends exW exW_patched = true /\
  match prun (fun _ _ => Success) exW sstate0
          [PE (Ev Start); PE (Ev Tick); PE Sleep; PPatch exW_patched; PE Wake; PE (Ev Tick);
           PE (Ev (Exit 0)); PE (Ev (PM 0)); PE (Ev (Fin 0)); PE (Ev Tick); PE (Ev Tick)],
        prun (fun _ _ => Success) exW sstate0
          [PE (Ev Start); PE (Ev Tick); PE Sleep; PPatch exW_patched; PE Wake; PE (Ev Tick);
           PE (Ev (Exit 0)); PE (Ev (PM 0)); PE (Ev (Fin 0)); PE (Ev Tick);
           PE (Ev (Exit 3)); PE (Ev (PM 3)); PE (Ev (Fin 3)); PE (Ev Tick); PE (Ev Tick)] with
  | Some (_, a), Some (_, b) => runs (dy (base a) 3) = 1 /\ runs (dy (base a) 1) = 0 /\
                                runs (dy (base b) 1) = 1 /\ runs (dy (base b) 2) = 1
  | _, _ => False
  end.
Proof. vm_compute. repeat split. Qed.
