(* C01 under live patches: the invariant does not mention the workflow, so it survives a change of W; every step is
   guarded by the workflow in force when it is taken; a consumer blocked by a failed / shut-down producer stays
   blocked whatever is patched in afterwards (a patch only adds components and producers). *)
From Coq Require Import List Bool Arith Lia.
Import ListNotations.
Require Import V.Restart.Model V.Sched.Model V.Sched.Proofs V.Sched.Sleep V.Sched.SleepProofs V.Sched.Patch.

Lemma extends_cmp : forall W W' c, extends W W' = true -> c < length W ->
  comp_extends (cmp W c) (cmp W' c) = true.
Proof.
  induction W as [|a W IH]; intros W' c E Hc; [cbn in Hc; lia|].
  destruct W' as [|b W']; [discriminate|]. cbn [extends] in E. apply andb_prop in E as [E1 E2].
  destruct c as [|c]; [exact E1|]. unfold cmp. cbn [nth]. apply IH; [exact E2|cbn in Hc; lia].
Qed.

Lemma cmp_preds_lt W c p : In p (preds (cmp W c)) -> c < length W.
Proof.
  intros H. destruct (Nat.lt_ge_cases c (length W)) as [L|G]; [exact L|].
  unfold cmp in H. rewrite nth_overflow in H by exact G. destruct H.
Qed.

Lemma extends_preds W W' c p : extends W W' = true -> In p (preds (cmp W c)) -> In p (preds (cmp W' c)).
Proof.
  intros E H. pose proof (extends_cmp W W' c E (cmp_preds_lt W c p H)) as X.
  unfold comp_extends in X. apply andb_prop in X as [_ X].
  rewrite forallb_forall in X. apply memn_In. exact (X p H).
Qed.

Lemma extends_aggregate W W' c : extends W W' = true -> c < length W ->
  is_aggregate (cmp W' c) = is_aggregate (cmp W c).
Proof.
  intros E H. pose proof (extends_cmp W W' c E H) as X.
  unfold comp_extends in X. apply andb_prop in X as [X _]. apply andb_prop in X as [X _]. apply andb_prop in X as [_ X].
  symmetry. apply eqb_prop. exact X.
Qed.

Lemma extends_refl : forall W, extends W W = true.
Proof.
  induction W as [|a W IH]; [reflexivity|]. cbn [extends]. rewrite IH, andb_true_r.
  unfold comp_extends. rewrite Nat.eqb_refl, !eqb_reflx. cbn [andb].
  apply forallb_forall. intros p Hp. apply memn_In. exact Hp.
Qed.

Section PatchProofs.
Variable outcome : nat -> nat -> reason.

Lemma prun_ok : forall evs W ss W' ss', SInv ss -> prun outcome W ss evs = Some (W', ss') ->
  SInv ss' /\ ext (base ss) (base ss').
Proof.
  induction evs as [|ev evs IH]; intros W ss W' ss' S H; cbn [prun] in H.
  - inversion H; subst. split; [exact S|apply ext_refl].
  - destruct ev as [e|W1].
    + destruct (sstep W outcome ss e) as [s1|] eqn:E; [|discriminate].
      destruct (sstep_ok W outcome ss e s1 S E) as [A [B _]]. destruct (IH W s1 W' ss' A H) as [A' B'].
      split; [exact A'|exact (ext_trans _ _ _ B B')].
    + destruct (asleep ss && extends W W1); [|discriminate]. exact (IH W1 ss W' ss' S H).
Qed.

(* every step taken after any number of patches is guarded by the workflow in force at that step, and launches
   nothing while the controller sleeps *)
Lemma patched_step_guard evs W0 W ss ev ss' :
  prun outcome W0 sstate0 evs = Some (W, ss) -> sstep W outcome ss ev = Some ss' ->
  launch_guarded W (base ss) (base ss') /\ (asleep ss = true -> launch_free (base ss) (base ss')).
Proof.
  intros Hr Hs. destruct (prun_ok evs W0 sstate0 W ss SInv0 Hr) as [S _].
  destruct (sstep_ok W outcome ss ev ss' S Hs) as [_ [_ [G F]]]. split; assumption.
Qed.

Lemma pblocked_forever : forall evs W ss W' ss' c p,
  SInv ss -> prun outcome W ss evs = Some (W', ss') ->
  In p (preds (cmp W c)) ->
  (ctl (dy (base ss) p) = Some Failed \/ (is_aggregate (cmp W c) = false /\ ctl (dy (base ss) p) = Some Shutdown)) ->
  runs (dy (base ss) c) = 0 -> runs (dy (base ss') c) = 0.
Proof.
  induction evs as [|ev evs IH]; intros W ss W' ss' c p S H Hp Hb H0; cbn [prun] in H.
  - inversion H; subst. exact H0.
  - destruct ev as [e|W1].
    + destruct (sstep W outcome ss e) as [s1|] eqn:E; [|discriminate].
      assert (R : srun W outcome ss [e] = Some s1) by (cbn [srun]; rewrite E; reflexivity).
      pose proof (sblocked_forever W outcome [e] ss s1 c p S R Hp Hb H0) as R1.
      destruct (sstep_ok W outcome ss e s1 S E) as [A [B _]].
      apply (IH W s1 W' ss' c p A H Hp); [|exact R1].
      destruct Hb as [Hb|[Ha Hb]]; [left|right; split; [exact Ha|]]; exact (x_ctl _ _ B p _ Hb).
    + destruct (asleep ss && extends W W1) eqn:E; [|discriminate]. apply andb_prop in E as [_ E].
      apply (IH W1 ss W' ss' c p S H).
      * exact (extends_preds W W1 c p E Hp).
      * destruct Hb as [Hb|[Ha Hb]]; [left; exact Hb|right; split; [|exact Hb]].
        rewrite (extends_aggregate W W1 c E (cmp_preds_lt W c p Hp)). exact Ha.
      * exact H0.
Qed.
End PatchProofs.
