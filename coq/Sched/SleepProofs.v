(* C01 with Controller.sleep / wake_up: the invariant of Sched/Proofs.v carries over to the wrapper of
   Sched/Sleep.v, nothing is launched while the controller sleeps (nor by wake_up itself), and every first launch
   is guarded exactly as before. *)
From Coq Require Import List Bool Arith Lia.
Import ListNotations.
Require Import V.Restart.Model V.Sched.Model V.Sched.Proofs V.Sched.Sleep.

Section SleepProofs.
Variable W : list comp.
Variable outcome : nat -> nat -> reason.

Definition SInv (ss : sstate) : Prop :=
  Inv (base ss) /\ (forall c, In c (sleepq ss) -> is_fin (pstate (base ss) c) = true).

Lemma SInv0 : SInv sstate0.
Proof. split; [exact Inv_state0|intros c []]. Qed.

Lemma launch_free_refl s : launch_free s s.
Proof. intros x H. exact H. Qed.

Lemma launch_free_trans a b c : launch_free a b -> launch_free b c -> launch_free a c.
Proof. intros H1 H2 x H. exact (H2 x (H1 x H)). Qed.

Lemma visit_pass_ok s : Inv s ->
  Inv (visit_pass W s) /\ ext s (visit_pass W s) /\ launch_free s (visit_pass W s).
Proof.
  intros I. unfold visit_pass.
  pose proof (visits_ok W s (nodes W) s [] (PassInv_init W s I) (seq_NoDup _ _) (fun c H => match H with end)) as P.
  split; [exact (p_inv _ _ _ _ P)|split; [exact (p_ext _ _ _ _ P)|]].
  intros x Hx. rewrite (p_runs _ _ _ _ P x). exact Hx.
Qed.

Lemma tick_asleep_ok s s' : Inv s -> tick_asleep W s = Some s' -> Inv s' /\ ext s s' /\ launch_free s s'.
Proof.
  intros I H. unfold tick_asleep in H. destruct (cur s) as [i|]; [|discriminate]. destruct (running s); [|discriminate].
  inversion H; subst s'. destruct (stage_done W s i) eqn:Sd.
  - exact (end_stage_ok W s i I Sd).
  - exact (visit_pass_ok s I).
Qed.

Lemma start_asleep_ok s s' : Inv s -> start_asleep W s = Some s' -> Inv s' /\ ext s s' /\ launch_free s s'.
Proof.
  intros I H. unfold start_asleep in H. destruct (running s); [discriminate|].
  match type of H with (if ?b then _ else _) = _ => destruct b; [|discriminate] end.
  match type of H with Some (visit_pass W ?S0) = _ => set (s0 := S0) in * end.
  assert (I0 : Inv s0) by (apply (Inv_sub s); auto).
  assert (X0 : ext s s0) by (apply ext_same_dy; auto).
  destruct (visit_pass_ok s0 I0) as [A [B C]].
  inversion H; subst s'. split; [exact A|split; [exact (ext_trans _ _ _ X0 B)|]].
  intros x Hx. apply C. exact Hx.
Qed.

Lemma postpone_fin_ok s c s' : Inv s -> postpone_fin s c = Some s' ->
  Inv s' /\ ext s s' /\ launch_free s s' /\ is_fin (pstate s' c) = true.
Proof.
  intros [I1 [I2 I3]] H. unfold postpone_fin in H. destruct (memn c (finq s)) eqn:M; [|discriminate].
  apply memn_In in M. inversion H; subst s'; clear H.
  split; [|split; [|split]].
  - split; [exact I1|split].
    + intros x Hx. cbn in Hx. apply in_app_or in Hx as [Hx|[<-|[]]]; [exact (I2 x Hx)|exact (I3 c M)].
    + intros x Hx. cbn in Hx. exact (I3 x (In_remove1 _ _ _ Hx)).
  - apply ext_same_dy; [reflexivity|]. intros x Hx. cbn. apply in_or_app. left. exact Hx.
  - intros x Hx. exact Hx.
  - exact (I3 c M).
Qed.

Lemma set_done_ok s s' : Inv s' -> ext s s' -> done (set_done s' (done s)) = done s ->
  Inv (set_done s' (done s)) /\ ext s (set_done s' (done s)).
Proof.
  intros I X _. split.
  - apply (Inv_sub s'); [exact I|reflexivity| |auto]. intros x Hx. cbn in Hx. exact (x_done _ _ X x Hx).
  - destruct X as [X1 X2 X3 X4 X5]. constructor; cbn; auto.
Qed.

Lemma wake_one_ok s c : Inv s -> is_fin (pstate s c) = true ->
  Inv (wake_one W s c) /\ ext s (wake_one W s c) /\ launch_free s (wake_one W s c).
Proof.
  intros I F. unfold wake_one. destruct (add_finq_ok s c I F) as [Ia Xa].
  destruct (deliver_fin W (add_finq s c) c) as [s'|] eqn:E.
  - destruct (deliver_fin_ok W (add_finq s c) c s' Ia E) as [A [B C]].
    assert (X : ext s s') by exact (ext_trans _ _ _ Xa B).
    destruct (set_done_ok s s' A X eq_refl) as [A' X']. split; [exact A'|split; [exact X'|]].
    intros x Hx. cbn. apply C. cbn. exact Hx.
  - split; [exact I|split; [apply ext_refl|apply launch_free_refl]].
Qed.

Lemma wake_fold_ok : forall q s, Inv s -> (forall c, In c q -> is_fin (pstate s c) = true) ->
  Inv (wake_fold W s q) /\ ext s (wake_fold W s q) /\ launch_free s (wake_fold W s q).
Proof.
  induction q as [|c q IH]; intros s I F; cbn [wake_fold fold_left].
  - split; [exact I|split; [apply ext_refl|apply launch_free_refl]].
  - destruct (wake_one_ok s c I (F c (or_introl eq_refl))) as [A [B C]].
    destruct (IH (wake_one W s c) A) as [A' [B' C']].
    { intros x Hx. apply (is_fin_stable _ _ _ B). apply F. right. exact Hx. }
    split; [exact A'|split; [exact (ext_trans _ _ _ B B')|exact (launch_free_trans _ _ _ C C')]].
Qed.

Lemma queue_stable ss s' : SInv ss -> ext (base ss) s' ->
  forall c, In c (sleepq ss) -> is_fin (pstate s' c) = true.
Proof. intros [_ Q] X c Hc. exact (is_fin_stable _ _ _ X (Q c Hc)). Qed.

(* one step of the sleeping controller *)
Lemma sstep_ok ss ev ss' : SInv ss -> sstep W outcome ss ev = Some ss' ->
  SInv ss' /\ ext (base ss) (base ss') /\ launch_guarded W (base ss) (base ss') /\
  (asleep ss = true -> launch_free (base ss) (base ss')).
Proof.
  intros S H. pose proof S as [I Q]. destruct ev as [e| |]; cbn [sstep] in H.
  - destruct (asleep ss) eqn:A.
    + (* asleep *)
      assert (Base : forall o, with_base ss o = Some ss' ->
                (forall s1, o = Some s1 -> Inv s1 /\ ext (base ss) s1 /\ launch_free (base ss) s1) ->
                SInv ss' /\ ext (base ss) (base ss') /\ launch_guarded W (base ss) (base ss') /\
                (true = true -> launch_free (base ss) (base ss'))).
      { intros o Ho K. destruct o as [s1|]; [|discriminate]. cbn in Ho. inversion Ho; subst ss'; clear Ho. cbn [base sleepq].
        destruct (K s1 eq_refl) as [A1 [B1 C1]].
        split; [split; [exact A1|exact (queue_stable ss s1 S B1)]|split; [exact B1|split; [|intros _; exact C1]]].
        apply launch_free_guarded. exact C1. }
      destruct e as [| |c|c|c].
      * apply (Base _ H). intros s1 E. exact (start_asleep_ok _ _ I E).
      * apply (Base _ H). intros s1 E. exact (tick_asleep_ok _ _ I E).
      * apply (Base _ H). intros s1 E. cbn [step] in E. destruct (exit_ok W outcome _ c s1 I E) as [A1 [B1 R]].
        split; [exact A1|split; [exact B1|]]. intros x Hx. rewrite R. exact Hx.
      * apply (Base _ H). intros s1 E. cbn [step] in E. exact (deliver_pm_ok W _ c s1 I E).
      * destruct (postpone_fin (base ss) c) as [s1|] eqn:E; [|discriminate]. inversion H; subst ss'; clear H. cbn [base sleepq].
        destruct (postpone_fin_ok _ c s1 I E) as [A1 [B1 [C1 F1]]].
        split; [split; [exact A1|]|split; [exact B1|split; [apply launch_free_guarded; exact C1|intros _; exact C1]]].
        intros x Hx. apply in_app_or in Hx as [Hx|[<-|[]]]; [exact (queue_stable ss s1 S B1 x Hx)|exact F1].
    + (* awake: a step of Model.v *)
      destruct (step W true outcome (base ss) e) as [s1|] eqn:E; [|discriminate]. cbn in H. inversion H; subst ss'; clear H.
      cbn [base sleepq]. destruct (step_ok W outcome _ e s1 I E) as [A1 [B1 G1]].
      split; [split; [exact A1|exact (queue_stable ss s1 S B1)]|split; [exact B1|split; [exact G1|discriminate]]].
  - (* Sleep *)
    destruct (asleep ss) eqn:A; [discriminate|]. inversion H; subst ss'; clear H. cbn [base sleepq].
    split; [exact S|split; [apply ext_refl|split; [apply launch_free_guarded; apply launch_free_refl|intros _; apply launch_free_refl]]].
  - (* Wake *)
    destruct (asleep ss) eqn:A; [|discriminate]. inversion H; subst ss'; clear H. cbn [base sleepq].
    destruct (wake_fold_ok (sleepq ss) (base ss) I Q) as [A1 [B1 C1]].
    split; [split; [exact A1|intros c []]|split; [exact B1|split; [apply launch_free_guarded; exact C1|intros _; exact C1]]].
Qed.

Lemma srun_ok : forall evs ss ss', SInv ss -> srun W outcome ss evs = Some ss' -> SInv ss' /\ ext (base ss) (base ss').
Proof.
  induction evs as [|ev evs IH]; intros ss ss' S H; cbn [srun] in H.
  - inversion H; subst. split; [exact S|apply ext_refl].
  - destruct (sstep W outcome ss ev) as [s1|] eqn:E; [|discriminate].
    destruct (sstep_ok ss ev s1 S E) as [A [B _]]. destruct (IH s1 ss' A H) as [A' B'].
    split; [exact A'|exact (ext_trans _ _ _ B B')].
Qed.

Lemma sblocked_forever : forall evs ss ss' c p,
  SInv ss -> srun W outcome ss evs = Some ss' ->
  In p (preds (cmp W c)) ->
  (ctl (dy (base ss) p) = Some Failed \/ (is_aggregate (cmp W c) = false /\ ctl (dy (base ss) p) = Some Shutdown)) ->
  runs (dy (base ss) c) = 0 -> runs (dy (base ss') c) = 0.
Proof.
  induction evs as [|ev evs IH]; intros ss ss' c p S H Hp Hb H0; cbn [srun] in H.
  - inversion H; subst. exact H0.
  - destruct (sstep W outcome ss ev) as [s1|] eqn:E; [|discriminate].
    destruct (sstep_ok ss ev s1 S E) as [A [B [G _]]].
    assert (R1 : runs (dy (base s1) c) = 0).
    { destruct (Nat.eq_dec (runs (dy (base s1) c)) 0) as [Z|Z]; [exact Z|]. exfalso.
      destruct (G c H0 ltac:(lia)) as [_ Sr].
      destruct Hb as [Hb|[Ha Hb]].
      - rewrite (shutdown_rule_failed W (base ss) c p Hp) in Sr; [discriminate|]. unfold pstate, cstate. rewrite Hb. reflexivity.
      - rewrite (shutdown_rule_shutdown W (base ss) c p Hp Ha) in Sr; [discriminate|]. unfold pstate, cstate. rewrite Hb. reflexivity. }
    apply (IH s1 ss' c p A H Hp); [|exact R1].
    destruct Hb as [Hb|[Ha Hb]]; [left|right; split; [exact Ha|]]; exact (x_ctl _ _ B p _ Hb).
Qed.
End SleepProofs.
