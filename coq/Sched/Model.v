(* C01 / C02 — the controller's scheduling and termination protocol.
   Model of Controller._schedule, _input_dependencies_satisfied, _comp_get_active_predecessors,
   finalize_submit_components, _fake_finish_with_state, finishedCheck, postMortemCheck (with
   _restartComponent's branch selection), _stopComponents, kill_all_components and the loop/verdict of
   Controller.run (control.py), over the component protocol of workflow.ComponentState
   (finish/run/restart/state).  One event = one unit the real code executes atomically with respect
   to comp_lock or as one rx callback.  postMortemCheck is modelled as atomic (the stability waits
   inside it are not interleaved; named as not covered).  Placeholders/DoWhile, memoization,
   migration, optimizer, sleeping and stage-in failures are outside the model. *)
From Coq Require Import List Bool Arith Lia.
Import ListNotations.
Require Import V.Restart.Model.

Inductive eng := Idle | Active | Exited (r : reason).

Record comp := {
  stage : nat; is_repeat : bool; is_aggregate : bool; is_replica : bool;
  preds : list nat;                 (* graph predecessors, indices into the workflow *)
  cshutdown_on : list reason;       (* workflowAttributes.shutdownOn *)
  restart_on : list reason;         (* workflowAttributes.restartHookOn *)
  max_r : nat                       (* restart budget of the (fake) component *)
}.

Record dyn := {
  staged : bool;                    (* in comp_staged_in *)
  runs : nat;                       (* number of times the task was started *)
  finish_called : bool;
  pending : option final;           (* final state to take once the killed engine exits *)
  kill_req : bool;
  e : eng;
  ctl : option final;               (* controllerState *)
  restarts : nat; resub : nat;
  shut : bool                       (* engine.shutdown() called *)
}.

Definition dyn0 : dyn := {| staged := false; runs := 0; finish_called := false; pending := None;
  kill_req := false; e := Idle; ctl := None; restarts := 0; resub := 0; shut := false |}.

Inductive cst := CRun | CPost | CFin (f : final).

Definition cstate (d : dyn) : cst :=
  match ctl d with
  | Some f => CFin f
  | None => match e d with Exited _ => CPost | _ => CRun end
  end.

Definition is_fin (x : cst) : bool := match x with CFin _ => true | _ => false end.
Definition is_failed (x : cst) : bool := match x with CFin Failed => true | _ => false end.
Definition is_shutdown (x : cst) : bool := match x with CFin Shutdown => true | _ => false end.
Definition is_finished (x : cst) : bool := match x with CFin Finished => true | _ => false end.
Definition is_run (x : cst) : bool := match x with CRun => true | _ => false end.

Inductive verdictT := VOk | VFailed | VNoFinishedLeaf.

Record state := {
  dy : nat -> dyn;
  done : list nat;                  (* comp_done *)
  stop : bool;                      (* stop_executing *)
  cur : option nat;                 (* current stage *)
  pmq : list nat;                   (* undelivered post-mortem notifications *)
  finq : list nat;                  (* undelivered finished notifications *)
  running : bool;                   (* Controller.run is inside its loop *)
  verdict : option verdictT         (* how run() ended for the current stage *)
}.

Definition state0 : state := {| dy := fun _ => dyn0; done := []; stop := false; cur := None; pmq := [];
  finq := []; running := false; verdict := None |}.

Definition memn (x : nat) (l : list nat) : bool := existsb (Nat.eqb x) l.
Fixpoint remove1 (x : nat) (l : list nat) : list nat :=
  match l with [] => [] | y :: r => if Nat.eqb x y then r else y :: remove1 x r end.

Definition upd (f : nat -> dyn) (c : nat) (d : dyn) : nat -> dyn := fun x => if Nat.eqb x c then d else f x.

Definition set_dy (s : state) (c : nat) (d : dyn) : state :=
  {| dy := upd (dy s) c d; done := done s; stop := stop s; cur := cur s; pmq := pmq s; finq := finq s;
     running := running s; verdict := verdict s |}.
Definition add_finq (s : state) (c : nat) : state :=
  {| dy := dy s; done := done s; stop := stop s; cur := cur s; pmq := pmq s; finq := finq s ++ [c];
     running := running s; verdict := verdict s |}.

(* ---- ComponentState.finish *)
Definition d_finish (f : final) (d : dyn) : dyn :=
  if is_run (cstate d)
  then {| staged := staged d; runs := runs d; finish_called := true; pending := Some f; kill_req := true;
          e := e d; ctl := ctl d; restarts := restarts d; resub := resub d; shut := shut d |}
  else {| staged := staged d; runs := runs d; finish_called := true; pending := pending d; kill_req := kill_req d;
          e := e d; ctl := Some f; restarts := restarts d; resub := resub d; shut := true |}.

Definition finish (s : state) (c : nat) (f : final) : state :=
  let d := dy s c in
  let s' := set_dy s c (d_finish f d) in
  if negb (is_run (cstate d)) && negb (is_fin (cstate d)) then add_finq s' c else s'.

Definition d_stage (d : dyn) : dyn :=
  {| staged := true; runs := runs d; finish_called := finish_called d; pending := pending d; kill_req := kill_req d;
     e := e d; ctl := ctl d; restarts := restarts d; resub := resub d; shut := shut d |}.

(* Controller._fake_finish_with_state *)
Definition fake_finish (s : state) (c : nat) (f : final) : state :=
  finish (set_dy s c (d_stage (dy s c))) c f.

(* ComponentState.run *)
Definition d_launch (d : dyn) : dyn :=
  if is_shutdown (cstate d) then d
  else {| staged := staged d; runs := S (runs d); finish_called := finish_called d; pending := pending d;
          kill_req := kill_req d; e := Active; ctl := ctl d; restarts := restarts d; resub := resub d; shut := shut d |}.

Section Workflow.
Variable W : list comp.
Variable fixed : bool.    (* true: with the fix of F1 (a subject asked to finish does not satisfy its observer) *)

Definition comp0 : comp := {| stage := 0; is_repeat := false; is_aggregate := false; is_replica := false;
  preds := []; cshutdown_on := []; restart_on := []; max_r := 0 |}.
Definition cmp (c : nat) : comp := nth c W comp0.
Definition ncomp : nat := length W.
Definition nodes : list nat := seq 0 ncomp.
Definition nstages : nat := S (fold_right Nat.max 0 (map stage W)).

Definition is_subject (c p : nat) : bool := is_repeat (cmp c) && Nat.eqb (stage (cmp p)) (stage (cmp c)).

(* _comp_get_active_predecessors + _input_dependencies_satisfied *)
Definition deps_ok (s : state) (c : nat) : bool :=
  forallb (fun p => memn p (done s) ||
                    (is_subject c p && staged (dy s p) && (negb fixed || negb (finish_called (dy s p)))))
          (preds (cmp c)).

Definition pstate (s : state) (p : nat) : cst := cstate (dy s p).

(* the shutdown rules of _schedule, evaluated on the producers' actual states *)
Definition shutdown_rule (s : state) (c : nat) : bool :=
  let ps := preds (cmp c) in
  if existsb (fun p => is_failed (pstate s p)) ps then true
  else if is_aggregate (cmp c) then
    let rep := filter (fun p => is_replica (cmp p)) ps in
    let nonrep := filter (fun p => negb (is_replica (cmp p))) ps in
    if existsb (fun p => is_shutdown (pstate s p)) nonrep then true
    else negb (Nat.eqb (length rep) 0) && forallb (fun p => is_shutdown (pstate s p)) rep
  else existsb (fun p => is_shutdown (pstate s p)) ps.

(* one node of the loop in _schedule *)
Definition sched_visit (sr : state * list nat) (c : nat) : state * list nat :=
  let '(s, ready) := sr in
  if memn c (done s) || is_fin (pstate s c) || staged (dy s c) || negb (deps_ok s c) then (s, ready)
  else if shutdown_rule s c then (fake_finish s c Shutdown, ready)
  else (s, ready ++ [c]).

(* finalize_submit_components: stage every ready component, then run them *)
Definition submit (s : state) (ready : list nat) : state :=
  let s1 := fold_left (fun s c => set_dy s c (d_stage (dy s c))) ready s in
  fold_left (fun s c => set_dy s c (d_launch (dy s c))) ready s1.

Definition sched_pass (s : state) : state :=
  let '(s1, ready) := fold_left sched_visit nodes (s, []) in
  if stop s1 then s1 else submit s1 ready.

Definition stage_nodes (i : nat) : list nat := filter (fun c => Nat.eqb (stage (cmp c)) i) nodes.

Definition alive (d : dyn) : bool := negb (is_fin (cstate d)).

(* _stopComponents *)
Definition stop_components (s : state) (cs : list nat) : state :=
  fold_left (fun s c => if alive (dy s c) && negb (finish_called (dy s c)) then finish s c Shutdown else s) cs s.

(* kill_all_components *)
Definition kill_all (s : state) : state :=
  let s0 := {| dy := dy s; done := done s; stop := true; cur := cur s; pmq := pmq s; finq := finq s;
               running := running s; verdict := verdict s |} in
  fold_left (fun s c => if negb (finish_called (dy s c)) && alive (dy s c)
                        then (if staged (dy s c) then finish s c Shutdown else fake_finish s c Shutdown)
                        else s) nodes s0.

Definition has_successor (c : nat) : bool := existsb (fun x => memn c (preds (cmp x))) nodes.

(* the tail of Controller.run *)
Definition compute_verdict (s : state) (i : nat) : verdictT :=
  let cs := stage_nodes i in
  if existsb (fun c => is_failed (pstate s c)) cs then VFailed
  else if Nat.eqb (S i) nstages &&
          negb (existsb (fun c => negb (has_successor c) && is_finished (pstate s c)) cs)
       then VNoFinishedLeaf
  else VOk.

Definition stage_done (s : state) (i : nat) : bool := forallb (fun c => memn c (done s)) (stage_nodes i).

Definition end_stage (s : state) (i : nat) : state :=
  let s1 := stop_components s (stage_nodes i) in
  {| dy := dy s1; done := done s1; stop := stop s1; cur := cur s1; pmq := pmq s1; finq := finq s1;
     running := false; verdict := Some (compute_verdict s1 i) |}.

(* one iteration of the while-loop of run(): leave if nothing is active, else one scheduler pass *)
Definition tick (s : state) : option state :=
  match cur s with
  | Some i => if running s then Some (if stage_done s i then end_stage s i else sched_pass s) else None
  | None => None
  end.

(* initialise(stage) followed by the first _schedule of run().  run() then enters its loop, whose first
   iteration is an ordinary [tick] before the first wait: the real start of a stage is [Start; Tick]. *)
Definition start_stage (s : state) : option state :=
  if running s then None
  else
    let next := match cur s with None => 0 | Some i => S i end in
    let ok := match cur s with None => true
              | Some _ => match verdict s with Some VOk => true | _ => false end end in
    if ok && Nat.ltb next nstages then
      let s0 := {| dy := dy s; done := done s; stop := false; cur := Some next; pmq := pmq s; finq := finq s;
                   running := true; verdict := None |} in
      Some (sched_pass s0)
    else None.

(* ---- environment: a task exits *)
Variable outcome : nat -> nat -> reason.   (* reason of the n-th execution (n = 0,1,..) of component c *)

Definition exit_enabled (d : dyn) : bool :=
  match e d with Active => true | Idle => kill_req d | Exited _ => false end.

Definition exit_comp (s : state) (c : nat) : option state :=
  let d := dy s c in
  if negb (Nat.ltb c ncomp) || negb (exit_enabled d) then None
  else
    let r := match e d with Idle => Killed | _ => outcome c (pred (runs d)) end in
    if finish_called d then
      let d' := {| staged := staged d; runs := runs d; finish_called := true; pending := pending d;
                   kill_req := kill_req d; e := Exited r; ctl := pending d; restarts := restarts d;
                   resub := resub d; shut := true |} in
      let s' := set_dy s c d' in
      Some (match pending d with Some _ => add_finq s' c | None => s' end)
    else
      let d' := {| staged := staged d; runs := runs d; finish_called := false; pending := pending d;
                   kill_req := kill_req d; e := Exited r; ctl := ctl d; restarts := restarts d;
                   resub := resub d; shut := shut d |} in
      let s' := set_dy s c d' in
      Some {| dy := dy s'; done := done s'; stop := stop s'; cur := cur s'; pmq := pmq s' ++ [c]; finq := finq s';
              running := running s'; verdict := verdict s' |}.

(* ---- postMortemCheck: restart decision (real _restartComponent over the fake component's budget) *)
Definition final_of_reason (c : nat) (r : reason) : final :=
  if reason_eqb r Success then Finished else if mem r (cshutdown_on (cmp c)) then Shutdown else Failed.

Definition try_restart (c : nat) (d : dyn) (r : reason) : option dyn :=
  if shut d then None
  else if Nat.ltb (max_r (cmp c)) (S (restarts d)) then None
  else Some {| staged := staged d; runs := S (runs d); finish_called := finish_called d; pending := pending d;
               kill_req := kill_req d; e := Active; ctl := ctl d;
               restarts := if reason_eqb r SubmissionFailed then restarts d else S (restarts d);
               resub := if reason_eqb r SubmissionFailed then S (resub d) else resub d; shut := shut d |}.

Definition restart_decision (c : nat) (d : dyn) (r : reason) : option dyn :=
  if reason_eqb r SubmissionFailed then (if Nat.ltb (resub d) 5 then try_restart c d r else None)
  else if mem r (restart_on (cmp c)) then try_restart c d r
  else None.   (* system judged stable: RestartCouldNotInitiate *)

Definition deliver_pm (s : state) (c : nat) : option state :=
  if negb (memn c (pmq s)) then None
  else
    let s0 := {| dy := dy s; done := done s; stop := stop s; cur := cur s; pmq := remove1 c (pmq s);
                 finq := finq s; running := running s; verdict := verdict s |} in
    let d := dy s0 c in
    if finish_called d then Some s0       (* filtered: finish() was called in the meantime *)
    else match e d with
         | Exited r =>
             match restart_decision c d r with
             | Some d' => Some (set_dy s0 c d')
             | None => Some (finish s0 c (final_of_reason c r))
             end
         | _ => Some s0
         end.

(* ---- finishedCheck *)
Definition deliver_fin (s : state) (c : nat) : option state :=
  if negb (memn c (finq s)) then None
  else
    let s0 := {| dy := dy s; done := done s; stop := stop s; cur := cur s; pmq := pmq s;
                 finq := remove1 c (finq s); running := running s; verdict := verdict s |} in
    let s1 :=
      if is_failed (pstate s0 c) then
        if match cur s0 with Some i => Nat.ltb i (stage (cmp c)) | None => true end then kill_all s0
        else
          let cs := stage_nodes (stage (cmp c)) in
          let s' := fold_left (fun s x => if negb (staged (dy s x)) && negb (finish_called (dy s x))
                                          then fake_finish s x Shutdown else s) cs s0 in
          stop_components s' cs
      else s0 in
    Some {| dy := dy s1; done := done s1 ++ [c]; stop := stop s1; cur := cur s1; pmq := pmq s1; finq := finq s1;
            running := running s1; verdict := verdict s1 |}.

Inductive event := Start | Tick | Exit (c : nat) | PM (c : nat) | Fin (c : nat).

Definition step (s : state) (ev : event) : option state :=
  match ev with
  | Start => start_stage s
  | Tick => tick s
  | Exit c => exit_comp s c
  | PM c => deliver_pm s c
  | Fin c => deliver_fin s c
  end.

Fixpoint run (s : state) (evs : list event) : option state :=
  match evs with
  | [] => Some s
  | ev :: r => match step s ev with Some s' => run s' r | None => None end
  end.

End Workflow.

(* ---- observation compared with the real controller after every event *)
Definition cst_code (x : cst) : nat :=
  match x with CRun => 0 | CPost => 1 | CFin Finished => 2 | CFin Failed => 3 | CFin Shutdown => 4 end.

(* per component: (state code, staged, runs, finishCalled, restarts, resub) *)
Definition obs_comp := (nat * bool * nat * bool * nat * nat)%type.
Definition observe_comp (d : dyn) : obs_comp :=
  (cst_code (cstate d), staged d, runs d, finish_called d, restarts d, resub d).

Definition obs_comp_eqb (a b : obs_comp) : bool :=
  let '(a1, a2, a3, a4, a5, a6) := a in let '(b1, b2, b3, b4, b5, b6) := b in
  Nat.eqb a1 b1 && Bool.eqb a2 b2 && Nat.eqb a3 b3 && Bool.eqb a4 b4 && Nat.eqb a5 b5 && Nat.eqb a6 b6.

Definition same_set (a b : list nat) : bool :=
  Nat.eqb (length a) (length b) && forallb (fun x => memn x b) a && forallb (fun x => memn x a) b.

Definition verdict_code (v : option verdictT) : nat :=
  match v with None => 0 | Some VOk => 1 | Some VFailed => 2 | Some VNoFinishedLeaf => 3 end.

(* impl observation: comps, done, stop, pmq, finq, running, verdict code, current stage (+1, 0 = none) *)
Definition obs := (list obs_comp * list nat * bool * list nat * list nat * bool * nat * nat)%type.

Definition obs_matches (n : nat) (s : state) (o : obs) : bool :=
  let '(cs, dn, st, pq, fq, rn, vd, cu) := o in
  list_eqb obs_comp_eqb (map (fun c => observe_comp (dy s c)) (seq 0 n)) cs &&
  same_set (done s) dn && Bool.eqb (stop s) st && same_set (pmq s) pq && same_set (finq s) fq &&
  Bool.eqb (running s) rn && Nat.eqb (verdict_code (verdict s)) vd &&
  Nat.eqb (match cur s with None => 0 | Some i => S i end) cu.

(* returns the index (from 1) of the first event after which model and implementation differ, 0 if none *)
Fixpoint check_trace (W : list comp) (fixed : bool) (outcome : nat -> nat -> reason)
         (s : state) (tr : list (event * option obs)) (k : nat) : nat :=
  match tr with
  | [] => 0
  | (ev, o) :: r =>
      match step W fixed outcome s ev with
      | Some s' => if match o with Some o => obs_matches (length W) s' o | None => true end
                   then check_trace W fixed outcome s' r (S k) else S k
      | None => S k
      end
  end.

Definition outcome_of (tbl : list (list reason)) (c n : nat) : reason :=
  let l := nth c tbl [] in nth (Nat.min n (pred (length l))) l Success.

Definition check_case (k : list comp * bool * list (list reason) * list (event * option obs)) : bool :=
  let '(W, fixed, tbl, tr) := k in
  Nat.eqb (check_trace W fixed (outcome_of tbl) state0 tr 0) 0.
