(* C01 — the controller can be put to sleep (Controller.sleep / wake_up, used while a live patch is applied).
   While it sleeps, _schedule still visits the nodes (shutdown propagation happens) but
   finalize_submit_components postpones every ready component, and finishedCheck queues its notifications; on
   wake_up the queued notifications are handled, in order, under the lock.  Post-mortem handling, task exits and
   the loop of run() are not affected.
   The sleeping controller is modelled as a wrapper around Sched.Model: the state of Model.v plus the flag and the
   queue; every event that sleeping does not affect is the step of Model.v itself, so the theorems of
   Sched/Property.v are the special case "never asleep". *)
From Coq Require Import List Bool Arith Lia.
Import ListNotations.
Require Import V.Restart.Model V.Sched.Model.

Record sstate := { base : state; asleep : bool; sleepq : list nat }.
Definition sstate0 : sstate := {| base := state0; asleep := false; sleepq := [] |}.

Inductive sevent := Ev (e : event) | Sleep | Wake.

Section SleepModel.
Variable W : list comp.
Variable outcome : nat -> nat -> reason.

(* _schedule while asleep: the nodes are visited, nothing is submitted *)
Definition visit_pass (s : state) : state := fst (fold_left (sched_visit W true) (nodes W) (s, [])).

Definition tick_asleep (s : state) : option state :=
  match cur s with
  | Some i => if running s then Some (if stage_done W s i then end_stage W s i else visit_pass s) else None
  | None => None
  end.

Definition start_asleep (s : state) : option state :=
  if running s then None
  else
    let next := match cur s with None => 0 | Some i => S i end in
    let ok := match cur s with None => true
              | Some _ => match verdict s with Some VOk => true | _ => false end end in
    if ok && Nat.ltb next (nstages W) then
      let s0 := {| dy := dy s; done := done s; stop := false; cur := Some next; pmq := pmq s; finq := finq s;
                   running := true; verdict := None |} in
      Some (visit_pass s0)
    else None.

(* finishedCheck while asleep: the notification is consumed and queued; the `finally` clause of finishedCheck
   still records the component as done (only the failure handling is postponed) *)
Definition postpone_fin (s : state) (c : nat) : option state :=
  if memn c (finq s)
  then Some {| dy := dy s; done := done s ++ [c]; stop := stop s; cur := cur s; pmq := pmq s;
               finq := remove1 c (finq s); running := running s; verdict := verdict s |}
  else None.

(* wake_up: finishedCheck runs for the queued notifications one after the other (the component is already
   recorded as done, recording it again changes nothing) *)
Definition set_done (s : state) (d : list nat) : state :=
  {| dy := dy s; done := d; stop := stop s; cur := cur s; pmq := pmq s; finq := finq s;
     running := running s; verdict := verdict s |}.
Definition wake_one (s : state) (c : nat) : state :=
  match deliver_fin W (add_finq s c) c with Some s' => set_done s' (done s) | None => s end.
Definition wake_fold (s : state) (q : list nat) : state := fold_left wake_one q s.

Definition with_base (ss : sstate) (o : option state) : option sstate :=
  match o with Some s => Some {| base := s; asleep := asleep ss; sleepq := sleepq ss |} | None => None end.

Definition sstep (ss : sstate) (ev : sevent) : option sstate :=
  match ev with
  | Sleep => if asleep ss then None else Some {| base := base ss; asleep := true; sleepq := sleepq ss |}
  | Wake => if asleep ss
            then Some {| base := wake_fold (base ss) (sleepq ss); asleep := false; sleepq := [] |}
            else None
  | Ev e =>
      if asleep ss then
        match e with
        | Start => with_base ss (start_asleep (base ss))
        | Tick => with_base ss (tick_asleep (base ss))
        | Fin c => match postpone_fin (base ss) c with
                   | Some s => Some {| base := s; asleep := true; sleepq := sleepq ss ++ [c] |}
                   | None => None
                   end
        | _ => with_base ss (step W true outcome (base ss) e)
        end
      else with_base ss (step W true outcome (base ss) e)
  end.

Fixpoint srun (ss : sstate) (evs : list sevent) : option sstate :=
  match evs with
  | [] => Some ss
  | ev :: r => match sstep ss ev with Some ss' => srun ss' r | None => None end
  end.

(* a run that never sleeps is a run of Model.v *)
Lemma srun_awake : forall evs ss, asleep ss = false ->
  srun ss (map Ev evs) = with_base ss (run W true outcome (base ss) evs).
Proof.
  induction evs as [|e evs IH]; intros ss A; cbn [map srun run].
  - destruct ss as [b a q]. cbn in *. subst a. reflexivity.
  - cbn [sstep]. rewrite A. destruct (step W true outcome (base ss) e) as [s1|] eqn:E; cbn [with_base]; [|reflexivity].
    rewrite IH by exact A. cbn [base]. destruct (run W true outcome s1 evs); reflexivity.
Qed.
End SleepModel.

(* ---- correspondence: trace of the real controller with sleep()/wake_up() calls *)
Fixpoint check_strace (W : list comp) (outcome : nat -> nat -> reason)
         (ss : sstate) (tr : list (sevent * option obs)) (k : nat) : nat :=
  match tr with
  | [] => 0
  | (ev, o) :: r =>
      match sstep W outcome ss ev with
      | Some ss' => if match o with Some o => obs_matches (length W) (base ss') o | None => true end
                    then check_strace W outcome ss' r (S k) else S k
      | None => S k
      end
  end.

Definition check_scase (k : list comp * list (list reason) * list (sevent * option obs)) : bool :=
  let '(W, tbl, tr) := k in
  Nat.eqb (check_strace W (outcome_of tbl) sstate0 tr 0) 0.
