(* C01 — the pinned code before the fix of F1 (fixed := false in the model). *)
From Coq Require Import List Bool Arith.
Import ListNotations.
Require Import V.Restart.Model V.Sched.Model V.Sched.Property.

(* F1 (repaired by a fix: commit): chain P -> S -> O in one stage, O repeating, P exits with a reason on
   its shutdown list.  The scheduler pass that shuts S down (it never ran) also launches O, because
   _fake_finish_with_state put S into the staged set: O runs although S was never launched. *)
Theorem C01_subject_prefix_refuted :
  match run exW false (fun c _ => match c with 0 => KnownIssue | _ => Success end) state0
            [Start; Tick; Exit 0; PM 0; Fin 0; Tick] with
  | Some s => runs (dy s 2) = 1 /\ runs (dy s 1) = 0 /\ finish_called (dy s 1) = true /\
              is_subject exW 2 1 = true /\ is_fin (pstate s 1) = false
  | None => False
  end.
Proof. vm_compute. repeat split. Qed.
Print Assumptions C01_subject_prefix_refuted.

(* with the fix the same schedule shuts S down and does not launch O *)
Theorem C01_subject_fixed :
  match run exW true (fun c _ => match c with 0 => KnownIssue | _ => Success end) state0
            [Start; Tick; Exit 0; PM 0; Fin 0; Tick] with
  | Some s => runs (dy s 2) = 0 /\ runs (dy s 1) = 0 /\ finish_called (dy s 1) = true
  | None => False
  end.
Proof. vm_compute. repeat split. Qed.
Print Assumptions C01_subject_fixed.
