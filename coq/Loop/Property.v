(* C05 — DoWhile unrolling is wired correctly for any number of iterations.  Property theorems only.
   [unroll d out k] is the workflow after k calls of instantiate_dowhile_next_iteration (each with
   next = currentIteration + 1, as the controller does); [wf_doc] describes the documents considered: the
   (stage, name) pairs of the looped components are pairwise distinct (two looped components of different stages
   may have the same name), names hold no '#', the condition is produced in the loop, input bindings are bound
   outside the loop — possibly to a component that has the NAME of a looped component of another stage —, a
   reference to a component [stageJ.]name names either a looped component (internal reference, identified by stage
   AND name) or, directly, a component outside the loop. *)
From Coq Require Import String List NArith Permutation.
Import ListNotations.
Require Import V.Lib.PyStr V.Lib.JTree V.Loop.Model V.Loop.Proofs V.Loop.Edges V.Loop.Subst V.Loop.Multi V.Loop.MultiProofs V.Loop.Replicate.
Open Scope N_scope.

(* After k further iterations the workflow contains exactly the instances 0..k of every looped component
   (plus the components outside the loop); every call instantiated the next iteration number; instance names
   of different (iteration, component) pairs differ. *)
Theorem C05_instances : forall (d : dowhile) (out : list ocomp) (k : nat), wf_doc d ->
  (forall n, In n (nodes (unroll d out k)) <->
     (exists o, In o out /\ n = out_node o) \/
     (exists i c, i <= N.of_nat k /\ In c (d_comps d) /\ n = pr_id (c_stage c + d_stage d) (iname i (c_name c)))) /\
  w_loop (unroll d out k) = flat_map (instantiate d) (iota k) /\
  cur_iter (unroll d out k) + 1 = N.of_nat (S k) /\
  (forall i j n m, iname i n = iname j m -> i = j /\ n = m).
Proof.
  intros d out k WF. split; [intros n; exact (nodes_exact d out WF k n)|].
  split; [exact (instances_exact d out WF k)|]. split; [exact (next_number d out WF k)|exact iname_inj].
Qed.
Print Assumptions C05_instances.

(* Instance i of component c exists with exactly the references [wire d i]: a reference through a loop binding
   points (for i > 0) at iteration i-1 of the bound producer, at stage (binding stage + import stage); any other
   binding keeps its original value; an internal reference (to the looped component with that STAGE and name)
   points at the same iteration; a direct reference to a component outside the loop is kept as it is, also when a
   looped component of another stage has the same name.  Stage, file and method
   of every rewritten reference are the same for every i > 0 (no drift of the stage offset). *)
Theorem C05_wiring : forall (d : dowhile) (out : list ocomp) (k : nat) (i : N) (c : comp), wf_doc d ->
  i <= N.of_nat k -> In c (d_comps d) ->
  In (mk_inst (c_stage c + d_stage d) (iname i (c_name c)) i (map (wire d i (c_stage c)) (c_refs c)))
     (w_loop (unroll d out k)) /\
  (forall r, 0 < i -> a_stage (wire d i (c_stage c) r) = a_stage (wire d 1 (c_stage c) r) /\
                      a_file (wire d i (c_stage c) r) = a_file (wire d 1 (c_stage c) r) /\
                      a_meth (wire d i (c_stage c) r) = a_meth (wire d 1 (c_stage c) r)).
Proof.
  intros d out k i c WF Hi Hc. split; [exact (wiring d out WF k i c Hi Hc)|].
  intros r H0. exact (wire_no_drift d i (c_stage c) r H0).
Qed.
Print Assumptions C05_wiring.

(* With the integer key (the repaired code): the newest instance of every looped component is iteration k
   (placeholder metadata and map_placeholder_id_to_iteration); sorting the represented instances, in whatever
   order they are listed, gives 0#c .. k#c; the DoWhile state is iteration k and its condition the one produced
   by iteration k of the component with the stage AND name of the document's condition ([cond_id]). *)
Theorem C05_latest : forall (d : dowhile) (out : list ocomp) (k : nat) (c : comp), wf_doc d -> In c (d_comps d) ->
  let w := unroll d out k in
  let p := comp_id (d_stage d) c in
  latest KeyInt w p = Some (instance_of d (N.of_nat k) c) /\
  map_latest KeyInt w p = Some (inst_node (instance_of d (N.of_nat k) c)) /\
  (forall l, Permutation l (represents (w_loop w) p) ->
             isort KeyInt l = map (fun i => instance_of d i c) (iota k)) /\
  (exists cc, In cc (d_comps d) /\ comp_id (d_stage d) cc = cond_id d /\ cur_iter w = N.of_nat k /\
     cur_cond w = pr_ref (mk_aref (c_stage cc + d_stage d) (iname (N.of_nat k) (c_name cc)) (l_file (d_cond d)) "output")).
Proof.
  intros d out k c WF Hc w p. split; [exact (latest_upto d out WF c k Hc)|].
  split; [exact (map_latest_upto d out WF c k Hc)|]. split.
  - intros l P. unfold w, p in P. rewrite (represents_unroll d out WF c k Hc) in P. exact (isort_any_order d c k l P).
  - exact (state_upto d out WF k).
Qed.
Print Assumptions C05_latest.

(* DataReference.resolve of a reference from outside the loop to the looped component c: the instance of
   iteration k (path, or contents for :output); :loopref / :loopoutput list iterations 0..k in increasing order. *)
Theorem C05_resolve : forall (d : dowhile) (out : list ocomp) (k : nat) (c : comp) (a : aref), wf_doc d ->
  In c (d_comps d) -> (a_stage a, a_prod a) = comp_id (d_stage d) c ->
  resolve KeyInt (unroll d out k) a = resolve_spec d c k a.
Proof. intros d out k c a WF Hc Hp. exact (resolve_outside d out WF c k a Hc Hp). Qed.
Print Assumptions C05_resolve.

(* The edges of the workflow graph after k further iterations (they accumulate: every iteration adds the edges of a
   freshly built complete graph) are EXACTLY those implied by the references: for a node n holding reference a
   (an outside consumer with its own references, or instance i <= k of a looped component with the references
   [wire d i] of C05_wiring)
   - if a names a component that is not a looped blueprint: the one edge from that component (when it is a node);
   - if a names a looped blueprint c (placeholder): an edge from every instance 0..k of c, and from the instance
     of the condition's producer of every iteration j with born(n) <= j <= k (n itself excepted).
   Nothing else is an edge. *)
Theorem C05_edges : forall (d : dowhile) (out : list ocomp) (k : nat) (p n : string), wf_doc d ->
  (In (p, n) (w_edges (unroll d out k)) <-> edge_spec d out k p n).
Proof. intros d out k p n WF. exact (edges_exact d out WF k p n). Qed.
Print Assumptions C05_edges.

(* The live graph is the union of the complete graphs built so far (no well-formedness needed). *)
Theorem C05_edges_accumulate : forall (d : dowhile) (out : list ocomp) (k : nat) (e : string * string),
  In e (w_edges (unroll d out k)) <-> exists j, (j <= k)%nat /\ In e (graph_edges (unroll d out j)).
Proof. exact edges_accum. Qed.
Print Assumptions C05_edges_accumulate.

(* Locality: when no loop binding aggregates over iterations, every reference of instance i names a component that
   is not a placeholder — by C05_edges it yields at most the single edge from that component — and that component
   is an instance of the same iteration, an instance of iteration i-1 (i > 0), or the original value of an input
   binding (outside the loop), or — only for a reference r that names it directly — a component outside the loop,
   unchanged.  So a reference of instance i that names an instance i'#n' has i' = i or i' = i-1:
   no edge from a later iteration, none from an iteration older than i-1. *)
Theorem C05_edges_local : forall (d : dowhile) (i : N) (c : comp) (r : ref), wf_doc d -> no_agg_loopb d ->
  In c (d_comps d) -> In r (c_refs c) ->
  let a := wire d i (c_stage c) r in
  in_loop_ids d (a_stage a, a_prod a) = false /\
  ((exists n', a_prod a = iname i n') \/
   (0 < i /\ exists n', a_prod a = iname (i - 1) n') \/
   (exists b v, lookup b (d_binds d) = Some v /\ a_stage a = a_stage v /\ a_prod a = a_prod v /\
                in_loop_ids d (a_stage v, a_prod v) = false) \/
   (exists st n f m, r = RComp st n f m /\ a = mk_aref (opt_stage st (c_stage c) + d_stage d) n f m /\
                     occurs "#" n = false)) /\
  ((forall b v, lookup b (d_binds d) = Some v -> occurs "#" (a_prod v) = false) ->
   forall i' n', a_prod a = iname i' n' -> i' = i \/ (0 < i /\ i' = i - 1)).
Proof.
  intros d i c r WF NA Hc Hr a. destruct (wire_local d WF i c r NA Hc Hr) as [H1 H2].
  split; [exact H1|]. split; [exact H2|]. intros NH i' n' E. exact (wire_iterations d WF i c r i' n' NA NH Hc Hr E).
Qed.
Print Assumptions C05_edges_local.

(* What the Controller sees when it inspects the placeholder of the looped component c (read-only:
   _comp_get_active_predecessors, generate_status_report_for_nodes of Controller.initialise): exactly the instances
   0..k of c plus instance k of the producer of the loop's condition. *)
Theorem C05_placeholder_view : forall (d : dowhile) (out : list ocomp) (k : nat) (c : comp) (n : string), wf_doc d ->
  In c (d_comps d) ->
  (In n (ph_preds (unroll d out k) (comp_id (d_stage d) c)) <->
   (exists i, i <= N.of_nat k /\ n = inode d i c) \/
   (exists cc, In cc (d_comps d) /\ comp_id (d_stage d) cc = cond_id d /\ n = inode d (N.of_nat k) cc)).
Proof. intros d out k c n WF Hc. exact (ph_preds_spec d out WF c k n Hc). Qed.
Print Assumptions C05_placeholder_view.

(* What the Controller registers as "the component whose termination decides the next iteration" of the loop
   (Controller.parse_workflow_graph -> comp_condition_to_dowhile, read by finishedCheck; the 'C:' tag of the status
   report): after Controller.initialise (j = 0) and after each of the k calls of
   Controller._instantiate_next_dowhile_iteration (j = 1..k) it is instance j of the looped component with the STAGE
   and name of the document's condition — whatever stage of the loop body that component lives in.
   [trace_from k (init d out)] lists the workflows after 0..k calls; its last element is [unroll d out k]. *)
Theorem C05_controller_condition : forall (d : dowhile) (out : list ocomp) (k j : nat), wf_doc d -> (j <= k)%nat ->
  last (trace_from k (init d out)) (init d out) = unroll d out k /\
  exists cc, In cc (d_comps d) /\ comp_id (d_stage d) cc = cond_id d /\
    option_map ctl_cond (nth_error (trace_from k (init d out)) j) = Some [inode d (N.of_nat j) cc].
Proof. intros d out k j WF Hj. split; [apply trace_last|exact (ctl_cond_trace d out WF k j Hj)]. Qed.
Print Assumptions C05_controller_condition.

(* SEVERAL DoWhile documents in one workflow ([munroll docs out seq]: the documents instantiated in the order seq, each
   call with next = that document's currentIteration + 1; [wf_multi]: every document well formed, a (stage, name)
   pair looped in at most one document; [cnt j seq] = how often document j was instantiated).
   Instances: the looped instances of the workflow are exactly, for every document, those of its own iterations
   0..cnt j seq; a call for document j adds exactly iteration (cnt j seq)+1 of document j and nothing else; instance
   i of a component of document j has the references [wire d i] of C05_wiring. *)
Theorem C05_multi_instances : forall (docs : list dowhile) (out : list ocomp) (seq : list nat), wf_multi docs ->
  (forall x, In x (m_loop (munroll docs out seq)) <->
             exists j d, nth_error docs j = Some d /\ In x (w_loop (unroll d out (cnt j seq)))) /\
  (forall j d, nth_error docs j = Some d ->
     m_loop (munroll docs out (seq ++ [j])) =
     (m_loop (munroll docs out seq) ++ instantiate d (N.of_nat (S (cnt j seq))))%list) /\
  (forall j d i c, nth_error docs j = Some d -> i <= N.of_nat (cnt j seq) -> In c (d_comps d) ->
     In (mk_inst (c_stage c + d_stage d) (iname i (c_name c)) i (map (wire d i (c_stage c)) (c_refs c)))
        (m_loop (munroll docs out seq))).
Proof.
  intros docs out seq WM.
  assert (H1 : forall x, In x (m_loop (munroll docs out seq)) <->
             exists j d, nth_error docs j = Some d /\ In x (w_loop (unroll d out (cnt j seq)))).
  { intros x. rewrite (multi_instances docs out WM seq x). split; intros [j [d [Hj Hx]]]; exists j, d; (split; [exact Hj|]).
    - rewrite (instances_exact d out (wf_nth docs WM j d Hj)). exact Hx.
    - rewrite (instances_exact d out (wf_nth docs WM j d Hj)) in Hx. exact Hx. }
  split; [exact H1|]. split; [intros j d Hj; exact (multi_step docs out WM seq j d Hj)|].
  intros j d i c Hj Hi Hc. apply H1. exists j, d. split; [exact Hj|].
  exact (wiring d out (wf_nth docs WM j d Hj) (cnt j seq) i c Hi Hc).
Qed.
Print Assumptions C05_multi_instances.

(* Frame: everything document j sees of the workflow — the instances represented by its placeholders, their latest
   instance, map_placeholder_id_to_iteration, the Controller's view of a placeholder, the DoWhile state, the
   resolution of a reference to one of its looped components — is what the single-loop workflow [unroll d out k]
   with k = cnt j seq has; the iterations of the other documents (before, after, in between) change none of it. *)
Theorem C05_multi_frame : forall (docs : list dowhile) (out : list ocomp) (seq : list nat) (j : nat) (d : dowhile),
  wf_multi docs -> nth_error docs j = Some d ->
  let m := munroll docs out seq in
  let w := unroll d out (cnt j seq) in
  (forall p, in_loop_ids d p = true ->
     represents (m_loop m) p = represents (w_loop w) p /\
     latest KeyInt (view m d) p = latest KeyInt w p /\ map_latest KeyInt (view m d) p = map_latest KeyInt w p /\
     ph_preds (view m d) p = ph_preds w p) /\
  cur_iter (view m d) = cur_iter w /\ cur_cond (view m d) = cur_cond w /\ ctl_cond (view m d) = ctl_cond w /\
  (forall a, in_loop_ids d (a_stage a, a_prod a) = true -> mresolve m a = resolve KeyInt w a).
Proof.
  intros docs out seq j d WM Hj m w. destruct (multi_view docs out WM seq j d Hj) as [H1 [H2 [H3 [H4 H5]]]].
  split; [|split; [exact H1|split; [exact H2|split; [exact H3|exact H5]]]].
  intros p Hp. split; [exact (multi_frame docs out WM seq j d p Hj Hp)|exact (H4 p Hp)].
Qed.
Print Assumptions C05_multi_frame.

(* ... hence, per document and with ITS OWN iteration count k = cnt j seq: the newest instance of each of its looped
   components is iteration k, its state is iteration k with the condition produced by iteration k, the Controller
   registers that producer, outside references resolve to iteration k / list 0..k in increasing order. *)
Theorem C05_multi_latest : forall (docs : list dowhile) (out : list ocomp) (seq : list nat) (j : nat) (d : dowhile) (c : comp),
  wf_multi docs -> nth_error docs j = Some d -> In c (d_comps d) ->
  let m := munroll docs out seq in
  let k := cnt j seq in
  let p := comp_id (d_stage d) c in
  latest KeyInt (view m d) p = Some (instance_of d (N.of_nat k) c) /\
  map_latest KeyInt (view m d) p = Some (inst_node (instance_of d (N.of_nat k) c)) /\
  cur_iter (view m d) = N.of_nat k /\
  (exists cc, In cc (d_comps d) /\ comp_id (d_stage d) cc = cond_id d /\
     cur_cond (view m d) = pr_ref (mk_aref (c_stage cc + d_stage d) (iname (N.of_nat k) (c_name cc)) (l_file (d_cond d)) "output") /\
     ctl_cond (view m d) = [inode d (N.of_nat k) cc]) /\
  (forall a, (a_stage a, a_prod a) = p -> mresolve m a = resolve_spec d c k a).
Proof.
  intros docs out seq j d c WM Hj Hc m k p. pose proof (wf_nth docs WM j d Hj) as WF.
  destruct (multi_view docs out WM seq j d Hj) as [H1 [H2 [H3 [H4 H5]]]]. fold m in H1, H2, H3, H4, H5. fold k in H1, H2, H3, H4, H5.
  assert (Hp : in_loop_ids d p = true) by (apply in_loop_ids_spec; exists c; auto).
  destruct (H4 p Hp) as [L1 [L2 _]].
  split; [rewrite L1; exact (latest_upto d out WF c k Hc)|].
  split; [rewrite L2; exact (map_latest_upto d out WF c k Hc)|].
  destruct (state_upto d out WF k) as [cc [Hcc [Hn [Hi Hcur]]]].
  split; [rewrite H1; exact Hi|]. split.
  - exists cc. split; [exact Hcc|]. split; [exact Hn|]. split; [rewrite H2; exact Hcur|].
    rewrite H3. destruct (ctl_cond_unroll d out WF k) as [cc' [Hcc' [Hn' E]]].
    assert (cc' = cc) by (apply (comp_of_id d WF); auto; congruence). subst cc'. exact E.
  - intros a Ha. rewrite H5 by (rewrite Ha; exact Hp). exact (resolve_outside d out WF c k a Hc Ha).
Qed.
Print Assumptions C05_multi_latest.

(* comp_condition_to_dowhile for the whole workflow: one entry per document, the condition producer of that
   document's own newest iteration *)
Theorem C05_multi_conditions : forall (docs : list dowhile) (out : list ocomp) (seq : list nat), wf_multi docs ->
  mconds (munroll docs out seq) =
  flat_map (fun jd => ctl_cond (unroll (snd jd) out (cnt (fst jd) seq))) (combine (List.seq 0%nat (length docs)) docs).
Proof. intros docs out seq WM. exact (multi_conds docs out WM seq). Qed.
Print Assumptions C05_multi_conditions.

(* Command lines (flowir.rewrite_all_references = one re.sub(r'\b<text>\b', <new>, value, 1) per discovered
   reference text, in order).  (a) reference texts that do not occur word-bounded in a value leave it unchanged;
   (b) a value that is one reference text (an entry of the references list) becomes exactly its new form;
   (c) bounded sweep, the bound being the generator's component names, stages {0,1,3} and iterations
   {0,1,2,9,10,11,12,25}: the command line "n1:ref n2:ref" is rewritten so that each occurrence names its own
   instance IF AND ONLY IF the later text does not occur word-bounded inside the earlier one ([overlap], the class
   of the open finding F5c; C05_sequential_substitution_refuted exhibits the failure). *)
Theorem C05_substitution_untouched : forall (subs : list (string * string)) (s : string),
  (forall mr, In mr subs -> wb_occurs (fst mr) None s = false) -> rewrite_seq subs s = s.
Proof. exact rewrite_seq_no_wb. Qed.
Print Assumptions C05_substitution_untouched.

Theorem C05_substitution_single : forall (pat rep : string) a rest,
  pat = String a rest -> wordc a = true -> ow (last_of pat None) = true -> sub_first pat rep None pat = rep.
Proof. exact sub_first_whole. Qed.
Print Assumptions C05_substitution_single.

Theorem C05_substitution_sweep : forall (n1 n2 : string) (S i : N),
  In (n1, n2) name_pairs -> In S stages -> In i iters ->
  (rewritten S i n1 n2 = intended S i n1 n2 <-> overlap n1 n2 = false).
Proof. exact sweep_spec. Qed.
Print Assumptions C05_substitution_sweep.

(* non-vacuity: the three-component loop of tests/test_dowhile.py is well formed; after 12 further iterations
   its instance 12 of "add" reads iteration 11 of "fake_add", outside references see iteration 12, the loop
   reference lists 0..12 in numeric order *)
Example C05_nonvacuous :
  wf_doc ex_doc /\
  In (mk_inst 1 "12#add" 12 [mk_aref 1 "11#fake_add" "" "output"]) (w_loop (unroll ex_doc ex_out 12)) /\
  option_map inst_node (latest KeyInt (unroll ex_doc ex_out 12) (1, "add"%string)) = Some "stage1.12#add"%string /\
  cur_cond (unroll ex_doc ex_out 12) = "stage1.12#stop/f:output"%string /\
  resolve KeyInt (unroll ex_doc ex_out 2) (mk_aref 1 "fake_add" "" "loopref") =
    "stages/stage1/0#fake_add stages/stage1/1#fake_add stages/stage1/2#fake_add"%string /\
  (* hypotheses of C05_edges_local *)
  no_agg_loopb ex_doc /\ (forall b v, lookup b (d_binds ex_doc) = Some v -> occurs "#" (a_prod v) = false) /\
  (* edges: loop-carried 11#fake_add -> 12#add, placeholder edges into the outside consumer, no forward edge *)
  existsb (edge_eqb ("stage1.11#fake_add", "stage1.12#add")%string) (w_edges (unroll ex_doc ex_out 12)) = true /\
  existsb (edge_eqb ("stage1.3#add", "stage2.report")%string) (w_edges (unroll ex_doc ex_out 12)) = true /\
  existsb (edge_eqb ("stage1.7#stop", "stage2.report")%string) (w_edges (unroll ex_doc ex_out 12)) = true /\
  existsb (edge_eqb ("stage1.12#fake_add", "stage1.11#add")%string) (w_edges (unroll ex_doc ex_out 12)) = false /\
  (* two looped components with the same name in different stages: a well-formed document; the condition is the
     one of stage 1 *)
  wf_doc ex_doc2 /\
  cur_cond (unroll ex_doc2 ex_out2 11) = "stage1.11#x/f:output"%string /\
  map_latest KeyInt (unroll ex_doc2 ex_out2 11) (0, "x"%string) = Some "stage0.11#x"%string /\
  map_latest KeyInt (unroll ex_doc2 ex_out2 11) (1, "x"%string) = Some "stage1.11#x"%string /\
  (* name clashes with components outside the loop (ex_doc4: looped "work" of stage 1, plain stage0.work and
     stage2.work): instance 11 of work reads iteration 10 of the LOOPED work, the plain stage0.work (binding) and
     stage1.mid (direct); instance 11 of stop reads instance 11 of the looped work and the plain stage2.work;
     outside references stage1.work / stage0.work resolve to instance 11 / the plain component; the Controller's
     view of the placeholder stage1.work *)
  wf_doc ex_doc4 /\ no_agg_loopb ex_doc4 /\
  map pr_ref (map (wire ex_doc4 11 0) (c_refs (mk_comp "work" 0 [RBind "b0" "" "output"; RBind "base" "" "ref"; RComp None "mid" "" "ref"]))) =
    ["stage1.10#work:output"; "stage0.work:ref"; "stage1.mid:ref"]%string /\
  map pr_ref (map (wire ex_doc4 11 1) [RComp (Some 0) "work" "" "output"; RComp (Some 1) "work" "f" "ref"]) =
    ["stage1.11#work:output"; "stage2.work/f:ref"]%string /\
  resolve KeyInt (unroll ex_doc4 ex_out4 11) (mk_aref 1 "work" "" "ref") = "stages/stage1/11#work"%string /\
  resolve KeyInt (unroll ex_doc4 ex_out4 11) (mk_aref 0 "work" "" "ref") = "stages/stage0/work"%string /\
  existsb (edge_eqb ("stage0.work", "stage1.11#work")%string) (w_edges (unroll ex_doc4 ex_out4 11)) = true /\
  existsb (edge_eqb ("stage2.work", "stage2.11#stop")%string) (w_edges (unroll ex_doc4 ex_out4 11)) = true /\
  ph_preds (unroll ex_doc4 ex_out4 2) (1, "work"%string) =
    ["stage1.0#work"; "stage1.1#work"; "stage1.2#work"; "stage2.2#stop"]%string /\
  (* the Controller registers the condition's producer of stage 2 for a loop imported in stage 1 *)
  ctl_cond (unroll ex_da ex_mout 2) = ["stage2.2#stop"]%string /\
  (* two documents, "work" looped in both (stage 1 / stage 2); the second one instantiated three times, then the
     first one once: each placeholder points into its own loop, each document has its own state *)
  wf_multi ex_docs /\ cnt 1 [1; 1; 1; 0]%nat = 3%nat /\
  option_map inst_node (latest KeyInt (view (munroll ex_docs ex_mout [1; 1; 1; 0]%nat) ex_da) (1, "work"%string)) = Some "stage1.1#work"%string /\
  option_map inst_node (latest KeyInt (view (munroll ex_docs ex_mout [1; 1; 1; 0]%nat) ex_db) (2, "work"%string)) = Some "stage2.3#work"%string /\
  mconds (munroll ex_docs ex_mout [1; 1; 1; 0]%nat) = ["stage2.1#stop"; "stage2.3#halt"]%string /\
  mresolve (munroll ex_docs ex_mout [1; 0; 1]%nat) (mk_aref 2 "work" "" "loopref") =
    "stages/stage2/0#work stages/stage2/1#work stages/stage2/2#work"%string /\
  mresolve (munroll ex_docs ex_mout [1; 0; 1]%nat) (mk_aref 1 "work" "" "ref") = "stages/stage1/1#work"%string /\
  (* command lines: 132 name pairs are swept, 'b' then 'a-b' is rewritten as intended *)
  length name_pairs = 132%nat /\ overlap "b" "a-b" = false /\
  rewritten 1 10 "b" "a-b" = "stage1.10#b:ref stage1.10#a-b:ref"%string.
Proof.
  split; [exact ex_doc_wf|]. split.
  - vm_compute. do 36 right. left. reflexivity.
  - split; [vm_compute; reflexivity|]. split; [vm_compute; reflexivity|]. split; [vm_compute; reflexivity|].
    split.
    { intros b l H. cbn in H. destruct (String.eqb b "number"); [|discriminate]. inversion H. reflexivity. }
    split.
    { intros b v H. cbn in H. destruct (String.eqb b "number"); [|discriminate]. inversion H. reflexivity. }
    split; [vm_compute; reflexivity|]. split; [vm_compute; reflexivity|]. split; [vm_compute; reflexivity|].
    split; [vm_compute; reflexivity|]. split; [exact ex_doc2_wf|].
    split; [vm_compute; reflexivity|]. split; [vm_compute; reflexivity|]. split; [vm_compute; reflexivity|].
    split; [exact ex_doc4_wf|]. split.
    { intros b l H. cbn in H. destruct (String.eqb b "b0"); [|discriminate]. inversion H. reflexivity. }
    split; [vm_compute; reflexivity|]. split; [vm_compute; reflexivity|]. split; [vm_compute; reflexivity|].
    split; [vm_compute; reflexivity|]. split; [vm_compute; reflexivity|]. split; [vm_compute; reflexivity|].
    split; [vm_compute; reflexivity|].
    split; [vm_compute; reflexivity|]. split; [exact ex_docs_wf|].
    split; [vm_compute; reflexivity|]. split; [vm_compute; reflexivity|]. split; [vm_compute; reflexivity|].
    split; [vm_compute; reflexivity|]. split; [vm_compute; reflexivity|]. split; [vm_compute; reflexivity|].
    vm_compute. repeat split.
Qed.

(* ------------------------------------------------------------------ replication inside the loop (round 7)
   A DoWhile document whose looped components carry workflowAttributes.replicate (a number or a variable) /
   aggregate stands for its expansion [expand_doc sc rd] (replicas c0 .. c(n-1) written out; n looked up in the
   variable scopes of the component's OWN workflow stage, [lookup_var]).  Whenever the expansion is well formed the
   workflow after k further iterations holds exactly the instances 0..k of every REPLICA, and the placeholder of every
   replica has the instance of iteration k as its latest one (all other theorems above apply to
   [unroll (expand_doc sc rd) out k] in the same way: it is an ordinary [unroll]). *)
Theorem C05_replicated_instances : forall (sc : scopes) (rd : rdoc) (out : list ocomp) (k : nat),
  wf_doc (expand_doc sc rd) ->
  forall n, In n (nodes (unroll (expand_doc sc rd) out k)) <->
    (exists o, In o out /\ n = out_node o) \/
    (exists i c, i <= N.of_nat k /\ In c (d_comps (expand_doc sc rd)) /\
                 n = pr_id (c_stage c + rd_stage rd) (iname i (c_name c))).
Proof. exact replicated_nodes. Qed.
Print Assumptions C05_replicated_instances.

Theorem C05_replicated_latest : forall (sc : scopes) (rd : rdoc) (out : list ocomp) (k : nat) (c : comp),
  wf_doc (expand_doc sc rd) -> In c (d_comps (expand_doc sc rd)) ->
  latest KeyInt (unroll (expand_doc sc rd) out k) (comp_id (rd_stage rd) c) =
    Some (instance_of (expand_doc sc rd) (N.of_nat k) c).
Proof. intros sc rd out k c. exact (replicated_latest sc rd out k c). Qed.
Print Assumptions C05_replicated_latest.

(* Which value of the variable counts: on the default platform the value defined for the component's own stage wins
   over the global one; the variables of any other stage are not visible. *)
Theorem C05_replicas_stage_scope : forall (sc : scopes) (at_ : N) (v : string),
  s_plat sc = false ->
  (forall n, vlookup v (stage_tab at_ (s_ds sc)) = Some n -> lookup_var sc at_ v = Some n) /\
  (nlookup at_ (s_ds sc) = None -> lookup_var sc at_ v = vlookup v (s_dg sc)).
Proof.
  intros sc at_ v P. split; [intros n H; exact (default_stage_wins sc at_ v n P H)|].
  intros H. exact (other_stage_invisible sc at_ v P H).
Qed.
Print Assumptions C05_replicas_stage_scope.

(* non-vacuity: N = 1 globally, 2 in stage 0, 3 in stage 2 where the loop lives (import stage 2): three replicas *)
Example C05_replicated_nonvacuous :
  expand_doc ex_sc ex_rdoc = ex_rexp /\ wf_doc (expand_doc ex_sc ex_rdoc) /\
  lookup_var ex_sc 2 "N" = Some 3 /\
  option_map inst_node (latest KeyInt (unroll (expand_doc ex_sc ex_rdoc) [] 11) (2, "work2"%string)) =
    Some "stage2.11#work2"%string /\
  map pr_ref (i_refs (instance_of (expand_doc ex_sc ex_rdoc) 11
                        (mk_comp "gather" 0 [RComp None "work0" "" "output"; RComp None "work1" "" "output";
                                             RComp None "work2" "" "output"]))) =
    ["stage2.11#work0:output"; "stage2.11#work1:output"; "stage2.11#work2:output"]%string.
Proof.
  split; [exact ex_rdoc_expands|]. split; [rewrite ex_rdoc_expands; exact ex_rexp_wf|].
  repeat split; vm_compute; reflexivity.
Qed.
