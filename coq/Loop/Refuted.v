(* C05 — the statement about the newest instance is false of the model of the pinned code (before the repair
   of F5), which compared iteration numbers as strings at three sites. *)
From Coq Require Import String List NArith.
Import ListNotations.
Require Import V.Lib.PyStr V.Loop.Model V.Loop.Proofs.
Open Scope N_scope.

(* F5 (repaired by a fix: commit): with the string key and k = 10 the newest instance is iteration 9, an outside
   reference resolves to iteration 9, and the loop reference lists 0, 1, 10, 2, ... *)
Theorem C05_string_key_refuted :
  exists (d : dowhile) (out : list ocomp) (c : comp), wf_doc d /\ In c (d_comps d) /\
    latest KeyString (unroll d out 10) (comp_id (d_stage d) c) = Some (instance_of d 9 c) /\
    map_latest KeyString (unroll d out 10) (comp_id (d_stage d) c) = Some (inst_node (instance_of d 9 c)) /\
    resolve KeyString (unroll d out 10) (mk_aref 1 "add" "" "ref") = "stages/stage1/9#add"%string /\
    map ikey (isort KeyString (represents (w_loop (unroll d out 10)) (comp_id (d_stage d) c))) =
      ["0"; "1"; "10"; "2"; "3"; "4"; "5"; "6"; "7"; "8"; "9"]%string /\
    cur_iter (unroll d out 10) = 10.
Proof.
  exists ex_doc, ex_out, (mk_comp "add" 0 [RBind "number" "" "output"]).
  split; [exact ex_doc_wf|]. split; [left; reflexivity|]. vm_compute. repeat split.
Qed.
Print Assumptions C05_string_key_refuted.
