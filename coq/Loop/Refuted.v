(* C05 — the statement about the newest instance is false of the model of the pinned code (before the repair
   of F5), which compared iteration numbers as strings at three sites. *)
From Coq Require Import String List NArith.
Import ListNotations.
Require Import V.Lib.PyStr V.Loop.Model V.Loop.Proofs V.Loop.Edges V.Loop.Subst.
Open Scope N_scope.

(* F5 (repaired by a fix: commit): with the string key and k = 10 the newest instance is iteration 9, an outside
   reference resolves to iteration 9, and the loop reference lists 0, 1, 10, 2, ... *)
Theorem C05_string_key_refuted :
  exists (d : dowhile) (out : list ocomp) (c : comp), wf_doc d /\ In c (d_comps d) /\
    latest KeyString (unroll d out 10) (comp_id (d_stage d) c) = Some (instance_of d 9 c) /\
    map_latest KeyString (unroll d out 10) (comp_id (d_stage d) c) = Some (inst_node (instance_of d 9 c)) /\
    resolve KeyString (unroll d out 10) (mk_aref 1 "add" "" "ref") = "stages/stage1/9#add"%string /\
    map ikey (isort KeyString (represents (w_loop (unroll d out 10)) (comp_id (d_stage d) c))) =
      ["0"; "1"; "10"; "2"; "3"; "4"; "5"; "6"; "7"; "8"; "9"]%string /\
    cur_iter (unroll d out 10) = 10.
Proof.
  exists ex_doc, ex_out, (mk_comp "add" 0 [RBind "number" "" "output"]).
  split; [exact ex_doc_wf|]. split; [left; reflexivity|]. vm_compute. repeat split.
Qed.
Print Assumptions C05_string_key_refuted.

(* F5b (repaired by a fix: commit 5c6cbf4): compute_dowhile_state selected the instances of the condition's producer
   by NAME only.  With two looped components named "x" in stages 0 and 1 and the condition stage1.x/f:output, the
   by-name selection returns the instance of stage 0 — not an instance of the condition's component. *)
Theorem C05_cond_by_name_refuted :
  exists (d : dowhile) (out : list ocomp) (x : inst), wf_doc d /\
    argmax KeyInt (cond_insts_by_name d (w_loop (unroll d out 2))) = Some x /\
    id_eqb (i_stage x, bp_name (i_name x)) (cond_id d) = false /\
    inst_node x = "stage0.2#x"%string /\
    cur_cond (unroll d out 2) = "stage1.2#x/f:output"%string.
Proof.
  exists ex_doc2, ex_out2. eexists. split; [exact ex_doc2_wf|]. vm_compute. repeat split.
Qed.
Print Assumptions C05_cond_by_name_refuted.

(* The hypothesis [no_agg_loopb] of C05_edges_local is necessary in the model: with a :loopref loop binding the
   consumer instance 1#agg references the placeholder of "prod" and receives an edge from the LATER instance
   2#prod (model only: the real code cannot load such a document without a second DoWhile). *)
Theorem C05_agg_loop_binding_forward_edge_refuted :
  exists (d : dowhile) (out : list ocomp), wf_doc d /\ ~ no_agg_loopb d /\
    existsb (edge_eqb ("stage1.2#prod", "stage1.1#agg")%string) (w_edges (unroll d out 2)) = true.
Proof.
  exists ex_doc3, ex_out3. split; [exact ex_doc3_wf|]. split.
  - intros H. specialize (H "b0"%string (mk_lb None "prod" "" "loopref") eq_refl). discriminate H.
  - vm_compute. reflexivity.
Qed.
Print Assumptions C05_agg_loop_binding_forward_edge_refuted.

(* F5c (open): "each reference on a command line is rewritten to its own instance" is false of the sequential
   substitution when the later reference text occurs word-bounded inside the earlier one: looped components
   "a-b" and "b", command line "a-b:ref b:ref", iteration 0 at stage 1. *)
Theorem C05_sequential_substitution_refuted :
  exists (n1 n2 : string) (S i : N), In (n1, n2) name_pairs /\ overlap n1 n2 = true /\
    rewritten S i n1 n2 = "stage1.0#a-stage1.0#b:ref b:ref"%string /\
    intended S i n1 n2 = "stage1.0#a-b:ref stage1.0#b:ref"%string.
Proof.
  exists "a-b"%string, "b"%string, 1%N, 0%N. split; [vm_compute; tauto|]. vm_compute. repeat split.
Qed.
Print Assumptions C05_sequential_substitution_refuted.
