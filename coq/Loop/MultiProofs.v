(* C05 — several DoWhile documents in one workflow: frame lemmas.
   For a workflow whose documents are well formed and whose placeholder ids are pairwise distinct ([wf_multi]) and
   for ANY order [seq] of instantiation: the instances, placeholders, state, resolution and Controller view of the
   j-th document are exactly those of the single-loop workflow [unroll d out k] with k = the number of times the j-th
   document was instantiated ([cnt j seq]); instantiating one document leaves everything of the others unchanged.
   All single-loop theorems (Property.v) therefore hold per document. *)
From Coq Require Import String Ascii List Bool Arith NArith Lia ZifyBool Permutation.
Require Import V.Lib.PyStr V.Lib.JTree V.Loop.Model V.Loop.Proofs V.Loop.Edges V.Loop.Multi.
Import ListNotations.
Open Scope string_scope.
Open Scope N_scope.

(* ------------------------------------------------------------------ the Controller's registered condition, one loop *)
Lemma iter_next_comm k w : Nat.iter k next_iteration (next_iteration w) = next_iteration (Nat.iter k next_iteration w).
Proof.
  induction k as [|k IH]; [reflexivity|].
  change (Nat.iter (S k) next_iteration (next_iteration w)) with (next_iteration (Nat.iter k next_iteration (next_iteration w))).
  rewrite IH. reflexivity.
Qed.

Lemma trace_nonempty k w : trace_from k w <> [].
Proof. destruct k; discriminate. Qed.

Lemma trace_last k : forall w w0, last (trace_from k w) w0 = Nat.iter k next_iteration w.
Proof.
  induction k as [|k IH]; intros w w0; [reflexivity|].
  change (trace_from (S k) w) with (w :: trace_from k (next_iteration w)).
  destruct (trace_from k (next_iteration w)) as [|x l] eqn:E; [exfalso; exact (trace_nonempty _ _ E)|].
  change (last (w :: x :: l) w0) with (last (x :: l) w0). rewrite <- E, IH, iter_next_comm. reflexivity.
Qed.

Lemma trace_nth k : forall w j, (j <= k)%nat -> nth_error (trace_from k w) j = Some (Nat.iter j next_iteration w).
Proof.
  induction k as [|k IH]; intros w j Hj.
  - assert (j = 0%nat) by lia. subst. reflexivity.
  - destruct j as [|j]; [reflexivity|].
    change (trace_from (S k) w) with (w :: trace_from k (next_iteration w)). cbn [nth_error].
    rewrite IH by lia. rewrite iter_next_comm. reflexivity.
Qed.

Lemma trace_length k : forall w, length (trace_from k w) = S k.
Proof. induction k as [|k IH]; intros w; [reflexivity|]. cbn [trace_from length]. rewrite IH. reflexivity. Qed.

Section One.
Variable d : dowhile.
Variable out : list ocomp.
Hypothesis WF : wf_doc d.

(* what Controller.parse_workflow_graph registers after k iterations: instance k of the producer of the condition *)
Lemma ctl_cond_unroll k : exists cc, In cc (d_comps d) /\ comp_id (d_stage d) cc = cond_id d /\
  ctl_cond (unroll d out k) = [inode d (N.of_nat k) cc].
Proof.
  destruct (unroll_inv d out WF k) as [H1 [_ H3]]. destruct (cur_of_upto d WF _ k H1 H3) as [cc [Hcc [Hn Hcur]]].
  exists cc. split; [exact Hcc|]. split; [exact Hn|]. unfold ctl_cond. rewrite Hcur. reflexivity.
Qed.

(* ... after initialise and after every one of the k instantiations *)
Lemma ctl_cond_trace k j : (j <= k)%nat -> exists cc, In cc (d_comps d) /\ comp_id (d_stage d) cc = cond_id d /\
  option_map ctl_cond (nth_error (trace_from k (init d out)) j) = Some [inode d (N.of_nat j) cc].
Proof.
  intros Hj. destruct (ctl_cond_unroll j) as [cc [H1 [H2 H3]]]. exists cc. split; [exact H1|]. split; [exact H2|].
  rewrite trace_nth by exact Hj. cbn [option_map]. f_equal. exact H3.
Qed.
End One.

(* ------------------------------------------------------------------ two readings of the same loop *)
Definition same_view (w1 w2 : wfst) : Prop :=
  w_doc w1 = w_doc w2 /\
  forall p, in_loop_ids (w_doc w1) p = true -> represents (w_loop w1) p = represents (w_loop w2) p.

Lemma sv_cur w1 w2 : same_view w1 w2 -> in_loop_ids (w_doc w1) (cond_id (w_doc w1)) = true ->
  cur_cond_inst w1 = cur_cond_inst w2.
Proof.
  intros [Hd Hr] Hc. unfold cur_cond_inst. rewrite <- Hd.
  change (cond_insts (w_doc w1) (w_loop w1)) with (represents (w_loop w1) (cond_id (w_doc w1))).
  change (cond_insts (w_doc w1) (w_loop w2)) with (represents (w_loop w2) (cond_id (w_doc w1))).
  rewrite (Hr _ Hc). reflexivity.
Qed.

Lemma sv_state w1 w2 : same_view w1 w2 -> in_loop_ids (w_doc w1) (cond_id (w_doc w1)) = true ->
  cur_iter w1 = cur_iter w2 /\ cur_cond w1 = cur_cond w2 /\ ctl_cond w1 = ctl_cond w2.
Proof.
  intros SV Hc. unfold cur_iter, cur_cond, ctl_cond. rewrite (sv_cur w1 w2 SV Hc). destruct SV as [Hd _].
  rewrite Hd. auto.
Qed.

Lemma sv_latest kk w1 w2 p : same_view w1 w2 -> in_loop_ids (w_doc w1) p = true ->
  latest kk w1 p = latest kk w2 p /\ map_latest kk w1 p = map_latest kk w2 p.
Proof.
  intros [Hd Hr] Hp. unfold latest, map_latest.
  change (filter (fun x => id_eqb (i_stage x, bp_name (i_name x)) p) (w_loop w1)) with (represents (w_loop w1) p).
  change (filter (fun x => id_eqb (i_stage x, bp_name (i_name x)) p) (w_loop w2)) with (represents (w_loop w2) p).
  rewrite (Hr _ Hp). auto.
Qed.

Lemma sv_resolve kk w1 w2 a : same_view w1 w2 -> in_loop_ids (w_doc w1) (a_stage a, a_prod a) = true ->
  resolve kk w1 a = resolve kk w2 a.
Proof.
  intros SV Hp. destruct (sv_latest kk w1 w2 _ SV Hp) as [HL _]. destruct SV as [Hd Hr].
  unfold resolve, is_placeholder. rewrite <- Hd, (Hr _ Hp), HL. reflexivity.
Qed.

Lemma sv_ph_preds w1 w2 p : same_view w1 w2 -> in_loop_ids (w_doc w1) (cond_id (w_doc w1)) = true ->
  in_loop_ids (w_doc w1) p = true -> ph_preds w1 p = ph_preds w2 p.
Proof.
  intros SV Hc Hp. unfold ph_preds. rewrite (sv_cur w1 w2 SV Hc). destruct SV as [Hd Hr]. rewrite (Hr _ Hp). reflexivity.
Qed.

(* ------------------------------------------------------------------ list facts *)
Lemma filter_all {A} (P : A -> bool) l : (forall x, In x l -> P x = true) -> filter P l = l.
Proof. induction l as [|a l IH]; intros H; [reflexivity|]. cbn. rewrite (H a) by (left; reflexivity). f_equal. apply IH. intros x Hx. apply H. right. exact Hx. Qed.

Lemma filter_nothing {A} (P : A -> bool) l : (forall x, In x l -> P x = false) -> filter P l = [].
Proof. induction l as [|a l IH]; intros H; [reflexivity|]. cbn. rewrite (H a) by (left; reflexivity). apply IH. intros x Hx. apply H. right. exact Hx. Qed.

Lemma filter_filter_impl {A} (P Q : A -> bool) l : (forall x, P x = true -> Q x = true) -> filter P (filter Q l) = filter P l.
Proof.
  intros H. induction l as [|a l IH]; [reflexivity|]. cbn. destruct (Q a) eqn:EQ; cbn.
  - rewrite IH. reflexivity.
  - destruct (P a) eqn:EP; [rewrite (H a EP) in EQ; discriminate|exact IH].
Qed.

Lemma flat_map_all_nil {A B} (g : A -> list B) l : (forall a, In a l -> g a = []) -> flat_map g l = [].
Proof. induction l as [|a l IH]; intros H; [reflexivity|]. cbn. rewrite (H a) by (left; reflexivity). apply IH. intros x Hx. apply H. right. exact Hx. Qed.

Lemma flat_map_one {A B} (g : A -> list B) l : forall j a, nth_error l j = Some a ->
  (forall j' a', j' <> j -> nth_error l j' = Some a' -> g a' = []) -> flat_map g l = g a.
Proof.
  induction l as [|x l IH]; intros j a Hj Hn; destruct j as [|j]; cbn in Hj; try discriminate.
  - inversion Hj; subst. cbn. rewrite flat_map_all_nil; [apply app_nil_r|].
    intros a' Ha'. apply In_nth_error in Ha' as [n Hn']. apply (Hn (S n) a'); [lia|exact Hn'].
  - cbn. rewrite (Hn 0%nat x) by (try lia; reflexivity). cbn. apply (IH j a Hj).
    intros j' a' Hne H'. apply (Hn (S j') a'); [lia|exact H'].
Qed.

(* ------------------------------------------------------------------ several documents *)
Definition belongs (d : dowhile) (x : inst) : bool := in_loop_ids d (i_stage x, bp_name (i_name x)).
Definition cnt (j : nat) (seq : list nat) : nat := count_occ Nat.eq_dec seq j.

Lemma cnt_snoc_same j seq : cnt j (seq ++ [j]) = S (cnt j seq).
Proof. unfold cnt. rewrite count_occ_app. cbn. destruct (Nat.eq_dec j j); [lia|contradiction]. Qed.
Lemma cnt_snoc_other j j' seq : j <> j' -> cnt j (seq ++ [j']) = cnt j seq.
Proof. intros H. unfold cnt. rewrite count_occ_app. cbn. destruct (Nat.eq_dec j' j); [congruence|lia]. Qed.

Record wf_multi (docs : list dowhile) : Prop := {
  wm_docs : forall d, In d docs -> wf_doc d;
  (* a (stage, name) pair is looped in at most one document *)
  wm_disjoint : forall j j' d d' p, nth_error docs j = Some d -> nth_error docs j' = Some d' -> j <> j' ->
                in_loop_ids d p = true -> in_loop_ids d' p = false
}.

Lemma belongs_instance d i c : In c (d_comps d) -> belongs d (instance_of d i c) = true.
Proof. intros Hc. unfold belongs. rewrite id_instance. apply in_loop_ids_spec. exists c. auto. Qed.

Lemma filter_belongs_own d n : filter (belongs d) (instantiate d n) = instantiate d n.
Proof.
  apply filter_all. intros x Hx. unfold instantiate in Hx. apply in_map_iff in Hx as [c [<- Hc]].
  apply belongs_instance. exact Hc.
Qed.

Section Multi.
Variable docs : list dowhile.
Variable out : list ocomp.
Hypothesis WM : wf_multi docs.

Lemma wf_nth j d : nth_error docs j = Some d -> wf_doc d.
Proof. intros H. apply (wm_docs docs WM). eapply nth_error_In. exact H. Qed.

Lemma filter_belongs_other j j' d d' n : nth_error docs j = Some d -> nth_error docs j' = Some d' -> j <> j' ->
  filter (belongs d) (instantiate d' n) = [].
Proof.
  intros Hj Hj' Hne. apply filter_nothing. intros x Hx. unfold instantiate in Hx. apply in_map_iff in Hx as [c [<- Hc]].
  unfold belongs. rewrite id_instance. apply (wm_disjoint docs WM j' j d' d); auto.
  apply in_loop_ids_spec. exists c. auto.
Qed.

Definition minv (seq : list nat) (m : mwf) : Prop :=
  m_docs m = docs /\ m_out m = out /\
  (forall j d, nth_error docs j = Some d -> filter (belongs d) (m_loop m) = loop_upto d (cnt j seq)) /\
  (forall x, In x (m_loop m) -> exists j d, nth_error docs j = Some d /\ belongs d x = true).

(* the reading of the workflow by document j is the single-loop workflow after (cnt j seq) iterations *)
Lemma view_same seq m j d out' : minv seq m -> nth_error docs j = Some d ->
  same_view (view m d) (unroll d out' (cnt j seq)).
Proof.
  intros [_ [_ [HL _]]] Hj. pose proof (wf_nth j d Hj) as WF.
  destruct (unroll_inv d out' WF (cnt j seq)) as [H1 [_ H3]].
  split; [cbn; rewrite H1; reflexivity|]. intros p Hp. cbn [view w_doc w_loop] in *. rewrite H3, <- (HL j d Hj).
  unfold represents. symmetry. apply filter_filter_impl. intros x Hx. apply id_eqb_eq in Hx. unfold belongs.
  rewrite Hx. exact Hp.
Qed.

Lemma cond_in_loop j d : nth_error docs j = Some d -> in_loop_ids d (cond_id d) = true.
Proof. intros Hj. destruct (wf_cond d (wf_nth j d Hj)) as [c [Hc Hn]]. apply in_loop_ids_spec. exists c. auto. Qed.

Lemma minv_init : minv [] (minit docs out).
Proof.
  split; [reflexivity|]. split; [reflexivity|]. split.
  - intros j d Hj. cbn [minit m_loop]. rewrite filter_flat_map.
    rewrite (flat_map_one _ docs j d Hj).
    + rewrite filter_belongs_own. unfold loop_upto, iota. cbn. rewrite app_nil_r. reflexivity.
    + intros j' d' Hne Hj'. apply (filter_belongs_other j j' d d'); auto.
  - intros x Hx. cbn [minit m_loop] in Hx. apply in_flat_map in Hx as [d [Hd Hx]].
    apply In_nth_error in Hd as [j Hj]. exists j, d. split; [exact Hj|].
    unfold instantiate in Hx. apply in_map_iff in Hx as [c [<- Hc]]. apply belongs_instance. exact Hc.
Qed.

(* instantiating document j' adds exactly the next iteration of document j' *)
Lemma mnext_loop seq m j' d' : minv seq m -> nth_error docs j' = Some d' ->
  m_loop (mnext m j') = (m_loop m ++ instantiate d' (N.of_nat (S (cnt j' seq))))%list.
Proof.
  intros I Hj'. pose proof I as [Hd _]. unfold mnext. rewrite Hd, Hj'. cbn [m_loop].
  pose proof (view_same seq m j' d' out I Hj') as SV.
  destruct (sv_state _ _ SV (cond_in_loop j' d' Hj')) as [Hit _]. rewrite Hit.
  destruct (state_upto d' out (wf_nth j' d' Hj') (cnt j' seq)) as [cc [_ [_ [Hk _]]]]. rewrite Hk.
  replace (N.of_nat (cnt j' seq) + 1) with (N.of_nat (S (cnt j' seq))) by lia. reflexivity.
Qed.

Lemma minv_step seq m j' : minv seq m -> minv (seq ++ [j']) (mnext m j').
Proof.
  intros I. pose proof I as [Hd [Ho [HL HB]]].
  destruct (nth_error docs j') as [d'|] eqn:Hj'.
  - pose proof (mnext_loop seq m j' d' I Hj') as HN.
    assert (Hdo : m_docs (mnext m j') = docs /\ m_out (mnext m j') = out).
    { unfold mnext. rewrite Hd, Hj'. cbn. auto. }
    destruct Hdo as [Hd' Ho']. split; [exact Hd'|]. split; [exact Ho'|]. split.
    + intros j d Hj. rewrite HN, filter_app, (HL j d Hj). destruct (Nat.eq_dec j j') as [->|Hne].
      * rewrite Hj' in Hj. inversion Hj; subst d'. rewrite filter_belongs_own, cnt_snoc_same, loop_upto_S. reflexivity.
      * rewrite (filter_belongs_other j j' d d' _ Hj Hj' Hne), app_nil_r, (cnt_snoc_other j j' seq Hne). reflexivity.
    + intros x Hx. rewrite HN in Hx. apply in_app_iff in Hx as [Hx|Hx]; [exact (HB x Hx)|].
      exists j', d'. split; [exact Hj'|]. unfold instantiate in Hx. apply in_map_iff in Hx as [c [<- Hc]].
      apply belongs_instance. exact Hc.
  - assert (E : mnext m j' = m). { unfold mnext. rewrite Hd, Hj'. reflexivity. }
    rewrite E. split; [exact Hd|]. split; [exact Ho|]. split; [|exact HB].
    intros j d Hj. rewrite (HL j d Hj). rewrite cnt_snoc_other; [reflexivity|]. intros ->. rewrite Hj in Hj'. discriminate.
Qed.

Lemma munroll_snoc seq j : munroll docs out (seq ++ [j]) = mnext (munroll docs out seq) j.
Proof. unfold munroll. rewrite fold_left_app. reflexivity. Qed.

Lemma munroll_inv seq : minv seq (munroll docs out seq).
Proof.
  induction seq as [|j seq IH] using rev_ind; [exact minv_init|]. rewrite munroll_snoc. apply minv_step. exact IH.
Qed.

(* ---- the statements used by Property.v *)
Lemma multi_instances seq x :
  In x (m_loop (munroll docs out seq)) <-> exists j d, nth_error docs j = Some d /\ In x (loop_upto d (cnt j seq)).
Proof.
  destruct (munroll_inv seq) as [_ [_ [HL HB]]]. split.
  - intros Hx. destruct (HB x Hx) as [j [d [Hj Hb]]]. exists j, d. split; [exact Hj|].
    rewrite <- (HL j d Hj). apply filter_In. auto.
  - intros [j [d [Hj Hx]]]. rewrite <- (HL j d Hj) in Hx. apply filter_In in Hx. tauto.
Qed.

Lemma multi_step seq j d : nth_error docs j = Some d ->
  m_loop (munroll docs out (seq ++ [j])) =
  (m_loop (munroll docs out seq) ++ instantiate d (N.of_nat (S (cnt j seq))))%list.
Proof. intros Hj. rewrite munroll_snoc. apply (mnext_loop seq _ j d (munroll_inv seq) Hj). Qed.

Lemma multi_frame seq j d p : nth_error docs j = Some d -> in_loop_ids d p = true ->
  represents (m_loop (munroll docs out seq)) p = represents (w_loop (unroll d out (cnt j seq))) p.
Proof. intros Hj Hp. destruct (view_same seq _ j d out (munroll_inv seq) Hj) as [_ H]. exact (H p Hp). Qed.

Lemma multi_view seq j d : nth_error docs j = Some d ->
  let m := munroll docs out seq in
  let w := unroll d out (cnt j seq) in
  cur_iter (view m d) = cur_iter w /\ cur_cond (view m d) = cur_cond w /\ ctl_cond (view m d) = ctl_cond w /\
  (forall p, in_loop_ids d p = true ->
     latest KeyInt (view m d) p = latest KeyInt w p /\ map_latest KeyInt (view m d) p = map_latest KeyInt w p /\
     ph_preds (view m d) p = ph_preds w p) /\
  (forall a, in_loop_ids d (a_stage a, a_prod a) = true -> mresolve m a = resolve KeyInt w a).
Proof.
  intros Hj m w. pose proof (view_same seq _ j d out (munroll_inv seq) Hj) as SV. fold m w in SV.
  pose proof (cond_in_loop j d Hj) as Hc.
  destruct (sv_state _ _ SV Hc) as [H1 [H2 H3]]. split; [exact H1|]. split; [exact H2|]. split; [exact H3|]. split.
  - intros p Hp. destruct (sv_latest KeyInt _ _ p SV Hp) as [H4 H5]. split; [exact H4|]. split; [exact H5|].
    apply sv_ph_preds; assumption.
  - intros a Hp. unfold mresolve. destruct (munroll_inv seq) as [Hd _]. fold m in Hd. rewrite Hd.
    assert (Ho : owner docs (a_stage a, a_prod a) = Some d).
    { unfold owner. destruct (List.find (fun d0 => in_loop_ids d0 (a_stage a, a_prod a)) docs) as [d0|] eqn:F.
      - apply find_some in F as [Hin Hp0]. apply In_nth_error in Hin as [j0 Hj0].
        destruct (Nat.eq_dec j j0) as [->|Hne]; [rewrite Hj in Hj0; inversion Hj0; reflexivity|].
        rewrite (wm_disjoint docs WM j j0 d d0 _ Hj Hj0 Hne Hp) in Hp0. discriminate.
      - exfalso. pose proof (find_none _ _ F d (nth_error_In _ _ Hj)) as Hn. cbn in Hn. rewrite Hp in Hn. discriminate. }
    rewrite Ho. apply sv_resolve; assumption.
Qed.

(* what the Controller registers (comp_condition_to_dowhile): for every document, in order, the instance of the
   condition's producer of that document's newest iteration *)
Lemma multi_conds seq :
  mconds (munroll docs out seq) =
  flat_map (fun jd => ctl_cond (unroll (snd jd) out (cnt (fst jd) seq))) (combine (List.seq 0%nat (length docs)) docs).
Proof.
  unfold mconds. destruct (munroll_inv seq) as [Hd _]. rewrite Hd.
  assert (G : forall (l : list dowhile) (s : nat), (forall i d, nth_error l i = Some d -> nth_error docs (s + i) = Some d) ->
            flat_map (fun d => ctl_cond (view (munroll docs out seq) d)) l =
            flat_map (fun jd => ctl_cond (unroll (snd jd) out (cnt (fst jd) seq))) (combine (List.seq s (length l)) l)).
  { induction l as [|d l IH]; intros s H; [reflexivity|]. cbn [length List.seq combine flat_map fst snd].
    assert (Hs : nth_error docs s = Some d). { rewrite <- (Nat.add_0_r s). apply H. reflexivity. }
    destruct (multi_view seq s d Hs) as [_ [_ [H3 _]]]. rewrite H3. f_equal.
    apply IH. intros i d0 Hi. replace (S s + i)%nat with (s + S i)%nat by lia. apply H. exact Hi. }
  apply (G docs 0%nat). intros i d Hi. exact Hi.
Qed.

End Multi.

(* ------------------------------------------------------------------ example: two documents, "work" looped in both *)
Definition ex_da : dowhile :=
  mk_dw 1 [mk_comp "work" 0 [RBind "number" "" "output"]; mk_comp "stop" 1 [RComp (Some 0) "work" "" "output"]]
        [("number", mk_aref 0 "gen" "" "output")] [("number", mk_lb None "work" "" "output")]
        (mk_lb (Some 1) "stop" "" "output").
Definition ex_db : dowhile :=
  mk_dw 2 [mk_comp "work" 0 [RBind "inp" "" "output"; RBind "base" "f" "ref"]; mk_comp "halt" 0 [RComp None "work" "" "output"]]
        [("inp", mk_aref 0 "gen" "" "output"); ("base", mk_aref 0 "gen" "" "ref")]
        [("inp", mk_lb (Some 0) "work" "g.txt" "output")] (mk_lb None "halt" "f" "output").
Definition ex_docs : list dowhile := [ex_da; ex_db].
Definition ex_mout : list ocomp :=
  [mk_ocomp "gen" 0 [];
   mk_ocomp "rep" 3 [mk_aref 1 "work" "" "ref"; mk_aref 2 "work" "" "ref"; mk_aref 2 "work" "" "loopref";
                     mk_aref 2 "stop" "" "output"; mk_aref 1 "work" "f" "loopoutput"; mk_aref 2 "halt" "" "ref"]].

Lemma ex_da_wf : wf_doc ex_da.
Proof. solve_wf. Qed.
Lemma ex_db_wf : wf_doc ex_db.
Proof. solve_wf. Qed.

Lemma ex_docs_wf : wf_multi ex_docs.
Proof.
  constructor.
  - intros d [<-|[<-|[]]]; [exact ex_da_wf|exact ex_db_wf].
  - intros j j' d d' p Hj Hj' Hne Hp.
    destruct j as [|[|j]]; cbn in Hj; try (destruct j; discriminate); inversion Hj; subst d; clear Hj;
    (destruct j' as [|[|j']]; cbn in Hj'; try (destruct j'; discriminate); inversion Hj'; subst d'; clear Hj');
    try contradiction;
    apply in_loop_ids_spec in Hp as [c [Hc <-]]; cbn in Hc;
    repeat (destruct Hc as [<-|Hc]; [reflexivity|]); destruct Hc.
Qed.
