(* C05 — replication INSIDE the loop (round 7).
   Model of what FlowIR.apply_replicate / propagate_replicate make of a DoWhile document whose looped components carry
   workflowAttributes.replicate (a number, or a variable) / aggregate, both when the looped instances are created
   (FlowIRConcrete.replicate) and when WorkflowGraph._discover_dowhile_placeholders computes the placeholders: the
   document with the replicas written out ([expand_doc]).  The number of replicas given by a variable is looked up in
   the scopes visible to a component of THAT workflow stage ([lookup_var]: default global < platform global < default
   stage < platform stage; a default stage value is hidden by a platform global one, FlowIRConcrete.instance).
   The unrolling of the expanded document is Loop.Model.unroll: every theorem of Property.v applies to it. *)
From Coq Require Import String List Bool Arith NArith.
Require Import V.Lib.PyStr V.Lib.JTree V.Loop.Model V.Loop.Proofs.
Import ListNotations.
Open Scope string_scope.
Open Scope N_scope.

Definition vtab := list (string * N).
Record scopes := mk_scopes {
  s_plat : bool;                                  (* a platform other than default is active *)
  s_dg : vtab; s_ds : list (N * vtab);            (* variables.default.global / .stages *)
  s_pg : vtab; s_ps : list (N * vtab) }.          (* variables.<platform>.global / .stages *)

Fixpoint nlookup {A} (k : N) (l : list (N * A)) : option A :=
  match l with [] => None | (k', v) :: r => if k =? k' then Some v else nlookup k r end.
Definition stage_tab (k : N) (l : list (N * vtab)) : vtab := match nlookup k l with Some t => t | None => [] end.
Definition first_some {A} (a b : option A) : option A := match a with Some _ => a | None => b end.
Definition vlookup (v : string) (t : vtab) : option N :=
  match List.find (fun e => String.eqb (fst e) v) t with Some e => Some (snd e) | None => None end.

Definition lookup_var (sc : scopes) (at_ : N) (v : string) : option N :=
  let ps := if s_plat sc then stage_tab at_ (s_ps sc) else [] in
  let pg := if s_plat sc then s_pg sc else [] in
  let ds := match vlookup v pg with Some _ => [] | None => stage_tab at_ (s_ds sc) end in
  first_some (vlookup v ps) (first_some (vlookup v ds) (first_some (vlookup v pg) (vlookup v (s_dg sc)))).

Inductive rexpr := RLit (n : N) | RVar (v : string).
Record rcomp := mk_rcomp { r_comp : comp; r_rep : option rexpr; r_agg : bool }.
Record rdoc := mk_rdoc {
  rd_stage : N; rd_comps : list rcomp; rd_binds : list (string * aref); rd_loopb : list (string * lbref);
  rd_cond : lbref }.

Definition own_count (sc : scopes) (imp : N) (r : rcomp) : N :=
  match r_rep r with
  | Some (RLit n) => n
  | Some (RVar v) => match lookup_var sc (c_stage (r_comp r) + imp) v with Some n => n | None => 0 end
  | None => 0
  end.

(* (document stage, name) -> number of replicas; 0 = not replicated *)
Definition ctab := list ((N * string) * N).
Definition cget (t : ctab) (p : N * string) : N :=
  match List.find (fun e => id_eqb (fst e) p) t with Some e => snd e | None => 0 end.
Definition ref_count (t : ctab) (cs : N) (r : ref) : N :=
  match r with RComp st n _ _ => cget t (opt_stage st cs, n) | RBind _ _ _ => 0 end.
(* propagate_replicate: a component that references a replicated one without aggregating is replicated too *)
Definition count_pass (sc : scopes) (imp : N) (cs : list rcomp) (t : ctab) : ctab :=
  map (fun r => let c := r_comp r in
         ((c_stage c, c_name c),
          if r_agg r then 0
          else match r_rep r with
               | Some _ => own_count sc imp r
               | None => fold_left N.max (map (ref_count t (c_stage c)) (c_refs c)) 0
               end)) cs.
Definition counts (sc : scopes) (imp : N) (cs : list rcomp) : ctab :=
  Nat.iter (S (length cs)) (count_pass sc imp cs) [].

Definition rname (n : string) (j : N) : string := n ++ dec j.        (* '%s%d' % (name, replica) *)
Definition nrange (n : N) : list N := map N.of_nat (seq 0 (N.to_nat n)).

Definition widen (t : ctab) (cs : N) (idx : option N) (r : ref) : list ref :=
  match r with
  | RComp st n f m =>
      let k := cget t (opt_stage st cs, n) in
      if k =? 0 then [r]
      else match idx with
           | Some j => [RComp st (rname n j) f m]                          (* replica j reads replica j *)
           | None => map (fun j => RComp st (rname n j) f m) (nrange k)    (* an aggregating component: all *)
           end
  | RBind _ _ _ => [r]
  end.

Definition expand_comp (t : ctab) (r : rcomp) : list comp :=
  let c := r_comp r in
  let k := cget t (c_stage c, c_name c) in
  if k =? 0 then [mk_comp (c_name c) (c_stage c) (flat_map (widen t (c_stage c) None) (c_refs c))]
  else map (fun j => mk_comp (rname (c_name c) j) (c_stage c)
                             (flat_map (widen t (c_stage c) (Some j)) (c_refs c))) (nrange k).

Definition expand_doc (sc : scopes) (d : rdoc) : dowhile :=
  let t := counts sc (rd_stage d) (rd_comps d) in
  mk_dw (rd_stage d) (flat_map (expand_comp t) (rd_comps d)) (rd_binds d) (rd_loopb d) (rd_cond d).

(* an (aggregating) consumer outside the loop: one reference per replica *)
Definition expand_out (sc : scopes) (d : rdoc) (o : ocomp) : ocomp :=
  let t := counts sc (rd_stage d) (rd_comps d) in
  mk_ocomp (o_name o) (o_stage o)
    (flat_map (fun a => let k := cget t (a_stage a - rd_stage d, a_prod a) in
                        if (k =? 0) || (a_stage a <? rd_stage d) then [a]
                        else map (fun j => mk_aref (a_stage a) (rname (a_prod a) j) (a_file a) (a_meth a)) (nrange k))
              (o_refs o)).

Record rcase := mk_rcase { rk_sc : scopes; rk_doc : rdoc; rk_out : list ocomp; rk_k : nat; rk_obs : obs }.
Definition check_rcase (c : rcase) : bool :=
  check_case (mk_case (expand_doc (rk_sc c) (rk_doc c)) (map (expand_out (rk_sc c) (rk_doc c)) (rk_out c))
                      (rk_k c) (rk_obs c)).

(* ------------------------------------------------------------------ facts *)
(* on the default platform a variable of the component's own stage wins over the global one *)
Lemma default_stage_wins sc at_ v n :
  s_plat sc = false -> vlookup v (stage_tab at_ (s_ds sc)) = Some n -> lookup_var sc at_ v = Some n.
Proof. intros P H. unfold lookup_var. rewrite P. cbn. rewrite H. reflexivity. Qed.

(* a stage variable of ANOTHER stage is not visible *)
Lemma other_stage_invisible sc at_ v :
  s_plat sc = false -> nlookup at_ (s_ds sc) = None -> lookup_var sc at_ v = vlookup v (s_dg sc).
Proof. intros P H. unfold lookup_var, stage_tab. rewrite P, H. reflexivity. Qed.

(* the unrolling of a replicated document is the unrolling of its expansion: the theorems of Proofs.v apply *)
Lemma replicated_nodes sc rd out k : wf_doc (expand_doc sc rd) ->
  forall n, In n (nodes (unroll (expand_doc sc rd) out k)) <->
    (exists o, In o out /\ n = out_node o) \/
    (exists i c, i <= N.of_nat k /\ In c (d_comps (expand_doc sc rd)) /\
                 n = pr_id (c_stage c + rd_stage rd) (iname i (c_name c))).
Proof. intros WF n. exact (nodes_exact (expand_doc sc rd) out WF k n). Qed.

Lemma replicated_latest sc rd out k c : wf_doc (expand_doc sc rd) -> In c (d_comps (expand_doc sc rd)) ->
  latest KeyInt (unroll (expand_doc sc rd) out k) (comp_id (rd_stage rd) c) =
    Some (instance_of (expand_doc sc rd) (N.of_nat k) c).
Proof. intros WF Hc. exact (latest_upto (expand_doc sc rd) out WF c k Hc). Qed.

(* ------------------------------------------------------------------ a concrete replicated document: the number of
   replicas of 'work' is the variable N = 1 globally, 3 in the stage of the loop (import stage 2) *)
Definition ex_sc : scopes := mk_scopes false [("N", 1)] [(0, [("N", 2)]); (2, [("N", 3)])] [] [].
Definition ex_rdoc : rdoc :=
  mk_rdoc 2
    [mk_rcomp (mk_comp "work" 0 [RBind "number" "" "output"]) (Some (RVar "N")) false;
     mk_rcomp (mk_comp "gather" 0 [RComp None "work" "" "output"]) None true;
     mk_rcomp (mk_comp "stop" 0 [RComp None "gather" "" "output"]) None false]
    [("number", mk_aref 0 "gen" "" "output")]
    [("number", mk_lb None "gather" "" "output")]
    (mk_lb None "stop" "" "output").
Definition ex_rexp : dowhile :=
  mk_dw 2
    [mk_comp "work0" 0 [RBind "number" "" "output"]; mk_comp "work1" 0 [RBind "number" "" "output"];
     mk_comp "work2" 0 [RBind "number" "" "output"];
     mk_comp "gather" 0 [RComp None "work0" "" "output"; RComp None "work1" "" "output"; RComp None "work2" "" "output"];
     mk_comp "stop" 0 [RComp None "gather" "" "output"]]
    [("number", mk_aref 0 "gen" "" "output")]
    [("number", mk_lb None "gather" "" "output")]
    (mk_lb None "stop" "" "output").
Lemma ex_rdoc_expands : expand_doc ex_sc ex_rdoc = ex_rexp.
Proof. vm_compute. reflexivity. Qed.
Lemma ex_rexp_wf : wf_doc ex_rexp.
Proof. solve_wf. Qed.
