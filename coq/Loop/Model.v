(* C05 — DoWhile unrolling.
   Model of  flowir.instantiate_dowhile / rewrite_components / rewrite_all_references / rewrite_reference /
   rewrite_loopbindings_for_stage_offset / map_placeholder_id_to_iteration  (flowir.py)  and of
   WorkflowGraph.instantiate_dowhile_next_iteration / _discover_dowhile_placeholders / compute_dowhile_state /
   _createCompleteGraph (placeholder edges) / DataReference.resolve (looped_reference_to_paths)  (graph.py).

   Abstraction.  References are kept in parsed form (stage, producer, file, method) and printed with
   [pr_ref] (= FlowIR.compile_reference); the parser (ParseDataReferenceFull) is not modelled (it is C09's
   subject) — the correspondence feeds real reference strings to the real code and compares the printed
   result.  Instance names are real strings  str(i) + "#" + name  and every place of the code that recovers
   the iteration number / blueprint name by  name.split('#', 1)  does so here too ([split_hash]), followed by
   the comparison key the code uses at that site: int(...) or the string itself ([keykind]).
   Validation errors of instantiate_dowhile (missing bindings, method mismatch, conflicting file names,
   unknown producers, condition outside the loop) are not modelled: the documents considered load. *)
From Coq Require Import String Ascii List Bool Arith NArith.
Require Import V.Lib.PyStr V.Lib.JTree.
Import ListNotations.
Open Scope string_scope.
Open Scope N_scope.

(* ------------------------------------------------------------------ documents *)
Record aref := mk_aref { a_stage : N; a_prod : string; a_file : string; a_meth : string }.

(* a reference inside the DoWhile document: to a binding name  b[/file]:meth  or to a component
   [stageJ.]name[/file]:meth  (stage relative to the document; None = the stage of the referencing component): the
   looped component with that stage AND name, or else a component outside the loop (in a stage of the loop) *)
Inductive ref :=
  | RBind (b file meth : string)
  | RComp (st : option N) (name file meth : string).

Record comp := mk_comp { c_name : string; c_stage : N; c_refs : list ref }.

(* loop binding value  [stageJ.]name[/file]:meth  *)
Record lbref := mk_lb { l_stage : option N; l_prod : string; l_file : string; l_meth : string }.

Record dowhile := mk_dw {
  d_stage : N;                           (* stage of the importing component *)
  d_comps : list comp;
  d_binds : list (string * aref);        (* document['bindings'] after expand_bindings (absolute) *)
  d_loopb : list (string * lbref);       (* document['loopBindings'] (never rewritten in the stored template) *)
  d_cond  : lbref                        (* condition, method output *)
}.

(* components outside the loop: producers (no references) and consumers *)
Record ocomp := mk_ocomp { o_name : string; o_stage : N; o_refs : list aref }.

(* a looped component instance as stored in FlowIRConcrete *)
Record inst := mk_inst { i_stage : N; i_name : string; i_iter : N; i_refs : list aref }.

(* ------------------------------------------------------------------ strings *)
Definition iname (i : N) (n : string) : string := dec i ++ "#" ++ n.          (* '%d#%s' % (i, n) *)
Definition hash : ascii := "#"%char.
(* name.split('#', 1) -> (iteration string, blueprint name); names without '#' : ("", name) *)
Definition split_hash (s : string) : string * string :=
  match split1 hash s with Some p => p | None => (EmptyString, s) end.
Definition iter_str (s : string) : string := fst (split_hash s).
Definition bp_name (s : string) : string := snd (split_hash s).

Definition pr_id (st : N) (n : string) : string := "stage" ++ dec st ++ "." ++ n.
(* FlowIR.compile_reference(producer, filename, method, stage_index) *)
Definition pr_ref (a : aref) : string :=
  pr_id (a_stage a) (a_prod a) ++ (if String.eqb (a_file a) "" then "" else "/" ++ a_file a) ++ ":" ++ a_meth a.

Definition is_loop_meth (m : string) : bool := String.eqb m "loopref" || String.eqb m "loopoutput".

(* ------------------------------------------------------------------ comparison keys *)
Inductive keykind := KeyInt | KeyString.

Fixpoint str_ltb (a b : string) : bool :=      (* Python  a < b  on (ASCII) strings *)
  match a, b with
  | _, EmptyString => false
  | EmptyString, String _ _ => true
  | String x a', String y b' =>
      if (nat_of_ascii x <? nat_of_ascii y)%nat then true
      else if (nat_of_ascii y <? nat_of_ascii x)%nat then false else str_ltb a' b'
  end.

Definition int_of (s : string) : N := match undec s with Some n => n | None => 0 end.   (* int(s) *)
Definition key_ltb (kk : keykind) (a b : string) : bool :=
  match kk with KeyInt => int_of a <? int_of b | KeyString => str_ltb a b end.

Definition ikey (x : inst) : string := iter_str (i_name x).

(* sorted(l, key=..., reverse=True)[0] : the first maximal element *)
Definition argmax (kk : keykind) (l : list inst) : option inst :=
  fold_left (fun best x => match best with
                           | None => Some x
                           | Some b => if key_ltb kk (ikey b) (ikey x) then Some x else Some b
                           end) l None.

(* sorted(l, key=...) : stable insertion sort *)
Fixpoint insert (kk : keykind) (x : inst) (l : list inst) : list inst :=
  match l with
  | [] => [x]
  | y :: r => if key_ltb kk (ikey y) (ikey x) then y :: insert kk x r else x :: y :: r
  end.
Definition isort (kk : keykind) (l : list inst) : list inst := fold_right (insert kk) [] l.

(* ------------------------------------------------------------------ instantiate_dowhile *)
Definition opt_stage (o : option N) (dflt : N) : N := match o with Some s => s | None => dflt end.

(* rewrite_loopbindings_for_stage_offset: a missing stage is stage 0 *)
Definition lb_abs (S : N) (l : lbref) : aref :=
  mk_aref (opt_stage (l_stage l) 0 + S) (l_prod l) (l_file l) (l_meth l).

(* iteration_no > 0: point the loop binding at the previous iteration (not for :loopref/:loopoutput) *)
Definition lb_prev (i : N) (a : aref) : aref :=
  if is_loop_meth (a_meth a) then a
  else mk_aref (a_stage a) (iname (i - 1) (a_prod a)) (a_file a) (a_meth a).

Definition dict_update {A} (m u : list (string * A)) : list (string * A) :=
  fold_left (fun acc kv => set_key (fst kv) (snd kv) acc) u m.

Definition loopb_abs (d : dowhile) : list (string * aref) :=
  map (fun kv => (fst kv, lb_abs (d_stage d) (snd kv))) (d_loopb d).

Definition bindings_at (d : dowhile) (i : N) : list (string * aref) :=
  let lbs := loopb_abs d in
  if (0 <? i) && negb (match lbs with [] => true | _ => false end) then
    dict_update (filter (fun kv => negb (has_key (fst kv) lbs)) (d_binds d))
                (map (fun kv => (fst kv, lb_prev i (snd kv))) lbs)
  else d_binds d.

Definition comp_id (S : N) (c : comp) : N * string := (c_stage c + S, c_name c).
Definition id_eqb (a b : N * string) : bool := (fst a =? fst b) && String.eqb (snd a) (snd b).
Definition in_loop_ids (d : dowhile) (p : N * string) : bool :=
  existsb (fun c => id_eqb (comp_id (d_stage d) c) p) (d_comps d).

(* rewrite_all_references, iter_number branch *)
Definition looped_rename (d : dowhile) (i : N) (a : aref) : aref :=
  if in_loop_ids d (a_stage a, a_prod a) && negb (is_loop_meth (a_meth a))
  then mk_aref (a_stage a) (iname i (a_prod a)) (a_file a) (a_meth a) else a.

Definition merge_file (binding_file orig_file : string) : string :=
  if String.eqb orig_file "" then binding_file else orig_file.

(* rewrite_reference + the renaming step, for a reference of a component of (relative) stage cs *)
Definition rewrite_ref (d : dowhile) (binds : list (string * aref)) (i cs : N) (r : ref) : aref :=
  match r with
  | RBind b f m =>
      match lookup b binds with
      | Some v => looped_rename d i (mk_aref (a_stage v) (a_prod v) (merge_file (a_file v) f) (a_meth v))
      | None => looped_rename d i (mk_aref (cs + d_stage d) b f m)
      end
  | RComp st n f m => looped_rename d i (mk_aref (opt_stage st cs + d_stage d) n f m)
  end.

Definition instance_of (d : dowhile) (i : N) (c : comp) : inst :=
  mk_inst (c_stage c + d_stage d) (iname i (c_name c)) i
          (map (rewrite_ref d (bindings_at d i) i (c_stage c)) (c_refs c)).

Definition instantiate (d : dowhile) (i : N) : list inst := map (instance_of d i) (d_comps d).

(* ------------------------------------------------------------------ the workflow graph *)
Record wfst := mk_wf {
  w_doc : dowhile; w_out : list ocomp;
  w_loop : list inst;                     (* looped instances in FlowIRConcrete, in order of creation *)
  w_edges : list (string * string);       (* (producer node, consumer node) of WorkflowGraph.graph *)
  w_steps : list (N * list string)        (* per call: (iteration instantiated, new node names) *)
}.

Definition inst_node (x : inst) : string := pr_id (i_stage x) (i_name x).
Definition out_node (o : ocomp) : string := pr_id (o_stage o) (o_name o).
Definition nodes (w : wfst) : list string := (map out_node (w_out w) ++ map inst_node (w_loop w))%list.
Definition mem (s : string) (l : list string) : bool := existsb (String.eqb s) l.

(* compute_dowhile_state: always int(...); instances of the condition's producer, selected by blueprint name and
   stage (document['condition'] is stored with its stage relative to the document, a missing stage is 0;
   before 5c6cbf4 the name alone was compared: finding F5b) *)
Definition cond_id (d : dowhile) : N * string :=
  (opt_stage (l_stage (d_cond d)) 0 + d_stage d, l_prod (d_cond d)).
Definition cond_insts (d : dowhile) (l : list inst) : list inst :=
  filter (fun x => id_eqb (i_stage x, bp_name (i_name x)) (cond_id d)) l.
(* the same selection by name only, as the code did before 5c6cbf4 (used by Refuted.v) *)
Definition cond_insts_by_name (d : dowhile) (l : list inst) : list inst :=
  filter (fun x => String.eqb (bp_name (i_name x)) (l_prod (d_cond d))) l.
Definition cur_cond_inst (w : wfst) : option inst := argmax KeyInt (cond_insts (w_doc w) (w_loop w)).
Definition cur_iter (w : wfst) : N := match cur_cond_inst w with Some x => int_of (ikey x) | None => 0 end.
Definition cur_cond (w : wfst) : string :=
  match cur_cond_inst w with
  | Some x => pr_ref (mk_aref (i_stage x) (i_name x) (l_file (d_cond (w_doc w))) "output")
  | None => ""
  end.

(* _discover_dowhile_placeholders: (stage, blueprint name) = placeholder id *)
Definition represents (l : list inst) (p : N * string) : list inst :=
  filter (fun x => id_eqb (i_stage x, bp_name (i_name x)) p) l.
Definition is_placeholder (w : wfst) (p : N * string) : bool := in_loop_ids (w_doc w) p.
Definition latest (kk : keykind) (w : wfst) (p : N * string) : option inst := argmax kk (represents (w_loop w) p).

(* map_placeholder_id_to_iteration: stage and blueprint name (name only before 5c6cbf4) *)
Definition map_latest (kk : keykind) (w : wfst) (p : N * string) : option string :=
  option_map inst_node (argmax kk (filter (fun x => id_eqb (i_stage x, bp_name (i_name x)) p) (w_loop w))).

(* _createCompleteGraph: producers of a node *)
Fixpoint dedup (l : list string) : list string :=
  match l with [] => [] | x :: r => if mem x r then dedup r else x :: dedup r end.

Definition ref_preds (w : wfst) (self : string) (a : aref) : list string :=
  let p := (a_stage a, a_prod a) in
  if is_placeholder w p then
    (map inst_node (represents (w_loop w) p) ++
     match cur_cond_inst w with
     | Some x => if String.eqb (inst_node x) self then [] else [inst_node x]
     | None => []
     end)%list
  else [pr_id (a_stage a) (a_prod a)].

Definition graph_edges (w : wfst) : list (string * string) :=
  let ns := nodes w in
  (flat_map (fun o => map (fun p => (p, out_node o))
                         (filter (fun p => mem p ns) (flat_map (ref_preds w (out_node o)) (o_refs o)))) (w_out w) ++
   flat_map (fun x => map (fun p => (p, inst_node x))
                         (filter (fun p => mem p ns) (flat_map (ref_preds w (inst_node x)) (i_refs x)))) (w_loop w))%list.

(* Controller._comp_get_active_predecessors(<placeholder>): a COPY of the placeholder's 'represents' list, plus the
   component that produces the current condition of the loop when it is not already listed (nothing is done yet in
   the runs considered, so every predecessor is active).  The same list is what generate_status_report_for_nodes
   (Controller.initialise: "Initial dependency analysis") prints for a placeholder. *)
Definition ph_preds (w : wfst) (p : N * string) : list string :=
  let reps := map inst_node (represents (w_loop w) p) in
  match cur_cond_inst w with
  | Some x => if mem (inst_node x) reps then reps else (reps ++ [inst_node x])%list
  | None => reps
  end.

Definition edge_eqb (a b : string * string) : bool := String.eqb (fst a) (fst b) && String.eqb (snd a) (snd b).
Definition add_edges (old new : list (string * string)) : list (string * string) :=
  fold_left (fun acc e => if existsb (edge_eqb e) acc then acc else (acc ++ [e])%list) new old.

Definition init (d : dowhile) (out : list ocomp) : wfst :=
  let w := mk_wf d out (instantiate d 0) [] [] in
  mk_wf d out (w_loop w) (add_edges [] (graph_edges w)) [].

(* instantiate_dowhile_next_iteration, called as the controller does: next = currentIteration + 1 *)
Definition next_iteration (w : wfst) : wfst :=
  let n := cur_iter w + 1 in
  let new := instantiate (w_doc w) n in
  let old_nodes := nodes w in
  let w' := mk_wf (w_doc w) (w_out w) (w_loop w ++ new)%list (w_edges w) (w_steps w) in
  mk_wf (w_doc w) (w_out w) (w_loop w') (add_edges (w_edges w) (graph_edges w'))
        (w_steps w ++ [(n, filter (fun s => negb (mem s old_nodes)) (map inst_node new))])%list.

Definition unroll (d : dowhile) (out : list ocomp) (k : nat) : wfst := Nat.iter k next_iteration (init d out).

(* ------------------------------------------------------------------ DataReference.resolve *)
(* The harness gives every node N a stdout file holding "O(N)" and files f, g.txt holding "F(N/file)";
   paths are relative to the instance directory. *)
Definition path_of (node_stage : N) (node_name : string) : string :=
  "stages/stage" ++ dec node_stage ++ "/" ++ node_name.
Definition with_file (p f : string) : string := if String.eqb f "" then p else p ++ "/" ++ f.
Definition content_of (st : N) (n f : string) : string :=
  if String.eqb f "" then "O(" ++ pr_id st n ++ ")" else "F(" ++ pr_id st n ++ "/" ++ f ++ ")".

Definition resolve (kk : keykind) (w : wfst) (a : aref) : string :=
  let p := (a_stage a, a_prod a) in
  if String.eqb (a_meth a) "loopref" then
    join " " (map (fun x => with_file (path_of (i_stage x) (i_name x)) (a_file a)) (isort kk (represents (w_loop w) p)))
  else if String.eqb (a_meth a) "loopoutput" then
    join " " (map (fun x => content_of (i_stage x) (i_name x) (a_file a)) (isort kk (represents (w_loop w) p)))
  else
    let tgt := if is_placeholder w p
               then match latest kk w p with Some x => (i_stage x, i_name x) | None => p end
               else p in
    if String.eqb (a_meth a) "output" then content_of (fst tgt) (snd tgt) (a_file a)
    else with_file (path_of (fst tgt) (snd tgt)) (a_file a).

(* ------------------------------------------------------------------ what the correspondence compares *)
Record obs := mk_obs {
  ob_steps : list (N * list string);
  ob_nodes : list string;
  ob_insts : list (string * (N * N * list string));        (* node -> stage, loopIteration, references *)
  ob_preds : list (string * list string);
  ob_ph : list (string * (string * list string));          (* placeholder -> latest, represents *)
  ob_state : string * N;                                   (* currentCondition, currentIteration *)
  ob_resolve : list string;                                (* references of the outside consumers, in order *)
  ob_map : list (option string);                           (* map_placeholder_id_to_iteration per looped component *)
  (* what the real Controller reports per placeholder when it drove the iterations (empty otherwise):
     active producers (_comp_get_active_predecessors), all / latest true nodes (_true_nodes_from_identifiers) *)
  ob_ctl : list (string * (list string * (list string * list string)));
  (* Controller.comp_condition_to_dowhile (keys: the components whose termination makes the Controller evaluate the
     condition / instantiate the next iteration; filled by Controller.parse_workflow_graph) after
     Controller.initialise and after every Controller._instantiate_next_dowhile_iteration (empty when the workflow
     was not driven by a Controller), and the components tagged 'C:' by generate_status_report_for_nodes at the end *)
  ob_conds : list (list string);
  ob_ctags : option (list string)
}.

Definition set_eqb (a b : list string) : bool :=
  Nat.eqb (length a) (length b) && forallb (fun x => mem x b) a && forallb (fun x => mem x a) b.
Fixpoint list_eqb (a b : list string) : bool :=
  match a, b with
  | [], [] => true
  | x :: a', y :: b' => String.eqb x y && list_eqb a' b'
  | _, _ => false
  end.
Definition oeqb (a b : option string) : bool :=
  match a, b with Some x, Some y => String.eqb x y | None, None => true | _, _ => false end.
Fixpoint olist_eqb (a b : list (option string)) : bool :=
  match a, b with
  | [], [] => true
  | x :: a', y :: b' => oeqb x y && olist_eqb a' b'
  | _, _ => false
  end.

Definition preds_of (w : wfst) (n : string) : list string :=
  map fst (filter (fun e => String.eqb (snd e) n) (w_edges w)).

Definition check_obs (kk : keykind) (w : wfst) (o : obs) : bool :=
  let d := w_doc w in
  (* steps *)
  Nat.eqb (length (w_steps w)) (length (ob_steps o)) &&
  forallb (fun p => (fst (fst p) =? fst (snd p)) && set_eqb (snd (fst p)) (snd (snd p))) (combine (w_steps w) (ob_steps o)) &&
  (* nodes *)
  set_eqb (nodes w) (ob_nodes o) &&
  (* instances: stage, loopIteration, references (as a list) *)
  Nat.eqb (length (w_loop w)) (length (ob_insts o)) &&
  forallb (fun x => match lookup (inst_node x) (ob_insts o) with
                    | Some (st, it, refs) => (st =? i_stage x) && (it =? i_iter x) && list_eqb refs (map pr_ref (i_refs x))
                    | None => false
                    end) (w_loop w) &&
  (* edges *)
  forallb (fun n => match lookup n (ob_preds o) with
                    | Some ps => set_eqb (dedup (preds_of w n)) ps
                    | None => false
                    end) (nodes w) &&
  (* placeholders *)
  Nat.eqb (length (d_comps d)) (length (ob_ph o)) &&
  forallb (fun c => let p := comp_id (d_stage d) c in
                    match lookup (pr_id (fst p) (snd p)) (ob_ph o) with
                    | Some (lt, reps) => oeqb (option_map inst_node (latest kk w p)) (Some lt) &&
                                         set_eqb (map inst_node (represents (w_loop w) p)) reps
                    | None => false
                    end) (d_comps d) &&
  (* state *)
  String.eqb (cur_cond w) (fst (ob_state o)) && (cur_iter w =? snd (ob_state o)) &&
  (* resolve *)
  list_eqb (flat_map (fun oc => map (resolve kk w) (o_refs oc)) (w_out w)) (ob_resolve o) &&
  (* map_placeholder_id_to_iteration *)
  olist_eqb (map (fun c => map_latest kk w (comp_id (d_stage d) c)) (d_comps d)) (ob_map o) &&
  (* the Controller's view of the placeholders (after its read-only inspections) *)
  (match ob_ctl o with [] => true | _ => Nat.eqb (length (ob_ctl o)) (length (d_comps d)) end) &&
  forallb (fun e =>
    match filter (fun c => String.eqb (pr_id (fst (comp_id (d_stage d) c)) (snd (comp_id (d_stage d) c))) (fst e)) (d_comps d) with
    | c :: _ => let p := comp_id (d_stage d) c in
                set_eqb (ph_preds w p) (fst (snd e)) &&
                set_eqb (map inst_node (represents (w_loop w) p)) (fst (snd (snd e))) &&
                list_eqb (match latest kk w p with Some x => [inst_node x] | None => [] end) (snd (snd (snd e)))
    | [] => false
    end) (ob_ctl o).

(* Controller.parse_workflow_graph: the component registered for the DoWhile is the producer of
   state['currentCondition'] = the instance found by compute_dowhile_state (stage AND name) *)
Definition ctl_cond (w : wfst) : list string :=
  match cur_cond_inst w with Some x => [inst_node x] | None => [] end.

(* the workflows after 0, 1, .., k calls (the last one is [unroll d out k]: Proofs.trace_last) *)
Fixpoint trace_from (k : nat) (w : wfst) : list wfst :=
  w :: match k with O => [] | S k' => trace_from k' (next_iteration w) end.

Definition check_conds (tr : list wfst) (wl : wfst) (o : obs) : bool :=
  (match ob_conds o with
   | [] => true
   | cs => Nat.eqb (length cs) (length tr) &&
           forallb (fun p => set_eqb (ctl_cond (fst p)) (snd p)) (combine tr cs)
   end) &&
  (match ob_ctags o with
   | None => true
   | Some tags => set_eqb (ctl_cond wl) tags
   end).

Record case := mk_case { k_doc : dowhile; k_out : list ocomp; k_k : nat; k_obs : obs }.

(* the repaired code uses int() at every site *)
Definition check_case (c : case) : bool :=
  let w0 := init (k_doc c) (k_out c) in
  let tr := trace_from (k_k c) w0 in
  let wl := last tr w0 in
  check_obs KeyInt wl (k_obs c) && check_conds tr wl (k_obs c).
(* the pinned code before the fix of F5 (string keys at the three sites) — used by the replay of the witness *)
Definition check_case_prefix (c : case) : bool := check_obs KeyString (unroll (k_doc c) (k_out c) (k_k c)) (k_obs c).
