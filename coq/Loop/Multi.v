(* C05 — workflows with SEVERAL DoWhile documents.
   WorkflowGraph keeps one FlowIRConcrete for the whole workflow: the looped instances of all DoWhile documents
   live side by side ("<i>#<name>" components), and map_placeholders_to_looped_instances_of_components /
   update_dowhile_states / _createCompleteGraph walk over ALL documents every time any of them is instantiated.
   [mwf] is that workflow; [mnext m j] is instantiate_dowhile_next_iteration for the j-th document, called as the
   controller does (next = that document's currentIteration + 1); the documents may be instantiated in any
   interleaved order [seq].

   The per-document functions of Model.v are reused through [view m d]: the single-loop reading of the workflow for
   document d, whose instance list is the list of ALL looped instances (this is what the code does: every document
   filters the same list of looped ids by (stage, blueprint name)).  As in Model.v a looped id is matched by the
   placeholder with its stage and blueprint name; the removal of matched ids from remaining_looped_ids in
   _discover_dowhile_placeholders is not modelled (placeholder ids of the documents considered are pairwise
   distinct: [MultiProofs.wf_multi]). *)
From Coq Require Import String Ascii List Bool Arith NArith.
Require Import V.Lib.PyStr V.Lib.JTree V.Loop.Model.
Import ListNotations.
Open Scope string_scope.
Open Scope N_scope.

Record mwf := mk_mwf {
  m_docs : list dowhile; m_out : list ocomp;
  m_loop : list inst;                       (* looped instances of all documents, in order of creation *)
  m_edges : list (string * string);
  (* per call: document index, iteration instantiated, new node names, comp_condition_to_dowhile afterwards *)
  m_steps : list (nat * (N * list string) * list string)
}.

Definition view (m : mwf) (d : dowhile) : wfst := mk_wf d (m_out m) (m_loop m) (m_edges m) [].

(* the document whose placeholder p is (WorkflowGraph._placeholders[p]['DoWhileId']) *)
Definition owner (docs : list dowhile) (p : N * string) : option dowhile := List.find (fun d => in_loop_ids d p) docs.
Definition no_doc : dowhile := mk_dw 0 [] [] [] (mk_lb None "" "" "").

Definition mnodes (m : mwf) : list string := (map out_node (m_out m) ++ map inst_node (m_loop m))%list.

(* _createCompleteGraph: a reference to a placeholder expands to the instances it represents plus the producer of
   the current condition of ITS document *)
Definition mref_preds (m : mwf) (self : string) (a : aref) : list string :=
  match owner (m_docs m) (a_stage a, a_prod a) with
  | Some d => ref_preds (view m d) self a
  | None => [pr_id (a_stage a) (a_prod a)]
  end.

Definition mgraph_edges (m : mwf) : list (string * string) :=
  let ns := mnodes m in
  (flat_map (fun o => map (fun p => (p, out_node o))
                         (filter (fun p => mem p ns) (flat_map (mref_preds m (out_node o)) (o_refs o)))) (m_out m) ++
   flat_map (fun x => map (fun p => (p, inst_node x))
                         (filter (fun p => mem p ns) (flat_map (mref_preds m (inst_node x)) (i_refs x)))) (m_loop m))%list.

(* Controller.parse_workflow_graph: one registered condition producer per document *)
Definition mconds (m : mwf) : list string := flat_map (fun d => ctl_cond (view m d)) (m_docs m).

Definition minit (docs : list dowhile) (out : list ocomp) : mwf :=
  let m := mk_mwf docs out (flat_map (fun d => instantiate d 0) docs) [] [] in
  mk_mwf docs out (m_loop m) (add_edges [] (mgraph_edges m)) [].

Definition mnext (m : mwf) (j : nat) : mwf :=
  match nth_error (m_docs m) j with
  | None => m
  | Some d =>
      let n := cur_iter (view m d) + 1 in
      let new := instantiate d n in
      let old_nodes := mnodes m in
      let m' := mk_mwf (m_docs m) (m_out m) (m_loop m ++ new)%list (m_edges m) (m_steps m) in
      mk_mwf (m_docs m) (m_out m) (m_loop m') (add_edges (m_edges m) (mgraph_edges m'))
             (m_steps m ++ [(j, (n, filter (fun s => negb (mem s old_nodes)) (map inst_node new)), mconds m')])%list
  end.

Definition munroll (docs : list dowhile) (out : list ocomp) (seq : list nat) : mwf :=
  fold_left mnext seq (minit docs out).

(* DataReference.resolve *)
Definition mresolve (m : mwf) (a : aref) : string :=
  match owner (m_docs m) (a_stage a, a_prod a) with
  | Some d => resolve KeyInt (view m d) a
  | None => resolve KeyInt (view m no_doc) a
  end.

(* ------------------------------------------------------------------ what the correspondence compares *)
Record mobs := mk_mobs {
  mo_steps : list (nat * (N * list string) * list string);
  mo_nodes : list string;
  mo_insts : list (string * (N * N * list string));
  mo_preds : list (string * list string);
  mo_ph : list (string * (string * (string * list string)));   (* placeholder -> DoWhileId, latest, represents *)
  mo_states : list (string * (string * N));                    (* document id -> currentCondition, currentIteration *)
  mo_resolve : list string;
  mo_map : list (option string);                               (* per document, per looped component *)
  mo_ctl : list (string * (list string * (list string * list string)));
  mo_conds0 : option (list string);                            (* comp_condition_to_dowhile after initialise *)
  mo_ctags : option (list string)
}.

Definition mpreds_of (m : mwf) (n : string) : list string :=
  map fst (filter (fun e => String.eqb (snd e) n) (m_edges m)).

(* names : the ids 'stage<S>.<name>' of the importing components, one per document *)
Definition mcheck_obs (names : list string) (m : mwf) (o : mobs) : bool :=
  let dn := combine (m_docs m) names in
  let pcs := flat_map (fun d => map (fun c => (d, c)) (d_comps d)) (m_docs m) in
  Nat.eqb (length names) (length (m_docs m)) &&
  (* steps (without a Controller no conditions are registered: the observation lists none) *)
  Nat.eqb (length (m_steps m)) (length (mo_steps o)) &&
  forallb (fun p => let '(j, (n, new), conds) := fst p in let '(j', (n', new'), conds') := snd p in
                    Nat.eqb j j' && (n =? n') && set_eqb new new' &&
                    match mo_conds0 o with Some _ => set_eqb conds conds' | None => true end)
          (combine (m_steps m) (mo_steps o)) &&
  set_eqb (mnodes m) (mo_nodes o) &&
  Nat.eqb (length (m_loop m)) (length (mo_insts o)) &&
  forallb (fun x => match lookup (inst_node x) (mo_insts o) with
                    | Some (st, it, refs) => (st =? i_stage x) && (it =? i_iter x) && list_eqb refs (map pr_ref (i_refs x))
                    | None => false
                    end) (m_loop m) &&
  forallb (fun n => match lookup n (mo_preds o) with
                    | Some ps => set_eqb (dedup (mpreds_of m n)) ps
                    | None => false
                    end) (mnodes m) &&
  (* placeholders, each with its document *)
  Nat.eqb (length pcs) (length (mo_ph o)) &&
  forallb (fun dnm => let d := fst dnm in
     forallb (fun c => let p := comp_id (d_stage d) c in
                    match lookup (pr_id (fst p) (snd p)) (mo_ph o) with
                    | Some (dw, (lt, reps)) => String.eqb dw (snd dnm) &&
                                         oeqb (option_map inst_node (latest KeyInt (view m d) p)) (Some lt) &&
                                         set_eqb (map inst_node (represents (m_loop m) p)) reps
                    | None => false
                    end) (d_comps d)) dn &&
  (* states *)
  Nat.eqb (length (mo_states o)) (length (m_docs m)) &&
  forallb (fun dnm => match lookup (snd dnm) (mo_states o) with
                      | Some (cc, ci) => String.eqb (cur_cond (view m (fst dnm))) cc && (cur_iter (view m (fst dnm)) =? ci)
                      | None => false
                      end) dn &&
  list_eqb (flat_map (fun oc => map (mresolve m) (o_refs oc)) (m_out m)) (mo_resolve o) &&
  olist_eqb (map (fun dc => map_latest KeyInt (view m (fst dc)) (comp_id (d_stage (fst dc)) (snd dc))) pcs) (mo_map o) &&
  (match mo_ctl o with [] => true | _ => Nat.eqb (length (mo_ctl o)) (length pcs) end) &&
  forallb (fun e =>
    match filter (fun dc => String.eqb (pr_id (fst (comp_id (d_stage (fst dc)) (snd dc))) (snd (comp_id (d_stage (fst dc)) (snd dc)))) (fst e)) pcs with
    | (d, c) :: _ => let p := comp_id (d_stage d) c in
                set_eqb (ph_preds (view m d) p) (fst (snd e)) &&
                set_eqb (map inst_node (represents (m_loop m) p)) (fst (snd (snd e))) &&
                list_eqb (match latest KeyInt (view m d) p with Some x => [inst_node x] | None => [] end) (snd (snd (snd e)))
    | [] => false
    end) (mo_ctl o) &&
  (match mo_conds0 o with Some cs => set_eqb (mconds (minit (m_docs m) (m_out m))) cs | None => true end) &&
  (match mo_ctags o with Some tags => set_eqb (mconds m) tags | None => true end).

Record mcase := mk_mcase { mk_docs : list dowhile; mk_names : list string; mk_out : list ocomp; mk_seq : list nat; mk_obs : mobs }.

Definition check_mcase (c : mcase) : bool :=
  mcheck_obs (mk_names c) (munroll (mk_docs c) (mk_out c) (mk_seq c)) (mk_obs c).
