(* C05 — the textual substitution of flowir.rewrite_all_references inside command lines.
   For every reference text [m] discovered in a string (in order of discovery) the code computes its rewritten form
   [r] and executes   value = re.sub(r'\b' + re.escape(m) + r'\b', r, value, 1) :  the LEFTMOST word-bounded
   occurrence of m in the CURRENT value (which already holds the results of the earlier substitutions) is replaced.
   [sub_first] models one such call, [rewrite_seq] the loop.  The references list of a component is rewritten entry
   by entry (one reference per string) and is not affected; command lines holding several references are. *)
From Coq Require Import String Ascii List Bool Arith NArith Lia.
Require Import V.Lib.PyStr V.Lib.JTree V.Loop.Model.
Import ListNotations.
Open Scope string_scope.

(* \w of Python's re for ASCII text *)
Definition is_lower (a : ascii) : bool := let n := nat_of_ascii a in Nat.leb 97 n && Nat.leb n 122.
Definition wordc (a : ascii) : bool := is_digit a || is_upper a || is_lower a || Ascii.eqb a "_"%char.
Definition ow (o : option ascii) : bool := match o with Some a => wordc a | None => false end.
Definition head (s : string) : option ascii := match s with String a _ => Some a | EmptyString => None end.
Fixpoint last_of (s : string) (dflt : option ascii) : option ascii :=
  match s with EmptyString => dflt | String a r => last_of r (Some a) end.

(* \b pat \b matches at the current position (prev = the character before it) *)
Definition match_here (pat : string) (prev : option ascii) (s : string) : bool :=
  prefixb pat s && xorb (ow prev) (ow (head pat)) &&
  xorb (ow (last_of pat prev)) (ow (head (drop (String.length pat) s))).

(* re.sub(r'\b' + re.escape(pat) + r'\b', rep, s, 1)  (pat non-empty) *)
Fixpoint sub_first (pat rep : string) (prev : option ascii) (s : string) : string :=
  if match_here pat prev s then rep ++ drop (String.length pat) s
  else match s with
       | EmptyString => EmptyString
       | String a r => String a (sub_first pat rep (Some a) r)
       end.

Definition rewrite_seq (subs : list (string * string)) (s : string) : string :=
  fold_left (fun v mr => sub_first (fst mr) (snd mr) None v) subs s.

(* does pat occur word-bounded in s?  (re.search(r'\b' + re.escape(pat) + r'\b', s)) *)
Fixpoint wb_occurs (pat : string) (prev : option ascii) (s : string) : bool :=
  match_here pat prev s ||
  match s with EmptyString => false | String a r => wb_occurs pat (Some a) r end.

(* ------------------------------------------------------------------ general facts *)
Lemma sub_first_no_wb pat rep s : forall prev, wb_occurs pat prev s = false -> sub_first pat rep prev s = s.
Proof.
  induction s as [|a s IH]; intros prev H; cbn [sub_first wb_occurs] in *; apply orb_false_iff in H as [H1 H2]; rewrite H1.
  - reflexivity.
  - rewrite (IH _ H2). reflexivity.
Qed.

(* a reference text that does not occur word-bounded in the value leaves it unchanged *)
Lemma rewrite_seq_no_wb subs : forall s,
  (forall mr, In mr subs -> wb_occurs (fst mr) None s = false) -> rewrite_seq subs s = s.
Proof.
  unfold rewrite_seq. induction subs as [|mr subs IH]; intros s H; cbn [fold_left]; [reflexivity|].
  rewrite (sub_first_no_wb _ _ _ None (H mr (or_introl eq_refl))). apply IH. intros mr' Hin. apply H. right. exact Hin.
Qed.

(* a value that IS the reference text (an entry of the references list) is rewritten to exactly its new form *)
Lemma drop_length s : drop (String.length s) s = "".
Proof. induction s as [|a s IH]; cbn; [reflexivity|exact IH]. Qed.

Lemma last_of_cons a s d : last_of (String a s) d = last_of s (Some a).
Proof. reflexivity. Qed.

Lemma last_word s : forall d, ow d = true -> all_chars wordc s = true -> ow (last_of s d) = true.
Proof.
  induction s as [|a s IH]; cbn; intros d Hd H; [exact Hd|]. apply andb_true_iff in H as [Ha Hs].
  apply IH; [exact Ha|exact Hs].
Qed.

(* a single reference as the whole value, starting and ending with a word character *)
Lemma sub_first_whole pat rep a rest :
  pat = String a rest -> wordc a = true -> ow (last_of pat None) = true -> sub_first pat rep None pat = rep.
Proof.
  intros E Ha Hl. subst pat. cbn [sub_first]. unfold match_here. rewrite drop_length.
  assert (Hp : prefixb (String a rest) (String a rest) = true).
  { pose proof (prefixb_refl (String a rest) "") as P. rewrite append_nil_r in P. exact P. }
  rewrite Hp. cbn [ow head]. rewrite Ha, Hl. cbn. apply append_nil_r.
Qed.

(* ------------------------------------------------------------------ two references on one command line *)
(* the command line  "n1:ref n2:ref"  of a looped component of (absolute) stage S, iteration i *)
Definition ref_text (n : string) : string := n ++ ":ref".
Definition ref_new (S i : N) (n : string) : string := pr_id S (iname i n) ++ ":ref".
Definition cmdline (n1 n2 : string) : string := ref_text n1 ++ " " ++ ref_text n2.
Definition rewritten (S i : N) (n1 n2 : string) : string :=
  rewrite_seq [(ref_text n1, ref_new S i n1); (ref_text n2, ref_new S i n2)] (cmdline n1 n2).
Definition intended (S i : N) (n1 n2 : string) : string := ref_new S i n1 ++ " " ++ ref_new S i n2.

(* the class of F5c: the LATER reference text occurs word-bounded inside the EARLIER one (whose rewritten form,
   stage<S>.<i>#<earlier text>, is already in the value when the later one is substituted); the other direction is
   harmless: the leftmost occurrence of the earlier text is its own *)
Definition overlap (n1 n2 : string) : bool := wb_occurs (ref_text n2) None (ref_text n1).

(* the component names used by the generator of the correspondence (harness/c05.py COMP_NAMES) *)
Definition names : list string := ["a"; "ab"; "a-b"; "b"; "stop"; "x1"; "n0"; "add"; "agg2"; "c_d"; "Loop"; "z9z"].
Definition name_pairs : list (string * string) :=
  filter (fun p => negb (String.eqb (fst p) (snd p))) (list_prod names names).
Definition iters : list N := [0; 1; 2; 9; 10; 11; 12; 25]%N.
Definition stages : list N := [0; 1; 3]%N.

(* bounded sweep (the bound is in the statement): on every pair of distinct generator names, at every listed
   stage and iteration, the sequential substitution yields the intended command line EXACTLY when the later
   reference text does not occur word-bounded inside the earlier one *)
Definition sweep_ok : bool :=
  forallb (fun p => forallb (fun S => forallb (fun i =>
     Bool.eqb (String.eqb (rewritten S i (fst p) (snd p)) (intended S i (fst p) (snd p)))
              (negb (overlap (fst p) (snd p)))) iters) stages) name_pairs.

Lemma sweep_holds : sweep_ok = true.
Proof. vm_compute. reflexivity. Qed.

Lemma sweep_spec n1 n2 S i : In (n1, n2) name_pairs -> In S stages -> In i iters ->
  (rewritten S i n1 n2 = intended S i n1 n2 <-> overlap n1 n2 = false).
Proof.
  intros Hp HS Hi. pose proof sweep_holds as H. unfold sweep_ok in H.
  rewrite forallb_forall in H. specialize (H _ Hp). rewrite forallb_forall in H. specialize (H _ HS).
  rewrite forallb_forall in H. specialize (H _ Hi). cbn [fst snd] in H. apply Bool.eqb_prop in H.
  rewrite <- String.eqb_eq, H, negb_true_iff. reflexivity.
Qed.

(* what the correspondence compares: the real rewrite_all_references on "n1:ref n2:ref" *)
Definition check_subst (t : string * string * (N * N) * string) : bool :=
  match t with (n1, n2, (st, i), impl) => String.eqb (rewritten st i n1 n2) impl end.
