(* C05 — lemmas about the unrolling model. *)
From Coq Require Import String Ascii List Bool Arith NArith Lia ZifyBool Decimal DecimalString Permutation.
Require Import V.Lib.PyStr V.Lib.JTree V.Loop.Model.
Import ListNotations.
Open Scope string_scope.
Open Scope N_scope.

(* ------------------------------------------------------------------ decimal strings contain no '#' *)
Definition no_hash (s : string) : Prop := all_chars (fun a => negb (Ascii.eqb a hash)) s = true.

Lemma uint_no_hash d : no_hash (NilEmpty.string_of_uint d).
Proof. unfold no_hash. induction d; cbn; auto. Qed.

Lemma dec_no_hash n : no_hash (dec n).
Proof.
  unfold dec, NilZero.string_of_uint. destruct (N.to_uint n) eqn:E; try apply uint_no_hash. reflexivity.
Qed.

Lemma split1_no_hash s t : no_hash s -> split1 hash (s ++ String hash t) = Some (s, t).
Proof.
  unfold no_hash. induction s as [|a s IH]; cbn; intros H.
  - reflexivity.
  - apply andb_true_iff in H as [Ha Hs]. apply negb_true_iff in Ha. rewrite Ha, (IH Hs). reflexivity.
Qed.

Lemma split_hash_iname i n : split_hash (iname i n) = (dec i, n).
Proof. unfold split_hash, iname. cbn [append]. rewrite split1_no_hash by apply dec_no_hash. reflexivity. Qed.

Lemma iter_str_iname i n : iter_str (iname i n) = dec i.
Proof. unfold iter_str. rewrite split_hash_iname. reflexivity. Qed.

Lemma bp_name_iname i n : bp_name (iname i n) = n.
Proof. unfold bp_name. rewrite split_hash_iname. reflexivity. Qed.

Lemma int_of_dec i : int_of (dec i) = i.
Proof. unfold int_of. rewrite undec_dec. reflexivity. Qed.

Lemma occurs_iname i n : occurs "#" (iname i n) = true.
Proof. apply occurs_spec. exists (dec i), n. reflexivity. Qed.

Lemma iname_inj i j n m : iname i n = iname j m -> i = j /\ n = m.
Proof.
  intros H. apply (f_equal split_hash) in H. rewrite !split_hash_iname in H. inversion H. split; [apply dec_inj; assumption|reflexivity].
Qed.

(* ------------------------------------------------------------------ argmax with the integer key *)
Definition ik (x : inst) : N := int_of (ikey x).

Definition amstep (kk : keykind) (best : option inst) (x : inst) : option inst :=
  match best with
  | None => Some x
  | Some b => if key_ltb kk (ikey b) (ikey x) then Some x else Some b
  end.

Lemma argmax_fold_int l : forall b, exists m,
  fold_left (amstep KeyInt) l (Some b) = Some m /\ In m (b :: l) /\ forall y, In y (b :: l) -> ik y <= ik m.
Proof.
  induction l as [|a l IH]; intros b.
  - exists b. cbn. split; [reflexivity|]. split; [left; reflexivity|]. intros y [<-|[]]. lia.
  - cbn [fold_left amstep key_ltb]. destruct (int_of (ikey b) <? int_of (ikey a)) eqn:E.
    + destruct (IH a) as [m [H1 [H2 H3]]]. exists m. split; [exact H1|]. split.
      * right. exact H2.
      * intros y [<-|Hy]; [|apply H3; exact Hy]. specialize (H3 a (or_introl eq_refl)). unfold ik in *. lia.
    + destruct (IH b) as [m [H1 [H2 H3]]]. exists m. split; [exact H1|]. split.
      * destruct H2 as [<-|H2]; [left; reflexivity|right; right; exact H2].
      * intros y [<-|[<-|Hy]].
        -- apply H3. left. reflexivity.
        -- specialize (H3 b (or_introl eq_refl)). unfold ik in *. lia.
        -- apply H3. right. exact Hy.
Qed.

Lemma argmax_int_spec l : l <> [] -> exists m,
  argmax KeyInt l = Some m /\ In m l /\ forall y, In y l -> ik y <= ik m.
Proof.
  destruct l as [|a l]; [congruence|]. intros _. unfold argmax. cbn [fold_left].
  exact (argmax_fold_int l a).
Qed.

(* ------------------------------------------------------------------ the instances after k iterations *)
Definition iota (k : nat) : list N := map N.of_nat (seq 0 (S k)).
Definition loop_upto (d : dowhile) (k : nat) : list inst := flat_map (instantiate d) (iota k).

Lemma iota_S k : iota (S k) = (iota k ++ [N.of_nat (S k)])%list.
Proof. unfold iota. rewrite (seq_S (S k) 0), map_app. reflexivity. Qed.

Lemma in_iota i k : In i (iota k) <-> i <= N.of_nat k.
Proof.
  unfold iota. rewrite in_map_iff. split.
  - intros [n [<- Hn]]. apply in_seq in Hn. lia.
  - intros H. exists (N.to_nat i). split; [lia|]. apply in_seq. lia.
Qed.

Lemma loop_upto_S d k : loop_upto d (S k) = (loop_upto d k ++ instantiate d (N.of_nat (S k)))%list.
Proof. unfold loop_upto. rewrite iota_S, flat_map_app. cbn. rewrite app_nil_r. reflexivity. Qed.

Lemma in_loop_upto d k x :
  In x (loop_upto d k) <-> exists i c, i <= N.of_nat k /\ In c (d_comps d) /\ x = instance_of d i c.
Proof.
  unfold loop_upto, instantiate. rewrite in_flat_map. split.
  - intros [i [Hi Hx]]. apply in_map_iff in Hx as [c [<- Hc]]. exists i, c. rewrite <- in_iota. auto.
  - intros [i [c [Hi [Hc ->]]]]. exists i. split; [apply in_iota; exact Hi|]. apply in_map. exact Hc.
Qed.

Lemma ik_instance d i c : ik (instance_of d i c) = i.
Proof. unfold ik, ikey, instance_of. cbn. rewrite iter_str_iname. apply int_of_dec. Qed.

Lemma bp_instance d i c : bp_name (i_name (instance_of d i c)) = c_name c.
Proof. cbn. apply bp_name_iname. Qed.

(* the placeholder id (stage, blueprint name) of an instance is the id of its component *)
Lemma id_instance d i c : (i_stage (instance_of d i c), bp_name (i_name (instance_of d i c))) = comp_id (d_stage d) c.
Proof. rewrite bp_instance. reflexivity. Qed.

Lemma id_eqb_eq a b : id_eqb a b = true <-> a = b.
Proof.
  destruct a as [s n], b as [s' n']. unfold id_eqb. cbn. rewrite andb_true_iff, N.eqb_eq, String.eqb_eq.
  split; [intros [-> ->]; reflexivity|intros E; inversion E; auto].
Qed.

Lemma id_eqb_neq a b : a <> b -> id_eqb a b = false.
Proof. intros H. apply not_true_iff_false. intros E. apply id_eqb_eq in E. contradiction. Qed.

Lemma NoDup_map_inj {A B} (f : A -> B) (l : list A) x y : NoDup (map f l) -> In x l -> In y l -> f x = f y -> x = y.
Proof.
  induction l as [|a l IH]; cbn; intros ND Hx Hy E; [contradiction|].
  inversion ND as [|? ? Ha ND']; subst.
  destruct Hx as [<-|Hx], Hy as [<-|Hy]; auto.
  - exfalso. apply Ha. rewrite E. apply in_map. exact Hy.
  - exfalso. apply Ha. rewrite <- E. apply in_map. exact Hx.
Qed.

(* well-formed documents (what the generator of the correspondence produces; all decidable) *)
Definition ref_ok (d : dowhile) (cs : N) (r : ref) : Prop :=
  match r with
  | RBind b f m => lookup b (d_binds d) <> None
  | RComp st n f m =>
      (* an internal reference to a looped component, identified by its STAGE AND NAME ... *)
      (in_loop_ids d (opt_stage st cs + d_stage d, n) = true /\ is_loop_meth m = false) \/
      (* ... or a direct reference to a component outside the loop (which may well have the NAME of a looped
         component of another stage) *)
      (in_loop_ids d (opt_stage st cs + d_stage d, n) = false /\ occurs "#" n = false)
  end.

Record wf_doc (d : dowhile) : Prop := {
  wf_nohash : forall c, In c (d_comps d) -> occurs "#" (c_name c) = false;
  wf_names : NoDup (map (comp_id (d_stage d)) (d_comps d));       (* (stage, name) pairwise distinct *)
  wf_cond : exists c, In c (d_comps d) /\ comp_id (d_stage d) c = cond_id d;
  wf_lb_keys : NoDup (map fst (d_loopb d));
  wf_binds_outside : forall b v, lookup b (d_binds d) = Some v -> in_loop_ids d (a_stage v, a_prod v) = false;
  wf_refs : forall c r, In c (d_comps d) -> In r (c_refs c) -> ref_ok d (c_stage c) r
}.

Section Unroll.
Variable d : dowhile.
Variable out : list ocomp.
Hypothesis WF : wf_doc d.

(* compute_dowhile_state finds iteration k when exactly the iterations 0..k exist *)
Lemma cur_of_upto (w : wfst) k : w_doc w = d -> w_loop w = loop_upto d k ->
  exists cc, In cc (d_comps d) /\ comp_id (d_stage d) cc = cond_id d /\
             cur_cond_inst w = Some (instance_of d (N.of_nat k) cc).
Proof.
  intros Hd Hl. destruct (wf_cond d WF) as [cc [Hcc Hn]]. exists cc. split; [exact Hcc|]. split; [exact Hn|].
  unfold cur_cond_inst. rewrite Hd, Hl.
  assert (Hin : In (instance_of d (N.of_nat k) cc) (cond_insts d (loop_upto d k))).
  { unfold cond_insts. apply filter_In. split.
    - apply in_loop_upto. exists (N.of_nat k), cc. split; [lia|]. split; [exact Hcc|reflexivity].
    - rewrite id_instance, Hn. apply id_eqb_eq. reflexivity. }
  destruct (argmax_int_spec (cond_insts d (loop_upto d k))) as [m [H1 [H2 H3]]].
  { intros E. rewrite E in Hin. exact Hin. }
  rewrite H1. f_equal.
  unfold cond_insts in H2. apply filter_In in H2 as [H2 H2b].
  apply in_loop_upto in H2 as [i [c [Hi [Hc ->]]]].
  rewrite id_instance in H2b. apply id_eqb_eq in H2b.
  specialize (H3 _ Hin). rewrite !ik_instance in H3.
  assert (i = N.of_nat k) by lia. subst i.
  assert (c = cc); [|subst; reflexivity].
  (* (stage, name) pairs are pairwise distinct *)
  apply (NoDup_map_inj (comp_id (d_stage d)) (d_comps d)); [apply (wf_names d WF)|exact Hc|exact Hcc|].
  rewrite H2b, Hn. reflexivity.
Qed.

Lemma cur_iter_of_upto (w : wfst) k : w_doc w = d -> w_loop w = loop_upto d k -> cur_iter w = N.of_nat k.
Proof.
  intros Hd Hl. destruct (cur_of_upto w k Hd Hl) as [cc [_ [_ H]]]. unfold cur_iter. rewrite H.
  apply ik_instance.
Qed.

Lemma unroll_inv k : w_doc (unroll d out k) = d /\ w_out (unroll d out k) = out /\ w_loop (unroll d out k) = loop_upto d k.
Proof.
  induction k as [|k [IH1 [IH2 IH3]]].
  - cbn. unfold loop_upto. cbn. rewrite app_nil_r. auto.
  - change (unroll d out (S k)) with (next_iteration (unroll d out k)).
    set (w := unroll d out k) in *.
    unfold next_iteration. cbn [w_doc w_out w_loop]. split; [exact IH1|]. split; [exact IH2|].
    rewrite (cur_iter_of_upto w k IH1 IH3), IH1, IH3, loop_upto_S.
    replace (N.of_nat k + 1) with (N.of_nat (S k)) by lia. reflexivity.
Qed.

(* ---- C05_instances *)
Lemma instances_exact k : w_loop (unroll d out k) = loop_upto d k.
Proof. apply unroll_inv. Qed.

Lemma nodes_exact k n :
  In n (nodes (unroll d out k)) <->
  (exists o, In o out /\ n = out_node o) \/
  (exists i c, i <= N.of_nat k /\ In c (d_comps d) /\ n = pr_id (c_stage c + d_stage d) (iname i (c_name c))).
Proof.
  unfold nodes. destruct (unroll_inv k) as [_ [Ho Hl]]. rewrite Ho, Hl, in_app_iff, !in_map_iff. split.
  - intros [[o [<- Hin]]|[x [<- Hin]]].
    + left. exists o. auto.
    + right. apply in_loop_upto in Hin as [i [c [Hi [Hc ->]]]]. exists i, c. auto.
  - intros [[o [Hin ->]]|[i [c [Hi [Hc ->]]]]].
    + left. exists o. auto.
    + right. exists (instance_of d i c). split; [reflexivity|]. apply in_loop_upto. exists i, c. auto.
Qed.

(* every call instantiates exactly the next iteration number *)
Lemma next_number k : cur_iter (unroll d out k) + 1 = N.of_nat (S k).
Proof. destruct (unroll_inv k) as [H1 [_ H3]]. rewrite (cur_iter_of_upto _ k H1 H3). lia. Qed.

(* distinct (iteration, component) pairs give distinct instance names *)
Lemma instance_names_distinct i j c c' :
  i_name (instance_of d i c) = i_name (instance_of d j c') -> i = j /\ c_name c = c_name c'.
Proof. cbn. apply iname_inj. Qed.

(* ---- dictionaries *)
Lemma lookup_set_key {A} b k (v : A) m : lookup b (set_key k v m) = if String.eqb b k then Some v else lookup b m.
Proof.
  induction m as [|[k' v'] m IH]; cbn.
  - destruct (String.eqb b k); reflexivity.
  - destruct (String.eqb k k') eqn:E.
    + apply String.eqb_eq in E. subst k'. cbn. destruct (String.eqb b k); reflexivity.
    + cbn. destruct (String.eqb b k') eqn:E2.
      * apply String.eqb_eq in E2. subst k'. rewrite String.eqb_sym, E. reflexivity.
      * exact IH.
Qed.

Lemma lookup_notin {A} k (u : list (string * A)) : ~ In k (map fst u) -> lookup k u = None.
Proof.
  induction u as [|[k' v] u IH]; cbn; intros H; [reflexivity|].
  destruct (String.eqb k k') eqn:E.
  - apply String.eqb_eq in E. subst. exfalso. apply H. left. reflexivity.
  - apply IH. intros Hin. apply H. right. exact Hin.
Qed.

Lemma lookup_dict_update {A} (u : list (string * A)) : forall m b, NoDup (map fst u) ->
  lookup b (dict_update m u) = match lookup b u with Some v => Some v | None => lookup b m end.
Proof.
  unfold dict_update. induction u as [|[k v] u IH]; intros m b ND; cbn; [reflexivity|].
  inversion ND as [|? ? Hk ND']; subst. rewrite (IH _ _ ND'), lookup_set_key.
  destruct (String.eqb b k) eqn:E.
  - apply String.eqb_eq in E. subst b. rewrite (lookup_notin k u Hk). reflexivity.
  - reflexivity.
Qed.

Lemma lookup_map_val {A B} (g : A -> B) b (l : list (string * A)) :
  lookup b (map (fun kv => (fst kv, g (snd kv))) l) = option_map g (lookup b l).
Proof. induction l as [|[k v] l IH]; cbn; [reflexivity|]. destruct (String.eqb b k); [reflexivity|exact IH]. Qed.

Lemma map_fst_map_val {A B} (g : A -> B) (l : list (string * A)) :
  map fst (map (fun kv => (fst kv, g (snd kv))) l) = map fst l.
Proof. induction l as [|[k v] l IH]; cbn; [reflexivity|]. rewrite IH. reflexivity. Qed.

Lemma lookup_filter_other {A B} b (lbs : list (string * B)) (m : list (string * A)) :
  has_key b lbs = false -> lookup b (filter (fun kv => negb (has_key (fst kv) lbs)) m) = lookup b m.
Proof.
  intros H. induction m as [|[k v] m IH]; cbn; [reflexivity|].
  destruct (String.eqb b k) eqn:E.
  - apply String.eqb_eq in E. subst k. rewrite H. cbn. rewrite String.eqb_refl. reflexivity.
  - destruct (negb (has_key k lbs)); cbn; [rewrite E|]; exact IH.
Qed.

(* ---- C05_wiring: the declarative wiring of instance i *)
Definition wire (i cs : N) (r : ref) : aref :=
  match r with
  | RBind b f m =>
      match lookup b (d_loopb d), (0 <? i) with
      | Some l, true =>
          mk_aref (opt_stage (l_stage l) 0 + d_stage d)
                  (if is_loop_meth (l_meth l) then l_prod l else iname (i - 1) (l_prod l))
                  (merge_file (l_file l) f) (l_meth l)
      | _, _ =>
          match lookup b (d_binds d) with
          | Some v => mk_aref (a_stage v) (a_prod v) (merge_file (a_file v) f) (a_meth v)
          | None => mk_aref (cs + d_stage d) (iname i b) f m
          end
      end
  | RComp st n f m =>
      let s := opt_stage st cs + d_stage d in
      mk_aref s (if in_loop_ids d (s, n) then iname i n else n) f m
  end.

Lemma not_loop_id_iname st j n : in_loop_ids d (st, iname j n) = false.
Proof.
  unfold in_loop_ids. apply not_true_iff_false. intros H. apply existsb_exists in H as [c [Hc Hid]].
  unfold id_eqb, comp_id in Hid. cbn in Hid. apply andb_true_iff in Hid as [_ Hn]. apply String.eqb_eq in Hn.
  pose proof (wf_nohash d WF c Hc) as Hh. rewrite Hn, occurs_iname in Hh. discriminate.
Qed.

Lemma rewrite_ref_wire i c r : In c (d_comps d) -> In r (c_refs c) ->
  rewrite_ref d (bindings_at d i) i (c_stage c) r = wire i (c_stage c) r.
Proof.
  intros Hc Hr. pose proof (wf_refs d WF c r Hc Hr) as Hok. destruct r as [b f m|st n f m]; cbn [rewrite_ref wire ref_ok] in *.
  - (* binding *)
    assert (Hlb : lookup b (loopb_abs d) = option_map (lb_abs (d_stage d)) (lookup b (d_loopb d))).
    { unfold loopb_abs. apply lookup_map_val. }
    unfold bindings_at. cbv zeta.
    destruct (0 <? i) eqn:Ei; cbn [andb].
    + destruct (match loopb_abs d with [] => true | _ :: _ => false end) eqn:Enil; cbn [negb].
      * (* no loop bindings *)
        assert (lookup b (d_loopb d) = None) as ->.
        { destruct (loopb_abs d) eqn:Elbs; [|discriminate Enil]. cbn in Hlb.
          destruct (lookup b (d_loopb d)); [discriminate Hlb|reflexivity]. }
        destruct (lookup b (d_binds d)) as [v|] eqn:Ev; [|congruence].
        unfold looped_rename. cbn. rewrite (wf_binds_outside d WF b v Ev). reflexivity.
      * 
        rewrite lookup_dict_update.
        2:{ rewrite map_fst_map_val. unfold loopb_abs. rewrite map_fst_map_val. apply (wf_lb_keys d WF). }
        rewrite lookup_map_val, Hlb.
        destruct (lookup b (d_loopb d)) as [l|] eqn:El; cbn [option_map].
        -- unfold lb_prev, lb_abs. cbn [a_meth a_stage a_prod a_file].
           destruct (is_loop_meth (l_meth l)) eqn:Em.
           ++ unfold looped_rename. cbn [a_meth a_stage a_prod a_file]. rewrite Em, andb_false_r. reflexivity.
           ++ unfold looped_rename. cbn [a_meth a_stage a_prod a_file]. rewrite not_loop_id_iname. reflexivity.
        -- rewrite lookup_filter_other.
           2:{ unfold has_key. rewrite Hlb. reflexivity. }
           destruct (lookup b (d_binds d)) as [v|] eqn:Ev; [|congruence].
           unfold looped_rename. cbn. rewrite (wf_binds_outside d WF b v Ev). reflexivity.
    + (* iteration 0 *)
      destruct (lookup b (d_binds d)) as [v|] eqn:Ev; [|congruence].
      unfold looped_rename. cbn. rewrite (wf_binds_outside d WF b v Ev).
      destruct (lookup b (d_loopb d)); reflexivity.
  - destruct Hok as [[Hin Hm]|[Hout _]]; unfold looped_rename; cbn.
    + rewrite Hin, Hm. reflexivity.
    + rewrite Hout. reflexivity.
Qed.

Lemma wiring k i c : i <= N.of_nat k -> In c (d_comps d) ->
  In (mk_inst (c_stage c + d_stage d) (iname i (c_name c)) i (map (wire i (c_stage c)) (c_refs c)))
     (w_loop (unroll d out k)).
Proof.
  intros Hi Hc. rewrite instances_exact. apply in_loop_upto. exists i, c. split; [exact Hi|]. split; [exact Hc|].
  unfold instance_of. f_equal. apply map_ext_in. intros r Hr. symmetry. apply rewrite_ref_wire; assumption.
Qed.

(* ---- C05_latest *)
Lemma filter_none (P : inst -> bool) i (l : list comp) :
  (forall c', In c' l -> P (instance_of d i c') = false) -> filter P (map (instance_of d i) l) = [].
Proof.
  induction l as [|a l IH]; cbn; intros H; [reflexivity|]. rewrite (H a (or_introl eq_refl)). apply IH.
  intros c' Hc'. apply H. right. exact Hc'.
Qed.

Lemma filter_one (P : inst -> bool) i (l : list comp) c :
  NoDup (map (comp_id (d_stage d)) l) -> In c l -> P (instance_of d i c) = true ->
  (forall c', comp_id (d_stage d) c' <> comp_id (d_stage d) c -> P (instance_of d i c') = false) ->
  filter P (map (instance_of d i) l) = [instance_of d i c].
Proof.
  intros ND Hc Hp Hn. induction l as [|a l IH]; [contradiction|]. cbn.
  inversion ND as [|? ? Ha ND']; subst. destruct Hc as [->|Hc].
  - rewrite Hp. f_equal. apply filter_none. intros c' Hc'. apply Hn. intros E. apply Ha. rewrite <- E. apply in_map. exact Hc'.
  - rewrite (Hn a).
    + apply IH; assumption.
    + intros E. apply Ha. rewrite E. apply in_map. exact Hc.
Qed.

Lemma filter_flat_map {A B} (P : B -> bool) (g : A -> list B) l :
  filter P (flat_map g l) = flat_map (fun x => filter P (g x)) l.
Proof. induction l as [|a l IH]; cbn; [reflexivity|]. rewrite filter_app, IH. reflexivity. Qed.

Lemma flat_map_single {A B} (g : A -> B) l : flat_map (fun x => [g x]) l = map g l.
Proof. induction l as [|a l IH]; cbn; [reflexivity|]. rewrite IH. reflexivity. Qed.

Definition instances_of (c : comp) (k : nat) : list inst := map (fun i => instance_of d i c) (iota k).

Lemma filter_upto (P : inst -> bool) c k : In c (d_comps d) ->
  (forall i, P (instance_of d i c) = true) ->
  (forall i c', comp_id (d_stage d) c' <> comp_id (d_stage d) c -> P (instance_of d i c') = false) ->
  filter P (loop_upto d k) = instances_of c k.
Proof.
  intros Hc Hp Hn. unfold loop_upto, instances_of. rewrite filter_flat_map, <- flat_map_single.
  apply flat_map_ext. intros i. unfold instantiate. apply filter_one; auto. apply (wf_names d WF).
Qed.

Lemma represents_upto c k : In c (d_comps d) ->
  represents (loop_upto d k) (comp_id (d_stage d) c) = instances_of c k.
Proof.
  intros Hc. unfold represents. apply filter_upto; [exact Hc| |].
  - intros i. rewrite id_instance. apply id_eqb_eq. reflexivity.
  - intros i c' Hne. rewrite id_instance. apply id_eqb_neq. exact Hne.
Qed.

Lemma argmax_instances c k : argmax KeyInt (instances_of c k) = Some (instance_of d (N.of_nat k) c).
Proof.
  assert (Hin : In (instance_of d (N.of_nat k) c) (instances_of c k)).
  { unfold instances_of. apply in_map_iff. exists (N.of_nat k). split; [reflexivity|]. apply in_iota. lia. }
  destruct (argmax_int_spec (instances_of c k)) as [m [H1 [H2 H3]]].
  { intros E. rewrite E in Hin. exact Hin. }
  rewrite H1. f_equal. unfold instances_of in H2. apply in_map_iff in H2 as [i [<- Hi]].
  apply in_iota in Hi. specialize (H3 _ Hin). rewrite !ik_instance in H3. f_equal. lia.
Qed.

Lemma latest_upto c k : In c (d_comps d) ->
  latest KeyInt (unroll d out k) (comp_id (d_stage d) c) = Some (instance_of d (N.of_nat k) c).
Proof. intros Hc. unfold latest. rewrite instances_exact, represents_upto by exact Hc. apply argmax_instances. Qed.

Lemma map_latest_upto c k : In c (d_comps d) ->
  map_latest KeyInt (unroll d out k) (comp_id (d_stage d) c) = Some (inst_node (instance_of d (N.of_nat k) c)).
Proof.
  intros Hc. unfold map_latest. rewrite instances_exact.
  rewrite (filter_upto _ c k Hc).
  - rewrite argmax_instances. reflexivity.
  - intros i. rewrite id_instance. apply id_eqb_eq. reflexivity.
  - intros i c' Hne. rewrite id_instance. apply id_eqb_neq. exact Hne.
Qed.

(* sorting: insertion of a strictly increasing run is the identity, and the result does not depend on the
   order in which the instances are listed *)
Definition le_key (x y : inst) : Prop := ik x <= ik y.

Lemma insert_perm x l : Permutation (insert KeyInt x l) (x :: l).
Proof.
  induction l as [|y r IH]; cbn; [apply Permutation_refl|].
  destruct (int_of (ikey y) <? int_of (ikey x)); [|apply Permutation_refl].
  eapply perm_trans; [apply perm_skip; exact IH|apply perm_swap].
Qed.

Lemma isort_perm l : Permutation (isort KeyInt l) l.
Proof.
  induction l as [|x l IH]; cbn; [constructor|]. eapply perm_trans; [apply insert_perm|]. apply perm_skip. exact IH.
Qed.

Fixpoint ascending (l : list inst) : Prop :=
  match l with
  | [] => True
  | x :: r => (forall y, In y r -> ik x < ik y) /\ ascending r
  end.

Lemma insert_ascending x l : ascending l -> (forall y, In y l -> ik y <> ik x) -> ascending (insert KeyInt x l).
Proof.
  induction l as [|y r IH]; cbn [insert]; intros Ha Hne.
  - cbn. split; [intros y []|exact I].
  - destruct Ha as [Hy Hr]. cbn [key_ltb]. destruct (int_of (ikey y) <? int_of (ikey x)) eqn:E.
    + cbn [ascending]. split.
      * intros z Hz. apply (Permutation_in _ (insert_perm x r)) in Hz as [<-|Hz]; [unfold ik; lia|apply Hy; exact Hz].
      * apply IH; [exact Hr|]. intros z Hz. apply Hne. right. exact Hz.
    + cbn [ascending]. split; [|split; assumption].
      intros z [<-|Hz].
      * specialize (Hne y (or_introl eq_refl)). unfold ik in *. lia.
      * specialize (Hy z Hz). specialize (Hne y (or_introl eq_refl)). unfold ik in *. lia.
Qed.

Lemma ascending_unique l1 : forall l2, ascending l1 -> ascending l2 -> Permutation l1 l2 -> l1 = l2.
Proof.
  induction l1 as [|a l1 IH]; intros l2 H1 H2 P.
  - apply Permutation_nil in P. subst. reflexivity.
  - destruct l2 as [|b l2]; [apply Permutation_sym, Permutation_nil in P; discriminate|].
    destruct H1 as [Ha H1], H2 as [Hb H2].
    assert (a = b).
    { assert (Ia : In a (b :: l2)) by (apply (Permutation_in _ P); left; reflexivity).
      assert (Ib : In b (a :: l1)) by (apply (Permutation_in _ (Permutation_sym P)); left; reflexivity).
      destruct Ia as [E|Ia]; [symmetry; exact E|]. destruct Ib as [E|Ib]; [exact E|].
      specialize (Ha _ Ib). specialize (Hb _ Ia). lia. }
    subst b. f_equal. apply IH; [exact H1|exact H2|]. apply Permutation_cons_inv in P. exact P.
Qed.

Lemma ascending_instances c k : ascending (instances_of c k).
Proof.
  unfold instances_of, iota. generalize 0%nat as a. induction (S k) as [|n IH]; intros a; cbn; [exact I|].
  split; [|apply IH]. intros y Hy. apply in_map_iff in Hy as [i [<- Hi]]. apply in_map_iff in Hi as [j [<- Hj]].
  apply in_seq in Hj. rewrite !ik_instance. lia.
Qed.

Lemma NoDup_keys_instances c k x y : In x (instances_of c k) -> In y (instances_of c k) -> ik x = ik y -> x = y.
Proof.
  unfold instances_of. intros Hx Hy. apply in_map_iff in Hx as [i [<- _]]. apply in_map_iff in Hy as [j [<- _]].
  rewrite !ik_instance. intros ->. reflexivity.
Qed.

Lemma isort_ascending l : (forall x y, In x l -> In y l -> ik x = ik y -> x = y) -> NoDup l -> ascending (isort KeyInt l).
Proof.
  induction l as [|x l IH]; cbn [isort fold_right]; intros Hinj ND; [exact I|].
  inversion ND as [|? ? Hx ND']; subst. apply insert_ascending.
  - apply IH; [|exact ND']. intros a b Ha Hb. apply Hinj; right; assumption.
  - intros y Hy E. apply (Permutation_in _ (isort_perm l)) in Hy.
    assert (y = x) by (apply Hinj; [right; exact Hy|left; reflexivity|exact E]). subst. contradiction.
Qed.

Lemma NoDup_instances c k : NoDup (instances_of c k).
Proof.
  unfold instances_of. apply FinFun.Injective_map_NoDup.
  - intros i j E. apply (f_equal ik) in E. rewrite !ik_instance in E. exact E.
  - unfold iota. apply FinFun.Injective_map_NoDup; [intros a b; lia|apply seq_NoDup].
Qed.

(* sorted(represents, key=int(iteration)) is 0#c .. k#c whatever the order of [represents] *)
Lemma isort_any_order c k l : Permutation l (instances_of c k) -> isort KeyInt l = instances_of c k.
Proof.
  intros P. apply ascending_unique.
  - apply isort_ascending.
    + intros x y Hx Hy. apply (NoDup_keys_instances c k); apply (Permutation_in _ P); assumption.
    + apply (Permutation_NoDup (Permutation_sym P)). apply NoDup_instances.
  - apply ascending_instances.
  - eapply perm_trans; [apply isort_perm|exact P].
Qed.

Lemma state_upto k : exists cc, In cc (d_comps d) /\ comp_id (d_stage d) cc = cond_id d /\
  cur_iter (unroll d out k) = N.of_nat k /\
  cur_cond (unroll d out k) =
    pr_ref (mk_aref (c_stage cc + d_stage d) (iname (N.of_nat k) (c_name cc)) (l_file (d_cond d)) "output").
Proof.
  destruct (unroll_inv k) as [H1 [_ H3]]. destruct (cur_of_upto _ k H1 H3) as [cc [Hcc [Hn Hcur]]].
  exists cc. split; [exact Hcc|]. split; [exact Hn|]. split; [apply cur_iter_of_upto; assumption|].
  unfold cur_cond. rewrite Hcur, H1. reflexivity.
Qed.

Lemma represents_unroll c k : In c (d_comps d) ->
  represents (w_loop (unroll d out k)) (comp_id (d_stage d) c) = instances_of c k.
Proof. intros Hc. rewrite instances_exact. apply represents_upto. exact Hc. Qed.

Lemma placeholder_of_comp c k : In c (d_comps d) -> is_placeholder (unroll d out k) (comp_id (d_stage d) c) = true.
Proof.
  intros Hc. unfold is_placeholder. destruct (unroll_inv k) as [Hd _]. rewrite Hd.
  apply existsb_exists. exists c. split; [exact Hc|]. unfold id_eqb. rewrite N.eqb_refl, String.eqb_refl. reflexivity.
Qed.

(* DataReference.resolve of a reference, held by a component outside the loop, to the looped component c *)
Definition resolve_spec (c : comp) (k : nat) (a : aref) : string :=
  let st := c_stage c + d_stage d in
  if String.eqb (a_meth a) "loopref" then
    join " " (map (fun i => with_file (path_of st (iname i (c_name c))) (a_file a)) (iota k))
  else if String.eqb (a_meth a) "loopoutput" then
    join " " (map (fun i => content_of st (iname i (c_name c)) (a_file a)) (iota k))
  else if String.eqb (a_meth a) "output" then content_of st (iname (N.of_nat k) (c_name c)) (a_file a)
  else with_file (path_of st (iname (N.of_nat k) (c_name c))) (a_file a).

Lemma resolve_outside c k a : In c (d_comps d) -> (a_stage a, a_prod a) = comp_id (d_stage d) c ->
  resolve KeyInt (unroll d out k) a = resolve_spec c k a.
Proof.
  intros Hc Hp. unfold resolve, resolve_spec. rewrite Hp.
  rewrite (latest_upto c k Hc), (represents_unroll c k Hc), (isort_any_order c k _ (Permutation_refl _)).
  rewrite (placeholder_of_comp c k Hc). unfold instances_of. rewrite !map_map. reflexivity.
Qed.

Lemma wire_no_drift i cs r : 0 < i ->
  a_stage (wire i cs r) = a_stage (wire 1 cs r) /\ a_file (wire i cs r) = a_file (wire 1 cs r) /\
  a_meth (wire i cs r) = a_meth (wire 1 cs r).
Proof.
  intros Hi. assert (E : (0 <? i) = true) by lia. unfold wire. rewrite E. change (0 <? 1) with true.
  destruct r as [b f m|st n f m]; [|cbn; auto].
  destruct (lookup b (d_loopb d)); [cbn; auto|]. destruct (lookup b (d_binds d)); cbn; auto.
Qed.

End Unroll.

(* ------------------------------------------------------------------ a concrete well-formed document
   (the package of tests/test_dowhile.py reduced to its wiring; witness of F5) *)
Definition ex_doc : dowhile :=
  mk_dw 1
    [mk_comp "add" 0 [RBind "number" "" "output"];
     mk_comp "fake_add" 0 [RComp None "add" "" "output"];
     mk_comp "stop" 0 [RComp None "fake_add" "" "output"]]
    [("number", mk_aref 0 "GenerateInput" "" "output")]
    [("number", mk_lb None "fake_add" "" "output")]
    (mk_lb None "stop" "f" "output").
Definition ex_out : list ocomp :=
  [mk_ocomp "GenerateInput" 0 [];
   mk_ocomp "report" 2 [mk_aref 1 "add" "" "output"; mk_aref 1 "fake_add" "" "loopref"]].

Lemma ex_doc_wf : wf_doc ex_doc.
Proof.
  constructor.
  - intros c Hc. cbn in Hc. repeat destruct Hc as [<-|Hc]; try reflexivity; contradiction.
  - cbn. repeat constructor; cbn; intuition discriminate.
  - exists (mk_comp "stop" 0 [RComp None "fake_add" "" "output"]). cbn. auto.
  - cbn. repeat constructor. intros [].
  - intros b v H. cbn in H. destruct (String.eqb b "number"); [|discriminate]. inversion H. reflexivity.
  - intros c r Hc Hr. cbn in Hc. repeat destruct Hc as [<-|Hc]; try contradiction;
      cbn in Hr; repeat destruct Hr as [<-|Hr]; try contradiction; cbn; try discriminate; left; split; reflexivity.
Qed.

(* ------------------------------------------------------------------ further concrete well-formed documents *)
Ltac try_comps l :=
  match l with
  | ?c :: ?r => first [ exists c; split; [cbn; auto 8|reflexivity] | try_comps r ]
  end.
Ltac solve_wf :=
  constructor;
  [ intros c Hc; cbn in Hc; repeat destruct Hc as [<-|Hc]; try reflexivity; contradiction
  | cbn; repeat constructor; cbn; intuition discriminate
  | match goal with |- exists c, In c (d_comps ?d) /\ _ => let l := eval vm_compute in (d_comps d) in try_comps l end
  | cbn; repeat constructor; cbn; intuition discriminate
  | intros b v H; cbn in H;
    repeat match type of H with (if ?e then _ else _) = _ => destruct e end; try discriminate; inversion H; reflexivity
  | intros c r Hc Hr; cbn in Hc; repeat destruct Hc as [<-|Hc]; try contradiction;
    cbn in Hr; repeat destruct Hr as [<-|Hr]; try contradiction; cbn; try discriminate;
    first [ left; split; reflexivity | right; split; reflexivity ] ].

(* two looped components with the same name in different stages (witness of F5b): stage0.x feeds stage1.x, the
   loop carries stage1.x back into stage0.x, the condition is produced by stage1.x *)
Definition ex_doc2 : dowhile :=
  mk_dw 0
    [mk_comp "x" 0 [RBind "b0" "" "output"];
     mk_comp "x" 1 [RComp (Some 0) "x" "" "output"]]
    [("b0", mk_aref 0 "src0" "" "output")]
    [("b0", mk_lb (Some 1) "x" "" "output")]
    (mk_lb (Some 1) "x" "f" "output").
Definition ex_out2 : list ocomp :=
  [mk_ocomp "src0" 0 []; mk_ocomp "rep" 2 [mk_aref 1 "x" "" "ref"; mk_aref 0 "x" "" "ref"]].

Lemma ex_doc2_wf : wf_doc ex_doc2.
Proof. solve_wf. Qed.

(* a loop binding that aggregates over the iterations (:loopref): only in the model — the real code needs a second
   DoWhile to bind iteration 0 to *)
Definition ex_doc3 : dowhile :=
  mk_dw 1
    [mk_comp "prod" 0 []; mk_comp "agg" 0 [RBind "b0" "" "loopref"]; mk_comp "stop" 0 [RComp None "agg" "" "ref"]]
    [("b0", mk_aref 0 "src0" "" "loopref")]
    [("b0", mk_lb None "prod" "" "loopref")]
    (mk_lb None "stop" "f" "output").
Definition ex_out3 : list ocomp := [mk_ocomp "src0" 0 []].

Lemma ex_doc3_wf : wf_doc ex_doc3.
Proof. solve_wf. Qed.

(* name clashes between looped components and components OUTSIDE the loop (component ids are (stage, name) pairs):
   "work" is looped (stage 0 of the document = stage 1 of the workflow), stage0.work and stage2.work are plain
   components outside the loop.  The looped work reads stage0.work through the binding "base" (not loop-carried) and
   stage1.mid directly; the looped stop (stage 1 of the document) reads the looped work (stage0.work of the DOCUMENT)
   and, directly, the outside stage2.work (stage1.work of the document). *)
Definition ex_doc4 : dowhile :=
  mk_dw 1
    [mk_comp "work" 0 [RBind "b0" "" "output"; RBind "base" "" "ref"; RComp None "mid" "" "ref"];
     mk_comp "stop" 1 [RComp (Some 0) "work" "" "output"; RComp (Some 1) "work" "f" "ref"]]
    [("b0", mk_aref 0 "src0" "" "output"); ("base", mk_aref 0 "work" "" "ref")]
    [("b0", mk_lb (Some 0) "work" "" "output")]
    (mk_lb (Some 1) "stop" "f" "output").
Definition ex_out4 : list ocomp :=
  [mk_ocomp "src0" 0 []; mk_ocomp "work" 0 []; mk_ocomp "mid" 1 []; mk_ocomp "work" 2 [];
   mk_ocomp "stop" 3 [mk_aref 1 "work" "" "ref"; mk_aref 0 "work" "" "ref"; mk_aref 2 "work" "" "output";
                      mk_aref 1 "work" "" "loopref"]].

Lemma ex_doc4_wf : wf_doc ex_doc4.
Proof. solve_wf. Qed.
