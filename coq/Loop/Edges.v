(* C05 — the accumulated edges of WorkflowGraph.graph after k further iterations.
   instantiate_dowhile_next_iteration builds a fresh complete graph (_createCompleteGraph) after every iteration
   and ADDS its edges to the live graph (edges are never removed): [w_edges (unroll d out k)] is the union of
   [graph_edges (unroll d out j)] for j <= k.  This file characterises that union exactly, in terms of the
   declarative wiring [wire] (C05_wiring) and of the placeholder expansion (all instances + current condition). *)
From Coq Require Import String Ascii List Bool Arith NArith Lia ZifyBool Permutation.
Require Import V.Lib.PyStr V.Lib.JTree V.Loop.Model V.Loop.Proofs.
Import ListNotations.
Open Scope string_scope.
Open Scope N_scope.

(* ------------------------------------------------------------------ generic facts (no well-formedness needed) *)
Lemma edge_eqb_eq a b : edge_eqb a b = true <-> a = b.
Proof.
  destruct a as [a1 a2], b as [b1 b2]. unfold edge_eqb. cbn. rewrite andb_true_iff, !String.eqb_eq.
  split; [intros [-> ->]; reflexivity|intros E; inversion E; auto].
Qed.

Lemma add_edges_in e new : forall old, In e (add_edges old new) <-> In e old \/ In e new.
Proof.
  unfold add_edges. induction new as [|a new IH]; intros old; cbn [fold_left].
  - cbn. tauto.
  - destruct (existsb (edge_eqb a) old) eqn:E.
    + rewrite IH. apply existsb_exists in E as [x [Hx Hax]]. apply edge_eqb_eq in Hax. subst x.
      cbn. split; [tauto|]. intros [H|[<-|H]]; auto.
    + rewrite IH, in_app_iff. cbn. tauto.
Qed.

(* the live graph holds the union of the complete graphs built so far *)
Lemma edges_accum d out k e :
  In e (w_edges (unroll d out k)) <-> exists j, (j <= k)%nat /\ In e (graph_edges (unroll d out j)).
Proof.
  induction k as [|k IH].
  - change (w_edges (unroll d out 0)) with (add_edges [] (graph_edges (mk_wf d out (instantiate d 0) [] []))).
    rewrite add_edges_in. split.
    + intros [[]|H]. exists 0%nat. split; [lia|exact H].
    + intros [j [Hj H]]. assert (j = 0%nat) by lia. subst. right. exact H.
  - change (unroll d out (S k)) with (next_iteration (unroll d out k)) at 1.
    unfold next_iteration at 1. cbn [w_edges]. rewrite add_edges_in, IH. split.
    + intros [[j [Hj H]]|H]; [exists j; split; [lia|exact H]|]. exists (S k). split; [lia|]. exact H.
    + intros [j [Hj H]]. destruct (Nat.eq_dec j (S k)) as [->|Hne]; [right; exact H|left; exists j; split; [lia|exact H]].
Qed.

Lemma mem_In s l : mem s l = true <-> In s l.
Proof.
  unfold mem. rewrite existsb_exists. split.
  - intros [x [Hx E]]. apply String.eqb_eq in E. subst. exact Hx.
  - intros H. exists s. split; [exact H|apply String.eqb_refl].
Qed.

(* node n holds the reference a *)
Definition consumer_refs (w : wfst) (n : string) (a : aref) : Prop :=
  (exists o, In o (w_out w) /\ n = out_node o /\ In a (o_refs o)) \/
  (exists x, In x (w_loop w) /\ n = inst_node x /\ In a (i_refs x)).

Lemma graph_edges_in w p n : In (p, n) (graph_edges w) <->
  exists a, consumer_refs w n a /\ In p (ref_preds w n a) /\ In p (nodes w).
Proof.
  unfold graph_edges, consumer_refs. rewrite in_app_iff, !in_flat_map. split.
  - intros [[o [Ho H]]|[x [Hx H]]]; apply in_map_iff in H as [q [E H]]; inversion E; subst; clear E;
      apply filter_In in H as [H Hm]; apply mem_In in Hm; apply in_flat_map in H as [a [Ha Hp]]; exists a.
    + split; [left; exists o; auto|auto].
    + split; [right; exists x; auto|auto].
  - intros [a [[[o [Ho [-> Ha]]]|[x [Hx [-> Ha]]]] [Hp Hm]]].
    + left. exists o. split; [exact Ho|]. apply in_map_iff. exists p. split; [reflexivity|].
      apply filter_In. split; [|apply mem_In; exact Hm]. apply in_flat_map. exists a. auto.
    + right. exists x. split; [exact Hx|]. apply in_map_iff. exists p. split; [reflexivity|].
      apply filter_In. split; [|apply mem_In; exact Hm]. apply in_flat_map. exists a. auto.
Qed.

(* ------------------------------------------------------------------ well-formed documents *)
Section Edges.
Variable d : dowhile.
Variable out : list ocomp.
Hypothesis WF : wf_doc d.

(* graph node of iteration i of the looped component c *)
Definition inode (i : N) (c : comp) : string := pr_id (c_stage c + d_stage d) (iname i (c_name c)).

Lemma in_loop_ids_spec p : in_loop_ids d p = true <-> exists c, In c (d_comps d) /\ comp_id (d_stage d) c = p.
Proof.
  unfold in_loop_ids. rewrite existsb_exists.
  split; intros [c [Hc H]]; exists c; (split; [exact Hc|]); apply id_eqb_eq; exact H.
Qed.

Lemma comp_of_id c c' : In c (d_comps d) -> In c' (d_comps d) -> comp_id (d_stage d) c = comp_id (d_stage d) c' -> c = c'.
Proof. intros Hc Hc' E. apply (NoDup_map_inj (comp_id (d_stage d)) (d_comps d)); auto. apply (wf_names d WF). Qed.

Lemma in_instances_of c j x : In x (instances_of d c j) <-> exists i, i <= N.of_nat j /\ x = instance_of d i c.
Proof.
  unfold instances_of. rewrite in_map_iff. split.
  - intros [i [<- Hi]]. exists i. split; [apply in_iota; exact Hi|reflexivity].
  - intros [i [Hi ->]]. exists i. split; [reflexivity|apply in_iota; exact Hi].
Qed.

(* producers of a reference in the complete graph built after iteration j *)
Lemma in_ref_preds j self a p : In p (ref_preds (unroll d out j) self a) <->
  (in_loop_ids d (a_stage a, a_prod a) = false /\ p = pr_id (a_stage a) (a_prod a)) \/
  (exists c, In c (d_comps d) /\ comp_id (d_stage d) c = (a_stage a, a_prod a) /\
     ((exists i, i <= N.of_nat j /\ p = inode i c) \/
      (exists cc, In cc (d_comps d) /\ comp_id (d_stage d) cc = cond_id d /\ p = inode (N.of_nat j) cc /\ p <> self))).
Proof.
  destruct (unroll_inv d out WF j) as [Hd [Ho Hl]].
  destruct (cur_of_upto d WF _ j Hd Hl) as [cc [Hcc [Hcid Hcur]]].
  unfold ref_preds, is_placeholder. rewrite Hd, Hcur, Hl.
  destruct (in_loop_ids d (a_stage a, a_prod a)) eqn:E.
  - apply in_loop_ids_spec in E as [c [Hc Hid]]. rewrite <- Hid, (represents_upto d WF c j Hc).
    rewrite in_app_iff, in_map_iff. split.
    + intros [[x [<- Hx]]|H]; right; exists c; (split; [exact Hc|]); (split; [reflexivity|]).
      * left. apply in_instances_of in Hx as [i [Hi ->]]. exists i. auto.
      * right. exists cc.
        destruct (String.eqb (inst_node (instance_of d (N.of_nat j) cc)) self) eqn:Es; [contradiction|].
        destruct H as [<-|[]]. repeat split; auto. apply String.eqb_neq. exact Es.
    + intros [[H _]|[c' [Hc' [Hid' H]]]]; [discriminate|].
      assert (c' = c) by (apply comp_of_id; auto). subst c'.
      destruct H as [[i [Hi ->]]|[cc' [Hcc' [Hcid' [-> Hne]]]]].
      * left. exists (instance_of d i c). split; [reflexivity|]. apply in_instances_of. exists i. auto.
      * right. assert (cc' = cc) by (apply comp_of_id; auto; congruence). subst cc'.
        destruct (String.eqb (inst_node (instance_of d (N.of_nat j) cc)) self) eqn:Es.
        -- apply String.eqb_eq in Es. contradiction.
        -- left. reflexivity.
  - split.
    + intros [<-|[]]. left. auto.
    + intros [[_ ->]|[c [Hc [Hid _]]]]; [left; reflexivity|]. exfalso.
      assert (in_loop_ids d (a_stage a, a_prod a) = true) by (apply in_loop_ids_spec; exists c; auto). congruence.
Qed.

(* the references held by the nodes after iteration j: outside consumers keep theirs, instance i of c holds [wire] *)
Lemma consumer_refs_unroll j n a : consumer_refs (unroll d out j) n a <->
  (exists o, In o out /\ n = out_node o /\ In a (o_refs o)) \/
  (exists i c r, i <= N.of_nat j /\ In c (d_comps d) /\ In r (c_refs c) /\ n = inode i c /\ a = wire d i (c_stage c) r).
Proof.
  destruct (unroll_inv d out WF j) as [Hd [Ho Hl]]. unfold consumer_refs. rewrite Ho, Hl. split.
  - intros [H|[x [Hx [-> Ha]]]]; [left; exact H|]. right. apply in_loop_upto in Hx as [i [c [Hi [Hc ->]]]].
    cbn [i_refs instance_of] in Ha. apply in_map_iff in Ha as [r [<- Hr]]. exists i, c, r. repeat split; auto.
    apply rewrite_ref_wire; auto.
  - intros [H|[i [c [r [Hi [Hc [Hr [-> ->]]]]]]]]; [left; exact H|]. right. exists (instance_of d i c).
    split; [apply in_loop_upto; exists i, c; auto|]. split; [reflexivity|]. cbn [i_refs instance_of].
    apply in_map_iff. exists r. split; [apply rewrite_ref_wire; auto|exact Hr].
Qed.

Lemma nodes_mono j k p : (j <= k)%nat -> In p (nodes (unroll d out j)) -> In p (nodes (unroll d out k)).
Proof.
  intros Hjk H. apply (nodes_exact d out WF) in H. apply (nodes_exact d out WF).
  destruct H as [H|[i [c [Hi H]]]]; [left; exact H|right; exists i, c; split; [lia|exact H]].
Qed.

Lemma inode_in_nodes i c k : i <= N.of_nat k -> In c (d_comps d) -> In (inode i c) (nodes (unroll d out k)).
Proof. intros Hi Hc. apply (nodes_exact d out WF). right. exists i, c. auto. Qed.

(* node n holds reference a after k iterations; born = the iteration that created n (0 for outside components) *)
Definition holds_ref (k : nat) (n : string) (born : N) (a : aref) : Prop :=
  (exists o, In o out /\ n = out_node o /\ In a (o_refs o) /\ born = 0) \/
  (exists i c r, i <= N.of_nat k /\ In c (d_comps d) /\ In r (c_refs c) /\
                 n = inode i c /\ a = wire d i (c_stage c) r /\ born = i).

(* the edge p -> n is implied by a reference a of n:
   - a names a component that is not a looped blueprint: p is that component (if it is a node);
   - a names a looped blueprint c (a placeholder): p is any instance 0..k of c, or the instance of the condition's
     producer of an iteration j that existed while n did (born <= j <= k), n itself excepted. *)
Definition edge_spec (k : nat) (p n : string) : Prop :=
  exists born a, holds_ref k n born a /\
    ((in_loop_ids d (a_stage a, a_prod a) = false /\ p = pr_id (a_stage a) (a_prod a) /\
      In p (nodes (unroll d out k))) \/
     (exists c, In c (d_comps d) /\ comp_id (d_stage d) c = (a_stage a, a_prod a) /\
        ((exists i, i <= N.of_nat k /\ p = inode i c) \/
         (exists cc j, In cc (d_comps d) /\ comp_id (d_stage d) cc = cond_id d /\ born <= j /\ j <= N.of_nat k /\
                       p = inode j cc /\ p <> n)))).

Theorem edges_exact k p n : In (p, n) (w_edges (unroll d out k)) <-> edge_spec k p n.
Proof.
  rewrite edges_accum. split.
  - intros [j [Hj H]]. apply graph_edges_in in H as [a [Hc [Hp Hn]]].
    apply consumer_refs_unroll in Hc. apply in_ref_preds in Hp.
    assert (Hh : exists born, holds_ref k n born a /\ born <= N.of_nat j).
    { destruct Hc as [[o [Ho [-> Ha]]]|[i [c [r [Hi [Hc [Hr [-> ->]]]]]]]].
      - exists 0. split; [left; exists o; auto|lia].
      - exists i. split; [right; exists i, c, r; repeat split; auto; lia|exact Hi]. }
    destruct Hh as [born [Hh Hb]]. exists born, a. split; [exact Hh|].
    destruct Hp as [[Hnl ->]|[c [Hc' [Hid H]]]].
    + left. split; [exact Hnl|]. split; [reflexivity|]. apply (nodes_mono j k); assumption.
    + right. exists c. split; [exact Hc'|]. split; [exact Hid|].
      destruct H as [[i [Hi ->]]|[cc [Hcc [Hcid [-> Hne]]]]].
      * left. exists i. split; [lia|reflexivity].
      * right. exists cc, (N.of_nat j). repeat split; auto; lia.
  - intros [born [a [Hh H]]].
    assert (Hcons : forall j, born <= N.of_nat j -> (j <= k)%nat -> consumer_refs (unroll d out j) n a).
    { intros j Hb Hj. apply consumer_refs_unroll.
      destruct Hh as [[o [Ho [-> [Ha _]]]]|[i [c [r [Hi [Hc [Hr [-> [-> ->]]]]]]]]].
      - left. exists o. auto.
      - right. exists i, c, r. repeat split; auto. }
    assert (Hbk : born <= N.of_nat k).
    { destruct Hh as [[o [_ [_ [_ ->]]]]|[i [c [r [Hi [_ [_ [_ [_ ->]]]]]]]]]; lia. }
    destruct H as [[Hnl [-> Hn]]|[c [Hc [Hid H]]]].
    + exists k. split; [lia|]. apply graph_edges_in. exists a. split; [apply Hcons; [exact Hbk|lia]|].
      split; [|exact Hn]. apply in_ref_preds. left. auto.
    + destruct H as [[i [Hi ->]]|[cc [j [Hcc [Hcid [Hbj [Hjk [-> Hne]]]]]]]].
      * exists k. split; [lia|]. apply graph_edges_in. exists a. split; [apply Hcons; [exact Hbk|lia]|].
        split; [|apply inode_in_nodes; assumption]. apply in_ref_preds. right. exists c. split; [exact Hc|].
        split; [exact Hid|]. left. exists i. auto.
      * exists (N.to_nat j). split; [lia|]. apply graph_edges_in. exists a. split; [apply Hcons; lia|].
        split; [|apply inode_in_nodes; [lia|exact Hcc]]. apply in_ref_preds. right. exists c. split; [exact Hc|].
        split; [exact Hid|]. right. exists cc. rewrite N2Nat.id. auto.
Qed.

(* ------------------------------------------------------------------ locality of the references of an instance *)
(* no loop binding aggregates over the iterations (:loopref / :loopoutput loop bindings need a second DoWhile to
   bind iteration 0 to and are outside the scope of the single-loop documents considered) *)
Definition no_agg_loopb : Prop := forall b l, lookup b (d_loopb d) = Some l -> is_loop_meth (l_meth l) = false.

(* every reference of instance i names a component that is NOT a placeholder (so it yields at most the one edge
   from that very component), and that component is: an instance of the same iteration (internal reference), an
   instance of iteration i-1 (loop-carried input, i > 0), or the original value of an input binding, which lives
   outside the loop *)
Lemma wire_local i c r : no_agg_loopb -> In c (d_comps d) -> In r (c_refs c) ->
  let a := wire d i (c_stage c) r in
  in_loop_ids d (a_stage a, a_prod a) = false /\
  ((exists n', a_prod a = iname i n') \/
   (0 < i /\ exists n', a_prod a = iname (i - 1) n') \/
   (exists b v, lookup b (d_binds d) = Some v /\ a_stage a = a_stage v /\ a_prod a = a_prod v /\
                in_loop_ids d (a_stage v, a_prod v) = false) \/
   (exists st n f m, r = RComp st n f m /\ a = mk_aref (opt_stage st (c_stage c) + d_stage d) n f m /\
                     occurs "#" n = false)).
Proof.
  intros NA Hc Hr. pose proof (wf_refs d WF c r Hc Hr) as Hok. destruct r as [b f m|st n f m]; cbn [wire ref_ok] in *.
  - destruct (lookup b (d_loopb d)) as [l|] eqn:El.
    + destruct (0 <? i) eqn:Ei.
      * rewrite (NA b l El). cbn. split; [apply (not_loop_id_iname d WF)|]. right. left. split; [lia|]. eexists. reflexivity.
      * destruct (lookup b (d_binds d)) as [v|] eqn:Ev; [|congruence]. cbn.
        pose proof (wf_binds_outside d WF b v Ev) as Hv. split; [exact Hv|]. right. right. left. exists b, v. auto.
    + assert (E : match (0 <? i) with true | false =>
                    match lookup b (d_binds d) with
                    | Some v => mk_aref (a_stage v) (a_prod v) (merge_file (a_file v) f) (a_meth v)
                    | None => mk_aref (c_stage c + d_stage d) (iname i b) f m
                    end end =
                  match lookup b (d_binds d) with
                  | Some v => mk_aref (a_stage v) (a_prod v) (merge_file (a_file v) f) (a_meth v)
                  | None => mk_aref (c_stage c + d_stage d) (iname i b) f m
                  end) by (destruct (0 <? i); reflexivity).
      destruct (lookup b (d_binds d)) as [v|] eqn:Ev; [|congruence].
      pose proof (wf_binds_outside d WF b v Ev) as Hv.
      destruct (0 <? i); cbn; (split; [exact Hv|]); right; right; left; exists b, v; auto.
  - destruct Hok as [[Hin Hm]|[Hout Hh]]; cbv zeta.
    + rewrite Hin. cbn. split; [apply (not_loop_id_iname d WF)|]. left. eexists. reflexivity.
    + rewrite Hout. cbn. split; [exact Hout|]. right. right. right. exists st, n, f, m. auto.
Qed.

(* hence: a reference of instance i that names an instance at all names one of iteration i or i-1 — no edge from
   a later iteration (forward), none from an iteration older than i-1 *)
Lemma wire_iterations i c r i' n' : no_agg_loopb ->
  (forall b v, lookup b (d_binds d) = Some v -> occurs "#" (a_prod v) = false) ->
  In c (d_comps d) -> In r (c_refs c) ->
  a_prod (wire d i (c_stage c) r) = iname i' n' -> i' = i \/ (0 < i /\ i' = i - 1).
Proof.
  intros NA NH Hc Hr E.
  destruct (wire_local i c r NA Hc Hr) as [_ [[m Hm]|[[Hi [m Hm]]|[[b [v [Hv [_ [Hp _]]]]]|[st [n [f [m [_ [Ha Hh]]]]]]]]]].
  - rewrite Hm in E. apply iname_inj in E as [-> _]. left. reflexivity.
  - rewrite Hm in E. apply iname_inj in E as [<- _]. right. auto.
  - exfalso. pose proof (NH b v Hv) as H. rewrite <- Hp, E, occurs_iname in H. discriminate.
  - exfalso. rewrite Ha in E. cbn in E. rewrite E, occurs_iname in Hh. discriminate.
Qed.

(* ------------------------------------------------------------------ the Controller's view of a placeholder *)
(* Controller._comp_get_active_predecessors / generate_status_report_for_nodes on the placeholder of the looped
   component c after k further iterations: exactly the instances 0..k of c and the instance k of the component
   that produces the loop's condition — whatever else carries the same NAME in another stage. *)
Lemma ph_preds_spec c k n : In c (d_comps d) ->
  (In n (ph_preds (unroll d out k) (comp_id (d_stage d) c)) <->
   (exists i, i <= N.of_nat k /\ n = inode i c) \/
   (exists cc, In cc (d_comps d) /\ comp_id (d_stage d) cc = cond_id d /\ n = inode (N.of_nat k) cc)).
Proof.
  intros Hc. destruct (unroll_inv d out WF k) as [Hd [Ho Hl]].
  destruct (cur_of_upto d WF _ k Hd Hl) as [cc [Hcc [Hcid Hcur]]].
  unfold ph_preds. rewrite Hcur, (represents_unroll d out WF c k Hc).
  assert (Hreps : forall x, In x (map inst_node (instances_of d c k)) <-> exists i, i <= N.of_nat k /\ x = inode i c).
  { intros x. rewrite in_map_iff. split.
    - intros [y [<- Hy]]. apply in_instances_of in Hy as [i [Hi ->]]. exists i. auto.
    - intros [i [Hi ->]]. exists (instance_of d i c). split; [reflexivity|]. apply in_instances_of. exists i. auto. }
  assert (Hone : forall cc', In cc' (d_comps d) -> comp_id (d_stage d) cc' = cond_id d -> cc' = cc).
  { intros cc' H1 H2. apply comp_of_id; auto. congruence. }
  destruct (mem (inst_node (instance_of d (N.of_nat k) cc)) (map inst_node (instances_of d c k))) eqn:Em.
  - apply mem_In in Em. rewrite Hreps. split; [intros H; left; exact H|].
    intros [H|[cc' [H1 [H2 ->]]]]; [exact H|]. rewrite (Hone cc' H1 H2). apply Hreps. exact Em.
  - rewrite in_app_iff, Hreps. cbn. split.
    + intros [H|[<-|[]]]; [left; exact H|]. right. exists cc. auto.
    + intros [H|[cc' [H1 [H2 ->]]]]; [left; exact H|]. right. left. rewrite (Hone cc' H1 H2). reflexivity.
Qed.

End Edges.
