(* C13 — the kill-after-producers-done-delay timer WITH ITS VALUE.
   Model.v abstracts the timer: [Suicide] / [o_sui] happen when the environment says so.  Here the timer is driven by
   the clock: the variable is configured with a value d (milliseconds; any float the option parses to, 0 included:
   RepeatingEngine.__init__ keeps float(value), notify_all_producers_finished arms reactivex.timer(value) whenever the
   value is not None and the engine is alive), it is armed by the notification and it expires as soon as the clock
   has reached (time of the notification) + d: between two events of a sleep, during the task execution in flight,
   or - delay 0 - at the very moment of the notification, also when that arrives WHILE an execution is in flight
   (engine.py: notify_all_producers_finished / suicide, EngineTaskController's reading of self._suicide after wait()). *)
From Coq Require Import ZArith List Bool Lia ZifyBool.
Import ListNotations.
Require Import V.Repeat.Model V.Repeat.Proofs.
Open Scope Z_scope.

(* the option as configured: absent, or a number of milliseconds (0 is a configured delay) *)
Definition with_delay (c : cfg) (d : option Z) : cfg :=
  {| c_retries := c_retries c; c_prods := c_prods c; c_check_out := c_check_out c; c_has_delay := is_some d;
     c_interval := c_interval c; c_t0 := c_t0 c |}.
Definition delay_ms (d : option Z) : Z := match d with Some x => x | None => 0 end.

(* timed state: the engine + the time at which the pending timer was armed *)
Definition tst := (st * Z)%type.

(* the timer thread: a pending timer whose time has come expires *)
Definition fire (d : Z) (sd : tst) : tst :=
  let '(s, tn) := sd in if armed s && (tn + d <=? now s) then (suicide_ev s, tn) else sd.

(* an event of the environment; the timer is not scripted ([Suicide] and [Poll] are not environment events here) *)
Definition tev (c : cfg) (d : Z) (sd : tst) (e : event) : tst :=
  let '(s, tn) := sd in
  match e with
  | Suicide => sd
  | Poll _ => sd
  | Notify => fire d (notify c s, if armed s then tn else now s)
  | _ => fire d (step c s e, tn)
  end.

Definition trun (c : cfg) (d : Z) (sd : tst) (evs : list event) : tst := fold_left (tev c d) evs sd.

Definition with_sui (o : outcome) (b : bool) : outcome :=
  {| o_fail := o_fail o; o_rc := o_rc o; o_dur := o_dur o; o_re := o_re o; o_sui := b |}.

(* this poll launches a task and waits for it *)
Definition waits (c : cfg) (s : st) (o : outcome) : bool :=
  negb (mon_done s) && negb (cancel s) && sched c s && negb (suicide s) && will_exec c s && negb (o_fail o).

(* the notification arrives while the task is running and the timer it arms expires before the task ends
   (delay 0): suicide() finds a living process and signals it; the controller, back from wait(), reads _suicide *)
Definition act_mid (c : cfg) (s : st) (o : outcome) : st :=
  let l := launched c s o in
  post (set_flags l true true (cancel l) (kc l) false) (pf s) (o_rc o =? 0).

(* one resumption of the monitor loop under the clock-driven timer; ntf: the producers-finished notification arrives
   while this poll's execution is in flight (right after the poll when it launches nothing) *)
Definition tpoll (c : cfg) (d : Z) (sd : tst) (o : outcome) (ntf : bool) : tst :=
  let '(s, tn) := sd in
  let o' := with_sui o (armed s && (tn + d <=? now s + o_dur o)) in
  if ntf then
    if waits c s o && c_has_delay c && (d <=? 0) && negb (armed s)
    then (last_tick (act_mid c s o), now s + o_dur o)
    else tev c d (poll c s o', tn) Notify
  else (poll c s o', tn).

Definition tsstep := (Z * list event * outcome * bool)%type.

Definition tstep1 (c : cfg) (d : Z) (sd : tst) (k : tsstep) : tst :=
  let '(dt, evs, o, ntf) := k in tpoll c d (trun c d (tev c d sd (Adv dt)) evs) o ntf.

Fixpoint trun_steps (c : cfg) (d : Z) (sd : tst) (l : list tsstep) : list obs * tst :=
  match l with
  | [] => ([], sd)
  | k :: r =>
      let sd1 := tstep1 c d sd k in
      let '(os, sd2) := trun_steps c d sd1 r in (observe (fst sd1) :: os, sd2)
  end.

Definition tfinal (c : cfg) (d : Z) (sd : tst) (l : list tsstep) : tst := fold_left (tstep1 c d) l sd.

(* case = (cfg without the option, the option, script, (observations, monitor returned, launches oldest first)) *)
Definition check_case5 (k : cfg * option Z * list tsstep * (list obs * bool * list exec)) : bool :=
  let '(c0, d, l, (os, fin, xs)) := k in
  let c := with_delay c0 d in
  let '(os', sd) := trun_steps c (delay_ms d) (init c, c_t0 c) l in
  list_eqb obs_eqb os os' && eqb fin (mon_done (fst sd)) && list_eqb exec_eqb xs (rev (execs (fst sd))).

(* ------------------------------------------------------------------ the configured delay expires *)
(* K1: a notified engine with the option set that is not cancelled has its timer pending;
   K2: a pending timer's time has not come yet (it would have expired) *)
Definition K (c : cfg) (d : Z) (sd : tst) : Prop :=
  (pf (fst sd) = true -> c_has_delay c = true -> cancel (fst sd) = false -> armed (fst sd) = true) /\
  (armed (fst sd) = true -> now (fst sd) < snd sd + d).

Lemma K_init c d t : K c d (init c, t).
Proof. unfold K; cbn. split; discriminate. Qed.

Lemma K_fire c d s tn :
  (pf s = true -> c_has_delay c = true -> cancel s = false -> armed s = true) -> K c d (fire d (s, tn)).
Proof.
  intros H. unfold K, fire.
  destruct (armed s && (tn + d <=? now s)) eqn:E; cbn.
  - unfold suicide_ev. apply andb_true_iff in E. destruct E as [Ea _]. rewrite Ea. cbn. split; discriminate.
  - split; auto. intros Ha. rewrite Ha in E. cbn in E. lia.
Qed.

Lemma K_tev c d sd e : K c d sd -> K c d (tev c d sd e).
Proof.
  destruct sd as [s tn]. intros [H1 H2]. cbn in H1, H2.
  destruct e; unfold tev; try (split; assumption).
  - apply K_fire. cbn. exact H1.
  - apply K_fire. cbn. exact H1.
  - apply K_fire. unfold notify. cbn. intros _ Hd Hc. unfold alive. rewrite Hc, Hd. cbn. apply orb_true_r.
  - apply K_fire. cbn. discriminate.
Qed.

Lemma K_trun c d evs : forall sd, K c d sd -> K c d (trun c d sd evs).
Proof. induction evs as [|e r IH]; intros sd H; cbn; auto. apply IH, K_tev, H. Qed.

Lemma last_tick_flags x :
  pf (last_tick x) = pf x /\ cancel (last_tick x) = cancel x /\ armed (last_tick x) = armed x /\ now (last_tick x) = now x.
Proof. unfold last_tick; cbn; auto. Qed.

(* the controller under the timed outcome *)
Lemma K_act c d s tn o :
  0 <= o_dur o -> K c d (s, tn) -> cancel s = false ->
  K c d (act c s (with_sui o (armed s && (tn + d <=? now s + o_dur o))), tn).
Proof.
  intros Hdur [H1 H2] Hc. cbn in H1, H2. unfold K. cbn [fst snd].
  unfold act. destruct (suicide s) eqn:Hsu.
  - cbn. split; auto.
  - destruct (will_exec c s) eqn:Hwe.
    + unfold post, launched, with_sui; cbn. unfold post_cancel; cbn. rewrite Hsu. cbn.
      destruct (o_fail o) eqn:Hf; cbn.
      * split; [|exact H2]. intros Hp Hd. rewrite Hp. cbn.
        intros Hx. apply H1; auto.
      * destruct (armed s) eqn:Ha; cbn.
        -- destruct (tn + d <=? now s + o_dur o) eqn:Ht; cbn.
           ++ split; [|discriminate]. intros _ _ Hx.
              destruct (pf s); cbn in Hx; destruct (o_rc o =? 0); cbn in Hx; discriminate.
           ++ split; [auto|]. intros _. lia.
        -- split; [|discriminate]. intros Hp Hd _. specialize (H1 Hp Hd Hc). discriminate.
    + unfold post, not_launched; cbn. unfold post_cancel; cbn. rewrite Hsu. cbn.
      split; [|exact H2]. intros Hp Hd _. apply H1; auto.
Qed.

Lemma K_poll c d s tn o :
  0 <= o_dur o -> K c d (s, tn) ->
  K c d (poll c s (with_sui o (armed s && (tn + d <=? now s + o_dur o))), tn).
Proof.
  intros Hdur HK. unfold poll.
  destruct (mon_done s); auto. destruct (cancel s) eqn:Hc.
  - destruct HK as [H1 H2]. split; cbn in *; auto.
  - destruct (sched c s); auto.
    pose proof (K_act c d s tn o Hdur HK Hc) as HA.
    destruct (cancel (act c s _)) eqn:Hca; auto.
Qed.

Lemma cancel_act_mid c s o : cancel (act_mid c s o) = true.
Proof.
  unfold act_mid, post, set_flags; cbn. unfold post_cancel; cbn. rewrite orb_true_r.
  destruct (o_rc o =? 0); reflexivity.
Qed.

Lemma K_tpoll c d sd o ntf : 0 <= o_dur o -> K c d sd -> K c d (tpoll c d sd o ntf).
Proof.
  destruct sd as [s tn]. intros Hdur HK. unfold tpoll.
  destruct ntf; [|apply K_poll; auto].
  destruct (waits c s o && c_has_delay c && (d <=? 0) && negb (armed s)) eqn:E.
  - split; cbn [fst snd].
    + intros _ _ Hx. destruct (last_tick_flags (act_mid c s o)) as (_ & Hcc & _). rewrite Hcc, cancel_act_mid in Hx. discriminate.
    + intros Hx. unfold act_mid, post, set_flags, last_tick in Hx; cbn in Hx. discriminate.
  - apply K_tev, K_poll; auto.
Qed.

Definition durs_ok (l : list tsstep) : Prop := forall k, In k l -> 0 <= o_dur (snd (fst k)).

Lemma K_tstep1 c d sd k : 0 <= o_dur (snd (fst k)) -> K c d sd -> K c d (tstep1 c d sd k).
Proof.
  destruct k as [[[dt evs] o] ntf]. cbn. intros Hd HK. apply K_tpoll; auto. apply K_trun, K_tev, HK.
Qed.

Lemma K_tfinal c d l : forall sd, durs_ok l -> K c d sd -> K c d (tfinal c d sd l).
Proof.
  induction l as [|k r IH]; intros sd Hd HK; cbn; auto.
  apply IH. { intros x Hx. apply Hd. right. exact Hx. }
  apply K_tstep1; auto. apply Hd. left. reflexivity.
Qed.

(* the configured kill delay expires: whatever the script, once the engine has been told that its producers are
   finished and the option is set (0 included), the engine is cancelled at every moment at which the clock has
   reached the time the timer was armed + the delay *)
Lemma kill_delay_expires c d l :
  durs_ok l ->
  let sd := tfinal c d (init c, c_t0 c) l in
  pf (fst sd) = true -> c_has_delay c = true -> snd sd + d <= now (fst sd) -> cancel (fst sd) = true.
Proof.
  intros Hd sd Hp Hc Ht.
  destruct (K_tfinal c d l (init c, c_t0 c) Hd (K_init c d (c_t0 c))) as [H1 H2]. fold sd in H1, H2.
  destruct (cancel (fst sd)) eqn:E; auto.
  specialize (H2 (H1 Hp Hc eq_refl)). lia.
Qed.

(* the timer is armed at the notification: the time it records is that of the first notification that found it
   not pending *)
Lemma armed_at_notification c d s tn :
  armed s = false -> snd (tev c d (s, tn) Notify) = now s.
Proof.
  intros Ha. unfold tev, fire. rewrite Ha.
  match goal with |- snd (if ?b then _ else _) = _ => destruct b end; reflexivity.
Qed.

(* observations of a timed script = the states after each prefix *)
Lemma trun_steps_final c d l : forall sd, snd (trun_steps c d sd l) = tfinal c d sd l.
Proof.
  induction l as [|k r IH]; intros sd; [reflexivity|].
  cbn [trun_steps]. destruct (trun_steps c d (tstep1 c d sd k) r) eqn:E. cbn [snd].
  change (tfinal c d sd (k :: r)) with (tfinal c d (tstep1 c d sd k) r). rewrite <- IH, E. reflexivity.
Qed.

(* ------------------------------------------------------------------ delay 0: stop as soon as the producers are done *)
(* time does not run backwards: a pending timer was armed in the past *)
Definition ev_ok (e : event) : Prop := match e with Adv dt => 0 <= dt | _ => True end.
Definition tsstep_ok (k : tsstep) : Prop :=
  0 <= fst (fst (fst k)) /\ Forall ev_ok (snd (fst (fst k))) /\ 0 <= o_dur (snd (fst k)).

Definition T (sd : tst) : Prop := armed (fst sd) = true -> snd sd <= now (fst sd).

Lemma T_fire d sd : T sd -> T (fire d sd).
Proof.
  destruct sd as [s tn]. unfold T, fire. cbn. intros H.
  destruct (armed s && (tn + d <=? now s)) eqn:E; cbn; auto.
  apply andb_true_iff in E. destruct E as [Ea _]. unfold suicide_ev. rewrite Ea. cbn. discriminate.
Qed.

Lemma T_tev c d sd e : ev_ok e -> T sd -> T (tev c d sd e).
Proof.
  destruct sd as [s tn]. intros He H. unfold T in H. cbn in H.
  destruct e; unfold tev; try exact H; apply T_fire; unfold T; cbn.
  - cbn in He. intros Ha. specialize (H Ha). lia.
  - exact H.
  - destruct (armed s) eqn:Ha; cbn.
    + intros _. apply H. reflexivity.
    + intros _. lia.
  - exact H.
Qed.

Lemma T_trun c d evs : forall sd, Forall ev_ok evs -> T sd -> T (trun c d sd evs).
Proof.
  induction evs as [|e r IH]; intros sd Hok H; cbn; auto.
  inversion Hok; subst. apply IH; auto. apply T_tev; auto.
Qed.

Lemma act_armed_now c s o : 0 <= o_dur o ->
  (armed (act c s o) = true -> armed s = true) /\ now s <= now (act c s o).
Proof.
  intros Hd. unfold act. destruct (suicide s); [cbn; split; auto; lia|].
  destruct (will_exec c s); unfold post, launched, not_launched; cbn; [|split; auto; lia].
  destruct (o_fail o); cbn; split; auto; try lia.
  all: try (destruct (armed s); cbn; auto).
Qed.

Lemma poll_armed_now c s o : 0 <= o_dur o ->
  (armed (poll c s o) = true -> armed s = true) /\ now s <= now (poll c s o).
Proof.
  intros Hd. apply (poll_cases c s o (fun x => (armed x = true -> armed s = true) /\ now s <= now x)).
  - split; auto. lia.
  - intros x Hx. exact Hx.
  - intros _ _ _. apply act_armed_now, Hd.
Qed.

Lemma T_tpoll c d sd o ntf : 0 <= o_dur o -> T sd -> T (tpoll c d sd o ntf).
Proof.
  destruct sd as [s tn]. intros Hd H. unfold T in H. cbn in H. unfold tpoll.
  set (o' := with_sui o _).
  assert (Hd' : 0 <= o_dur o') by (unfold o', with_sui; cbn; exact Hd).
  destruct (poll_armed_now c s o' Hd') as [Pa Pn].
  assert (HT : T (poll c s o', tn)). { unfold T; cbn. intros Ha. specialize (H (Pa Ha)). lia. }
  destruct ntf; [|exact HT].
  destruct (waits c s o && c_has_delay c && (d <=? 0) && negb (armed s)).
  - unfold T; cbn. discriminate.
  - apply T_tev; [exact I|exact HT].
Qed.

Lemma T_tstep1 c d sd k : tsstep_ok k -> T sd -> T (tstep1 c d sd k).
Proof.
  destruct k as [[[dt evs] o] ntf]. intros (H1 & H2 & H3) H. cbn in H1, H2, H3. cbn.
  apply T_tpoll; auto. apply T_trun; auto. apply T_tev; auto.
Qed.

Lemma KT_tfinal c d l : forall sd, Forall tsstep_ok l -> K c d sd -> T sd ->
  K c d (tfinal c d sd l) /\ T (tfinal c d sd l).
Proof.
  induction l as [|k r IH]; intros sd Hok HK HT; cbn; auto.
  inversion Hok as [|? ? Hk Hr]; subst. apply IH; auto.
  - apply K_tstep1; auto. destruct Hk as (_ & _ & Hk). exact Hk.
  - apply T_tstep1; auto.
Qed.

Lemma kill_delay_zero c d l :
  d <= 0 -> Forall tsstep_ok l ->
  let sd := tfinal c d (init c, c_t0 c) l in
  pf (fst sd) = true -> c_has_delay c = true -> cancel (fst sd) = true.
Proof.
  intros Hd Hok sd Hp Hc.
  assert (HT0 : T (init c, c_t0 c)) by (unfold T; cbn; discriminate).
  destruct (KT_tfinal c d l (init c, c_t0 c) Hok (K_init c d (c_t0 c)) HT0) as [[H1 H2] H3]. fold sd in H1, H2, H3.
  destruct (cancel (fst sd)) eqn:E; auto.
  pose proof (H1 Hp Hc eq_refl) as Ha. specialize (H2 Ha). specialize (H3 Ha). lia.
Qed.

(* the mid-execution expiry stops the engine with that execution: cancelled, finished, no retry used *)
Lemma act_mid_stops c s o :
  let x := last_tick (act_mid c s o) in
  cancel x = true /\ mon_done x = true /\ alive x = false /\ retries x = retries s /\
  execs x = {| x_launch := now s; x_pf := pf s; x_rc := if o_fail o then None else Some (o_rc o) |} :: execs s.
Proof.
  cbn. unfold act_mid, post, set_flags, last_tick, alive; cbn. unfold post_cancel, post_kc, post_retries; cbn.
  rewrite !orb_true_r. cbn.
  destruct (o_rc o =? 0); cbn; repeat split; auto; rewrite ?andb_false_r; auto.
Qed.
