(* C13 — A repeating observer sees its producers' final output and then stops.  Property theorems only. *)
From Coq Require Import ZArith List Bool.
Import ListNotations.
Require Import V.Repeat.Model V.Repeat.Proofs V.Repeat.Final.
Open Scope Z_scope.

(* Never executes before there is output it can consume: in every run (any interleaving of clock advances,
   producer writes, the notification, kills, timer expiry and monitor polls, any task outcomes) every task
   launch was made by a poll in a state where canConsume's condition held (no same-stage producer, or the
   producer has output), at that state's clock. *)
Theorem C13_no_early_run : forall c evs x, In x (execs (run c (init c) evs)) ->
  exists evs1 o evs2, evs = evs1 ++ Poll o :: evs2 /\
    x_launch x = now (run c (init c) evs1) /\ can_consume c (run c (init c) evs1) = true.
Proof.
  intros c evs x H.
  destruct (no_early_run_gen c evs (init c) x) as [F|R]; auto.
  - unfold I2; cbn; discriminate.
  - destruct F.
Qed.
Print Assumptions C13_no_early_run.

(* ... and for a producer in the observer's stage that condition is: the producer has written output *)
Theorem C13_consume_needs_output : forall c s,
  c_has_prod c = true -> c_same_stage c = true -> can_consume c s = true -> exists l, lo s = Some l.
Proof.
  intros c s H1 H2. unfold can_consume. rewrite H1, H2. cbn. destruct (lo s); [eauto|discriminate].
Qed.
Print Assumptions C13_consume_needs_output.

(* Bounded stop: from any reachable state in which the producers are finished, as long as the engine is not
   cancelled the controller has been invoked at most repeatRetries more times (each invocation costs one retry). *)
Theorem C13_bounded_stop : forall c evs1 evs2, 0 <= eff_retries c ->
  let s1 := run c (init c) evs1 in let s2 := run c s1 evs2 in
  pf s1 = true -> cancel s2 = false ->
  nact s2 - nact s1 <= retries s1 /\ retries s1 <= eff_retries c.
Proof. intros c evs1 evs2 H. exact (bounded_stop c H evs1 evs2). Qed.
Print Assumptions C13_bounded_stop.

(* the invocation made with no retries left cancels; so does the first successful execution after the notification *)
Theorem C13_last_retry_cancels : forall c s o,
  pf s = true -> retries s = 0 -> suicide s = false -> cancel (act c s o) = true.
Proof. exact act_no_retries. Qed.
Print Assumptions C13_last_retry_cancels.

Theorem C13_success_cancels : forall c s o,
  pf s = true -> suicide s = false -> will_exec c s = true -> o_fail o = false -> o_rc o = 0 ->
  cancel (act c s o) = true.
Proof. exact act_success_cancels. Qed.
Print Assumptions C13_success_cancels.

(* kill delay: the expiry of the timer cancels the engine, at once between two executions, at the end of the
   execution in progress otherwise *)
Theorem C13_kill_delay : forall c s,
  armed s = true ->
  cancel (step c s Suicide) = true /\
  (forall o, suicide s = false -> will_exec c s = true -> o_fail o = false -> o_sui o = true ->
             cancel (act c s o) = true).
Proof.
  intros c s H. split; [apply (suicide_cancels c s H)|]. intros o. apply suicide_in_wait_cancels; auto.
Qed.
Print Assumptions C13_kill_delay.

(* a poll that leaves the engine cancelled is the monitor's last; a cancelled engine stops at the next poll
   without executing, and reports itself finished; afterwards nothing is ever launched again *)
Theorem C13_cancelled_then_stops : forall c s o,
  (cancel (poll c s o) = true -> mon_done (poll c s o) = true) /\
  (cancel s = true -> mon_done s = false ->
     let s' := step c s (Poll o) in
     mon_done s' = true /\ alive s' = false /\ exit_reason s' <> RNone /\ execs s' = execs s /\ nact s' = nact s) /\
  (mon_done s = true -> forall evs, mon_done (run c s evs) = true /\ execs (run c s evs) = execs s /\
                                    nact (run c s evs) = nact s).
Proof.
  intros c s o. split; [apply poll_cancel_done|]. split; [apply cancelled_poll_stops|].
  intros H evs. apply done_frozen, H.
Qed.
Print Assumptions C13_cancelled_then_stops.

(* Sees the final output.  Hypotheses, all explicit: no kill delay configured, and the event sequence is `quiet`:
   time does not run backwards, nobody kills the engine from outside, and no producer writes output once the
   producers are finished (the notification follows the last output).  Then an engine that is cancelled - which
   it can then only have done itself - and was able to consume, with last producer output at time l:
   (a) for EVERY repeatRetries: either some execution started at or after l, or the engine never executed at
       all and l is not newer than its own start (this is exactly finding F13);
   (b) with repeatRetries >= 5 some execution started at or after l.  The spacing of the polls is not assumed:
       it is derived from schedule_next_instance (>= 5 s after the previous invocation ended). *)
Theorem C13_final_output_classified : forall c evs l,
  c_has_delay c = false -> quiet c (init c) evs ->
  let s := run c (init c) evs in
  cancel s = true -> consume s = true -> lo s = Some l ->
  (exists x, In x (execs s) /\ l <= x_launch x) \/ (execs s = [] /\ l <= c_t0 c).
Proof. intros c evs l Hd Hq. exact (final_output_classified c Hd evs Hq l). Qed.
Print Assumptions C13_final_output_classified.

Theorem C13_sees_final_output : forall c evs l,
  c_has_delay c = false -> 5 <= eff_retries c -> quiet c (init c) evs ->
  let s := run c (init c) evs in
  cancel s = true -> consume s = true -> lo s = Some l ->
  exists x, In x (execs s) /\ l <= x_launch x.
Proof. intros c evs l Hd HR Hq. exact (sees_final_output c Hd HR evs Hq l). Qed.
Print Assumptions C13_sees_final_output.

(* non-vacuity: default retries; an execution, the notification, a failed execution, a poll without new output,
   new output and a successful execution: two retries used, the engine stops by itself *)
Definition ex_cfg : cfg := {| c_retries := None; c_has_prod := true; c_same_stage := true; c_prod_rep := true;
  c_check_out := true; c_has_delay := false; c_interval := 10000; c_t0 := 100000 |}.
Definition ex_o rc := {| o_fail := false; o_rc := rc; o_dur := 1000; o_re := false; o_sui := false |}.
Example C13_nonvacuous :
  let s := run ex_cfg (init ex_cfg)
    [Poll (ex_o 0); Adv 5000; Out; Poll (ex_o 0); Adv 5000; Poll (ex_o 0); Adv 5000; Out; Notify; Poll (ex_o 1);
     Adv 5000; Poll (ex_o 1); Adv 5000; Out; Poll (ex_o 0)] in
  map x_launch (rev (execs s)) = [110000; 116000; 127000] /\ retries s = 1 /\ cancel s = true /\ mon_done s = true /\
  exit_reason s = RSuccess /\ pf s = true /\ nact s = 5.
Proof. vm_compute. repeat split; reflexivity. Qed.

(* the hypotheses of C13_sees_final_output are satisfiable by a run in which the engine stops by itself:
   6 retries, output older than the start, notified before the first poll: the fifth poll is forced to execute *)
Definition ex_cfg6 : cfg := {| c_retries := Some 6; c_has_prod := true; c_same_stage := true; c_prod_rep := true;
  c_check_out := true; c_has_delay := false; c_interval := 10000; c_t0 := 100000 |}.
Definition ex_evs6 : list event :=
  [Out; Notify; Poll (ex_o 0); Adv 5000; Poll (ex_o 0); Adv 5000; Poll (ex_o 0); Adv 5000; Poll (ex_o 0);
   Adv 5000; Poll (ex_o 0); Adv 5000; Poll (ex_o 0)].
Example C13_sees_nonvacuous :
  quiet ex_cfg6 (init ex_cfg6) ex_evs6 /\
  let s := run ex_cfg6 (init ex_cfg6) ex_evs6 in
  cancel s = true /\ consume s = true /\ lo s = Some 100000 /\ map x_launch (execs s) = [125000] /\ retries s = 1.
Proof.
  vm_compute. repeat split; try reflexivity; try (intro H; discriminate H); try (intros _ H; discriminate H).
Qed.
