(* C13 — A repeating observer sees its producers' final output and then stops.  Property theorems only. *)
From Coq Require Import ZArith List Bool Lia.
From Coq Require String.
Import ListNotations.
Require Import V.Repeat.Model V.Repeat.Proofs V.Repeat.Final V.Repeat.Producers V.Repeat.Steps.
Require Import V.Repeat.RefsModel V.Repeat.RefsProofs.
Open Scope Z_scope.

(* Never executes before there is output it can consume: in every run (any interleaving of clock advances,
   producer writes, the notification, kills, timer expiry and monitor polls, any task outcomes) every task
   launch was made by a poll in a state where canConsume's condition held (EVERY producer in the observer's stage
   has output; any number of producers), at that state's clock. *)
Theorem C13_no_early_run : forall c evs x, In x (execs (run c (init c) evs)) ->
  exists evs1 o evs2, evs = evs1 ++ Poll o :: evs2 /\
    x_launch x = now (run c (init c) evs1) /\ can_consume c (run c (init c) evs1) = true.
Proof.
  intros c evs x H.
  destruct (no_early_run_gen c evs (init c) x) as [F|R]; auto.
  - unfold I2; cbn; discriminate.
  - destruct F.
Qed.
Print Assumptions C13_no_early_run.

(* ... and that condition means: each producer in the observer's stage has written output *)
Theorem C13_consume_needs_output : forall c s i p,
  nth_error (c_prods c) i = Some p -> p_same p = true -> can_consume c s = true -> exists l, lo_of (lo s) i = Some l.
Proof. intros c s i p Hn Hs H. exact (can_consume_l_nth (c_prods c) (lo s) i p H Hn Hs). Qed.
Print Assumptions C13_consume_needs_output.

(* Bounded stop: from any reachable state in which the producers are finished, as long as the engine is not
   cancelled the controller has been invoked at most repeatRetries more times (each invocation costs one retry). *)
Theorem C13_bounded_stop : forall c evs1 evs2, 0 <= eff_retries c ->
  let s1 := run c (init c) evs1 in let s2 := run c s1 evs2 in
  pf s1 = true -> cancel s2 = false ->
  nact s2 - nact s1 <= retries s1 /\ retries s1 <= eff_retries c.
Proof. intros c evs1 evs2 H. exact (bounded_stop c H evs1 evs2). Qed.
Print Assumptions C13_bounded_stop.

(* the invocation made with no retries left cancels; so does the first successful execution after the notification *)
Theorem C13_last_retry_cancels : forall c s o,
  pf s = true -> retries s = 0 -> suicide s = false -> cancel (act c s o) = true.
Proof. exact act_no_retries. Qed.
Print Assumptions C13_last_retry_cancels.

Theorem C13_success_cancels : forall c s o,
  pf s = true -> suicide s = false -> will_exec c s = true -> o_fail o = false -> o_rc o = 0 ->
  cancel (act c s o) = true.
Proof. exact act_success_cancels. Qed.
Print Assumptions C13_success_cancels.

(* kill delay: the expiry of the timer cancels the engine, at once between two executions, at the end of the
   execution in progress otherwise *)
Theorem C13_kill_delay : forall c s,
  armed s = true ->
  cancel (step c s Suicide) = true /\
  (forall o, suicide s = false -> will_exec c s = true -> o_fail o = false -> o_sui o = true ->
             cancel (act c s o) = true).
Proof.
  intros c s H. split; [apply (suicide_cancels c s H)|]. intros o. apply suicide_in_wait_cancels; auto.
Qed.
Print Assumptions C13_kill_delay.

(* a poll that leaves the engine cancelled is the monitor's last; a cancelled engine stops at the next poll
   without executing, and reports itself finished; afterwards nothing is ever launched again *)
Theorem C13_cancelled_then_stops : forall c s o,
  (cancel (poll c s o) = true -> mon_done (poll c s o) = true) /\
  (cancel s = true -> mon_done s = false ->
     let s' := step c s (Poll o) in
     mon_done s' = true /\ alive s' = false /\ exit_reason s' <> RNone /\ execs s' = execs s /\ nact s' = nact s) /\
  (mon_done s = true -> forall evs, mon_done (run c s evs) = true /\ execs (run c s evs) = execs s /\
                                    nact (run c s evs) = nact s).
Proof.
  intros c s o. split; [apply poll_cancel_done|]. split; [apply cancelled_poll_stops|].
  intros H evs. apply done_frozen, H.
Qed.
Print Assumptions C13_cancelled_then_stops.

(* Sees the final output, for ANY number of producers and EVERY repeatRetries (the model is the code after fix F13).
   Hypotheses, all explicit: no kill delay configured, and the event sequence is `quiet`: time does not run
   backwards, nobody kills the engine from outside, and no producer writes output once the producers are finished.
   Then an engine that is cancelled - which it can then only have done itself - and was able to consume has started
   an execution at or after the last output of every one of its producers.  Each hypothesis is necessary
   (Refuted.v: C13_kill_delay_exempt_refuted, C13_external_kill_exempt_refuted, C13_late_output_refuted). *)
Theorem C13_sees_final_output : forall c evs,
  c_has_delay c = false -> quiet c (init c) evs ->
  let s := run c (init c) evs in
  cancel s = true -> consume s = true ->
  exists x, In x (execs s) /\ forall i p l, nth_error (c_prods c) i = Some p -> lo_of (lo s) i = Some l -> l <= x_launch x.
Proof. intros c evs Hd Hq. exact (sees_final_output c Hd evs Hq). Qed.
Print Assumptions C13_sees_final_output.

(* the statement proved before the repair (kept: it is now the weaker one - its second alternative, the
   never-executed observer of finding F13, no longer occurs) *)
Theorem C13_final_output_classified : forall c evs,
  c_has_delay c = false -> quiet c (init c) evs ->
  let s := run c (init c) evs in
  cancel s = true -> consume s = true ->
  (exists x, In x (execs s) /\ after_all_output c s (x_launch x)) \/ (execs s = [] /\ after_all_output c s (c_t0 c)).
Proof. intros c evs Hd Hq s H1 H2. left. exact (sees_final_output c Hd evs Hq H1 H2). Qed.
Print Assumptions C13_final_output_classified.

(* The `quiet` hypothesis DERIVED from a model of the producers: each producer writes only while it is alive, and
   the notification is delivered when the last living producer finishes (at once when there is none).  For every
   history of writes/finishes of any number of producers, interleaved in any way with clock advances, polls and
   task outcomes (the environment only may not forge producer events, run the clock backwards or kill), what the
   engine sees is quiet, hence the final output of every producer is observed. *)
Theorem C13_producers_are_quiet : forall c pes, Forall env_ok pes -> quiet c (init c) (ptrace c pes).
Proof. exact ptrace_quiet. Qed.
Print Assumptions C13_producers_are_quiet.

(* ... also when some producers have already finished when the subscription is made (ComponentState.stageIn subscribes
   to the living ones only); and the producer-level scripts that the correspondence runs through the REAL
   ComponentState.stageIn subscription (run_steps3) are such producer histories *)
Theorem C13_producer_scripts_are_quiet : forall c al l,
  Forall env_ok (flats3 l) ->
  let s0 := if all_dead al then step c (init c) Notify else init c in
  snd (run_steps3 c al s0 l) = run c (init c) (ptrace_from al (flats3 l)) /\
  quiet c (init c) (ptrace_from al (flats3 l)).
Proof.
  intros c al l H. cbv zeta. split; [|apply ptrace_from_quiet, H].
  rewrite run_steps3_state. unfold ptrace_from. destruct (all_dead al); reflexivity.
Qed.
Print Assumptions C13_producer_scripts_are_quiet.

Theorem C13_sees_final_output_producers : forall c pes,
  c_has_delay c = false -> Forall env_ok pes ->
  let s := run c (init c) (ptrace c pes) in
  cancel s = true -> consume s = true ->
  exists x, In x (execs s) /\ forall i p l, nth_error (c_prods c) i = Some p -> lo_of (lo s) i = Some l -> l <= x_launch x.
Proof. exact sees_final_output_producers. Qed.
Print Assumptions C13_sees_final_output_producers.

(* Scripts - the form in which the correspondence drives the real engine, with the producers-finished notification
   possibly delivered WHILE a task execution is in flight (run_steps2) - are event sequences, so every theorem
   above holds of them; without mid-execution events run_steps2 is run_steps. *)
Theorem C13_script_is_event_sequence : forall c l s,
  snd (run_steps2 c s l) = run c s (flats2 l) /\ run_steps2 c s (map lift2 (map fst l)) = run_steps c s (map fst l).
Proof. intros c l s. split; [apply run_steps2_state|apply run_steps2_lift]. Qed.
Print Assumptions C13_script_is_event_sequence.

(* a notification delivered during the execution of a poll is indistinguishable, from the next observation on,
   from one delivered first thing in the following sleep *)
Theorem C13_mid_execution_notification : forall c s dt evs o dt' evs' o' post' r,
  let a := run_steps2 c s ((dt, evs, o, [Notify]) :: (dt', evs', o', post') :: r) in
  let b := run_steps2 c s ((dt, evs, o, []) :: (dt', Notify :: evs', o', post') :: r) in
  snd a = snd b /\ tl (fst a) = tl (fst b).
Proof. exact mid_notify_refines. Qed.
Print Assumptions C13_mid_execution_notification.

(* bounded stop for scripts with mid-execution events *)
Theorem C13_steps2_bounded_stop : forall c l1 l2, 0 <= eff_retries c ->
  let s1 := snd (run_steps2 c (init c) l1) in let s2 := snd (run_steps2 c s1 l2) in
  pf s1 = true -> cancel s2 = false ->
  nact s2 - nact s1 <= retries s1 /\ retries s1 <= eff_retries c.
Proof.
  intros c l1 l2 H. cbv zeta. rewrite !run_steps2_state. exact (bounded_stop c H (flats2 l1) (flats2 l2)).
Qed.
Print Assumptions C13_steps2_bounded_stop.

(* cancelled, then stops, for scripts with mid-execution events: the first script step made on a cancelled engine
   is the monitor's last, no task is launched and the controller is not invoked in it or ever after, and every
   observation from then on shows that; once the monitor has returned every observation shows a dead engine with
   an exit reason *)
Theorem C13_steps2_cancelled_then_stops : forall c s,
  (cancel s = true -> forall dt evs o post r,
     let res := run_steps2 c s ((dt, evs, o, post) :: r) in
     execs (snd res) = execs s /\ nact (snd res) = nact s /\ mon_done (snd res) = true /\
     Forall (quiet_obs s) (fst res)) /\
  (stopped s -> forall l,
     Forall (frozen_obs s) (fst (run_steps2 c s l)) /\ stopped (snd (run_steps2 c s l)) /\
     execs (snd (run_steps2 c s l)) = execs s /\ nact (snd (run_steps2 c s l)) = nact s).
Proof.
  intros c s. split.
  - intros H dt evs o post r. exact (cancelled_steps2 c s dt evs o post r H).
  - intros H l. exact (stopped_steps2 c l s H).
Qed.
Print Assumptions C13_steps2_cancelled_then_stops.

(* WHOM the observer waits for (ComponentState.producers, run by ComponentState.stageIn).  The producer list has one
   entry per component id the observer's references resolve to, looked up in the graph by the PAIR (stage, name) -
   component names are unique within a stage only.  If the graph's keys are unique and every living producer is an
   instantiated component the observer references (any number of references to it, in any order, next to references
   to same-named components of other stages and to components that were not instantiated), the list contains it ... *)
Theorem C13_producer_list_complete : forall g refs al w,
  keys_unique g -> references_living g refs al -> producers_of g refs = Some w ->
  forall i, is_alive al i = true -> In i w.
Proof. exact producers_cover. Qed.
Print Assumptions C13_producer_list_complete.

(* ... it contains nothing but instantiated components the observer references (the observer never waits for a
   stranger), and it exists whenever every reference names a node of the graph *)
Theorem C13_producer_list_exact : forall g refs,
  (forall w, producers_of g refs = Some w ->
     forall i, In i w -> exists n, In n g /\ g_comp n = Some i /\ In (g_id n) (concat refs)) /\
  ((forall r, In r (concat refs) -> exists n, In n g /\ g_id n = r) -> exists w, producers_of g refs = Some w).
Proof.
  intros g refs. split; [intros w; apply producers_only_referenced|].
  intros H. exact (resolve_defined g (concat refs) H).
Qed.
Print Assumptions C13_producer_list_exact.

(* ... hence what the engine sees when stageIn merges the notifyFinished of the living entries of that list
   (ptrace_w) is what it sees when ALL living producers are waited for (ptrace_from, the producer model of
   C13_producers_are_quiet): the notification is delivered when the last living producer finishes, no output
   follows it; and the producer-level scripts of the correspondence, run with the pending list of the merge
   (run_steps4), are the scripts of C13_producer_scripts_are_quiet *)
Theorem C13_waits_for_all_living_producers : forall c g refs al w pes,
  keys_unique g -> references_living g refs al -> producers_of g refs = Some w ->
  ptrace_w w al pes = ptrace_from al pes /\
  (Forall env_ok pes -> quiet c (init c) (ptrace_w w al pes)).
Proof. exact waits_for_all_living. Qed.
Print Assumptions C13_waits_for_all_living_producers.

Theorem C13_reference_scripts_are_producer_scripts : forall c g refs al w l,
  keys_unique g -> references_living g refs al -> producers_of g refs = Some w ->
  let pend := pending0 w al in
  (if is_nil pend then step c (init c) Notify else init c) = (if all_dead al then step c (init c) Notify else init c) /\
  forall s, run_steps4 c pend al s l = run_steps3 c al s l.
Proof. exact scripts4_are_scripts3. Qed.
Print Assumptions C13_reference_scripts_are_producer_scripts.

(* the final-output clause with the producers found through the observer's references *)
Theorem C13_sees_final_output_references : forall c g refs al w pes,
  c_has_delay c = false -> keys_unique g -> references_living g refs al -> producers_of g refs = Some w ->
  Forall env_ok pes ->
  let s := run c (init c) (ptrace_w w al pes) in
  cancel s = true -> consume s = true ->
  exists x, In x (execs s) /\ forall i p l, nth_error (c_prods c) i = Some p -> lo_of (lo s) i = Some l -> l <= x_launch x.
Proof. exact sees_final_output_refs. Qed.
Print Assumptions C13_sees_final_output_references.

(* non-vacuity: default retries; an execution, the notification, a failed execution, a poll without new output,
   new output and a successful execution: two retries used, the engine stops by itself *)
Definition pr (same rep : bool) : prod := {| p_same := same; p_rep := rep |}.
Definition ex_cfg : cfg := {| c_retries := None; c_prods := [pr true true];
  c_check_out := true; c_has_delay := false; c_interval := 10000; c_t0 := 100000 |}.
Definition ex_o rc := {| o_fail := false; o_rc := rc; o_dur := 1000; o_re := false; o_sui := false |}.
Example C13_nonvacuous :
  let s := run ex_cfg (init ex_cfg)
    [Poll (ex_o 0); Adv 5000; Out 0; Poll (ex_o 0); Adv 5000; Poll (ex_o 0); Adv 5000; Out 0; Notify; Poll (ex_o 1);
     Adv 5000; Poll (ex_o 1); Adv 5000; Out 0; Poll (ex_o 0)] in
  map x_launch (rev (execs s)) = [110000; 116000; 127000] /\ retries s = 1 /\ cancel s = true /\ mon_done s = true /\
  exit_reason s = RSuccess /\ pf s = true /\ nact s = 5.
Proof. vm_compute. repeat split; reflexivity. Qed.

(* the hypotheses of C13_sees_final_output(_producers) are satisfiable by a run in which the engine stops by itself:
   two same-stage repeating producers, default retries; the observer cannot consume until BOTH have output; the
   first producer finishes (a later write of it is not made), the second writes once more and finishes: the
   notification follows; the observer then executes (at 121 s) after that last output (at 116 s) and stops *)
Definition ex_cfg2 : cfg := {| c_retries := None; c_prods := [pr true true; pr true true];
  c_check_out := true; c_has_delay := false; c_interval := 10000; c_t0 := 100000 |}.
Definition ex_pes2 : list pevent :=
  [PWrite 0; PEnv (Poll (ex_o 0)); PEnv (Adv 5000); PEnv (Poll (ex_o 0)); PWrite 1; PEnv (Adv 5000); PEnv (Poll (ex_o 0));
   PFinish 0; PEnv (Adv 5000); PWrite 0; PWrite 1; PFinish 1; PEnv (Adv 5000); PEnv (Poll (ex_o 0))].
Example C13_sees_nonvacuous :
  Forall env_ok ex_pes2 /\
  ptrace ex_cfg2 ex_pes2 =
    [Out 0; Poll (ex_o 0); Adv 5000; Poll (ex_o 0); Out 1; Adv 5000; Poll (ex_o 0); Adv 5000; Out 1; Notify; Adv 5000;
     Poll (ex_o 0)] /\
  quiet ex_cfg2 (init ex_cfg2) (ptrace ex_cfg2 ex_pes2) /\
  let s := run ex_cfg2 (init ex_cfg2) (ptrace ex_cfg2 ex_pes2) in
  cancel s = true /\ consume s = true /\ lo s = [Some 100000; Some 116000] /\
  map x_launch (rev (execs s)) = [110000; 121000] /\ retries s = 3 /\ mon_done s = true.
Proof.
  split; [repeat constructor; try discriminate; cbn; try lia|].
  vm_compute. repeat split; try reflexivity; try (intro H; discriminate H); try (intros _ j H; discriminate H);
    try (intros H j; discriminate H).
Qed.

(* the repaired case of finding F13: output older than the observer's start, notified before the first poll,
   repeatRetries 0: the first poll executes (and stops the observer) *)
Example C13_never_executed_nonvacuous :
  let c := {| c_retries := Some 0; c_prods := [pr true true]; c_check_out := true; c_has_delay := false;
              c_interval := 10000; c_t0 := 100000 |} in
  let evs := [Out 0; Notify; Poll (ex_o 0)] in
  quiet c (init c) evs /\ let s := run c (init c) evs in
  cancel s = true /\ consume s = true /\ lo s = [Some 100000] /\ map x_launch (execs s) = [100000].
Proof.
  vm_compute. repeat split; try reflexivity; try (intro H; discriminate H); try (intros _ j H; discriminate H);
    try (intros H j; discriminate H).
Qed.

(* the hypotheses about references are satisfiable where they matter: the observer (stage 2) references its running
   same-stage subject stage2.sim FIRST and then the finished stage0.sim - the same NAME in another stage -, the
   subject once more through a loop reference that also stands for stage1.sim, a component that was never
   instantiated; stage1.obs is a same-named stranger.  The producer list is [subject; old; subject] - nothing
   collapses -, the subject is waited for: it writes, finishes (that is the notification), and the observer
   executes after that last output and stops *)
Import String.
Definition ex_id (s : Z) (n : String.string) : cid := {| i_stage := s; i_name := n |}.
Definition ex_g : list gnode :=
  [ {| g_id := ex_id 0 "sim"%string; g_comp := Some 1%nat |}; {| g_id := ex_id 1 "sim"%string; g_comp := None |};
    {| g_id := ex_id 2 "sim"%string; g_comp := Some 0%nat |}; {| g_id := ex_id 2 "obs"%string; g_comp := Some 7%nat |};
    {| g_id := ex_id 1 "obs"%string; g_comp := Some 8%nat |} ].
Definition ex_refs : list (list cid) := [[ex_id 2 "sim"%string]; [ex_id 0 "sim"%string]; [ex_id 2 "sim"%string; ex_id 1 "sim"%string]].
Definition ex_cfg3 : cfg := {| c_retries := None; c_prods := [pr true true; pr false true];
  c_check_out := true; c_has_delay := false; c_interval := 10000; c_t0 := 100000 |}.
Definition ex_pes3 : list pevent :=
  [PWrite 0; PWrite 1; PEnv (Poll (ex_o 0)); PEnv (Adv 5000); PFinish 1; PEnv (Poll (ex_o 0)); PEnv (Adv 5000); PWrite 0; PFinish 0;
   PEnv (Poll (ex_o 0)); PEnv (Adv 5000); PEnv (Poll (ex_o 0))].
Example C13_references_nonvacuous :
  keys_unique ex_g /\ references_living ex_g ex_refs [true; false] /\
  producers_of ex_g ex_refs = Some [0; 1; 0]%nat /\ pending0 [0; 1; 0]%nat [true; false] = [0; 0]%nat /\
  Forall env_ok ex_pes3 /\
  ptrace_w [0; 1; 0]%nat [true; false] ex_pes3 =
    [Out 0; Poll (ex_o 0); Adv 5000; Poll (ex_o 0); Adv 5000; Out 0; Notify; Poll (ex_o 0); Adv 5000; Poll (ex_o 0)] /\
  let s := run ex_cfg3 (init ex_cfg3) (ptrace_w [0; 1; 0]%nat [true; false] ex_pes3) in
  cancel s = true /\ consume s = true /\ lo s = [Some 110000; None] /\
  map x_launch (rev (execs s)) = [110000] /\ mon_done s = true.
Proof.
  split.
  { intros n m Hn Hm. cbn in Hn, Hm.
    repeat (destruct Hn as [<-|Hn]; [repeat (destruct Hm as [<-|Hm]; [first [reflexivity|intros H; discriminate H]|]); destruct Hm|]).
    destruct Hn. }
  split.
  { intros [|[|[|i]]] H; try discriminate H.
    exists {| g_id := ex_id 2 "sim"%string; g_comp := Some 0%nat |}. cbn. auto 10. }
  split; [reflexivity|]. split; [reflexivity|].
  split; [repeat constructor; try discriminate; cbn; try lia|].
  vm_compute. repeat split; reflexivity.
Qed.

(* ---------------------------------------------------------------------------------------------------------------
   What counts as "producer output" (WorkDir.v: experiment.model.storage.WorkingDirectory + the staging part of
   Job.stageIn).  The engine theorems above speak of lo = the time of a producer's latest output; these say what
   that is in terms of the producer's working directory. *)
Require V.Repeat.WorkDir.
Module W := V.Repeat.WorkDir.

(* staged-in inputs are NOT output: right after Job.stageIn a component without copyout references has no output,
   whatever its copy / link references brought into the directory and whatever was there before *)
Theorem C13_staged_inputs_are_not_output : forall d ins t, W.w_ignore d = false -> W.output (W.stage_in d ins [] t) = [].
Proof. exact W.stage_in_no_output. Qed.
Print Assumptions C13_staged_inputs_are_not_output.

(* ... in general its output is then exactly what its copyout references staged (output by design) *)
Theorem C13_output_after_stage_in : forall d ins outs t m, W.w_ignore d = false ->
  (In m (W.names (W.output (W.stage_in d ins outs t))) <-> In m outs /\ ~ (In m ins \/ In m (W.names (W.w_files d)))).
Proof. exact W.stage_in_output. Qed.
Print Assumptions C13_output_after_stage_in.

(* ... and afterwards a file is output iff it was, or the component wrote it and it is not one of its inputs *)
Theorem C13_output_is_what_was_written : forall d n t m,
  In m (W.names (W.output (W.wd_put d n t))) <-> In m (W.names (W.output d)) \/ (m = n /\ ~ In n (W.w_inputs d)).
Proof. exact W.put_output. Qed.
Print Assumptions C13_output_is_what_was_written.

(* the two questions the engine asks a producer's directory - canConsume: len(output) == 0,
   producersHaveOutputSinceDate: len(outputSinceDate(date)) > 0 - are the model's tests on lo *)
Theorem C13_directory_output_is_lo : forall d,
  is_some (W.lo_wd d) = negb (is_nil (W.output d)) /\
  forall date, negb (is_nil (W.output_since d date)) = match W.lo_wd d with Some l => l >? date | None => false end.
Proof. intro d. split; [exact (W.has_output_lo d) | exact (W.since_lo d)]. Qed.
Print Assumptions C13_directory_output_is_lo.

(* the model's Out event (lo := Some now) is a producer writing a file that is not one of its inputs *)
Theorem C13_write_is_out_event : forall d n t, ~ In n (W.w_inputs d) -> (forall f, In f (W.output d) -> snd f <= t) ->
  W.lo_wd (W.wd_put d n t) = Some t.
Proof. exact W.write_sets_lo. Qed.
Print Assumptions C13_write_is_out_event.

Theorem C13_rewritten_input_is_not_output : forall d n t, In n (W.w_inputs d) ->
  W.names (W.output (W.wd_put d n t)) = W.names (W.output d).
Proof. exact W.rewrite_input_no_output. Qed.
Print Assumptions C13_rewritten_input_is_not_output.

(* a source-like subject stages in two files of the package: no output, its observer cannot consume; it writes:
   output, lo is the time of the write, the observer can consume; a copyout reference is output at once *)
Example C13_producer_output_nonvacuous :
  let d0 := W.wd_create [] false in
  let d1 := W.stage_in d0 ["seed.txt"%string; "mesh.dat"%string] [] 100000 in
  let d2 := W.wd_put d1 "out.dat"%string 115000 in
  W.names (W.w_files d1) = ["seed.txt"%string; "mesh.dat"%string] /\ W.output d1 = [] /\ W.lo_wd d1 = None /\
  can_consume_l [pr true false] [W.lo_wd d1] = false /\
  W.lo_wd d2 = Some 115000 /\ can_consume_l [pr true false] [W.lo_wd d2] = true /\
  W.names (W.output (W.wd_put d2 "seed.txt"%string 120000)) = ["out.dat"%string] /\
  W.names (W.output (W.stage_in d0 ["seed.txt"%string] ["f.txt"%string] 100000)) = ["f.txt"%string].
Proof. vm_compute. repeat split; reflexivity. Qed.

(* ------------------------------------------------------------------ the kill delay WITH ITS VALUE (Delay.v) *)
(* The timer is no longer scripted: kill-after-producers-done-delay is configured with a value (any number of
   milliseconds, 0 = "stop as soon as the producers are done" included), the notification arms the timer, the clock makes
   it expire - between two events, during the execution in flight, or at the very moment of a notification that
   arrives during an execution.  DL.tfinal = the state after a timed script (steps: sleep, events, task outcome, "the
   notification arrives during this execution"); snd = the time at which the pending timer was armed. *)
Require V.Repeat.Delay.
Module DL := V.Repeat.Delay.

(* "... or the configured kill delay expires": whatever the script - any task durations and outcomes, any placement of
   the notification -, at every moment at which the engine has been told that its producers are finished, the option is
   set and the clock has reached (time the timer was armed) + delay, the engine is cancelled (and then stops:
   C13_cancelled_then_stops).  Every value of the delay, 0 and negative included. *)
Theorem C13_kill_delay_expires : forall c d l,
  DL.durs_ok l ->
  let sd := DL.tfinal c d (init c, c_t0 c) l in
  pf (fst sd) = true -> c_has_delay c = true -> snd sd + d <= now (fst sd) -> cancel (fst sd) = true.
Proof. exact DL.kill_delay_expires. Qed.
Print Assumptions C13_kill_delay_expires.

(* ... the time the timer records is that of the notification that armed it *)
Theorem C13_kill_delay_armed_at_notification : forall c d s tn,
  armed s = false -> snd (DL.tev c d (s, tn) Notify) = now s.
Proof. exact DL.armed_at_notification. Qed.
Print Assumptions C13_kill_delay_armed_at_notification.

(* the boundary value: with delay 0 an engine whose producers are finished is cancelled at EVERY observation - the
   configured value 0 is a configured delay (DL.with_delay: c_has_delay = is_some d), not an absent one *)
Theorem C13_kill_delay_zero : forall c d l,
  d <= 0 -> Forall DL.tsstep_ok l ->
  let sd := DL.tfinal c d (init c, c_t0 c) l in
  pf (fst sd) = true -> c_has_delay c = true -> cancel (fst sd) = true.
Proof. exact DL.kill_delay_zero. Qed.
Print Assumptions C13_kill_delay_zero.

(* a timer that expires during the very execution in which the notification arrives stops the engine with that
   execution: cancelled, the monitor returns, no retry is used, exactly that one launch is recorded *)
Theorem C13_mid_execution_expiry_stops : forall c s o,
  let x := last_tick (DL.act_mid c s o) in
  cancel x = true /\ mon_done x = true /\ alive x = false /\ retries x = retries s /\
  execs x = {| x_launch := now s; x_pf := pf s; x_rc := if o_fail o then None else Some (o_rc o) |} :: execs s.
Proof. exact DL.act_mid_stops. Qed.
Print Assumptions C13_mid_execution_expiry_stops.

(* the observations of a timed script (what the correspondence compares, DL.check_case5) are taken in the states
   C13_kill_delay_expires / _zero speak about *)
Theorem C13_timed_observations : forall c d l sd, snd (DL.trun_steps c d sd l) = DL.tfinal c d sd l.
Proof. intros c d l sd. exact (DL.trun_steps_final c d l sd). Qed.
Print Assumptions C13_timed_observations.

(* non-vacuity: delay 0 - a 12 s task is in flight when the producers finish: the timer expires at once, the observer
   stops with that execution (one launch, all retries left); the same script with the option absent carries on (3 more
   launches); delay 12 s, failing executions: two more executions, the timer expires during the second *)
Definition ex_long rc dur := {| o_fail := false; o_rc := rc; o_dur := dur; o_re := false; o_sui := false |}.
Definition ex_tcfg (d : option Z) : cfg := DL.with_delay
  {| c_retries := Some 3; c_prods := [pr true false]; c_check_out := true; c_has_delay := false; c_interval := 10000; c_t0 := 100000 |} d.
Definition ex_tscript : list DL.tsstep :=
  [(0, [Out 0], ex_long 1 12000, true); (5000, [], ex_long 1 1000, false); (5000, [], ex_long 1 1000, false);
   (5000, [], ex_long 1 1000, false)].
Example C13_kill_delay_nonvacuous :
  c_has_delay (ex_tcfg (Some 0)) = true /\ c_has_delay (ex_tcfg None) = false /\
  DL.durs_ok ex_tscript /\ Forall DL.tsstep_ok ex_tscript /\
  (let sd := DL.tfinal (ex_tcfg (Some 0)) 0 (init (ex_tcfg (Some 0)), 100000) ex_tscript in
   pf (fst sd) = true /\ snd sd = 112000 /\ cancel (fst sd) = true /\ mon_done (fst sd) = true /\ suicide (fst sd) = true /\
   map x_launch (rev (execs (fst sd))) = [100000] /\ retries (fst sd) = 3) /\
  (let sd := DL.tfinal (ex_tcfg None) 0 (init (ex_tcfg None), 100000) ex_tscript in
   pf (fst sd) = true /\ cancel (fst sd) = false /\ List.length (execs (fst sd)) = 4%nat) /\
  (let sd := DL.tfinal (ex_tcfg (Some 12000)) 12000 (init (ex_tcfg (Some 12000)), 100000)
               [(0, [Out 0], ex_long 1 1000, false); (5000, [Notify], ex_long 1 1000, false); (5000, [], ex_long 1 26000, false);
                (5000, [], ex_long 1 1000, false)] in
   snd sd = 106000 /\ cancel (fst sd) = true /\ suicide (fst sd) = true /\ now (fst sd) = 143000 /\
   map x_launch (rev (execs (fst sd))) = [100000; 106000; 112000] /\ retries (fst sd) = 2).
Proof.
  split; [reflexivity|]. split; [reflexivity|].
  split. { intros k Hk. cbn in Hk. repeat (destruct Hk as [<-|Hk]; [cbn; lia|]). destruct Hk. }
  split. { repeat constructor; cbn; lia. }
  vm_compute. repeat split; reflexivity.
Qed.
