(* C13 — the producer list built by ComponentState.producers contains every living producer the observer references
   (also when component names clash across stages and when a producer is referenced several times), and nothing the
   observer does not reference; hence waiting for the living entries of that list (stageIn) is waiting for ALL living
   producers: the producer-level theorems of Producers.v apply to what the real subscription does. *)
From Coq Require Import ZArith List Bool Lia Arith.
From Coq Require String.
Import ListNotations.
Require Import V.Repeat.Model V.Repeat.Proofs V.Repeat.Final V.Repeat.Producers V.Repeat.RefsModel.
Open Scope Z_scope.

(* ---- the graph lookup *)
Lemma cid_eqb_eq a b : cid_eqb a b = true <-> a = b.
Proof.
  unfold cid_eqb. destruct a as [sa na], b as [sb nb]; cbn. rewrite andb_true_iff, Z.eqb_eq, String.eqb_eq.
  split; [intros [-> ->]; reflexivity|intros H; inversion H; auto].
Qed.

(* component names are unique within a stage: no two nodes share the key (stage, name) *)
Definition keys_unique (g : list gnode) : Prop := forall n m, In n g -> In m g -> g_id n = g_id m -> n = m.

Lemma node_of_unique g n : keys_unique g -> In n g -> node_of g (g_id n) = Some n.
Proof.
  intros Hu Hn. unfold node_of. destruct (find _ g) as [m|] eqn:E.
  - apply find_some in E. destruct E as [Hm He]. apply cid_eqb_eq in He. f_equal. apply Hu; auto.
  - exfalso. pose proof (find_none _ _ E n Hn) as H. cbn in H.
    assert (cid_eqb (g_id n) (g_id n) = true) by (apply cid_eqb_eq; reflexivity). congruence.
Qed.

Lemma node_of_in g r n : node_of g r = Some n -> In n g /\ g_id n = r.
Proof. unfold node_of. intros E. apply find_some in E. destruct E as [H1 H2]. apply cid_eqb_eq in H2. auto. Qed.

Lemma resolve_complete g ids : forall w, resolve g ids = Some w ->
  forall r n i, In r ids -> node_of g r = Some n -> g_comp n = Some i -> In i w.
Proof.
  induction ids as [|a rest IH]; intros w Hw r n i Hr Hn Hc; [destruct Hr|].
  cbn [resolve] in Hw. destruct (node_of g a) as [na|] eqn:Ea; [|discriminate].
  destruct (resolve g rest) as [l|] eqn:El; [|discriminate]. inversion Hw; subst w; clear Hw.
  destruct Hr as [->|Hr].
  - rewrite Hn in Ea. inversion Ea; subst na. rewrite Hc. left; reflexivity.
  - specialize (IH l eq_refl r n i Hr Hn Hc). destruct (g_comp na); [right|]; exact IH.
Qed.

Lemma resolve_sound g ids : forall w, resolve g ids = Some w ->
  forall i, In i w -> exists r n, In r ids /\ node_of g r = Some n /\ g_comp n = Some i.
Proof.
  induction ids as [|a rest IH]; intros w Hw i Hi.
  - inversion Hw; subst. destruct Hi.
  - cbn [resolve] in Hw. destruct (node_of g a) as [na|] eqn:Ea; [|discriminate].
    destruct (resolve g rest) as [l|] eqn:El; [|discriminate]. inversion Hw; subst w; clear Hw.
    destruct (g_comp na) as [j|] eqn:Ej.
    + destruct Hi as [<-|Hi].
      * exists a, na. split; [left; reflexivity|auto].
      * destruct (IH l eq_refl i Hi) as (r & n & H1 & H2 & H3). exists r, n. split; [right; exact H1|auto].
    + destruct (IH l eq_refl i Hi) as (r & n & H1 & H2 & H3). exists r, n. split; [right; exact H1|auto].
Qed.

Lemma resolve_defined g ids : (forall r, In r ids -> exists n, In n g /\ g_id n = r) -> exists w, resolve g ids = Some w.
Proof.
  induction ids as [|a rest IH]; intros H; [exists []; reflexivity|].
  destruct IH as [l El]; [intros r Hr; apply H; right; exact Hr|].
  destruct (H a (or_introl eq_refl)) as (n & Hn & Hid).
  cbn [resolve]. rewrite El. destruct (node_of g a) as [na|] eqn:Ea.
  - eexists; reflexivity.
  - exfalso. unfold node_of in Ea. pose proof (find_none _ _ Ea n Hn) as Hf. cbn in Hf.
    assert (cid_eqb (g_id n) a = true) by (apply cid_eqb_eq; exact Hid). congruence.
Qed.

(* every living producer is an instantiated component that the observer references *)
Definition references_living (g : list gnode) (refs : list (list cid)) (al : list bool) : Prop :=
  forall i, is_alive al i = true -> exists n, In n g /\ g_comp n = Some i /\ In (g_id n) (concat refs).

Lemma producers_cover g refs al w :
  keys_unique g -> references_living g refs al -> producers_of g refs = Some w ->
  forall i, is_alive al i = true -> In i w.
Proof.
  intros Hu Hr Hw i Hi. destruct (Hr i Hi) as (n & Hn & Hc & Hin).
  exact (resolve_complete g (concat refs) w Hw (g_id n) n i Hin (node_of_unique g n Hu Hn) Hc).
Qed.

Lemma producers_only_referenced g refs w :
  producers_of g refs = Some w ->
  forall i, In i w -> exists n, In n g /\ g_comp n = Some i /\ In (g_id n) (concat refs).
Proof.
  intros Hw i Hi. destruct (resolve_sound g (concat refs) w Hw i Hi) as (r & n & H1 & H2 & H3).
  destruct (node_of_in g r n H2) as [Hn Hid]. exists n. rewrite Hid. auto.
Qed.

(* ---- the pending list of the merge against the producers' alive flags *)
Definition same (pend : list nat) (al : list bool) : Prop := forall i, In i pend <-> is_alive al i = true.

Lemma is_alive_set_b i : forall al j, is_alive (set_b i false al) j = negb (Nat.eqb i j) && is_alive al j.
Proof.
  unfold is_alive. induction i as [|i IH]; intros [|a r] [|j]; cbn; auto;
    try (rewrite andb_false_r; reflexivity); try (destruct j; reflexivity).
Qed.

Lemma In_remove_nat i l j : In j (remove_nat i l) <-> In j l /\ i <> j.
Proof.
  unfold remove_nat. rewrite filter_In, negb_true_iff, Nat.eqb_neq. tauto.
Qed.

Lemma same_finish pend al i : same pend al -> same (remove_nat i pend) (set_b i false al).
Proof.
  intros H j. rewrite In_remove_nat, is_alive_set_b, andb_true_iff, negb_true_iff, Nat.eqb_neq, (H j). tauto.
Qed.

Lemma all_dead_of_nth al : (forall i, is_alive al i = false) -> all_dead al = true.
Proof.
  unfold all_dead, is_alive. induction al as [|a r IH]; intros H; [reflexivity|]. cbn.
  rewrite (H O : a = false). cbn. apply IH. intros i. exact (H (S i)).
Qed.

Lemma same_nil pend al : same pend al -> is_nil pend = all_dead al.
Proof.
  intros H. destruct pend as [|p r]; cbn [is_nil].
  - symmetry. apply all_dead_of_nth. intros i. destruct (is_alive al i) eqn:E; [|reflexivity].
    apply H in E. destruct E.
  - destruct (all_dead al) eqn:E; [|reflexivity].
    pose proof (all_dead_nth al E p) as Hp. rewrite (proj1 (H p) (or_introl eq_refl)) in Hp. discriminate.
Qed.

Lemma compile_p_same pes : forall pend al, same pend al -> compile_p pend al pes = compile al pes.
Proof.
  induction pes as [|pe r IH]; intros pend al H; [reflexivity|].
  destruct pe as [i|i|e]; cbn [compile_p compile].
  - destruct (is_alive al i); rewrite (IH pend al H); reflexivity.
  - destruct (is_alive al i) eqn:Ea; [|apply IH, H]. cbv zeta.
    pose proof (same_finish pend al i H) as H'.
    rewrite (same_nil _ _ H'), (IH _ _ H').
    assert (Hn : is_nil pend = false).
    { apply H in Ea. destruct pend; [destruct Ea|reflexivity]. }
    rewrite Hn. reflexivity.
  - rewrite (IH pend al H). reflexivity.
Qed.

Lemma pend_after_same pes : forall pend al, same pend al -> same (pend_after pend al pes) (alive_after al pes).
Proof.
  induction pes as [|pe r IH]; intros pend al H; [exact H|].
  destruct pe as [i|i|e]; cbn [pend_after alive_after]; try (apply IH, H).
  destruct (is_alive al i); [apply IH, same_finish, H|apply IH, H].
Qed.

Lemma run_steps4_eq c l : forall pend al s, same pend al -> run_steps4 c pend al s l = run_steps3 c al s l.
Proof.
  induction l as [|[[dt pes] o] r IH]; intros pend al s H; [reflexivity|].
  cbn [run_steps4 run_steps3]. rewrite (compile_p_same pes pend al H).
  rewrite (IH _ _ _ (pend_after_same pes pend al H)). reflexivity.
Qed.

Lemma pending0_same w al : (forall i, is_alive al i = true -> In i w) -> same (pending0 w al) al.
Proof.
  intros H i. unfold pending0. rewrite filter_In. split; [tauto|]. intros E. split; [apply H, E|exact E].
Qed.

(* waiting for the living entries of a list that contains every living producer = waiting for every living producer *)
Lemma ptrace_w_eq w al pes : (forall i, is_alive al i = true -> In i w) -> ptrace_w w al pes = ptrace_from al pes.
Proof.
  intros H. pose proof (pending0_same w al H) as Hs. unfold ptrace_w, ptrace_from. cbv zeta.
  rewrite <- (same_nil _ _ Hs). destruct (pending0 w al) as [|p r] eqn:E; cbn [is_nil].
  - rewrite (compile_p_same pes [] al Hs). reflexivity.
  - apply compile_p_same, Hs.
Qed.

Lemma waits_for_all_living c g refs al w pes :
  keys_unique g -> references_living g refs al -> producers_of g refs = Some w ->
  ptrace_w w al pes = ptrace_from al pes /\
  (Forall env_ok pes -> quiet c (init c) (ptrace_w w al pes)).
Proof.
  intros Hu Hr Hw. pose proof (ptrace_w_eq w al pes (producers_cover g refs al w Hu Hr Hw)) as E.
  split; [exact E|]. intros Hok. rewrite E. apply ptrace_from_quiet, Hok.
Qed.

Lemma scripts4_are_scripts3 c g refs al w l :
  keys_unique g -> references_living g refs al -> producers_of g refs = Some w ->
  let pend := pending0 w al in
  (if is_nil pend then step c (init c) Notify else init c) = (if all_dead al then step c (init c) Notify else init c) /\
  forall s, run_steps4 c pend al s l = run_steps3 c al s l.
Proof.
  intros Hu Hr Hw. cbv zeta.
  pose proof (pending0_same w al (producers_cover g refs al w Hu Hr Hw)) as Hs.
  split; [rewrite (same_nil _ _ Hs); reflexivity|]. intros s. apply run_steps4_eq, Hs.
Qed.

Lemma sees_final_output_refs c g refs al w pes :
  c_has_delay c = false -> keys_unique g -> references_living g refs al -> producers_of g refs = Some w ->
  Forall env_ok pes ->
  let s := run c (init c) (ptrace_w w al pes) in
  cancel s = true -> consume s = true -> exists x, In x (execs s) /\ after_all_output c s (x_launch x).
Proof.
  intros Hd Hu Hr Hw Hok. destruct (waits_for_all_living c g refs al w pes Hu Hr Hw) as [_ Hq].
  exact (sees_final_output c Hd (ptrace_w w al pes) (Hq Hok)).
Qed.
