(* C13 — an explicit model of the producers, from which the "no output after the notification" hypothesis of the
   final-output theorem is DERIVED: a producer writes only while it is alive; the producers-finished notification
   is delivered when the last living producer finishes (reactivex.merge of the producers' notifyFinished completes
   when all of them have completed: ComponentState.stageIn), at once if there is no producer to wait for. *)
From Coq Require Import ZArith List Bool Lia ZifyBool.
Import ListNotations.
Require Import V.Repeat.Model V.Repeat.Proofs V.Repeat.Final.
Open Scope Z_scope.

(* the environment does not forge the producers' events, does not run the clock backwards, does not kill *)
Definition env_ok (pe : pevent) : Prop :=
  match pe with PEnv e => okev e /\ (forall i, e <> Out i) /\ e <> Notify | _ => True end.

Lemma all_dead_nth al : all_dead al = true -> forall i, is_alive al i = false.
Proof.
  unfold all_dead, is_alive. induction al as [|a r IH]; intros H [|i]; cbn in *; auto.
  - apply andb_true_iff in H. destruct H as [H _]. destruct a; auto; discriminate.
  - apply andb_true_iff in H. destruct H as [_ H]. apply IH, H.
Qed.

Lemma pf_act_eq c s o : pf (act c s o) = pf s.
Proof. unfold act. destruct (suicide s); [reflexivity|]. destruct (will_exec c s); reflexivity. Qed.

Lemma pf_poll_eq c s o : pf (poll c s o) = pf s.
Proof.
  apply (poll_cases c s o (fun x => pf x = pf s)); auto. intros _ _ _. apply pf_act_eq.
Qed.

Lemma pf_step_other c s e : e <> Notify -> pf (step c s e) = pf s.
Proof.
  intros H. destruct e; cbn; auto.
  - congruence.
  - unfold suicide_ev. destruct (armed s); reflexivity.
  - apply pf_poll_eq.
Qed.

Lemma compile_quiet c pes : forall al s,
  (pf s = true -> all_dead al = true) -> Forall env_ok pes -> quiet c s (compile al pes).
Proof.
  induction pes as [|pe r IH]; intros al s Hinv Hok; [exact I|].
  inversion Hok as [|? ? Hpe Hr]; subst. destruct pe as [i|i|e]; cbn [compile].
  - destruct (is_alive al i) eqn:Ea; [|apply IH; auto].
    cbn [quiet]. split; [exact I|]. split.
    + intros Hp. rewrite (all_dead_nth al (Hinv Hp) i) in Ea. discriminate.
    + apply IH; auto.
  - destruct (is_alive al i) eqn:Ea; [|apply IH; auto].
    cbv zeta. destruct (all_dead (set_b i false al)) eqn:Ed.
    + cbn [quiet]. split; [exact I|]. split; [intros _ j; discriminate|]. apply IH; auto.
    + apply IH; auto. intros Hp. rewrite (all_dead_nth al (Hinv Hp) i) in Ea. discriminate.
  - destruct Hpe as (H1 & H2 & H3). cbn [quiet]. split; [exact H1|]. split; [intros _; exact H2|].
    apply IH; auto. rewrite (pf_step_other c s e H3). exact Hinv.
Qed.

(* producers that behave as producers give the engine a history in which no output follows the notification *)
Lemma ptrace_from_quiet c al pes : Forall env_ok pes -> quiet c (init c) (ptrace_from al pes).
Proof.
  intros Hok. unfold ptrace_from.
  destruct (all_dead al) eqn:Ed.
  - cbn [quiet]. split; [exact I|]. split; [intros _ j; discriminate|]. apply compile_quiet; auto.
  - apply compile_quiet; auto. cbn. discriminate.
Qed.

Lemma ptrace_quiet c pes : Forall env_ok pes -> quiet c (init c) (ptrace c pes).
Proof. apply ptrace_from_quiet. Qed.

(* the producer-level scripts of the correspondence are producer histories *)
Lemma compile_app al l1 : forall l2, compile al (l1 ++ l2) = compile al l1 ++ compile (alive_after al l1) l2.
Proof.
  revert al. induction l1 as [|pe r IH]; intros al l2; [reflexivity|].
  destruct pe as [i|i|e]; cbn [app compile alive_after].
  - destruct (is_alive al i); cbn [app]; rewrite IH; reflexivity.
  - destruct (is_alive al i); [|apply IH]. cbv zeta. destruct (all_dead (set_b i false al)); cbn [app]; rewrite IH; reflexivity.
  - cbn [app]. rewrite IH. reflexivity.
Qed.

Lemma alive_after_app al l1 : forall l2, alive_after al (l1 ++ l2) = alive_after (alive_after al l1) l2.
Proof.
  revert al. induction l1 as [|pe r IH]; intros al l2; [reflexivity|].
  destruct pe as [i|i|e]; cbn [app alive_after]; apply IH.
Qed.

Definition flat3 (x : sstep3) : list pevent := let '(dt, pes, o) := x in (PEnv (Adv dt) :: pes) ++ [PEnv (Poll o)].
Definition flats3 (l : list sstep3) : list pevent := concat (map flat3 l).

Lemma run_steps3_state c l : forall al s, snd (run_steps3 c al s l) = run c s (compile al (flats3 l)).
Proof.
  induction l as [|[[dt pes] o] r IH]; intros al s; [reflexivity|].
  cbn [run_steps3]. destruct (run_steps3 c (alive_after al pes) _ r) as [os s2] eqn:E. cbn [snd].
  assert (E2 : s2 = snd (run_steps3 c (alive_after al pes)
                 (poll c (run c (step c s (Adv dt)) (compile al pes)) o) r)) by (rewrite E; reflexivity).
  rewrite E2, IH. unfold flats3. cbn [map concat]. fold (flats3 r). unfold flat3.
  rewrite compile_app, run_app. cbn [app compile]. rewrite compile_app. cbn [alive_after]. rewrite alive_after_app.
  cbn [alive_after compile app]. rewrite run_cons, run_app. reflexivity.
Qed.

Lemma sees_final_output_producers c pes :
  c_has_delay c = false -> Forall env_ok pes ->
  let s := run c (init c) (ptrace c pes) in
  cancel s = true -> consume s = true -> exists x, In x (execs s) /\ after_all_output c s (x_launch x).
Proof.
  intros Hd Hok. exact (sees_final_output c Hd (ptrace c pes) (ptrace_quiet c pes Hok)).
Qed.
