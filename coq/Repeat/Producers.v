(* C13 — an explicit model of the producers, from which the "no output after the notification" hypothesis of the
   final-output theorem is DERIVED: a producer writes only while it is alive; the producers-finished notification
   is delivered when the last living producer finishes (reactivex.merge of the producers' notifyFinished completes
   when all of them have completed: ComponentState.stageIn), at once if there is no producer to wait for. *)
From Coq Require Import ZArith List Bool Lia ZifyBool.
Import ListNotations.
Require Import V.Repeat.Model V.Repeat.Proofs V.Repeat.Final.
Open Scope Z_scope.

Inductive pevent :=
| PWrite (i : nat)    (* producer i is asked to write output now: only a living producer does *)
| PFinish (i : nat)   (* producer i finishes *)
| PEnv (e : event).   (* everything that is not the producers' doing: the clock, polls, the timer, kills *)

Fixpoint set_b (i : nat) (v : bool) (l : list bool) {struct l} : list bool :=
  match l, i with
  | [], _ => []
  | _ :: r, O => v :: r
  | x :: r, S k => x :: set_b k v r
  end.
Definition is_alive (al : list bool) (i : nat) : bool := nth i al false.
Definition all_dead (al : list bool) : bool := forallb negb al.

(* what the observer's engine sees of a history of its producers *)
Fixpoint compile (al : list bool) (pes : list pevent) : list event :=
  match pes with
  | [] => []
  | PWrite i :: r => if is_alive al i then Out i :: compile al r else compile al r
  | PFinish i :: r =>
      if is_alive al i then
        let al' := set_b i false al in
        if all_dead al' then Notify :: compile al' r else compile al' r
      else compile al r
  | PEnv e :: r => e :: compile al r
  end.

Definition ptrace (c : cfg) (pes : list pevent) : list event :=
  let al := map (fun _ => true) (c_prods c) in
  if all_dead al then Notify :: compile al pes else compile al pes.

(* the environment does not forge the producers' events, does not run the clock backwards, does not kill *)
Definition env_ok (pe : pevent) : Prop :=
  match pe with PEnv e => okev e /\ (forall i, e <> Out i) /\ e <> Notify | _ => True end.

Lemma all_dead_nth al : all_dead al = true -> forall i, is_alive al i = false.
Proof.
  unfold all_dead, is_alive. induction al as [|a r IH]; intros H [|i]; cbn in *; auto.
  - apply andb_true_iff in H. destruct H as [H _]. destruct a; auto; discriminate.
  - apply andb_true_iff in H. destruct H as [_ H]. apply IH, H.
Qed.

Lemma pf_act_eq c s o : pf (act c s o) = pf s.
Proof. unfold act. destruct (suicide s); [reflexivity|]. destruct (will_exec c s); reflexivity. Qed.

Lemma pf_poll_eq c s o : pf (poll c s o) = pf s.
Proof.
  apply (poll_cases c s o (fun x => pf x = pf s)); auto. intros _ _ _. apply pf_act_eq.
Qed.

Lemma pf_step_other c s e : e <> Notify -> pf (step c s e) = pf s.
Proof.
  intros H. destruct e; cbn; auto.
  - congruence.
  - unfold suicide_ev. destruct (armed s); reflexivity.
  - apply pf_poll_eq.
Qed.

Lemma compile_quiet c pes : forall al s,
  (pf s = true -> all_dead al = true) -> Forall env_ok pes -> quiet c s (compile al pes).
Proof.
  induction pes as [|pe r IH]; intros al s Hinv Hok; [exact I|].
  inversion Hok as [|? ? Hpe Hr]; subst. destruct pe as [i|i|e]; cbn [compile].
  - destruct (is_alive al i) eqn:Ea; [|apply IH; auto].
    cbn [quiet]. split; [exact I|]. split.
    + intros Hp. rewrite (all_dead_nth al (Hinv Hp) i) in Ea. discriminate.
    + apply IH; auto.
  - destruct (is_alive al i) eqn:Ea; [|apply IH; auto].
    cbv zeta. destruct (all_dead (set_b i false al)) eqn:Ed.
    + cbn [quiet]. split; [exact I|]. split; [intros _ j; discriminate|]. apply IH; auto.
    + apply IH; auto. intros Hp. rewrite (all_dead_nth al (Hinv Hp) i) in Ea. discriminate.
  - destruct Hpe as (H1 & H2 & H3). cbn [quiet]. split; [exact H1|]. split; [intros _; exact H2|].
    apply IH; auto. rewrite (pf_step_other c s e H3). exact Hinv.
Qed.

(* producers that behave as producers give the engine a history in which no output follows the notification *)
Lemma ptrace_quiet c pes : Forall env_ok pes -> quiet c (init c) (ptrace c pes).
Proof.
  intros Hok. unfold ptrace. cbv zeta.
  destruct (all_dead (map (fun _ => true) (c_prods c))) eqn:Ed.
  - cbn [quiet]. split; [exact I|]. split; [intros _ j; discriminate|]. apply compile_quiet; auto.
  - apply compile_quiet; auto. cbn. discriminate.
Qed.

Lemma sees_final_output_producers c pes :
  c_has_delay c = false -> Forall env_ok pes ->
  let s := run c (init c) (ptrace c pes) in
  cancel s = true -> consume s = true -> exists x, In x (execs s) /\ after_all_output c s (x_launch x).
Proof.
  intros Hd Hok. exact (sees_final_output c Hd (ptrace c pes) (ptrace_quiet c pes Hok)).
Qed.
