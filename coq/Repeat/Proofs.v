(* C13 — lemmas and invariants over Repeat.Model *)
From Coq Require Import ZArith List Bool Lia ZifyBool.
Import ListNotations.
Require Import V.Repeat.Model.
Open Scope Z_scope.

Ltac unf := unfold step, poll, act, post, post_cancel, post_kc, post_retries, launched, not_launched, last_tick,
  notify, suicide_ev, set_time, set_flags in *.
Ltac brk := repeat match goal with
  | |- context [if ?b then _ else _] => destruct b eqn:?
  | H : context [if ?b then _ else _] |- _ => destruct b eqn:?
  end.

(* ------------------------------------------------------------------ generic case analysis *)
Lemma poll_cases c s o (P : st -> Prop) :
  P s -> (forall x, P x -> P (last_tick x)) ->
  (mon_done s = false -> cancel s = false -> sched c s = true -> P (act c s o)) -> P (poll c s o).
Proof.
  intros H0 Hl Ha. unfold poll.
  destruct (mon_done s) eqn:E1; auto. destruct (cancel s) eqn:E2; auto.
  destruct (sched c s) eqn:E3; auto. destruct (cancel (act c s o)); auto.
Qed.

Ltac open_act := unfold act;
  match goal with |- context [suicide ?s] => destruct (suicide s) eqn:Hsu end;
  [ cbn | match goal with |- context [will_exec ?c ?s] => destruct (will_exec c s) eqn:Hwe end;
          unfold post, launched, not_launched; cbn; unfold post_cancel, post_kc, post_retries; cbn ].

(* ------------------------------------------------------------------ simple frame facts *)
Lemma cancel_last_tick x : cancel (last_tick x) = cancel x.
Proof. reflexivity. Qed.
Lemma cancel_mono_act c s o : cancel s = true -> cancel (act c s o) = true.
Proof. intros H. open_act; rewrite ?H; brk; auto. Qed.

Lemma cancel_mono c s e : cancel s = true -> cancel (step c s e) = true.
Proof.
  intros H. destruct e; cbn; auto.
  - unfold suicide_ev; destruct (armed s); cbn; auto.
  - unfold poll. rewrite H. destruct (mon_done s); auto.
Qed.

Lemma cancel_mono_run c evs : forall s, cancel s = true -> cancel (run c s evs) = true.
Proof. induction evs as [|e r IH]; intros s H; cbn; auto. apply IH, cancel_mono, H. Qed.

Lemma run_cons c s e r : run c s (e :: r) = run c (step c s e) r.
Proof. reflexivity. Qed.

Lemma run_app c s l1 l2 : run c s (l1 ++ l2) = run c (run c s l1) l2.
Proof. unfold run. apply fold_left_app. Qed.

Lemma poll_cancel_done c s o : cancel (poll c s o) = true -> mon_done (poll c s o) = true.
Proof.
  unfold poll. destruct (mon_done s) eqn:E1; auto. destruct (cancel s) eqn:E2; [reflexivity|].
  destruct (sched c s) eqn:E3; [|congruence].
  destruct (cancel (act c s o)) eqn:E4; [reflexivity|congruence].
Qed.

(* ------------------------------------------------------------------ bounded stop *)
Section Bounded.
Variable c : cfg.
Hypothesis Hr : 0 <= eff_retries c.

Definition J (s : st) : Prop :=
  (suicide s = true -> cancel s = true) /\ 0 <= retries s <= eff_retries c /\
  (pf s = false -> retries s = eff_retries c).

Lemma J_init : J (init c).
Proof. unfold J; cbn. repeat split; auto; try lia; try discriminate. Qed.

Lemma J_act s o : J s -> cancel s = false -> J (act c s o).
Proof.
  unfold J. intros (H1 & H2 & H3) Hc.
  destruct (suicide s) eqn:Hs; [rewrite H1 in Hc; [discriminate|auto]|].
  unfold act. rewrite Hs. destruct (will_exec c s); unfold post, launched, not_launched; cbn;
    unfold post_cancel, post_kc, post_retries; cbn; rewrite ?Hs; cbn; brk; repeat split; intros; try lia.
Qed.

Lemma J_step s e : J s -> J (step c s e).
Proof.
  intros H. destruct e; cbn.
  - exact H.
  - exact H.
  - unfold J, notify in *; cbn. destruct H as (H1 & H2 & H3). repeat split; auto; try lia; try discriminate.
  - unfold J in *; cbn. destruct H as (H1 & H2 & H3). repeat split; auto; lia.
  - unfold suicide_ev. destruct (armed s); auto. unfold J in *; cbn. destruct H as (H1 & H2 & H3).
    repeat split; auto; lia.
  - apply poll_cases; [exact H | intros x Hx; exact Hx | intros _ Hc _; apply J_act; auto].
Qed.

Lemma J_run evs : forall s, J s -> J (run c s evs).
Proof. induction evs as [|e r IH]; intros s H; cbn; auto. apply IH, J_step, H. Qed.

Lemma pf_act s o : J s -> pf s = true -> cancel s = false -> cancel (act c s o) = false ->
  pf (act c s o) = true /\ retries (act c s o) = retries s - 1 /\ nact (act c s o) = nact s + 1.
Proof.
  unfold J. intros (H1 & H2 & H3) Hp Hc.
  destruct (suicide s) eqn:Hs; [rewrite H1 in Hc; [discriminate|auto]|].
  unfold act. rewrite Hs. destruct (will_exec c s); unfold post, launched, not_launched; cbn;
    unfold post_cancel, post_kc, post_retries; cbn; rewrite ?Hs, ?Hp; cbn; brk; intros; repeat split; try lia;
    try discriminate.
Qed.

(* one event after the producers finished: while not cancelled, every invocation of the controller
   costs exactly one retry *)
Lemma pf_step s e : J s -> pf s = true -> cancel (step c s e) = false ->
  pf (step c s e) = true /\ retries (step c s e) = retries s - (nact (step c s e) - nact s) /\
  0 <= nact (step c s e) - nact s.
Proof.
  intros HJ Hp. destruct e; cbn; intros Hc; try (repeat split; auto; lia).
  - unfold suicide_ev, set_flags in *. destruct (armed s); cbn in *; [discriminate|]. repeat split; auto; lia.
  - revert Hc. unfold poll. destruct (mon_done s); [intros; repeat split; auto; lia|].
    destruct (cancel s) eqn:Ec; [rewrite cancel_last_tick, Ec; intros; discriminate|].
    destruct (sched c s); [|intros; repeat split; auto; lia].
    destruct (cancel (act c s o)) eqn:Ea; [rewrite cancel_last_tick, Ea; intros; discriminate|].
    intros _. destruct (pf_act s o HJ Hp Ec Ea) as (A & B & C). repeat split; auto; lia.
Qed.

Lemma pf_run evs : forall s, J s -> pf s = true -> cancel (run c s evs) = false ->
  retries (run c s evs) = retries s - (nact (run c s evs) - nact s) /\ 0 <= nact (run c s evs) - nact s.
Proof.
  induction evs as [|e r IH]; intros s HJ Hp Hc; [cbn; lia|].
  rewrite run_cons in *.
  assert (Hc1 : cancel (step c s e) = false).
  { destruct (cancel (step c s e)) eqn:E; auto. rewrite (cancel_mono_run c r _ E) in Hc. discriminate. }
  destruct (pf_step s e HJ Hp Hc1) as (Hp' & Hr' & Hn').
  destruct (IH _ (J_step s e HJ) Hp' Hc). lia.
Qed.

Lemma bounded_stop evs1 evs2 :
  let s1 := run c (init c) evs1 in let s2 := run c s1 evs2 in
  pf s1 = true -> cancel s2 = false ->
  nact s2 - nact s1 <= retries s1 /\ retries s1 <= eff_retries c.
Proof.
  intros s1 s2 Hp Hc.
  assert (HJ : J s1) by (apply J_run, J_init).
  destruct (pf_run evs2 s1 HJ Hp Hc) as (Hq & Hn).
  assert (HJ2 : J s2) by (apply J_run, HJ).
  unfold J in HJ, HJ2. fold s2 in Hq. lia.
Qed.
End Bounded.

(* the controller invoked with no retries left, or executing successfully, after the producers finished: cancels *)
Lemma act_no_retries c s o : pf s = true -> retries s = 0 -> suicide s = false -> cancel (act c s o) = true.
Proof.
  intros Hp Hr0 Hs. unfold act. rewrite Hs.
  destruct (will_exec c s); unfold post, launched, not_launched; cbn; unfold post_cancel; cbn;
    rewrite ?Hp, ?Hs, ?Hr0; cbn; brk; auto.
Qed.

Lemma act_success_cancels c s o :
  pf s = true -> suicide s = false -> will_exec c s = true -> o_fail o = false -> o_rc o = 0 ->
  cancel (act c s o) = true.
Proof.
  intros Hp Hs Hw Hf Hrc. unfold act. rewrite Hs, Hw. unfold post, launched; cbn. unfold post_cancel; cbn.
  rewrite Hp, Hf, Hrc. cbn. reflexivity.
Qed.

(* kill delay: the timer cancels the engine when it expires between two executions ... *)
Lemma suicide_cancels c s : armed s = true -> cancel (step c s Suicide) = true /\ kc (step c s Suicide) = true.
Proof. intros H. cbn. unfold suicide_ev, set_flags. rewrite H. cbn. auto. Qed.

(* ... and at the end of the execution during which it expires *)
Lemma suicide_in_wait_cancels c s o :
  armed s = true -> suicide s = false -> will_exec c s = true -> o_fail o = false -> o_sui o = true ->
  cancel (act c s o) = true.
Proof.
  intros Ha Hs Hw Hf Hsu. unfold act. rewrite Hs, Hw. unfold post, launched; cbn. unfold post_cancel; cbn.
  rewrite Hs, Hf, Hsu, Ha. cbn. rewrite orb_true_r. destruct (o_rc o =? 0); reflexivity.
Qed.

(* once cancelled, the next resumption of the monitor is the last: no execution, the engine reports finished *)
Lemma cancelled_poll_stops c s o : cancel s = true -> mon_done s = false ->
  let s' := step c s (Poll o) in
  mon_done s' = true /\ alive s' = false /\ exit_reason s' <> RNone /\ execs s' = execs s /\ nact s' = nact s.
Proof.
  intros Hc Hm. cbn. unfold poll. rewrite Hm, Hc. unfold exit_reason, alive, last_tick; cbn.
  rewrite Hc. cbn. rewrite orb_true_r. cbn. repeat split; auto. destruct (has_proc s && proc_re s); discriminate.
Qed.

Lemma done_frozen_step c s e : mon_done s = true ->
  mon_done (step c s e) = true /\ execs (step c s e) = execs s /\ nact (step c s e) = nact s.
Proof.
  intros H. destruct e; cbn; auto.
  - unfold suicide_ev, set_flags. destruct (armed s); cbn; auto.
  - unfold poll. rewrite H. auto.
Qed.

Lemma done_frozen c evs : forall s, mon_done s = true ->
  mon_done (run c s evs) = true /\ execs (run c s evs) = execs s /\ nact (run c s evs) = nact s.
Proof.
  induction evs as [|e r IH]; intros s H; [cbn; auto|]. rewrite run_cons.
  destruct (done_frozen_step c s e H) as (A & B & C). destruct (IH _ A) as (A' & B' & C').
  repeat split; congruence.
Qed.

(* ------------------------------------------------------------------ no early run *)
Lemma lo_act c s o : lo (act c s o) = lo s.
Proof. unfold act. destruct (suicide s); [reflexivity|]. destruct (will_exec c s); reflexivity. Qed.

Lemma lo_poll c s o : lo (poll c s o) = lo s.
Proof.
  apply (poll_cases c s o (fun x => lo x = lo s)); auto. intros. apply lo_act.
Qed.

Lemma can_consume_lo c x y : lo x = lo y -> can_consume c x = can_consume c y.
Proof. unfold can_consume. intros ->. reflexivity. Qed.

Definition new_exec (c : cfg) (s x : st) : Prop :=
  execs x = execs s \/
  exists e, execs x = e :: execs s /\ x_launch e = now s /\ (consume s || can_consume c s) = true.

Lemma act_exec c s o : new_exec c s (act c s o).
Proof.
  unfold new_exec, act. destruct (suicide s); [left; reflexivity|].
  destruct (will_exec c s) eqn:Hw; [|left; reflexivity].
  right. eexists. cbn. split; [reflexivity|]. split; [reflexivity|].
  unfold will_exec in Hw. apply andb_true_iff in Hw. tauto.
Qed.

Lemma poll_exec c s o : new_exec c s (poll c s o).
Proof.
  apply (poll_cases c s o (new_exec c s)).
  - left; reflexivity.
  - intros x Hx. exact Hx.
  - intros. apply act_exec.
Qed.

Lemma act_consume c s o : consume (act c s o) = true -> consume s = true \/ can_consume c s = true.
Proof.
  unfold act. destruct (suicide s); [cbn; auto|].
  destruct (will_exec c s) eqn:Hw; cbn.
  - intros _. unfold will_exec in Hw. apply andb_true_iff in Hw. destruct Hw as [Hw _].
    apply orb_true_iff in Hw. exact Hw.
  - intros H. apply orb_true_iff in H. exact H.
Qed.

Lemma poll_consume c s o : consume (poll c s o) = true -> consume s = true \/ can_consume c s = true.
Proof.
  apply (poll_cases c s o (fun x => consume x = true -> consume s = true \/ can_consume c s = true)); auto.
  intros _ _ _. apply act_consume.
Qed.

Definition I2 (c : cfg) (s : st) : Prop := consume s = true -> can_consume c s = true.

(* ---- lists of producers *)
Lemma nth_tl (los : list (option Z)) i : nth (S i) los None = nth i (tl los) None.
Proof. destruct los; [destruct i|]; reflexivity. Qed.

(* output, once written, stays: canConsume's condition is monotone under a producer's write *)
Lemma can_consume_l_set ps : forall los i t,
  can_consume_l ps los = true -> can_consume_l ps (set_nth i (Some t) los) = true.
Proof.
  induction ps as [|p ps IH]; intros los i t H; cbn in *; auto.
  apply andb_true_iff in H. destruct H as [H1 H2].
  destruct los as [|x r]; cbn in *.
  - rewrite H1, H2. reflexivity.
  - destruct i; cbn.
    + rewrite H2, orb_true_r. reflexivity.
    + rewrite H1. cbn. apply IH, H2.
Qed.

Lemma can_consume_l_nth ps : forall los i p,
  can_consume_l ps los = true -> nth_error ps i = Some p -> p_same p = true -> exists l, lo_of los i = Some l.
Proof.
  unfold lo_of.
  induction ps as [|p0 ps IH]; intros los i p H Hn Hs; destruct i; cbn in Hn; try discriminate.
  - injection Hn as ->. cbn in H. apply andb_true_iff in H. destruct H as [H _]. rewrite Hs in H. cbn in H.
    destruct los as [|[l|] r]; cbn in *; try discriminate. eauto.
  - cbn in H. apply andb_true_iff in H. destruct H as [_ H]. rewrite nth_tl. eapply IH; eauto.
Qed.

(* producersHaveOutputSinceDate(d) false: every producer is repeating and none has output newer than d *)
Lemma newout_l_false ps : forall los d, newout_l ps los d = false ->
  forall i p l, nth_error ps i = Some p -> lo_of los i = Some l -> p_rep p = true /\ l <= d.
Proof.
  unfold lo_of.
  induction ps as [|p0 ps IH]; intros los d H i p l Hn Hl; destruct i; cbn in Hn; try discriminate.
  - injection Hn as ->. cbn in H. apply orb_false_iff in H. destruct H as [H _]. apply orb_false_iff in H.
    destruct H as [Hr H]. destruct los as [|x r]; cbn in *; [discriminate|]. subst x. split; [destruct (p_rep p); auto|lia].
  - cbn in H. apply orb_false_iff in H. destruct H as [_ H]. rewrite nth_tl in Hl. eapply IH; eauto.
Qed.

Lemma nth_set_nth (l : list (option Z)) : forall i j v, nth j (set_nth i v l) None = v \/ nth j (set_nth i v l) None = nth j l None.
Proof.
  induction l as [|x r IH]; intros i j v; cbn; auto.
  destruct i; cbn.
  - destruct j; cbn; auto.
  - destruct j; cbn; auto.
Qed.

Lemma I2_step c s e : I2 c s -> I2 c (step c s e).
Proof.
  unfold I2. intros H. destruct e; cbn; auto.
  - intros Hc. unfold can_consume; cbn. apply can_consume_l_set, H, Hc.
  - unfold suicide_ev, set_flags. destruct (armed s); cbn; auto.
  - intros Hc. rewrite (can_consume_lo c _ s (lo_poll c s o)).
    destruct (poll_consume c s o Hc); auto.
Qed.

Lemma step_exec c s e : execs (step c s e) = execs s \/
  exists o x, e = Poll o /\ execs (step c s e) = x :: execs s /\ x_launch x = now s /\
              (consume s || can_consume c s) = true.
Proof.
  destruct e; cbn; auto.
  - unfold suicide_ev, set_flags. destruct (armed s); cbn; auto.
  - destruct (poll_exec c s o) as [H|(x & H1 & H2 & H3)]; [left; exact H|].
    right. exists o, x. auto.
Qed.

Lemma no_early_run_gen c evs : forall s x, I2 c s -> In x (execs (run c s evs)) ->
  In x (execs s) \/
  exists evs1 o evs2, evs = evs1 ++ Poll o :: evs2 /\
    x_launch x = now (run c s evs1) /\ can_consume c (run c s evs1) = true.
Proof.
  induction evs as [|e r IH]; intros s x HI Hin; [left; exact Hin|].
  rewrite run_cons in Hin.
  destruct (IH _ x (I2_step c s e HI) Hin) as [H|(evs1 & o & evs2 & E & L & C)].
  - destruct (step_exec c s e) as [Hs|(o & x0 & He & Hx & Hl & Hc)].
    + left. rewrite <- Hs. exact H.
    + rewrite Hx in H. destruct H as [H|H]; [|left; exact H].
      right. exists [], o, r. subst x0 e. cbn. repeat split; auto.
      apply orb_true_iff in Hc. destruct Hc; auto.
  - right. exists (e :: evs1), o, evs2. rewrite E. repeat split; auto.
Qed.
