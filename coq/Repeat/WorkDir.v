(* C13 — what counts as "producer output": model of experiment.model.storage.WorkingDirectory (_inputs, updateInputs,
   output, outputSinceDate; python/experiment/model/storage.py) and of the staging part of Job.stageIn
   (python/experiment/model/data.py): path references (copy / link) are staged, THEN the list of inputs is refreshed
   unconditionally, THEN copyout references are staged (they count as output by design).
   A directory is a list of (file name, modification time in ms); only the top level is looked at.
   The engine model (Model.v) keeps, per producer, lo = time of its latest output: [lo_wd] is that quantity
   computed from the directory, and the theorems below say when it is None / Some t. *)
From Coq Require Import ZArith List Bool String Lia.
Import ListNotations.
Open Scope Z_scope.

Definition file := (string * Z)%type.

Record wd := {
  w_files : list file;        (* os.listdir(directory), with mtimes *)
  w_inputs : list string;     (* _inputs *)
  w_ignore : bool             (* ignoreExisting *)
}.

Definition mem (n : string) (l : list string) : bool := existsb (String.eqb n) l.
Definition names (fs : list file) : list string := map fst fs.

(* WorkingDirectory.__init__ on a directory holding [fs] *)
Definition wd_create (fs : list file) (ignore : bool) : wd :=
  {| w_files := fs; w_inputs := if ignore then [] else names fs; w_ignore := ignore |}.

(* a file is created, or rewritten, at time t *)
Fixpoint put (n : string) (t : Z) (fs : list file) : list file :=
  match fs with
  | [] => [(n, t)]
  | (m, u) :: r => if String.eqb n m then (n, t) :: r else (m, u) :: put n t r
  end.
Definition wd_put (d : wd) (n : string) (t : Z) : wd :=
  {| w_files := put n t (w_files d); w_inputs := w_inputs d; w_ignore := w_ignore d |}.
Definition wd_puts (d : wd) (ns : list string) (t : Z) : wd := fold_left (fun d n => wd_put d n t) ns d.

(* updateInputs(force=False) *)
Definition wd_update_inputs (d : wd) : wd :=
  if w_ignore d then d else {| w_files := w_files d; w_inputs := names (w_files d); w_ignore := w_ignore d |}.

Definition is_out (ins : list string) (f : file) : bool := negb (mem (fst f) ins).
(* WorkingDirectory.output / outputSinceDate(date) *)
Definition output (d : wd) : list file := filter (is_out (w_inputs d)) (w_files d).
Definition output_since (d : wd) (date : Z) : list file := filter (fun f => snd f >? date) (output d).

(* Job.stageIn at time t: [ins] = names staged by the copy / link references (direct ones, then component ones),
   [outs] = names staged by the copyout references *)
Definition stage_in (d : wd) (ins outs : list string) (t : Z) : wd :=
  wd_puts (wd_update_inputs (wd_puts d ins t)) outs t.

(* the time of the latest output: what Model.v calls lo *)
Fixpoint latest (fs : list file) : option Z :=
  match fs with
  | [] => None
  | (_, t) :: r => match latest r with None => Some t | Some u => Some (Z.max t u) end
  end.
Definition lo_wd (d : wd) : option Z := latest (output d).

(* ---- the correspondence: a history of one working directory and what the implementation reported *)
Inductive wop :=
| WStage (ins outs : list string) (t : Z)      (* Job.stageIn *)
| WPut (n : string) (t : Z)                    (* the component writes a file *)
| WObs (date : Z) (out since : list string).   (* reported: names of output, names of outputSinceDate(date) *)

Definition subset (a b : list string) : bool := forallb (fun n => mem n b) a.
Definition same_set (a b : list string) : bool := subset a b && subset b a.

Fixpoint run_wops (d : wd) (l : list wop) : bool :=
  match l with
  | [] => true
  | WStage ins outs t :: r => run_wops (stage_in d ins outs t) r
  | WPut n t :: r => run_wops (wd_put d n t) r
  | WObs date out since :: r =>
      same_set out (names (output d)) && same_set since (names (output_since d date)) && run_wops d r
  end.

(* case = (ignoreExisting, history); the directory is created empty *)
Definition check_wd (k : bool * list wop) : bool := run_wops (wd_create [] (fst k)) (snd k).

(* ------------------------------------------------------------------ proofs *)
Lemma mem_In : forall n l, mem n l = true <-> In n l.
Proof.
  intros n l. unfold mem. rewrite existsb_exists. split.
  - intros [x [Hx He]]. apply String.eqb_eq in He. subst. exact Hx.
  - intros H. exists n. split; [exact H | apply String.eqb_refl].
Qed.

Lemma names_put : forall n t fs m, In m (names (put n t fs)) <-> m = n \/ In m (names fs).
Proof.
  intros n t fs m. induction fs as [|[k u] r IH]; simpl.
  - split; [intros [H|[]]; left; auto | intros [H|[]]; left; auto].
  - destruct (String.eqb n k) eqn:E; simpl.
    + apply String.eqb_eq in E. subst k. split; [intros [H|H]; auto | intros [H|[H|H]]; auto].
    + rewrite IH. split; [intros [H|[H|H]]; auto | intros [H|[H|H]]; auto].
Qed.

Lemma names_output : forall d m, In m (names (output d)) <-> In m (names (w_files d)) /\ ~ In m (w_inputs d).
Proof.
  intros d m. unfold output, names. rewrite !in_map_iff. split.
  - intros [[k u] [Hk Hf]]. apply filter_In in Hf. destruct Hf as [Hin Ho]. simpl in Hk. subst k. split.
    + exists (m, u). auto.
    + unfold is_out in Ho. simpl in Ho. intro Hc. apply mem_In in Hc. rewrite Hc in Ho. discriminate.
  - intros [[[k u] [Hk Hin]] Hn]. simpl in Hk. subst k. exists (m, u). split; [reflexivity|].
    apply filter_In. split; [exact Hin|]. unfold is_out. simpl. destruct (mem m (w_inputs d)) eqn:E; [|reflexivity].
    apply mem_In in E. contradiction.
Qed.

Lemma puts_inputs : forall ns d t, w_inputs (wd_puts d ns t) = w_inputs d /\ w_ignore (wd_puts d ns t) = w_ignore d.
Proof. induction ns as [|n r IH]; intros d t; simpl; [auto|]. destruct (IH (wd_put d n t) t) as [A B]. rewrite A, B. auto. Qed.

Lemma puts_names : forall ns d t m, In m (names (w_files (wd_puts d ns t))) <-> In m ns \/ In m (names (w_files d)).
Proof.
  induction ns as [|n r IH]; intros d t m; simpl.
  - split; [auto | intros [[]|H]; auto].
  - rewrite IH. simpl. rewrite names_put. split; [intros [H|[H|H]]; auto | intros [[H|H]|H]; auto].
Qed.

(* staged-in inputs are not output: right after Job.stageIn the output of a component is exactly what its copyout
   references staged, whatever was in the directory before and whatever the copy / link references brought in *)
Lemma stage_in_output : forall d ins outs t m, w_ignore d = false ->
  (In m (names (output (stage_in d ins outs t))) <-> In m outs /\ ~ (In m ins \/ In m (names (w_files d)))).
Proof.
  intros d ins outs t m Hig. unfold stage_in. rewrite names_output.
  destruct (puts_inputs outs (wd_update_inputs (wd_puts d ins t)) t) as [Hi _]. rewrite Hi.
  rewrite puts_names. unfold wd_update_inputs. destruct (puts_inputs ins d t) as [_ Hg]. rewrite Hg, Hig. simpl.
  rewrite puts_names. tauto.
Qed.

Lemma stage_in_no_output : forall d ins t, w_ignore d = false -> output (stage_in d ins [] t) = [].
Proof.
  intros d ins t Hig. destruct (output (stage_in d ins [] t)) as [|[m u] r] eqn:E; [reflexivity|].
  assert (H : In m (names (output (stage_in d ins [] t)))) by (rewrite E; simpl; auto).
  apply stage_in_output in H; [|exact Hig]. destruct H as [[] _].
Qed.

(* the inputs of a staged-in component are what was there and what the copy / link references brought *)
Lemma stage_in_inputs : forall d ins outs t m, w_ignore d = false ->
  (In m (w_inputs (stage_in d ins outs t)) <-> In m ins \/ In m (names (w_files d))).
Proof.
  intros d ins outs t m Hig. unfold stage_in.
  destruct (puts_inputs outs (wd_update_inputs (wd_puts d ins t)) t) as [Hi _]. rewrite Hi.
  unfold wd_update_inputs. destruct (puts_inputs ins d t) as [_ Hg]. rewrite Hg, Hig. simpl. apply puts_names.
Qed.

(* what later writes add: a name is output iff it was, or it was written and is not an input *)
Lemma put_output : forall d n t m,
  In m (names (output (wd_put d n t))) <-> In m (names (output d)) \/ (m = n /\ ~ In n (w_inputs d)).
Proof.
  intros d n t m. rewrite !names_output. simpl. rewrite names_put. split.
  - intros [[H|H] Hn]; [subst; right; auto | left; auto].
  - intros [[H Hn]|[H Hn]]; [auto | subst; auto].
Qed.

(* ---- lo_wd is the quantity the engine model keeps *)
Lemma latest_none : forall fs, latest fs = None <-> fs = [].
Proof.
  intros [|[n t] r]; simpl; [tauto|]. destruct (latest r); split; intro H; discriminate.
Qed.

(* Engine.canConsume's test len(output) == 0 *)
Lemma has_output_lo : forall d, (match lo_wd d with Some _ => true | None => false end) = negb (match output d with [] => true | _ => false end).
Proof.
  intros d. unfold lo_wd. destruct (output d) as [|[n t] r] eqn:E; [reflexivity|]. simpl. destruct (latest r); reflexivity.
Qed.

Lemma latest_since : forall fs date,
  existsb (fun f => snd f >? date) fs = match latest fs with Some l => l >? date | None => false end.
Proof.
  intros fs date. induction fs as [|[n t] r IH]; simpl; [reflexivity|]. rewrite IH.
  destruct (latest r) as [u|].
  - destruct (t >? date) eqn:A, (u >? date) eqn:B, (Z.max t u >? date) eqn:C; try reflexivity; exfalso; lia.
  - rewrite orb_false_r. reflexivity.
Qed.

(* Job.producersHaveOutputSinceDate's test len(outputSinceDate(date)) > 0 *)
Lemma since_lo : forall d date,
  negb (match output_since d date with [] => true | _ => false end) = match lo_wd d with Some l => l >? date | None => false end.
Proof.
  intros d date. unfold lo_wd, output_since. rewrite <- latest_since.
  induction (output d) as [|f r IH]; simpl; [reflexivity|]. destruct (snd f >? date); simpl; [reflexivity | exact IH].
Qed.

Lemma filter_put : forall ins n t fs, mem n ins = false ->
  filter (is_out ins) (put n t fs) = put n t (filter (is_out ins) fs).
Proof.
  intros ins n t fs Hn.
  assert (Ho : forall u, is_out ins (n, u) = true) by (intro u; unfold is_out; simpl; rewrite Hn; reflexivity).
  induction fs as [|[k u] r IH].
  - simpl. rewrite Ho. reflexivity.
  - cbn [put]. destruct (String.eqb n k) eqn:E.
    + apply String.eqb_eq in E. subst k. cbn [filter]. rewrite !Ho. cbn [put]. rewrite String.eqb_refl. reflexivity.
    + cbn [filter]. destruct (is_out ins (k, u)) eqn:O.
      * cbn [put]. rewrite E, IH. reflexivity.
      * exact IH.
Qed.

Lemma latest_put : forall n t fs, (forall f, In f fs -> snd f <= t) -> latest (put n t fs) = Some t.
Proof.
  intros n t fs. induction fs as [|[k u] r IH]; intros H; simpl; [reflexivity|].
  destruct (String.eqb n k) eqn:E; simpl.
  - destruct (latest r) as [v|] eqn:L; [|reflexivity].
    assert (Hv : v <= t).
    { clear - L H. revert v L. induction r as [|[a b] r IH]; intros v L; simpl in L; [discriminate|].
      destruct (latest r) as [w|] eqn:Lw.
      - injection L as <-. assert (b <= t) by (apply (H (a, b)); simpl; auto).
        assert (w <= t) by (apply IH; [intros f Hf; apply H; simpl in *; tauto | reflexivity]). lia.
      - injection L as <-. apply (H (a, b)). simpl. auto. }
    f_equal. lia.
  - rewrite IH; [|intros f Hf; apply H; simpl; auto]. f_equal. assert (u <= t) by (apply (H (k, u)); simpl; auto). lia.
Qed.

(* the Out event of the engine model: a component that writes a file that is not one of its inputs, at a time
   not earlier than its previous output, has lo = Some t  (Model.step ... (Out i): lo := Some now) *)
Lemma write_sets_lo : forall d n t, ~ In n (w_inputs d) -> (forall f, In f (output d) -> snd f <= t) ->
  lo_wd (wd_put d n t) = Some t.
Proof.
  intros d n t Hn Ht. unfold lo_wd, output. simpl. rewrite filter_put.
  - apply latest_put. exact Ht.
  - destruct (mem n (w_inputs d)) eqn:E; [apply mem_In in E; contradiction | reflexivity].
Qed.

(* rewriting an INPUT does not make it output *)
Lemma rewrite_input_no_output : forall d n t, In n (w_inputs d) -> names (output (wd_put d n t)) = names (output d).
Proof.
  intros d n t Hn. unfold output. simpl. apply mem_In in Hn.
  assert (Ho : forall u, is_out (w_inputs d) (n, u) = false) by (intro u; unfold is_out; simpl; rewrite Hn; reflexivity).
  induction (w_files d) as [|[k u] r IH].
  - simpl. rewrite Ho. reflexivity.
  - cbn [put]. destruct (String.eqb n k) eqn:E.
    + apply String.eqb_eq in E. subst k. cbn [filter]. rewrite !Ho. reflexivity.
    + cbn [filter]. destruct (is_out (w_inputs d) (k, u)); [cbn [names map]; f_equal|]; exact IH.
Qed.
