(* C13 — the "sees the final output" clause, for any number of producers and every number of retries:
   an engine that stops by itself and was able to consume has started an execution at or after the last
   output of EVERY producer. *)
From Coq Require Import ZArith List Bool Lia ZifyBool.
Import ListNotations.
Require Import V.Repeat.Model V.Repeat.Proofs.
Open Scope Z_scope.

(* time does not run backwards, nobody kills the engine from outside *)
Definition okev (e : event) : Prop :=
  match e with Adv dt => 0 <= dt | Kill => False | Poll o => 0 <= o_dur o | _ => True end.

(* execution x started at or after the latest output of every producer *)
Definition after_all_output (c : cfg) (s : st) (t : Z) : Prop :=
  forall i p l, nth_error (c_prods c) i = Some p -> lo_of (lo s) i = Some l -> l <= t.

Section Final.
Variable c : cfg.
Hypothesis Hd : c_has_delay c = false.

(* ... and no producer writes output once the producers are finished *)
Fixpoint quiet (s : st) (evs : list event) : Prop :=
  match evs with
  | [] => True
  | e :: r => okev e /\ (pf s = true -> forall i, e <> Out i) /\ quiet (step c s e) r
  end.

Record INV (s : st) : Prop := {
  i_su : suicide s = false; i_ar : armed s = false;
  i_ll : c_t0 c <= ll s <= now s;
  i_e0 : execs s = [] -> ll s = c_t0 c;
  i_e1 : forall x r, execs s = x :: r -> x_launch x = ll s;
  i_lo : forall i l, lo_of (lo s) i = Some l -> l <= now s;
  i_pf : pf s = false -> cancel s = false }.

Definition G5 (s : st) : Prop :=
  cancel s = true -> consume s = true -> exists x, In x (execs s) /\ after_all_output c s (x_launch x).

Lemma INV_init : INV (init c).
Proof.
  constructor; cbn; auto; try lia; try discriminate.
  intros i l. unfold lo_of. generalize (c_prods c). intros ps. revert i.
  induction ps as [|p ps IH]; intros [|i]; cbn; try discriminate. apply IH.
Qed.

Lemma INV_act s o : INV s -> cancel s = false -> 0 <= o_dur o -> INV (act c s o).
Proof.
  intros [Hsu Har Hll He0 He1 Hlo Hpf] Hc Hdur. unfold act. rewrite Hsu.
  destruct (will_exec c s) eqn:Hw; unfold post, launched, not_launched; constructor; cbn;
    unfold post_cancel; cbn; rewrite ?Hsu, ?Har, ?andb_false_r, ?orb_false_r; cbn; auto.
  - destruct (o_fail o); reflexivity.
  - destruct (o_fail o); lia.
  - discriminate.
  - intros x r E. injection E as <- _. cbn. lia.
  - intros i l E. specialize (Hlo i l E). destruct (o_fail o); lia.
  - intros E. rewrite E. cbn. auto.
  - intros E. rewrite E. cbn. auto.
Qed.

(* the invocation that cancels: either it executed (at the current clock, which no output is newer than), or it
   did not although the producers are finished - then it has executed before (fix F13), more recently than 20 s
   ago, and no producer has output newer than that last launch *)
Lemma G5_act s o : INV s -> cancel s = false -> G5 (act c s o).
Proof.
  intros [Hsu Har Hll He0 He1 Hlo Hpf] Hc. unfold G5, act. rewrite Hsu.
  destruct (will_exec c s) eqn:Hw; unfold post, launched, not_launched; cbn.
  - intros _ _. eexists. split; [left; reflexivity|]. cbn. intros i p l _ E. apply (Hlo i l E).
  - unfold post_cancel; cbn. rewrite Hsu, orb_false_r. cbn.
    intros Hca Hco.
    destruct (pf s) eqn:Hp; [|congruence].
    unfold will_exec in Hw. rewrite Hco in Hw. cbn in Hw.
    apply orb_false_iff in Hw. destruct Hw as [Hn _].
    unfold isnew in Hn. destruct (negb (c_check_out c)); [discriminate|]. rewrite Hp in Hn. cbn in Hn.
    destruct (execs s) as [|x r] eqn:Ex; cbn in Hn; [discriminate|].
    destruct (now s - ll s >? 20000); [discriminate|].
    exists x. split; [left; reflexivity|]. rewrite (He1 x r eq_refl).
    intros i p l Hi E. unfold newout in Hn. apply (newout_l_false _ _ _ Hn i p l Hi E).
Qed.

Lemma step_ok s e : INV s -> G5 s -> okev e -> (pf s = true -> forall i, e <> Out i) ->
  INV (step c s e) /\ G5 (step c s e).
Proof.
  intros HI HG Hok Hq. destruct e; cbn in *; unfold notify, set_flags, set_time.
  - destruct HI as [Hsu Har Hll He0 He1 Hlo Hpf]. split; [constructor; cbn; auto; try lia|].
    + intros j l E. specialize (Hlo j l E). lia.
    + exact HG.
  - assert (Hp : pf s = false) by (destruct (pf s); auto; exfalso; apply (Hq eq_refl i); reflexivity).
    destruct HI as [Hsu Har Hll He0 He1 Hlo Hpf]. split; [constructor; cbn; auto; try lia|].
    + intros j l E. unfold lo_of in *. destruct (nth_set_nth (lo s) i j (Some (now s))) as [H|H]; rewrite H in E.
      * injection E as <-. lia.
      * apply (Hlo j l E).
    + intros Hca. cbn in Hca. rewrite (Hpf Hp) in Hca. discriminate.
  - destruct HI as [Hsu Har Hll He0 He1 Hlo Hpf]. split; [|exact HG].
    constructor; cbn; auto; try lia; try discriminate; rewrite ?Har, ?Hd; reflexivity.
  - destruct Hok.
  - destruct HI as [Hsu Har Hll He0 He1 Hlo Hpf]. unfold suicide_ev. rewrite Har.
    split; [constructor; auto|exact HG].
  - apply (poll_cases c s o (fun x => INV x /\ G5 x)).
    + split; auto.
    + intros x [[Hsu Har Hll He0 He1 Hlo Hpf] Hg]. split; [constructor; cbn; auto|exact Hg].
    + intros _ Hc _. split; [apply INV_act; auto|apply G5_act; auto].
Qed.

Lemma run_ok evs : forall s, INV s -> G5 s -> quiet s evs -> INV (run c s evs) /\ G5 (run c s evs).
Proof.
  induction evs as [|e r IH]; intros s HI HG Hq; [cbn; auto|].
  rewrite run_cons. destruct Hq as (H1 & H2 & H3).
  destruct (step_ok s e HI HG H1 H2) as [A B]. apply IH; auto.
Qed.

(* For every number of retries and every number of producers: if the engine was not killed from outside, has no
   kill delay and no output is written after the notification, then whenever it is cancelled (which it can then
   only have done itself) and was able to consume, some execution started at or after every producer's last
   output. *)
Lemma sees_final_output evs : quiet (init c) evs -> G5 (run c (init c) evs).
Proof.
  intros Hq. apply run_ok; auto using INV_init.
  intros H. cbn in H. discriminate.
Qed.
End Final.
