(* C13 — the "sees the final output" clause: classification of how an engine that stops by itself can have
   missed the final output, for every number of retries. *)
From Coq Require Import ZArith List Bool Lia ZifyBool.
Import ListNotations.
Require Import V.Repeat.Model V.Repeat.Proofs.
Open Scope Z_scope.

Section Final.
Variable c : cfg.
Hypothesis Hd : c_has_delay c = false.

(* time does not run backwards, nobody kills the engine from outside *)
Definition okev (e : event) : Prop :=
  match e with Adv dt => 0 <= dt | Kill => False | Poll o => 0 <= o_dur o | _ => True end.

(* ... and no producer writes output once the producers are finished *)
Fixpoint quiet (s : st) (evs : list event) : Prop :=
  match evs with
  | [] => True
  | e :: r => okev e /\ (pf s = true -> e <> Out) /\ quiet (step c s e) r
  end.

Record INV (s : st) : Prop := {
  i_su : suicide s = false; i_ar : armed s = false;
  i_ll : c_t0 c <= ll s <= now s;
  i_e0 : execs s = [] -> ll s = c_t0 c;
  i_e1 : forall x r, execs s = x :: r -> x_launch x = ll s;
  i_lo : forall l, lo s = Some l -> l <= now s;
  i_pf : pf s = false -> cancel s = false }.

Definition G (s : st) : Prop := forall l,
  cancel s = true -> consume s = true -> lo s = Some l ->
  (exists x, In x (execs s) /\ l <= x_launch x) \/ (execs s = [] /\ l <= c_t0 c).

Lemma INV_init : INV (init c).
Proof. constructor; cbn; auto; try lia; discriminate. Qed.

Lemma INV_act s o : INV s -> cancel s = false -> 0 <= o_dur o -> INV (act c s o).
Proof.
  intros [Hsu Har Hll He0 He1 Hlo Hpf] Hc Hdur. unfold act. rewrite Hsu.
  destruct (will_exec c s) eqn:Hw; unfold post, launched, not_launched; constructor; cbn;
    unfold post_cancel; cbn; rewrite ?Hsu, ?Har, ?andb_false_r, ?orb_false_r; cbn; auto.
  - destruct (o_fail o); reflexivity.
  - destruct (o_fail o); lia.
  - discriminate.
  - intros x r E. injection E as <- _. cbn. lia.
  - intros l E. specialize (Hlo l E). destruct (o_fail o); lia.
  - intros E. rewrite E. cbn. auto.
  - intros E. rewrite E. cbn. auto.
Qed.

Lemma G_act s o : INV s -> cancel s = false -> G (act c s o).
Proof.
  intros [Hsu Har Hll He0 He1 Hlo Hpf] Hc l. unfold act. rewrite Hsu.
  destruct (will_exec c s) eqn:Hw; unfold post, launched, not_launched; cbn.
  - intros _ _ E. left. eexists. split; [left; reflexivity|]. cbn. apply Hlo, E.
  - unfold post_cancel; cbn. rewrite Hsu, orb_false_r. cbn.
    intros Hca Hco E.
    unfold will_exec in Hw. rewrite Hco in Hw. cbn in Hw.
    apply orb_false_iff in Hw. destruct Hw as [Hn Hp].
    unfold isnew in Hn. destruct (negb (c_check_out c)); [discriminate|].
    destruct (pf s && (now s - ll s >? 20000)); [discriminate|].
    unfold newout in Hn. rewrite E in Hn.
    assert (Hle : l <= ll s) by (destruct (c_has_prod c); [|discriminate]; destruct (c_prod_rep c); cbn in Hn; [lia|discriminate]).
    destruct (execs s) as [|x r] eqn:Ex.
    + right. split; auto. rewrite <- (He0 eq_refl). exact Hle.
    + left. exists x. split; [left; reflexivity|]. rewrite (He1 x r eq_refl). exact Hle.
Qed.

Lemma step_ok s e : INV s -> G s -> okev e -> (pf s = true -> e <> Out) -> INV (step c s e) /\ G (step c s e).
Proof.
  intros HI HG Hok Hq. destruct e; cbn in *; unfold notify, set_flags, set_time.
  - destruct HI as [Hsu Har Hll He0 He1 Hlo Hpf]. split; [constructor; cbn; auto; try lia|].
    + intros l E. specialize (Hlo l E). lia.
    + exact HG.
  - assert (Hp : pf s = false) by (destruct (pf s); auto; exfalso; apply Hq; auto).
    destruct HI as [Hsu Har Hll He0 He1 Hlo Hpf]. split; [constructor; cbn; auto; try lia|].
    + intros l E. injection E as <-. lia.
    + intros l Hca. cbn in Hca. rewrite (Hpf Hp) in Hca. discriminate.
  - destruct HI as [Hsu Har Hll He0 He1 Hlo Hpf]. split; [|exact HG].
    constructor; cbn; auto; try lia; try discriminate; rewrite ?Har, ?Hd; reflexivity.
  - destruct Hok.
  - destruct HI as [Hsu Har Hll He0 He1 Hlo Hpf]. unfold suicide_ev. rewrite Har.
    split; [constructor; auto|exact HG].
  - apply (poll_cases c s o (fun x => INV x /\ G x)).
    + split; auto.
    + intros x [[Hsu Har Hll He0 He1 Hlo Hpf] Hg]. split; [constructor; cbn; auto|exact Hg].
    + intros _ Hc _. split; [apply INV_act; auto|apply G_act; auto].
Qed.

Lemma run_ok evs : forall s, INV s -> G s -> quiet s evs -> INV (run c s evs) /\ G (run c s evs).
Proof.
  induction evs as [|e r IH]; intros s HI HG Hq; [cbn; auto|].
  rewrite run_cons. destruct Hq as (H1 & H2 & H3).
  destruct (step_ok s e HI HG H1 H2) as [A B]. apply IH; auto.
Qed.

(* For every number of retries: if the engine was not killed from outside, has no kill delay and no output is
   written after the notification, then whenever it is cancelled (which it can then only have done itself)
   and was able to consume, either some execution started at or after the producers' last output, or it
   never executed at all and that output is not newer than the engine's own start. *)
Lemma final_output_classified evs : quiet (init c) evs -> G (run c (init c) evs).
Proof.
  intros Hq. apply run_ok; auto using INV_init.
  intros l H. cbn in H. discriminate.
Qed.

(* ---- with at least 5 retries the second case is impossible: the scheduler puts at least 5 s between two
   invocations, so the invocation that would use the last retry comes more than 20 s after the start and is
   forced to execute *)
Hypothesis HR : 5 <= eff_retries c.

Record INV2 (s : st) : Prop := {
  j_b : forall b, beginning s = Some b -> b <= now s;
  j_r : retries s <= eff_retries c;
  j_pf : pf s = false -> retries s = eff_retries c;
  j_k : pf s = true -> execs s = [] -> retries s < eff_retries c ->
        exists b, beginning s = Some b /\ c_t0 c + 5000 * (eff_retries c - retries s - 1) <= b }.

Definition G5 (s : st) : Prop := forall l,
  cancel s = true -> consume s = true -> lo s = Some l -> exists x, In x (execs s) /\ l <= x_launch x.

Lemma INV2_init : INV2 (init c).
Proof. constructor; cbn; auto; try lia; try discriminate. Qed.

Lemma sched_gap s b : sched c s = true -> beginning s = Some b -> b + 5000 <= now s.
Proof.
  unfold sched. intros H E. rewrite E in H.
  destruct (last_fin s) as [f|]; cbn in H;
    match type of H with (if ?x then _ else _) = true => destruct x eqn:Hx; [discriminate|] end; lia.
Qed.

Lemma INV2_act s o : INV s -> INV2 s -> cancel s = false -> sched c s = true -> 0 <= o_dur o -> INV2 (act c s o).
Proof.
  intros [Hsu Har Hll He0 He1 Hlo Hpf] [Jb Jr Jpf Jk] Hc Hs Hdur. unfold act. rewrite Hsu.
  destruct (will_exec c s) eqn:Hw; unfold post, launched, not_launched; constructor; cbn -[Z.mul];
    unfold post_retries; cbn -[Z.mul]; rewrite ?Hsu, ?Har, ?andb_false_r, ?orb_false_r, ?andb_true_r; cbn -[Z.mul].
  - intros b E. injection E as <-. destruct (o_fail o); lia.
  - brk; lia.
  - intros E. rewrite E. cbn. auto.
  - intros _ E. discriminate E.
  - intros b E. injection E as <-. lia.
  - brk; lia.
  - intros E. rewrite E. cbn. auto.
  - intros Hp Hx. rewrite Hp. cbn -[Z.mul]. intros H. eexists. split; [reflexivity|].
    destruct (retries s =? 0) eqn:E0; cbn -[Z.mul] in *.
    + destruct (Jk Hp Hx H) as (b & Eb & Hb). specialize (Jb b Eb). lia.
    + destruct (Z.eq_dec (retries s) (eff_retries c)) as [Eq|Ne]; [lia|].
      assert (Hlt : retries s < eff_retries c) by lia.
      destruct (Jk Hp Hx Hlt) as (b & Eb & Hb). pose proof (sched_gap s b Hs Eb). lia.
Qed.

Lemma G5_act s o : INV s -> INV2 s -> cancel s = false -> sched c s = true -> G5 (act c s o).
Proof.
  intros HI [Jb Jr Jpf Jk] Hc Hs l Hca Hco E.
  destruct (G_act s o HI Hc l Hca Hco E) as [H|[Hx Hl]]; [exact H|exfalso].
  destruct HI as [Hsu Har Hll He0 He1 Hlo Hpf].
  revert Hca Hco E Hx. unfold act. rewrite Hsu.
  destruct (will_exec c s) eqn:Hw; unfold post, launched, not_launched; cbn; [discriminate|].
  unfold post_cancel; cbn. rewrite Hsu, orb_false_r. cbn. intros Hca Hco E Hx.
  destruct (pf s) eqn:Hp; [|congruence].
  destruct (retries s =? 0) eqn:E0; [|congruence].
  unfold will_exec in Hw. rewrite Hco in Hw. cbn in Hw. apply orb_false_iff in Hw. destruct Hw as [Hn _].
  unfold isnew in Hn. destruct (negb (c_check_out c)); [discriminate|]. rewrite Hp in Hn. cbn in Hn.
  destruct (now s - ll s >? 20000) eqn:E20; [discriminate|].
  assert (Hlt : retries s < eff_retries c) by lia.
  destruct (Jk eq_refl Hx Hlt) as (b & Eb & Hb). pose proof (sched_gap s b Hs Eb).
  rewrite (He0 Hx) in E20. lia.
Qed.

Lemma step_ok5 s e : INV s -> G s -> INV2 s -> G5 s -> okev e -> (pf s = true -> e <> Out) ->
  INV2 (step c s e) /\ G5 (step c s e).
Proof.
  intros HI HG H2 H5 Hok Hq. destruct e; cbn in *; unfold notify, set_flags, set_time.
  - destruct H2 as [Jb Jr Jpf Jk]. split; [constructor; cbn; auto|exact H5].
    intros b E. specialize (Jb b E). lia.
  - assert (Hp : pf s = false) by (destruct (pf s); auto; exfalso; apply Hq; auto).
    destruct H2 as [Jb Jr Jpf Jk]. split; [constructor; cbn; auto|].
    intros l Hca. cbn in Hca. rewrite (i_pf s HI Hp) in Hca. discriminate.
  - destruct H2 as [Jb Jr Jpf Jk]. split; [|exact H5].
    constructor; cbn; auto; try discriminate.
    intros _ Hx Hlt. destruct (pf s) eqn:Hp; [auto|]. specialize (Jpf eq_refl). lia.
  - destruct Hok.
  - unfold suicide_ev. rewrite (i_ar s HI). auto.
  - apply (poll_cases c s o (fun x => INV2 x /\ G5 x)).
    + split; auto.
    + intros x [[Jb Jr Jpf Jk] Hg]. split; [constructor; cbn; auto|exact Hg].
    + intros _ Hc Hs. split; [apply INV2_act; auto|apply G5_act; auto].
Qed.

Lemma run_ok5 evs : forall s, INV s -> G s -> INV2 s -> G5 s -> quiet s evs -> G5 (run c s evs).
Proof.
  induction evs as [|e r IH]; intros s HI HG H2 H5 Hq; [cbn; auto|].
  rewrite run_cons. destruct Hq as (Q1 & Q2 & Q3).
  destruct (step_ok s e HI HG Q1 Q2) as [A B]. destruct (step_ok5 s e HI HG H2 H5 Q1 Q2) as [C D].
  apply IH; auto.
Qed.

Lemma sees_final_output evs : quiet (init c) evs -> G5 (run c (init c) evs).
Proof.
  intros Hq. apply run_ok5; auto using INV_init, INV2_init.
  - intros l H. cbn in H. discriminate.
  - intros l H. cbn in H. discriminate.
Qed.
End Final.
