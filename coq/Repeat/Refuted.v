(* C13 — parts of the full statement that were false of the faithful model of the pinned code (each is a finding,
   all three repaired: the witnesses run the pinned variants kept in Model.v, and the same scripts are shown to
   behave correctly in the current model), and witnesses that the hypotheses of C13_sees_final_output are
   necessary (these are the exemptions the property statement itself makes, not findings). *)
From Coq Require Import ZArith List Bool.
Import ListNotations.
Require Import V.Repeat.Model.
Open Scope Z_scope.

Definition rcfg (r : option Z) (rep delay : bool) : cfg := {| c_retries := r;
  c_prods := [{| p_same := true; p_rep := rep |}]; c_check_out := true; c_has_delay := delay; c_interval := 10000; c_t0 := 100000 |}.
Definition ok := {| o_fail := false; o_rc := 0; o_dur := 1000; o_re := false; o_sui := false |}.
Definition boom := {| o_fail := true; o_rc := 0; o_dur := 1000; o_re := false; o_sui := false |}.
Fixpoint polls (n : nat) (o : outcome) : list event :=
  match n with O => [] | S k => Adv 5000 :: Poll o :: polls k o end.

(* what "stopped by itself without having observed the final output" means *)
Definition missed (s : st) : Prop :=
  mon_done s = true /\ exit_reason s = RSuccess /\ consume s = true /\ pf s = true /\
  lo s = [Some 100000] /\ execs s = [].

Definition run_pinned13 (c : cfg) (s : st) (evs : list event) : st := fold_left (step_pinned13 c) evs s.
(* the same script in the current (repaired) model: the observer executes once, after the output *)
Definition seen (s : st) : Prop :=
  mon_done s = true /\ exit_reason s = RSuccess /\ consume s = true /\ pf s = true /\
  lo s = [Some 100000] /\ map x_launch (execs s) = [100000].

(* F13 (repaired): repeatRetries = 0, the producers' output is not newer than the observer's start, the
   notification precedes the first poll: with the pinned controller that poll does not execute and cancels *)
Theorem C13_small_retries_refuted :
  missed (run_pinned13 (rcfg (Some 0) true false) (init (rcfg (Some 0) true false)) [Out 0; Notify; Poll ok]) /\
  seen (run (rcfg (Some 0) true false) (init (rcfg (Some 0) true false)) [Out 0; Notify; Poll ok]).
Proof. vm_compute. repeat split; reflexivity. Qed.
Print Assumptions C13_small_retries_refuted.

(* the same with the DEFAULT repeatRetries (3): four polls 5 s apart, the last at 15 s < 20 s *)
Theorem C13_default_retries_refuted :
  missed (run_pinned13 (rcfg None true false) (init (rcfg None true false)) ([Out 0; Notify; Poll ok] ++ polls 3 ok)) /\
  seen (run (rcfg None true false) (init (rcfg None true false)) ([Out 0; Notify; Poll ok] ++ polls 3 ok)).
Proof. vm_compute. repeat split; reflexivity. Qed.
Print Assumptions C13_default_retries_refuted.

(* and with 4 when the polls are exactly 5.000 s apart (the forcing rule needs MORE than 20 s) *)
Theorem C13_four_retries_exact_refuted :
  missed (run_pinned13 (rcfg (Some 4) true false) (init (rcfg (Some 4) true false)) ([Out 0; Notify; Poll ok] ++ polls 4 ok)) /\
  seen (run (rcfg (Some 4) true false) (init (rcfg (Some 4) true false)) ([Out 0; Notify; Poll ok] ++ polls 4 ok)).
Proof. vm_compute. repeat split; reflexivity. Qed.
Print Assumptions C13_four_retries_exact_refuted.

Definition run_pinned (c : cfg) (s : st) (evs : list event) : st := fold_left (step_pinned c) evs s.

(* F13b (repaired): with the pinned controller a launch that raises after the notification is not accounted:
   8 polls, 8 launches, both retries still there, not cancelled — bounded stop fails *)
Theorem C13_launch_failure_pinned_refuted :
  let c := rcfg (Some 2) false false in
  let s := run_pinned c (init c) ([Out 0; Notify; Poll boom] ++ polls 7 boom) in
  cancel s = false /\ retries s = 2 /\ length (execs s) = 8%nat /\ nact s = 8.
Proof. vm_compute. repeat split; reflexivity. Qed.
Print Assumptions C13_launch_failure_pinned_refuted.

(* F13c (repaired): with the pinned timer callback the kill delay expiring between two executions of an
   observer that has executed before does not cancel it, and no later invocation does *)
Theorem C13_idle_kill_delay_pinned_refuted :
  let c := rcfg (Some 9) true true in
  let s := run_pinned c (init c) ([Out 0; Poll ok; Adv 5000; Out 0; Poll ok; Adv 5000; Poll ok; Adv 5000; Notify; Poll ok;
                                   Adv 5000; Suicide; Poll ok] ++ polls 8 ok) in
  suicide s = true /\ cancel s = false /\ mon_done s = false /\ retries s = 8 /\ nact s = 12.
Proof. vm_compute. repeat split; reflexivity. Qed.
Print Assumptions C13_idle_kill_delay_pinned_refuted.


(* ---- the hypotheses of C13_sees_final_output are necessary (the property's own exemptions) *)
(* a cancelled engine that could consume, whose newest producer output is newer than every launch *)
Definition unseen (c : cfg) (s : st) : Prop :=
  cancel s = true /\ consume s = true /\
  exists l, lo_of (lo s) 0 = Some l /\ forall x, In x (execs s) -> x_launch x < l.

(* kill delay: the timer expires before the next execution *)
Theorem C13_kill_delay_exempt_refuted :
  let c := rcfg (Some 3) true true in
  unseen c (run c (init c) [Adv 1; Out 0; Poll ok; Adv 5000; Out 0; Notify; Suicide]).
Proof.
  vm_compute. repeat split; try reflexivity. eexists. split; [reflexivity|].
  intros x [<-|[]]. reflexivity.
Qed.
Print Assumptions C13_kill_delay_exempt_refuted.

(* external kill *)
Theorem C13_external_kill_exempt_refuted :
  let c := rcfg (Some 3) true false in
  unseen c (run c (init c) [Adv 1; Out 0; Poll ok; Adv 5000; Out 0; Notify; Kill; Poll ok]).
Proof.
  vm_compute. repeat split; try reflexivity. eexists. split; [reflexivity|].
  intros x [<-|[]]. reflexivity.
Qed.
Print Assumptions C13_external_kill_exempt_refuted.

(* output written after the producers-finished notification (a producer that does not behave as a producer) *)
Theorem C13_late_output_refuted :
  let c := rcfg (Some 3) true false in
  unseen c (run c (init c) [Adv 1; Out 0; Notify; Poll ok; Adv 5000; Out 0]).
Proof.
  vm_compute. repeat split; try reflexivity. eexists. split; [reflexivity|].
  intros x [<-|[]]. reflexivity.
Qed.
Print Assumptions C13_late_output_refuted.
