(* C13 — WHOM a repeating observer waits for.  Executable model of ComponentState.producers (workflow.py): the
   observer's data references are resolved to component ids (stage index, component name) - a reference can stand
   for several components (a loop placeholder) -, each id is looked up in the workflow graph under the key
   'stage<i>.<name>', nodes without an instantiated ComponentState are dropped (a restarted stage: the components
   of earlier stages were not created), and the list has ONE ENTRY PER REFERENCE, in the order of the references,
   duplicates kept.  Component names are unique within a stage only: the key is the PAIR (stage, name).
   ComponentState.stageIn then merges the notifyFinished of the entries that are alive; the merge completes when all
   of them have completed (compile_p: the pending list); with no living entry the notification is immediate. *)
From Coq Require Import ZArith List Bool.
From Coq Require String.
Import ListNotations.
Require Import V.Repeat.Model.
Open Scope Z_scope.

(* DataReference.true_reference_to_component_id: (stageIndex, componentName) *)
Record cid := { i_stage : Z; i_name : String.string }.

(* a node of the workflow graph; g_comp = the ComponentState registered on the node (the producer's index in
   job.producerInstances order, any other number for a component the observer does not consume from) *)
Record gnode := { g_id : cid; g_comp : option nat }.

Definition cid_eqb (a b : cid) : bool := (i_stage a =? i_stage b) && String.eqb (i_name a) (i_name b).

(* self.graph.nodes['stage%d.%s' % comp_id] *)
Definition node_of (g : list gnode) (r : cid) : option gnode := find (fun n => cid_eqb (g_id n) r) g.

(* one entry per component id, instantiated components only; an id that is not in the graph is a KeyError
   (-> InternalInconsistencyError): None *)
Fixpoint resolve (g : list gnode) (ids : list cid) : option (list nat) :=
  match ids with
  | [] => Some []
  | r :: rest =>
      match node_of g r, resolve g rest with
      | Some n, Some l => Some (match g_comp n with Some i => i :: l | None => l end)
      | _, _ => None
      end
  end.

(* ComponentState.producers *)
Definition producers_of (g : list gnode) (refs : list (list cid)) : option (list nat) := resolve g (concat refs).

(* ---- ComponentState.stageIn: reactivex.merge of the notifyFinished of the producers that are alive *)
Definition mem_nat (i : nat) (l : list nat) : bool := existsb (Nat.eqb i) l.
Definition remove_nat (i : nat) (l : list nat) : list nat := filter (fun j => negb (Nat.eqb i j)) l.

(* the entries of the producer list that are alive at stageIn: the sources of the merge *)
Definition pending0 (w : list nat) (al : list bool) : list nat := filter (is_alive al) w.

(* what the observer's engine sees of a history of its producers when it waits for the entries of [pend] *)
Fixpoint compile_p (pend : list nat) (al : list bool) (pes : list pevent) : list event :=
  match pes with
  | [] => []
  | PWrite i :: r => if is_alive al i then Out i :: compile_p pend al r else compile_p pend al r
  | PFinish i :: r =>
      if is_alive al i then
        let al' := set_b i false al in
        let pend' := remove_nat i pend in
        if negb (is_nil pend) && is_nil pend' then Notify :: compile_p pend' al' r else compile_p pend' al' r
      else compile_p pend al r
  | PEnv e :: r => e :: compile_p pend al r
  end.

Fixpoint pend_after (pend : list nat) (al : list bool) (pes : list pevent) : list nat :=
  match pes with
  | [] => pend
  | PFinish i :: r =>
      if is_alive al i then pend_after (remove_nat i pend) (set_b i false al) r else pend_after pend al r
  | _ :: r => pend_after pend al r
  end.

(* with no living entry stageIn notifies at once and subscribes to nothing *)
Definition ptrace_w (w : list nat) (al : list bool) (pes : list pevent) : list event :=
  let pend := pending0 w al in
  if is_nil pend then Notify :: compile_p [] al pes else compile_p pend al pes.

(* producer-level scripts, run with the pending list *)
Fixpoint run_steps4 (c : cfg) (pend : list nat) (al : list bool) (s : st) (l : list sstep3) : list obs * st :=
  match l with
  | [] => ([], s)
  | (dt, pes, o) :: r =>
      let s1 := poll c (run c (step c s (Adv dt)) (compile_p pend al pes)) o in
      let '(os, s2) := run_steps4 c (pend_after pend al pes) (alive_after al pes) s1 r in (observe s1 :: os, s2)
  end.

(* the two producer lists name the same SET of components (what the merge waits for depends on the set only) *)
Definition onl_eqb (a b : option (list nat)) : bool :=
  match a, b with
  | None, None => true
  | Some x, Some y => forallb (fun i => mem_nat i y) x && forallb (fun i => mem_nat i x) y
  | _, _ => false
  end.

(* case = (cfg, graph, references, producers alive at stageIn, script,
           (observations, monitor returned, launches oldest first), the implementation's producer list) *)
Definition check_case4
  (k : cfg * list gnode * list (list cid) * list bool * list sstep3 * (list obs * bool * list exec) * option (list nat)) : bool :=
  let '(c, g, refs, al, l, (os, fin, xs), iw) := k in
  onl_eqb iw (producers_of g refs) &&
  match producers_of g refs with
  | None => true          (* stageIn raised: nothing ran *)
  | Some w =>
      let pend := pending0 w al in
      let s0 := if is_nil pend then step c (init c) Notify else init c in
      let '(os', s) := run_steps4 c pend al s0 l in
      list_eqb obs_eqb os os' && eqb fin (mon_done s) && list_eqb exec_eqb xs (rev (execs s))
  end.
