(* C13 — A repeating observer sees its producers' final output and then stops.
   Executable model of RepeatingEngine.run (EngineTaskController, schedule_next_instance), of the loop of
   monitor.CreateMonitor that drives them, of notify_all_producers_finished (with the
   kill-after-producers-done-delay timer), kill, isAlive and exitReason
   (python/experiment/runtime/engine.py, monitor.py).  Time is Z milliseconds.
   The observer has a LIST of producers (canConsume looks at every same-stage producer, producersHaveOutputSinceDate
   at any of them).  The model is the code AFTER the three fix: commits (F13 never-executed observer, F13b launch
   failure, F13c idle kill delay); the pinned behaviour of those places is kept as isnew_pinned13 / act_pinned /
   suicide_pinned for Refuted.v. *)
From Coq Require Import ZArith List Bool.
Import ListNotations.
Open Scope Z_scope.

(* ---- configuration of the observer *)
Record prod := {
  p_same : bool;          (* the producer is in the observer's stage (canConsume looks at its output) *)
  p_rep : bool            (* the producer is itself repeating (otherwise producersHaveOutputSinceDate is always True) *)
}.

Record cfg := {
  c_retries : option Z;   (* workflowAttributes.repeatRetries (None -> 3) *)
  c_prods : list prod;    (* job.producerInstances, in order *)
  c_check_out : bool;     (* variable check-producer-output (default true) *)
  c_has_delay : bool;     (* variable kill-after-producers-done-delay is set *)
  c_interval : Z;         (* repeat interval, ms *)
  c_t0 : Z                (* time of run() *)
}.

(* outcome of one task execution: the launch raises / returncode, duration, exit reason ResourceExhausted,
   the kill-delay timer expires while the task runs *)
Record outcome := { o_fail : bool; o_rc : Z; o_dur : Z; o_re : bool; o_sui : bool }.

Record exec := { x_launch : Z; x_pf : bool; x_rc : option Z }.

Record st := {
  now : Z;                 (* the clock *)
  lo : list (option Z);    (* per producer: time of its latest output (None: no output yet) *)
  consume : bool;          (* Engine._consume *)
  pf : bool;               (* _producers_are_finished *)
  suicide : bool;          (* _suicide *)
  cancel : bool;           (* cancelMonitorEvent.is_set() *)
  kc : bool;               (* kernelCompleted *)
  retries : Z;             (* _stateDict['repeatRetries'] *)
  ll : Z;                  (* lastLaunched *)
  has_proc : bool;         (* self.process is not None *)
  proc_re : bool;          (* self.process.exitReason == ResourceExhausted *)
  last_fin : option Z;     (* _stateDict['lastTaskFinishedDate'] *)
  beginning : option Z;    (* monitor: time the last action ended; None before the first action *)
  mon_done : bool;         (* the monitor has returned *)
  armed : bool;            (* the kill-delay timer is pending *)
  nact : Z;                (* number of EngineTaskController(False) invocations *)
  execs : list exec        (* task launches, most recent first *)
}.

Definition eff_retries (c : cfg) : Z := match c_retries c with Some r => r | None => 3 end.

Definition init (c : cfg) : st :=
  {| now := c_t0 c; lo := map (fun _ => None) (c_prods c); consume := false; pf := false; suicide := false; cancel := false; kc := false;
     retries := eff_retries c; ll := c_t0 c; has_proc := false; proc_re := false; last_fin := None;
     beginning := None; mon_done := false; armed := false; nact := 0; execs := [] |}.

Definition is_some {A} (o : option A) : bool := match o with Some _ => true | None => false end.

Definition is_nil {A} (l : list A) : bool := match l with [] => true | _ => false end.
Definition c_has_prod (c : cfg) : bool := negb (is_nil (c_prods c)).   (* bool(job.producerInstances) *)

(* the output record of producer i; a producer without a record has no output *)
Definition lo_of (los : list (option Z)) (i : nat) : option Z := nth i los None.

(* Engine.canConsume: EVERY same-stage producer has output *)
Fixpoint can_consume_l (ps : list prod) (los : list (option Z)) : bool :=
  match ps with
  | [] => true
  | p :: ps' => (negb (p_same p) || is_some (hd None los)) && can_consume_l ps' (tl los)
  end.
Definition can_consume (c : cfg) (s : st) : bool := can_consume_l (c_prods c) (lo s).

(* Job.producersHaveOutputSinceDate(lastLaunched): SOME producer is not repeating or has output newer than the date *)
Fixpoint newout_l (ps : list prod) (los : list (option Z)) (d : Z) : bool :=
  match ps with
  | [] => false
  | p :: ps' => (negb (p_rep p) || match hd None los with Some l => l >? d | None => false end) || newout_l ps' (tl los) d
  end.
Definition newout (c : cfg) (s : st) : bool := newout_l (c_prods c) (lo s) (ll s).

(* isNewOutput of EngineTaskController: once the producers are finished an observer that has never launched a
   task takes whatever output there is as new (fix F13); otherwise the 20 second forcing rule *)
Definition isnew (c : cfg) (s : st) : bool :=
  if negb (c_check_out c) then true
  else if pf s && (is_nil (execs s) || (now s - ll s >? 20000)) then true
  else newout c s.

Definition alive (s : st) : bool := negb (cancel s && (negb (has_proc s) || kc s)).
Inductive reason := RNone | RSuccess | RResExh.
Definition exit_reason (s : st) : reason :=
  if alive s then RNone else if has_proc s && proc_re s then RResExh else RSuccess.

(* ---- the tail of EngineTaskController: what happens after the (possible) execution.
   pd = producers_done_when_i_started, ok0 = did_i_execute and returncode == 0 *)
Definition post_cancel (s : st) (pd ok0 : bool) : bool :=
  if pd || suicide s then
    (if ok0 then true else if suicide s then true else if retries s =? 0 then true else cancel s)
  else cancel s.
Definition post_kc (s : st) (pd ok0 : bool) : bool :=
  if (pd || suicide s) && negb ok0 && suicide s then true else kc s.
Definition post_retries (s : st) (pd ok0 : bool) : Z :=
  if (pd || suicide s) && negb ok0 && negb (suicide s) && negb (retries s =? 0) then retries s - 1 else retries s.

Definition post (s : st) (pd ok0 : bool) : st :=
  {| now := now s; lo := lo s; consume := consume s; pf := pf s; suicide := suicide s;
     cancel := post_cancel s pd ok0; kc := post_kc s pd ok0; retries := post_retries s pd ok0;
     ll := ll s; has_proc := has_proc s; proc_re := proc_re s;
     last_fin := last_fin s; beginning := Some (now s); mon_done := mon_done s; armed := armed s;
     nact := nact s; execs := execs s |}.

Definition will_exec (c : cfg) (s : st) : bool :=
  (consume s || can_consume c s) && (isnew c s || negb (c_has_prod c)).

(* state after the launch part of EngineTaskController(False) when it executes; a launch that raises leaves
   the process, the finish date and the clock as they were *)
Definition launched (c : cfg) (s : st) (o : outcome) : st :=
  {| now := if o_fail o then now s else now s + o_dur o; lo := lo s; consume := true; pf := pf s;
     suicide := suicide s || (negb (o_fail o) && o_sui o && armed s);
     cancel := cancel s; kc := kc s; retries := retries s; ll := Z.max (ll s) (now s);
     has_proc := negb (o_fail o) || has_proc s; proc_re := if o_fail o then proc_re s else o_re o;
     last_fin := if o_fail o then last_fin s else Some (now s + o_dur o);
     beginning := beginning s; mon_done := mon_done s;
     armed := if o_fail o then armed s else armed s && negb (o_sui o);
     nact := nact s + 1;
     execs := {| x_launch := now s; x_pf := pf s; x_rc := if o_fail o then None else Some (o_rc o) |} :: execs s |}.

Definition not_launched (c : cfg) (s : st) : st :=
  {| now := now s; lo := lo s; consume := consume s || can_consume c s; pf := pf s; suicide := suicide s;
     cancel := cancel s; kc := kc s; retries := retries s; ll := ll s; has_proc := has_proc s;
     proc_re := proc_re s; last_fin := last_fin s; beginning := beginning s; mon_done := mon_done s;
     armed := armed s; nact := nact s + 1; execs := execs s |}.

(* EngineTaskController(lastAction = False) *)
Definition act (c : cfg) (s : st) (o : outcome) : st :=
  if suicide s then
    {| now := now s; lo := lo s; consume := consume s; pf := pf s; suicide := suicide s; cancel := cancel s;
       kc := false; retries := retries s; ll := ll s; has_proc := has_proc s; proc_re := proc_re s;
       last_fin := last_fin s; beginning := Some (now s); mon_done := mon_done s; armed := armed s;
       nact := nact s + 1; execs := execs s |}
  else if will_exec c s
  then post (launched c s o) (pf s) (negb (o_fail o) && (o_rc o =? 0))
  else post (not_launched c s) (pf s) false.

(* EngineTaskController(lastAction = True), after which the monitor returns *)
Definition last_tick (s : st) : st :=
  {| now := now s; lo := lo s; consume := consume s; pf := pf s; suicide := suicide s; cancel := cancel s;
     kc := true; retries := retries s; ll := ll s; has_proc := has_proc s; proc_re := proc_re s;
     last_fin := last_fin s; beginning := beginning s; mon_done := true; armed := armed s;
     nact := nact s; execs := execs s |}.

(* schedule_next_instance(seconds_waiting); the first action of a monitor is not scheduled *)
Definition sched (c : cfg) (s : st) : bool :=
  match beginning s with
  | None => true
  | Some b =>
      let sw0 := now s - b in
      let sw := match last_fin s with Some f => Z.min (now s - f) sw0 | None => sw0 end in
      if sw <? 5000 then false
      else if cancel s then true
      else if sw >=? c_interval c then true
      else pf s
  end.

(* one resumption of the monitor loop: cancelled -> last action and return; due -> action, and if that
   action cancelled the engine the last action follows at once *)
Definition poll (c : cfg) (s : st) (o : outcome) : st :=
  if mon_done s then s
  else if cancel s then last_tick s
  else if sched c s then
    let s' := act c s o in if cancel s' then last_tick s' else s'
  else s.

Fixpoint set_nth (i : nat) (v : option Z) (l : list (option Z)) {struct l} : list (option Z) :=
  match l, i with
  | [], _ => []
  | _ :: r, O => v :: r
  | x :: r, S k => x :: set_nth k v r
  end.

Definition set_time (s : st) (t : Z) (l : list (option Z)) : st :=
  {| now := t; lo := l; consume := consume s; pf := pf s; suicide := suicide s; cancel := cancel s;
     kc := kc s; retries := retries s; ll := ll s; has_proc := has_proc s; proc_re := proc_re s;
     last_fin := last_fin s; beginning := beginning s; mon_done := mon_done s; armed := armed s;
     nact := nact s; execs := execs s |}.

(* flags changed from outside the controller *)
Definition set_flags (s : st) (pf' suicide' cancel' kc' armed' : bool) : st :=
  {| now := now s; lo := lo s; consume := consume s; pf := pf'; suicide := suicide'; cancel := cancel';
     kc := kc'; retries := retries s; ll := ll s; has_proc := has_proc s; proc_re := proc_re s;
     last_fin := last_fin s; beginning := beginning s; mon_done := mon_done s; armed := armed';
     nact := nact s; execs := execs s |}.

Inductive event :=
| Adv (dt : Z)        (* time passes (the monitor sleeps) *)
| Out (i : nat)       (* producer i writes output now *)
| Notify              (* notify_all_producers_finished() *)
| Kill                (* kill() from outside *)
| Suicide             (* the kill-after-producers-done-delay timer expires between two actions *)
| Poll (o : outcome). (* the monitor loop resumes *)

Definition notify (c : cfg) (s : st) : st :=
  set_flags s true (suicide s) (cancel s) (kc s) (armed s || (c_has_delay c && alive s)).

(* suicide() between two actions: the task (if any) is dead, the engine is cancelled *)
Definition suicide_ev (s : st) : st :=
  if armed s then set_flags s (pf s) true true true false else s.

Definition step (c : cfg) (s : st) (e : event) : st :=
  match e with
  | Adv dt => set_time s (now s + dt) (lo s)
  | Out i => set_time s (now s) (set_nth i (Some (now s)) (lo s))
  | Notify => notify c s
  | Kill => set_flags s (pf s) (suicide s) true (kc s) (armed s)
  | Suicide => suicide_ev s
  | Poll o => poll c s o
  end.

Definition run (c : cfg) (s : st) (evs : list event) : st := fold_left (step c) evs s.

(* ---- the pinned (pre-fix) behaviours, for Refuted.v *)
(* F13: before the fix only the 20 second rule could force an execution once the producers were finished *)
Definition isnew_pinned13 (c : cfg) (s : st) : bool :=
  if negb (c_check_out c) then true
  else if pf s && (now s - ll s >? 20000) then true
  else newout c s.
Definition act_pinned13 (c : cfg) (s : st) (o : outcome) : st :=
  if suicide s then act c s o
  else if (consume s || can_consume c s) && (isnew_pinned13 c s || negb (c_has_prod c))
  then post (launched c s o) (pf s) (negb (o_fail o) && (o_rc o =? 0))
  else post (not_launched c s) (pf s) false.
Definition poll_pinned13 (c : cfg) (s : st) (o : outcome) : st :=
  if mon_done s then s
  else if cancel s then last_tick s
  else if sched c s then
    let s' := act_pinned13 c s o in if cancel s' then last_tick s' else s'
  else s.
Definition step_pinned13 (c : cfg) (s : st) (e : event) : st :=
  match e with Poll o => poll_pinned13 c s o | _ => step c s e end.

(* F13c: the timer found self.process set (a finished task) and only signalled it *)
Definition suicide_pinned (s : st) : st :=
  if armed s then
    if has_proc s then set_flags s (pf s) true (cancel s) (kc s) false
    else set_flags s (pf s) true true true false
  else s.
(* F13b: a launch that raises after the producers finished left my_process = None; my_process.returncode
   raised AttributeError out of the controller: no retry accounting, no kill (the monitor logs and goes on) *)
Definition act_pinned (c : cfg) (s : st) (o : outcome) : st :=
  if negb (suicide s) && will_exec c s && o_fail o && pf s then launched c s o else act c s o.
Definition poll_pinned (c : cfg) (s : st) (o : outcome) : st :=
  if mon_done s then s
  else if cancel s then last_tick s
  else if sched c s then
    let s' := act_pinned c s o in if cancel s' then last_tick s' else s'
  else s.
Definition step_pinned (c : cfg) (s : st) (e : event) : st :=
  match e with Suicide => suicide_pinned s | Poll o => poll_pinned c s o | _ => step c s e end.

(* ---- what the correspondence compares *)
Record obs := { b_launches : Z; b_retries : Z; b_cancel : bool; b_kc : bool; b_alive : bool; b_reason : reason;
                b_consume : bool; b_pf : bool; b_suicide : bool; b_ll : Z; b_actions : Z; b_lasts : Z }.

Definition observe (s : st) : obs :=
  {| b_launches := Z.of_nat (length (execs s)); b_retries := retries s; b_cancel := cancel s; b_kc := kc s;
     b_alive := alive s; b_reason := exit_reason s; b_consume := consume s; b_pf := pf s; b_suicide := suicide s;
     b_ll := ll s; b_actions := nact s; b_lasts := if mon_done s then 1 else 0 |}.

Definition reason_eqb (a b : reason) : bool :=
  match a, b with RNone, RNone | RSuccess, RSuccess | RResExh, RResExh => true | _, _ => false end.
Definition obs_eqb (a b : obs) : bool :=
  (b_launches a =? b_launches b) && (b_retries a =? b_retries b) && eqb (b_cancel a) (b_cancel b) &&
  eqb (b_kc a) (b_kc b) && eqb (b_alive a) (b_alive b) && reason_eqb (b_reason a) (b_reason b) &&
  eqb (b_consume a) (b_consume b) && eqb (b_pf a) (b_pf b) && eqb (b_suicide a) (b_suicide b) &&
  (b_ll a =? b_ll b) && (b_actions a =? b_actions b) && (b_lasts a =? b_lasts b).

(* a script step: the clock advance of the sleep, the events injected during it, the outcome available to the
   poll that follows.  The first step's advance is 0 and its events precede run(). *)
Definition sstep := (Z * list event * outcome)%type.

Fixpoint run_steps (c : cfg) (s : st) (l : list sstep) : list obs * st :=
  match l with
  | [] => ([], s)
  | (dt, evs, o) :: r =>
      let s1 := poll c (run c (step c s (Adv dt)) evs) o in
      let '(os, s2) := run_steps c s1 r in (observe s1 :: os, s2)
  end.

Fixpoint list_eqb {A} (eqb : A -> A -> bool) (l r : list A) : bool :=
  match l, r with
  | [], [] => true
  | x :: l', y :: r' => eqb x y && list_eqb eqb l' r'
  | _, _ => false end.

Definition oz_eqb (a b : option Z) : bool :=
  match a, b with None, None => true | Some x, Some y => x =? y | _, _ => false end.
Definition exec_eqb (a b : exec) : bool :=
  (x_launch a =? x_launch b) && eqb (x_pf a) (x_pf b) && oz_eqb (x_rc a) (x_rc b).

(* case = (cfg, script, (observations, monitor returned, launches oldest first)) *)
Definition check_case (k : cfg * list sstep * (list obs * bool * list exec)) : bool :=
  let '(c, l, (os, fin, xs)) := k in
  let '(os', s) := run_steps c (init c) l in
  list_eqb obs_eqb os os' && eqb fin (mon_done s) && list_eqb exec_eqb xs (rev (execs s)).

(* ---- scripts in which the producers-finished notification can arrive WHILE a task execution is in flight:
   the controller decides with the snapshot it took before the launch, so such a poll behaves like
   [Poll o] followed at once by the listed events (here: Notify), before the observation is taken. *)
Definition sstep2 := (Z * list event * outcome * list event)%type.

Fixpoint run_steps2 (c : cfg) (s : st) (l : list sstep2) : list obs * st :=
  match l with
  | [] => ([], s)
  | (dt, evs, o, post) :: r =>
      let s1 := run c (poll c (run c (step c s (Adv dt)) evs) o) post in
      let '(os, s2) := run_steps2 c s1 r in (observe s1 :: os, s2)
  end.

Definition check_case2 (k : cfg * list sstep2 * (list obs * bool * list exec)) : bool :=
  let '(c, l, (os, fin, xs)) := k in
  let '(os', s) := run_steps2 c (init c) l in
  list_eqb obs_eqb os os' && eqb fin (mon_done s) && list_eqb exec_eqb xs (rev (execs s)).

(* ---- an explicit model of the producers: a producer writes only while it is alive; the producers-finished
   notification is delivered when the last living producer finishes (reactivex.merge of the producers'
   notifyFinished completes when all of them have completed: ComponentState.stageIn) *)
Inductive pevent :=
| PWrite (i : nat)    (* producer i is asked to write output now: only a living producer does *)
| PFinish (i : nat)   (* producer i finishes *)
| PEnv (e : event).   (* everything that is not the producers' doing: the clock, polls, the timer, kills *)

Fixpoint set_b (i : nat) (v : bool) (l : list bool) {struct l} : list bool :=
  match l, i with
  | [], _ => []
  | _ :: r, O => v :: r
  | x :: r, S k => x :: set_b k v r
  end.
Definition is_alive (al : list bool) (i : nat) : bool := nth i al false.
Definition all_dead (al : list bool) : bool := forallb negb al.

(* what the observer's engine sees of a history of its producers *)
Fixpoint compile (al : list bool) (pes : list pevent) : list event :=
  match pes with
  | [] => []
  | PWrite i :: r => if is_alive al i then Out i :: compile al r else compile al r
  | PFinish i :: r =>
      if is_alive al i then
        let al' := set_b i false al in
        if all_dead al' then Notify :: compile al' r else compile al' r
      else compile al r
  | PEnv e :: r => e :: compile al r
  end.

(* ComponentState.stageIn subscribes to the producers that are alive then; with none it notifies at once *)
Definition ptrace_from (al : list bool) (pes : list pevent) : list event :=
  if all_dead al then Notify :: compile al pes else compile al pes.
Definition ptrace (c : cfg) (pes : list pevent) : list event := ptrace_from (map (fun _ => true) (c_prods c)) pes.

(* the producers still alive after a history *)
Fixpoint alive_after (al : list bool) (pes : list pevent) : list bool :=
  match pes with
  | [] => al
  | PFinish i :: r => alive_after (if is_alive al i then set_b i false al else al) r
  | _ :: r => alive_after al r
  end.

(* scripts at the level of the producers: the clock advance of the sleep, what the producers and the rest of the
   environment do during it, the outcome available to the poll that follows; the correspondence runs these
   through the REAL ComponentState.stageIn subscription (reactivex.merge of the producers' notifyFinished) *)
Definition sstep3 := (Z * list pevent * outcome)%type.

Fixpoint run_steps3 (c : cfg) (al : list bool) (s : st) (l : list sstep3) : list obs * st :=
  match l with
  | [] => ([], s)
  | (dt, pes, o) :: r =>
      let s1 := poll c (run c (step c s (Adv dt)) (compile al pes)) o in
      let '(os, s2) := run_steps3 c (alive_after al pes) s1 r in (observe s1 :: os, s2)
  end.

(* case = (cfg, producers alive at stageIn, script, (observations, monitor returned, launches oldest first)) *)
Definition check_case3 (k : cfg * list bool * list sstep3 * (list obs * bool * list exec)) : bool :=
  let '(c, al, l, (os, fin, xs)) := k in
  let s0 := if all_dead al then step c (init c) Notify else init c in
  let '(os', s) := run_steps3 c al s0 l in
  list_eqb obs_eqb os os' && eqb fin (mon_done s) && list_eqb exec_eqb xs (rev (execs s)).

