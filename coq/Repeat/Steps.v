(* C13 — scripts (run_steps / run_steps2, the form in which the correspondence drives the real engine, including
   a notification delivered WHILE a task execution is in flight) are event sequences: every theorem proved over
   arbitrary event sequences holds of them.  A mid-execution notification is the same as one delivered at the
   next poll boundary.  A cancelled engine is frozen. *)
From Coq Require Import ZArith List Bool Lia ZifyBool.
Import ListNotations.
Require Import V.Repeat.Model V.Repeat.Proofs.
Open Scope Z_scope.

Definition flat1 (x : sstep) : list event := let '(dt, evs, o) := x in (Adv dt :: evs) ++ [Poll o].
Definition flat2 (x : sstep2) : list event := let '(dt, evs, o, post) := x in (Adv dt :: evs) ++ Poll o :: post.
Definition flat (l : list sstep) : list event := concat (map flat1 l).
Definition flats2 (l : list sstep2) : list event := concat (map flat2 l).

Lemma step2_state c s dt evs o post r :
  run_steps2 c s ((dt, evs, o, post) :: r) =
  let s1 := run c s (flat2 (dt, evs, o, post)) in
  (observe s1 :: fst (run_steps2 c s1 r), snd (run_steps2 c s1 r)).
Proof.
  cbn [run_steps2 flat2]. rewrite run_app. cbn [run fold_left app].
  fold (run c (poll c (fold_left (step c) evs (step c s (Adv dt))) o) post).
  destruct (run_steps2 c _ r). reflexivity.
Qed.

Lemma run_steps2_state c l : forall s, snd (run_steps2 c s l) = run c s (flats2 l).
Proof.
  induction l as [|[[[dt evs] o] post] r IH]; intros s; [reflexivity|].
  rewrite step2_state. cbn [snd]. rewrite IH. unfold flats2. cbn [map concat]. rewrite run_app. reflexivity.
Qed.

Lemma step1_state c s dt evs o r :
  run_steps c s ((dt, evs, o) :: r) =
  let s1 := run c s (flat1 (dt, evs, o)) in
  (observe s1 :: fst (run_steps c s1 r), snd (run_steps c s1 r)).
Proof.
  cbn [run_steps flat1]. rewrite run_app. cbn [run fold_left app].
  destruct (run_steps c _ r). reflexivity.
Qed.

Lemma run_steps_state c l : forall s, snd (run_steps c s l) = run c s (flat l).
Proof.
  induction l as [|[[dt evs] o] r IH]; intros s; [reflexivity|].
  rewrite step1_state. cbn [snd]. rewrite IH. unfold flat. cbn [map concat]. rewrite run_app. reflexivity.
Qed.

(* run_steps2 without mid-execution events IS run_steps *)
Definition lift2 (x : sstep) : sstep2 := let '(dt, evs, o) := x in (dt, evs, o, []).

Lemma run_steps2_lift c l : forall s, run_steps2 c s (map lift2 l) = run_steps c s l.
Proof.
  induction l as [|[[dt evs] o] r IH]; intros s; [reflexivity|].
  cbn [map lift2 run_steps2 run_steps run fold_left]. rewrite IH. reflexivity.
Qed.

(* ---- a notification delivered during the execution of a poll = one delivered first thing in the next sleep *)
Lemma notify_adv c s dt : step c (step c s Notify) (Adv dt) = step c (step c s (Adv dt)) Notify.
Proof. reflexivity. Qed.

Lemma mid_notify_state c s dt evs o dt' evs' o' post' :
  run c s (flat2 (dt, evs, o, [Notify]) ++ flat2 (dt', evs', o', post')) =
  run c s (flat2 (dt, evs, o, []) ++ flat2 (dt', Notify :: evs', o', post')).
Proof.
  unfold flat2.
  transitivity (run c s (((Adv dt :: evs) ++ [Poll o]) ++ [Notify; Adv dt'] ++ (evs' ++ Poll o' :: post'))).
  { f_equal; rewrite <- ?app_assoc; reflexivity. }
  transitivity (run c s (((Adv dt :: evs) ++ [Poll o]) ++ [Adv dt'; Notify] ++ (evs' ++ Poll o' :: post'))).
  { rewrite !run_app. reflexivity. }
  f_equal; rewrite <- ?app_assoc; reflexivity.
Qed.

Lemma mid_notify_refines c s dt evs o dt' evs' o' post' r :
  let a := run_steps2 c s ((dt, evs, o, [Notify]) :: (dt', evs', o', post') :: r) in
  let b := run_steps2 c s ((dt, evs, o, []) :: (dt', Notify :: evs', o', post') :: r) in
  snd a = snd b /\ tl (fst a) = tl (fst b).
Proof.
  cbv zeta. rewrite !step2_state. cbv zeta. cbn [fst snd tl].
  rewrite !step2_state. cbv zeta. cbn [fst snd]. rewrite <- !run_app. rewrite mid_notify_state. split; reflexivity.
Qed.

(* ---- a cancelled engine is frozen: whatever happens, nothing is launched, the controller is not invoked
   again (lastAction aside), it stays cancelled; and the first poll ends the monitor *)
Lemma cancelled_step c s e : cancel s = true ->
  cancel (step c s e) = true /\ execs (step c s e) = execs s /\ nact (step c s e) = nact s /\
  (mon_done s = true -> mon_done (step c s e) = true) /\
  (forall o, e = Poll o -> mon_done (step c s e) = true).
Proof.
  intros H. destruct e; cbn;
    try (unfold suicide_ev; destruct (armed s); cbn);
    try (unfold poll; rewrite H; destruct (mon_done s) eqn:E; cbn);
    repeat split; auto; try discriminate.
Qed.

Lemma cancelled_run c evs : forall s, cancel s = true ->
  cancel (run c s evs) = true /\ execs (run c s evs) = execs s /\ nact (run c s evs) = nact s /\
  (mon_done s = true -> mon_done (run c s evs) = true) /\
  ((exists o, In (Poll o) evs) -> mon_done (run c s evs) = true).
Proof.
  induction evs as [|e r IH]; intros s H.
  - cbn. repeat split; auto. intros [o []].
  - rewrite run_cons. destruct (cancelled_step c s e H) as (A & B & C & D & E).
    destruct (IH _ A) as (A' & B' & C' & D' & E'). repeat split; auto; try congruence.
    intros [o [Ho|Ho]]; [apply D', (E o); auto|apply E'; eauto].
Qed.

(* a finished monitor of a cancelled engine reports dead, with an exit reason, for ever *)
Definition stopped (s : st) : Prop := mon_done s = true /\ cancel s = true /\ kc s = true.

Lemma stopped_step c s e : stopped s -> stopped (step c s e).
Proof.
  intros (A & B & C). destruct e; cbn; unfold stopped; auto.
  - unfold suicide_ev. destruct (armed s); cbn; auto.
  - unfold poll. rewrite A. auto.
Qed.

Lemma stopped_run c evs : forall s, stopped s -> stopped (run c s evs).
Proof. induction evs as [|e r IH]; intros s H; [exact H|]. rewrite run_cons. apply IH, stopped_step, H. Qed.

Lemma stopped_dead s : stopped s -> alive s = false /\ exit_reason s <> RNone.
Proof.
  intros (A & B & C). unfold exit_reason, alive. rewrite B, C. cbn. rewrite orb_true_r. cbn.
  split; auto. destruct (has_proc s && proc_re s); discriminate.
Qed.

Lemma poll_cancelled_stopped c s o : cancel s = true -> stopped (poll c s o) \/ (mon_done s = true /\ poll c s o = s).
Proof.
  intros H. unfold poll. destruct (mon_done s) eqn:E; [right; auto|]. rewrite H. left. unfold stopped. cbn. auto.
Qed.

(* what every later observation of a script shows once the engine has been cancelled by its own controller or at
   a poll: the monitor has made its last action, no launch and no invocation is added, the engine is dead *)
Definition frozen_obs (s : st) (ob : obs) : Prop :=
  b_launches ob = Z.of_nat (length (execs s)) /\ b_actions ob = nact s /\ b_lasts ob = 1 /\
  b_cancel ob = true /\ b_alive ob = false /\ b_reason ob <> RNone.

Lemma stopped_steps2 c l : forall s, stopped s ->
  Forall (frozen_obs s) (fst (run_steps2 c s l)) /\ stopped (snd (run_steps2 c s l)) /\
  execs (snd (run_steps2 c s l)) = execs s /\ nact (snd (run_steps2 c s l)) = nact s.
Proof.
  induction l as [|[[[dt evs] o] post] r IH]; intros s H.
  - cbn. auto.
  - rewrite step2_state. cbv zeta. cbn [fst snd].
    pose proof (stopped_run c (flat2 (dt, evs, o, post)) s H) as H1.
    destruct H as (A & B & C).
    destruct (cancelled_run c (flat2 (dt, evs, o, post)) s B) as (_ & E1 & E2 & _ & _).
    destruct (IH _ H1) as (F & S & X & N).
    split; [|split; [exact S|split; congruence]].
    constructor.
    + destruct (stopped_dead _ H1) as [D1 D2]. destruct H1 as (A1 & B1 & C1).
      unfold frozen_obs, observe. cbn [b_launches b_actions b_lasts b_cancel b_alive b_reason].
      rewrite A1, E1, E2, B1. repeat split; auto.
    + eapply Forall_impl; [|exact F]. unfold frozen_obs. rewrite E1, E2. auto.
Qed.

Definition quiet_obs (s : st) (ob : obs) : Prop :=
  b_launches ob = Z.of_nat (length (execs s)) /\ b_actions ob = nact s /\ b_lasts ob = 1 /\ b_cancel ob = true.

Lemma done_cancelled_steps2 c r : forall s, cancel s = true -> mon_done s = true ->
  Forall (quiet_obs s) (fst (run_steps2 c s r)).
Proof.
  induction r as [|[[[dt evs] o] post] r IH]; intros s A M; [constructor|].
  rewrite step2_state. cbv zeta. cbn [fst].
  destruct (cancelled_run c (flat2 (dt, evs, o, post)) s A) as (A2 & B2 & C2 & D2 & _).
  constructor.
  - unfold quiet_obs, observe; cbn [b_launches b_actions b_lasts b_cancel]. rewrite (D2 M), B2, C2, A2. auto.
  - eapply Forall_impl; [|apply IH; auto]. unfold quiet_obs. rewrite B2, C2. auto.
Qed.

(* a script step made on an engine that is cancelled but whose monitor has not noticed yet: the poll of that
   step is the monitor's last, nothing is launched, and everything after is frozen *)
Lemma cancelled_steps2 c s dt evs o post r :
  cancel s = true ->
  let res := run_steps2 c s ((dt, evs, o, post) :: r) in
  execs (snd res) = execs s /\ nact (snd res) = nact s /\ mon_done (snd res) = true /\
  Forall (quiet_obs s) (fst res).
Proof.
  intros H. cbv zeta. rewrite step2_state. cbv zeta. cbn [fst snd].
  destruct (cancelled_run c (flat2 (dt, evs, o, post)) s H) as (A & B & C & _ & D).
  assert (M : mon_done (run c s (flat2 (dt, evs, o, post))) = true)
    by (apply D; exists o; unfold flat2; apply in_or_app; right; left; reflexivity).
  destruct (cancelled_run c (flats2 r) _ A) as (A' & B' & C' & D' & _).
  rewrite run_steps2_state. repeat split; try congruence; auto.
  constructor.
  - unfold quiet_obs, observe; cbn [b_launches b_actions b_lasts b_cancel]. rewrite M, B, C, A. auto.
  - eapply Forall_impl; [|apply done_cancelled_steps2; auto]. unfold quiet_obs. rewrite B, C. auto.
Qed.
