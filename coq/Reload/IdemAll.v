(* C07 — store . load . store = store for the sections that IdemDoc.v leaves out (stage blueprints, the list of stage
   keys) and the assembly of all the per-section statements into one statement about the whole flattened document
   (structural part flatten_raw; the reloaded document is f_doc fd with the environments {default: f_envs fd}, loaded
   on the selected platform p again with the user variables u patched in again). *)
From Coq Require Import String Ascii List Bool ZArith Arith Lia.
Import ListNotations.
Require Import V.Lib.PyStr V.Lib.JTree V.Conf.Model V.Conf.Proofs V.Reload.Model V.Reload.Proofs V.Reload.Obs V.Reload.Idem V.Reload.IdemDoc.
Open Scope string_scope.

(* ------------------------------------------------------------------ dictionaries built per stage key *)
Lemma all_some_keyed (F : string -> option jv) sks : forall l sk,
  all_some (map (fun s => option_map (fun b => (s, b)) (F s)) sks) = Some l ->
  lookup sk l = if existsb (String.eqb sk) sks then F sk else None.
Proof.
  induction sks as [|s r IH]; intros l sk H.
  - cbn in H. injection H as <-. reflexivity.
  - cbn [map all_some] in H. destruct (F s) as [b|] eqn:Fs; cbn [option_map] in H; [|discriminate].
    destruct (all_some (map (fun s0 => option_map (fun b0 => (s0, b0)) (F s0)) r)) as [l'|] eqn:E; [|discriminate].
    cbn in H. injection H as <-. cbn [lookup existsb].
    destruct (String.eqb sk s) eqn:Es.
    + apply String.eqb_eq in Es; subst. cbn. symmetry. exact Fs.
    + cbn. apply IH. reflexivity.
Qed.

Lemma all_some_keyed_some (F : string -> option jv) sks : forall l sk,
  all_some (map (fun s => option_map (fun b => (s, b)) (F s)) sks) = Some l ->
  existsb (String.eqb sk) sks = true -> exists b, F sk = Some b /\ lookup sk l = Some b.
Proof.
  induction sks as [|s r IH]; intros l sk H Hin; [discriminate|].
  cbn [map all_some] in H. destruct (F s) as [b|] eqn:Fs; cbn [option_map] in H; [|discriminate].
  destruct (all_some (map (fun s0 => option_map (fun b0 => (s0, b0)) (F s0)) r)) as [l'|] eqn:E; [|discriminate].
  cbn in H. injection H as <-. cbn [existsb] in Hin. cbn [lookup].
  destruct (String.eqb sk s) eqn:Es.
  - apply String.eqb_eq in Es; subst. exists b. split; [exact Fs|reflexivity].
  - cbn in Hin. exact (IH l' sk eq_refl Hin).
Qed.

Lemma flatten_raw_inv2 d envs u p fd : flatten_raw d envs u p = Some fd ->
  exists bg bss cs, fl_bp_global d p = Some bg /\
    all_some (map (fun sk => option_map (fun b => (sk, b)) (fl_bp_stage d p sk)) (stage_keys (d_components d))) = Some bss /\
    all_some (map (store_comp_raw d p) (d_components d)) = Some cs /\
    fd = {| f_doc := {| d_blueprint := mk_sections bg bss;
                        d_variables := mk_sections (JDict (fl_global d p))
                                         (map (fun sk => (sk, JDict (fl_stage d u p sk))) (stage_keys (d_components d)));
                        d_components := cs |};
            f_envs := fl_envs envs p |}.
Proof.
  unfold flatten_raw. intros H.
  destruct (fl_bp_global d p) as [bg|]; [|discriminate].
  destruct (all_some (map (fun sk0 => option_map (fun b0 => (sk0, b0)) (fl_bp_stage d p sk0)) (stage_keys (d_components d)))) as [bss|];
    [|discriminate].
  destruct (all_some (map (store_comp_raw d p) (d_components d))) as [cs|]; [|discriminate].
  injection H as <-. exists bg, bss, cs. repeat split; reflexivity.
Qed.

Section FlatBp.
  Variables (bg : jv) (bss : alist) (v : jv) (cs : list jv).
  Let fdd : doc := {| d_blueprint := mk_sections bg bss; d_variables := v; d_components := cs |}.

  Lemma flat_bp_global : bp_global fdd DEF = bg.
  Proof. reflexivity. Qed.

  Lemma flat_bp_stage sk : bp_stage fdd DEF sk = match lookup sk bss with Some b => b | None => JDict [] end.
  Proof.
    unfold bp_stage, get_or, fdd, mk_sections, DEF. cbn [d_blueprint get_path lookup String.eqb Ascii.eqb Bool.eqb].
    destruct (lookup sk bss); reflexivity.
  Qed.

  Lemma flat_bp_foreign q sk : String.eqb q DEF = false -> bp_global fdd q = JDict [] /\ bp_stage fdd q sk = JDict [].
  Proof.
    intros H. unfold bp_global, bp_stage, get_or, fdd, mk_sections. cbn [d_blueprint get_path lookup].
    rewrite H. split; reflexivity.
  Qed.
End FlatBp.

(* ------------------------------------------------------------------ the stage blueprints *)
Lemma reflatten_bp_stage d envs u p fd sk bs bs2 : flatten_raw d envs u p = Some fd ->
  existsb (String.eqb sk) (stage_keys (d_components d)) = true ->
  is_dict (bp_stage d DEF sk) ->
  fl_bp_stage d p sk = Some bs -> fl_bp_stage (f_doc fd) p sk = Some bs2 -> jeq bs2 bs.
Proof.
  intros H Hs [m0 Hd] Hbs H2. destruct (flatten_raw_inv2 _ _ _ _ _ H) as (bg & bss & cs & _ & Hbss & _ & ->).
  cbn [f_doc] in H2. unfold fl_bp_stage in H2.
  destruct (all_some_keyed_some _ _ _ sk Hbss Hs) as (b & Fb & Lb). rewrite Hbs in Fb. injection Fb as <-.
  rewrite flat_bp_stage, Lb in H2.
  assert (Ds : exists ms, bs = JDict ms).
  { unfold fl_bp_stage in Hbs. rewrite Hd in Hbs. exact (override_dict_is_dict _ _ _ Hbs). }
  destruct Ds as [ms ->].
  intros pi. rewrite (override_obs pi _ _ _ H2).
  destruct (String.eqb p DEF) eqn:Ep.
  - apply String.eqb_eq in Ep; subst p. rewrite flat_bp_stage, Lb. apply comb_idem.
  - destruct (flat_bp_foreign bg bss (mk_sections (JDict (fl_global d p))
                 (map (fun sk0 => (sk0, JDict (fl_stage d u p sk0))) (stage_keys (d_components d)))) cs p sk Ep) as [_ ->].
    destruct pi; reflexivity.
Qed.

(* ------------------------------------------------------------------ the list of stage keys *)
Lemma all_some_forall2 {A B} (f : A -> option B) : forall l l',
  all_some (map f l) = Some l' -> Forall2 (fun x y => f x = Some y) l l'.
Proof.
  induction l as [|x r IH]; intros l' H.
  - cbn in H. injection H as <-. constructor.
  - cbn [map all_some] in H. destruct (f x) as [y|] eqn:E; [|discriminate].
    destruct (all_some (map f r)) as [r'|]; [|discriminate]. cbn in H. injection H as <-.
    constructor; [exact E|apply IH; reflexivity].
Qed.

(* every component that is stored with its layers folded in has clean side layers *)
Definition all_clean (d : doc) (p : string) : Prop :=
  forall c sk, In c (d_components d) -> is_import c = false -> comp_stage_key c = Some sk -> clean d p sk c.

Lemma stored_stage_any d p c c' : store_comp_raw d p c = Some c' ->
  (is_import c = false -> forall sk, comp_stage_key c = Some sk -> clean d p sk c) ->
  comp_stage_key c' = comp_stage_key c.
Proof.
  intros Hc Hcl. destruct (is_import c) eqn:Hi.
  - unfold store_comp_raw, store_comp_with in Hc. rewrite Hi in Hc. injection Hc as <-. reflexivity.
  - destruct (comp_stage_key c) as [sk|] eqn:Hs.
    + destruct (fold_exists d p sk c c' Hi Hs Hc) as [f Hf].
      exact (stored_stage d p sk c c' f Hi Hs Hc Hf (Hcl eq_refl sk eq_refl)).
    + unfold store_comp_raw, store_comp_with in Hc. rewrite Hi, Hs in Hc. discriminate.
Qed.

Lemma filter_map_forall2 {A B} (g : A -> option B) l l' :
  Forall2 (fun x y => g y = g x) l l' -> filter_map g l' = filter_map g l.
Proof. induction 1 as [|x y r r' E _ IH]; [reflexivity|]. cbn. rewrite E, IH. reflexivity. Qed.

Lemma Forall2_imp {A B} (P Q : A -> B -> Prop) l l' : (forall x y, P x y -> Q x y) -> Forall2 P l l' -> Forall2 Q l l'.
Proof. intros H F. induction F; constructor; auto. Qed.

Lemma Forall2_in {A B} (P : A -> B -> Prop) l l' : Forall2 P l l' -> Forall2 (fun x y => P x y /\ In x l) l l'.
Proof.
  induction 1 as [|x y r r' E _ IH]; constructor.
  - split; [exact E|left; reflexivity].
  - apply (Forall2_imp (fun x0 y0 => P x0 y0 /\ In x0 r)); [|exact IH]. intros x0 y0 [H1 H2]. split; [exact H1|right; exact H2].
Qed.

Lemma stored_components d p cs : all_some (map (store_comp_raw d p) (d_components d)) = Some cs ->
  Forall2 (fun c c' => store_comp_raw d p c = Some c' /\ In c (d_components d)) (d_components d) cs.
Proof. intros H. apply Forall2_in. apply all_some_forall2. exact H. Qed.

Lemma reflatten_stage_keys d envs u p fd : flatten_raw d envs u p = Some fd -> all_clean d p ->
  stage_keys (d_components (f_doc fd)) = stage_keys (d_components d).
Proof.
  intros H Hcl. destruct (flatten_raw_inv2 _ _ _ _ _ H) as (bg & bss & cs & _ & _ & Hcs & ->). cbn [f_doc d_components].
  unfold stage_keys. f_equal. apply filter_map_forall2.
  apply (Forall2_imp (fun c c' => store_comp_raw d p c = Some c' /\ In c (d_components d))); [|exact (stored_components d p cs Hcs)].
  intros x y [E Hin]. apply (stored_stage_any d p x y E). intros Hi sk Hs. exact (Hcl x sk Hin Hi Hs).
Qed.

(* ------------------------------------------------------------------ the whole flattened document *)
Lemma in_stage_keys cs c sk : In c cs -> comp_stage_key c = Some sk -> existsb (String.eqb sk) (stage_keys cs) = true.
Proof.
  intros Hin Hs. unfold stage_keys. rewrite existsb_dedup. induction cs as [|x r IH]; [destruct Hin|].
  cbn [filter_map]. destruct Hin as [->|Hin].
  - rewrite Hs. cbn. rewrite String.eqb_refl. reflexivity.
  - destruct (comp_stage_key x); [cbn; rewrite (IH Hin); apply orb_true_r|exact (IH Hin)].
Qed.

(* two flattened documents are the same stored description: the same global blueprint and stage blueprints (as trees),
   the same stage keys, the same global variables, the same stage variables (as finite maps), the same components
   (pairwise, as trees), the same environments (as a finite map) *)
Record fdoc_same (sks : list string) (fd2 fd : fdoc) : Prop := {
  same_bp_global : jeq (bp_global (f_doc fd2) DEF) (bp_global (f_doc fd) DEF);
  same_bp_stage : forall sk, existsb (String.eqb sk) sks = true -> jeq (bp_stage (f_doc fd2) DEF sk) (bp_stage (f_doc fd) DEF sk);
  same_keys : stage_keys (d_components (f_doc fd2)) = sks /\ stage_keys (d_components (f_doc fd)) = sks;
  same_vars_global : vars_global (f_doc fd2) DEF = vars_global (f_doc fd) DEF;
  same_vars_stage : forall sk, existsb (String.eqb sk) sks = true ->
                    alist_eq (vars_stage (f_doc fd2) DEF sk) (vars_stage (f_doc fd) DEF sk);
  same_components : Forall2 jeq (d_components (f_doc fd2)) (d_components (f_doc fd));
  same_envs : alist_eq (f_envs fd2) (f_envs fd) }.

Lemma jeq_stage_key a b : jeq a b -> comp_stage_key a = comp_stage_key b.
Proof.
  intros H. specialize (H ["stage"]). unfold obs in H. unfold comp_stage_key.
  destruct (get_path ["stage"] a) as [[]|], (get_path ["stage"] b) as [[]|]; cbn in H; try discriminate; try reflexivity.
  injection H as ->. reflexivity.
Qed.

Lemma Forall2_flip_jeq l l' : Forall2 jeq l l' -> Forall2 jeq l' l.
Proof. induction 1; constructor; [apply jeq_sym; assumption|assumption]. Qed.

Lemma forall2_chain {A} (P Q R : A -> A -> Prop) l cs : Forall2 P l cs -> forall cs2, Forall2 Q cs cs2 ->
  (forall c c' c'', P c c' -> Q c' c'' -> R c'' c') -> Forall2 R cs2 cs.
Proof.
  induction 1 as [|x y r r' E _ IH]; intros cs2 F2 Hh; inversion F2; subst; constructor; eauto.
Qed.

Lemma reflatten_whole d envs u p fd fd2 :
  flatten_raw d envs u p = Some fd -> all_clean d p ->
  is_dict (bp_global d DEF) -> (forall sk, is_dict (bp_stage d DEF sk)) ->
  flatten_raw (f_doc fd) (JDict [(DEF, JDict (f_envs fd))]) u p = Some fd2 ->
  fdoc_same (stage_keys (d_components d)) fd2 fd.
Proof.
  intros H Hcl Dg Ds H2.
  pose proof (reflatten_stage_keys d envs u p fd H Hcl) as K.
  pose proof (reflatten_global d envs u p fd H) as VG.
  pose proof (fun sk => reflatten_stage d envs u p fd sk H) as VS.
  pose proof (fun sk bs bs2 => reflatten_bp_stage d envs u p fd sk bs bs2 H) as BS.
  pose proof (fun bg bg2 => reflatten_bp_global d envs u p fd bg bg2 H Dg) as BG.
  destruct (flatten_raw_inv2 _ _ _ _ _ H2) as (bg2 & bss2 & cs2 & Hbg2 & Hbss2 & Hcs2 & ->).
  rewrite K in Hbss2 |- *.
  destruct (flatten_raw_inv2 _ _ _ _ _ H) as (bg & bss & cs & Hbg & Hbss & Hcs & E). clear H H2.
  set (sks := stage_keys (d_components d)) in *.
  assert (E1 : bp_global (f_doc fd) DEF = bg) by (rewrite E; reflexivity).
  assert (E2 : forall sk b, lookup sk bss = Some b -> bp_stage (f_doc fd) DEF sk = b).
  { intros sk b L. rewrite E. cbn [f_doc]. rewrite flat_bp_stage, L. reflexivity. }
  assert (E3 : String.eqb p DEF = false -> forall sk, bp_global (f_doc fd) p = JDict [] /\ bp_stage (f_doc fd) p sk = JDict []).
  { intros Ep sk. rewrite E. cbn [f_doc]. apply flat_bp_foreign. exact Ep. }
  assert (E4 : d_components (f_doc fd) = cs) by (rewrite E; reflexivity).
  assert (E5 : vars_global (f_doc fd) DEF = fl_global d p) by (rewrite E; reflexivity).
  assert (E6 : forall sk, existsb (String.eqb sk) sks = true -> vars_stage (f_doc fd) DEF sk = fl_stage d u p sk).
  { intros sk Hs. rewrite E. cbn [f_doc]. apply (flat_vars_stage _ _ (fun s => fl_stage d u p s)). exact Hs. }
  assert (E7 : f_envs fd = fl_envs envs p) by (rewrite E; reflexivity).
  assert (C : Forall2 jeq cs2 cs).
  { rewrite E4 in Hcs2.
    apply (forall2_chain (fun c c' => store_comp_raw d p c = Some c' /\ In c (d_components d))
                         (fun c' c'' => store_comp_raw (f_doc fd) p c' = Some c'') jeq (d_components d) cs
                         (stored_components d p cs Hcs) cs2 (all_some_forall2 _ _ _ Hcs2)).
    intros c c' c'' [Hc Hin] Hc2. destruct (is_import c) eqn:Hi.
    + unfold store_comp_raw, store_comp_with in Hc. rewrite Hi in Hc. injection Hc as <-.
      unfold store_comp_raw, store_comp_with in Hc2. rewrite Hi in Hc2. injection Hc2 as <-. apply jeq_refl.
    + destruct (comp_stage_key c) as [sk|] eqn:Hs;
        [|unfold store_comp_raw, store_comp_with in Hc; rewrite Hi, Hs in Hc; discriminate].
      pose proof (in_stage_keys _ c sk Hin Hs) as Hk. fold sks in Hk.
      destruct (all_some_keyed_some _ _ _ sk Hbss Hk) as (b & Fb & Lb).
      apply (store_comp_idem d (f_doc fd) p sk c c' c'' bg b Hi Hs Hc (Hcl c sk Hin Hi Hs) Hbg Fb E1 (E2 sk b Lb)); [|exact Hc2].
      destruct (String.eqb p DEF) eqn:Ep.
      * apply String.eqb_eq in Ep; subst p. left. split; [exact E1|exact (E2 sk b Lb)].
      * right. exact (E3 eq_refl sk). }
  clear E. constructor; cbn [f_doc f_envs d_components].
  - rewrite flat_bp_global, E1. exact (BG bg bg2 Hbg Hbg2).
  - intros sk Hs. destruct (all_some_keyed_some _ _ _ sk Hbss Hs) as (b & Fb & Lb).
    destruct (all_some_keyed_some _ _ _ sk Hbss2 Hs) as (b2 & Fb2 & Lb2).
    rewrite flat_bp_stage, Lb2, (E2 sk b Lb). exact (BS sk b b2 Hs (Ds sk) Fb Fb2).
  - split; [|rewrite E4 in K |- *; exact K].
    rewrite E4 in K. rewrite <- K. unfold stage_keys. f_equal. apply filter_map_forall2.
    apply (Forall2_imp jeq); [|apply Forall2_flip_jeq; exact C]. intros x y J. apply jeq_stage_key. apply jeq_sym. exact J.
  - rewrite flat_vars_global, E5. exact VG.
  - intros sk Hs. rewrite (flat_vars_stage _ _ (fun s => fl_stage (f_doc fd) u p s)) by exact Hs. rewrite (E6 sk Hs).
    exact (VS sk Hs).
  - rewrite E4. exact C.
  - rewrite E7. apply reflatten_envs.
Qed.
