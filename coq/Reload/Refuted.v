(* C07 — parts of the full statement that are false of the faithful model, by witness *)
From Coq Require Import String Ascii List Bool ZArith Arith.
Import ListNotations.
Require Import V.Lib.PyStr V.Lib.JTree V.Conf.Model V.Reload.Model V.Reload.Obs V.Reload.Idem V.Reload.Dir V.Reload.Loops.
Open Scope string_scope.

(* F7b (repaired).  The pinned instance() replaced environments per NAME ([fl_envs_pinned]): with e = {A:1, B:2} on the
   default platform and e = {B:3} on p, the package's environment on p is {A:1, B:3} but the stored one was {B:3}. *)
Definition w_envs : jv :=
  JDict [("default", JDict [("e", JDict [("A", JStr "1"); ("B", JStr "2")])]); ("p", JDict [("e", JDict [("B", JStr "3")])])].

Theorem C07_env_pinned_refuted : exists envs p e x,
  option_map (lookup x) (get_env (JDict [(DEF, JDict (fl_envs_pinned envs p))]) DEF e) <> option_map (lookup x) (get_env envs p e)
  /\ option_map (lookup x) (get_env (JDict [(DEF, JDict (fl_envs envs p))]) DEF e) = option_map (lookup x) (get_env envs p e).
Proof. exists w_envs, "p", "e", "A". split; [vm_compute; discriminate|vm_compute; reflexivity]. Qed.
Print Assumptions C07_env_pinned_refuted.

(* The VALUE part of instance() resolves the global variables among themselves before any component is looked at
   (static scope), whereas get_component_configuration on the package resolves them with the component's variables
   (dynamic scope).  So "the resolved configuration of the flattened document equals that of the PACKAGE" is false in
   general: global a = <%(b)s>, global b = B, component variable b = C, arguments %(a)s: the package resolves to <C>,
   the flattened document to <B>.  (This is not a difference between an experiment and its reloaded instance - the
   running experiment is itself built from instance() - which is why C07_variables / C07_config are stated for the
   structural part flatten_raw, where the equality with the package holds.) *)
Definition w_dflt : jv := JDict [("command", JDict [("arguments", JStr "")])].
Definition w_doc : doc :=
  {| d_blueprint := JDict [];
     d_variables := JDict [("default", JDict [("global", JDict [("a", JStr "<%(b)s>"); ("b", JStr "B")])])];
     d_components := [JDict [("name", JStr "c"); ("stage", JInt 0);
                             ("command", JDict [("executable", JStr "echo"); ("arguments", JStr "%(a)s")]);
                             ("variables", JDict [("b", JStr "C")])]] |}.

Definition args_of (r : res jv) : option jv := match r with Ok v => get_path ["command"; "arguments"] v | Err _ => None end.

Theorem C07_scope_refuted : exists dflt d envs p fd,
  flatten d envs (JDict []) p = Ok fd /\
  args_of (resolve dflt d [] p 0 "c") = Some (JStr "<C>") /\
  args_of (resolve dflt (f_doc fd) [] DEF 0 "c") = Some (JStr "<B>").
Proof.
  exists w_dflt, w_doc, (JDict []), "default". eexists. split; [vm_compute; reflexivity|].
  split; vm_compute; reflexivity.
Qed.
Print Assumptions C07_scope_refuted.

(* F7d (repaired).  "Loading and storing again does not change the stored description" was false of the pinned instance()
   ([store_comp_raw_pinned]) when a component gets its repeatInterval from a blueprint (or from its platform override)
   and not from its own definition: the layered repeatInterval was stored but no isRepeat (FlowIRConcrete.__init__ derives
   isRepeat from the component's OWN repeatInterval only); the concrete built from the stored file finds a
   repeatInterval in the component itself and derives isRepeat, which the next store wrote out.  The repaired
   instance() ([store_comp_raw]) derives isRepeat from the layered repeatInterval: the stored component is a fixed point
   (the second store is from the reloaded document f_doc fd). *)
Definition w_rep_doc : doc :=
  {| d_blueprint := JDict [("default", JDict [("global", JDict [(WA, JDict [("repeatInterval", JInt 5)])])])];
     d_variables := JDict [("default", JDict [("global", JDict [("a", JStr "A")])])];
     d_components := [JDict [("name", JStr "c"); ("stage", JInt 0);
                             ("command", JDict [("executable", JStr "echo"); ("arguments", JStr "hi")])]] |}.
Definition w_rep_comp : jv := hd JNull (d_components w_rep_doc).

Theorem C07_repeat_pinned_refuted : exists d envs u p fd c c' c'' e',
  flatten_raw d envs u p = Some fd /\ d_components d = [c] /\
  store_comp_raw_pinned d p c = Some c' /\ store_comp_raw_pinned (f_doc fd) p c' = Some c'' /\
  get_path IR c' = None /\ get_path IR c'' = Some (JBool true) /\ ~ jeq c'' c' /\
  d_components (f_doc fd) = [e'] /\ store_comp_raw (f_doc fd) p e' = Some e' /\ get_path IR e' = Some (JBool true).
Proof.
  exists w_rep_doc, (JDict []), (JDict []), "p". do 5 eexists.
  split; [vm_compute; reflexivity|]. split; [reflexivity|].
  split; [vm_compute; reflexivity|]. split; [vm_compute; reflexivity|].
  split; [reflexivity|]. split; [reflexivity|]. split.
  - intros H. specialize (H IR). vm_compute in H. discriminate.
  - split; [reflexivity|]. split; vm_compute; reflexivity.
Qed.
Print Assumptions C07_repeat_pinned_refuted.

(* [clean_repeat] is necessary in C07_config_tree: the PACKAGE's raw layered configuration holds the isRepeat derived from
   the component's own repeatInterval (here: none), the reloaded document's the one derived from the layered
   repeatInterval (true) - they differ at workflowAttributes.isRepeat and only there (C07_config_tree_derived); the
   resolved configurations agree, because resolution derives isRepeat again on both sides. *)
Theorem C07_config_tree_repeat_refuted : exists dflt d p q sk c c' bg bs vl r r',
  is_import c = false /\ comp_stage_key c = Some sk /\ store_comp_raw d p c = Some c' /\ clean d p sk c /\
  fl_bp_global d p = Some bg /\ fl_bp_stage d p sk = Some bs /\ (q = DEF \/ q = p) /\
  merged_of (opt_layers dflt d p sk c) vl = Some r /\
  merged_of ([builtin dflt; bg; bs; bg; bs; comp_layer c'] ++ comp_override q c') vl = Some r' /\
  get_path IR r = None /\ get_path IR r' = Some (JBool true) /\ ~ jeq r' r /\ comp_pre r' = comp_pre r.
Proof.
  exists (JDict []), w_rep_doc, "p", DEF, "0", w_rep_comp. do 3 eexists. exists []. do 2 eexists.
  split; [reflexivity|]. split; [reflexivity|]. split; [vm_compute; reflexivity|].
  split; [unfold clean; vm_compute; repeat constructor|].
  split; [vm_compute; reflexivity|]. split; [vm_compute; reflexivity|]. split; [left; reflexivity|].
  split; [vm_compute; reflexivity|]. split; [vm_compute; reflexivity|].
  split; [reflexivity|]. split; [reflexivity|]. split.
  - intros H. specialize (H IR). vm_compute in H. discriminate.
  - vm_compute. reflexivity.
Qed.
Print Assumptions C07_config_tree_repeat_refuted.

(* F7e (repaired).  A stage variable whose value holds %(replica)s together with another reference: the pinned
   instance(is_primitive=True) ([flatten_pinned]) stored it PARTIALLY resolved - the other reference frozen to its
   stage-level value - while the running experiment (replicate() -> instance(is_primitive=False)) keeps the value as
   written and lets every component resolve it in its own scope.  With a component that defines `base` itself, replica 0
   resolves %(workdir)s to /scratch/run-0 in the package (and in the experiment that wrote the instance) but to
   /global-base/run-0 in the document the pinned code stored; the repaired instance() ([flatten]) stores the value as
   written and the reloaded document resolves it like the package. *)
Definition w_sv_comp : jv :=
  JDict [("name", JStr "c"); ("stage", JInt 0);
         ("command", JDict [("executable", JStr "echo"); ("arguments", JStr "%(workdir)s")]);
         ("variables", JDict [("base", JStr "/scratch"); ("replica", JInt 0)])].
Definition w_sv_doc : doc :=
  {| d_blueprint := JDict [];
     d_variables := JDict [("default", JDict [("global", JDict [("base", JStr "/global-base")]);
                                              ("stages", JDict [("0", JDict [("workdir", JStr "%(base)s/run-%(replica)s")])])])];
     d_components := [JDict [("name", JStr "c"); ("stage", JInt 0);
                             ("command", JDict [("executable", JStr "echo"); ("arguments", JStr "%(workdir)s")]);
                             ("variables", JDict [("base", JStr "/scratch")])]] |}.
(* what replica 0 of the component resolves %(workdir)s to, in a document *)
Definition w_sv_resolved (d : doc) : res string :=
  interp_string (layer_vars (var_layers d (JDict []) DEF "0" w_sv_comp)) "%(workdir)s".

Theorem C07_stage_replica_pinned_refuted : exists d envs u p fd fdp,
  flatten d envs u p = Ok fd /\ flatten_pinned d envs u p = Ok fdp /\
  get_path [DEF; "stages"; "0"; "workdir"] (d_variables (f_doc fdp)) = Some (JStr "/global-base/run-%(replica)s") /\
  get_path [DEF; "stages"; "0"; "workdir"] (d_variables (f_doc fd)) = Some (JStr "%(base)s/run-%(replica)s") /\
  w_sv_resolved d = Ok "/scratch/run-0" /\
  w_sv_resolved (f_doc fdp) = Ok "/global-base/run-0" /\
  w_sv_resolved (f_doc fd) = Ok "/scratch/run-0".
Proof.
  exists w_sv_doc, (JDict []), (JDict []), DEF. do 2 eexists.
  split; [vm_compute; reflexivity|]. split; [vm_compute; reflexivity|].
  repeat split; vm_compute; reflexivity.
Qed.
Print Assumptions C07_stage_replica_pinned_refuted.

(* The directory (Dir.v).  C07_recreate_stores needs the decision of _generate_instance_files as it is: with the guard `an
   existing description is only replaced when the configuration was parsed from the INSTANCE flavour` (generate_guarded) an
   experiment built from the package files of a directory that holds the description 7 of another experiment does not store
   its own (1), although the update was requested: the directory reloads as the other experiment. *)
Theorem C07_recreate_guarded_refuted : exists (mine old : nat),
  generate_guarded false true true mine (Some old) <> Some mine /\ generate nat true true mine (Some old) = Some mine.
Proof. exists 1, 7. split; [vm_compute; discriminate|reflexivity]. Qed.
Print Assumptions C07_recreate_guarded_refuted.

(* The loop placeholders over time (Loops.v).  C07_loops_reload needs _discover_dowhile_placeholders as it is - the entry of
   self._placeholders is REPLACED by what was just matched.  With the guard `a placeholder only ever moves forward` that compares
   the two references as text (discover_guarded: 'stage1.9#collect' > 'stage1.10#collect') the live graph agrees with the
   reloaded one for up to nine further iterations and keeps iteration 9 as the latest one from the tenth on, while the
   experiment loaded from the directory (no earlier state) resolves iteration 10. *)
Theorem C07_loops_text_guard_refuted : exists (st : N) (name : string) (k : nat),
  forallb (fun j => match l_latest (after_guarded st name j) with Some i => N.eqb i (N.of_nat j) | None => false end) (seq 0 k) = true /\
  l_latest (after_guarded st name k) = Some 9%N /\
  l_comps (after_guarded st name k) = l_comps (after k) /\
  l_latest (load (l_comps (after_guarded st name k))) = Some 10%N.
Proof. exists 1%N, "collect", 10%nat. repeat split; vm_compute; reflexivity. Qed.
Print Assumptions C07_loops_text_guard_refuted.
