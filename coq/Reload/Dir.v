(* C07, fourth round: the instance DIRECTORY over time.

   Model.v is a function of the package (flatten); this file adds the one piece of state the property talks about - what
   conf/flowir_instance.yaml of a directory holds - and the operations that decide whether an experiment that is opened in a
   directory stores its description there:

     FlowIRExperimentConfiguration._generate_instance_files(create, update):  create and (file missing or update)   [generate]
     Experiment.__init__(dir, updateInstanceConfiguration=u, is_instance=i):  createInstanceConfiguration = update = u;
        is_instance False: the configuration is parsed from the PACKAGE files of the directory (whatever description it holds),
        is_instance True: from the stored description, is_instance None: from the description if there is one   [open_experiment]
     FlowIRExperimentConfiguration.store_unreplicated_flowir_to_disk(): replaces the description unconditionally    [store]

   The description type is abstract (Section variable): `mine` is the description of the configuration parsed from the package
   files for the chosen platform / user variables (Model.flatten of it), `reparse s` the description of the configuration parsed
   from the stored description s (Model.flatten of s; None: it cannot be loaded). *)
From Coq Require Import Bool List.
Import ListNotations.

Inductive flavour := Package | Instance | Auto.

Section Dir.
  Variable desc : Type.
  Definition dir := option desc.

  Definition present (d : dir) : bool := match d with Some _ => true | None => false end.

  Definition generate (create update : bool) (mine : desc) (d : dir) : dir :=
    if create && (negb (present d) || update) then Some mine else d.

  Definition store (mine : desc) (_ : dir) : dir := Some mine.

  Variable mine : desc.
  Variable reparse : desc -> option desc.

  (* the experiment that opening the directory gives (its description) and the directory afterwards *)
  Definition open_experiment (fl : flavour) (u : bool) (d : dir) : option (desc * dir) :=
    let from_instance :=
      match d with
      | None => None
      | Some s => match reparse s with None => None | Some m => Some (m, generate u u m d) end
      end in
    match fl with
    | Package => Some (mine, generate u u mine d)
    | Instance => from_instance
    | Auto => if present d then from_instance else Some (mine, generate u u mine d)
    end.

  (* a sequence of loads of the directory (flavour Instance / Auto, each with its own update flag): every experiment obtained *)
  Fixpoint reloads (modes : list (flavour * bool)) (d : dir) : option (list desc * dir) :=
    match modes with
    | [] => Some ([], d)
    | (fl, u) :: rest =>
        match open_experiment fl u d with
        | None => None
        | Some (e, d') => match reloads rest d' with None => None | Some (es, d'') => Some (e :: es, d'') end
        end
    end.

  Lemma generate_missing : forall u, generate true u mine None = Some mine.
  Proof. intros u. reflexivity. Qed.

  Lemma generate_update : forall d, generate true true mine d = Some mine.
  Proof. intros d. unfold generate. rewrite orb_true_r. reflexivity. Qed.

  (* whatever the directory held: an experiment built from the package files with the update requested stores ITS description *)
  Lemma recreate_stores : forall d e d',
    open_experiment Package true d = Some (e, d') -> e = mine /\ d' = Some mine.
  Proof.
    intros d e d' H. unfold open_experiment in H. rewrite generate_update in H. injection H as <- <-. split; reflexivity.
  Qed.

  (* without the update nothing is written, whatever the flavour *)
  Lemma open_no_update : forall fl d e d', open_experiment fl false d = Some (e, d') -> d' = d.
  Proof.
    intros fl d e d' H. unfold open_experiment, generate in H. simpl in H.
    destruct fl; [injection H as _ <-; reflexivity| |];
      destruct d as [s|]; simpl in H; try discriminate;
      try (destruct (reparse s); [injection H as _ <-; reflexivity|discriminate]).
    injection H as _ <-. reflexivity.
  Qed.

  Definition not_package (m : flavour * bool) : Prop := fst m <> Package.

  (* ... and then, if the stored description is a fixed point of load-and-store (C07_document_idempotent for flatten), every
     later load of the directory - with or without update, any number of them - gives that experiment and leaves the
     description alone *)
  Lemma reloads_fixed : reparse mine = Some mine ->
    forall modes, Forall not_package modes ->
    reloads modes (Some mine) = Some (map (fun _ => mine) modes, Some mine).
  Proof.
    intros Hfix modes HF. induction HF as [|[fl u] rest Hfl _ IH]; [reflexivity|].
    assert (Ho : open_experiment fl u (Some mine) = Some (mine, Some mine)).
    { unfold open_experiment. simpl. rewrite Hfix.
      assert (Hg : generate u u mine (Some mine) = Some mine) by (unfold generate; simpl; destruct u; reflexivity).
      rewrite Hg. destruct fl; [exfalso; apply Hfl; reflexivity|reflexivity|reflexivity]. }
    simpl. rewrite Ho, IH. reflexivity.
  Qed.

  Lemma recreate_then_reload : reparse mine = Some mine ->
    forall d e d1 modes, Forall not_package modes ->
    open_experiment Package true d = Some (e, d1) ->
    reloads modes d1 = Some (map (fun _ => e) modes, Some e).
  Proof.
    intros Hfix d e d1 modes HF Ho. destruct (recreate_stores _ _ _ Ho) as [-> ->]. apply reloads_fixed; assumption.
  Qed.

  (* a new directory (no description yet): created whatever the update flag says, when creation is requested *)
  Lemma create_then_reload : reparse mine = Some mine ->
    forall modes, Forall not_package modes ->
    reloads modes (generate true false mine None) = Some (map (fun _ => mine) modes, Some mine).
  Proof. intros Hfix modes HF. rewrite generate_missing. apply reloads_fixed; assumption. Qed.
End Dir.

(* the decision `store only when the configuration was parsed from the instance flavour` (a guard that looks reasonable: the
   description of a running instance records loop iterations the package knows nothing about) breaks the statement: *)
Definition generate_guarded {desc} (is_instance create update : bool) (mine : desc) (d : dir desc) : dir desc :=
  if create && (negb (present desc d) || (update && is_instance)) then Some mine else d.

(* ------------------------------------------------------------------ correspondence checker
   ((opened as a package?, update requested, a description existed), the implementation wrote conf/flowir_instance.yaml) *)
Definition check_open (c : (bool * bool * bool) * bool) : bool :=
  let '((pkg, u, existed), written) := c in
  let d := if existed then Some 0 else None in
  match open_experiment nat 1 (fun _ => Some 2) (if pkg then Package else Instance) u d with
  | Some (_, d') =>
      let changed := match d', d with
                     | Some a, Some b => negb (Nat.eqb a b)
                     | None, None => false
                     | _, _ => true
                     end in
      Bool.eqb written changed
  | None => false
  end.
