(* C07 — store . load . store = store for the sections of the flattened document other than the components:
   global and stage variables, global blueprint, environments (structural part flatten_raw; the reloaded document is
   f_doc fd with environments {default: f_envs fd}, loaded on the selected platform p again, user variables patched in again) *)
From Coq Require Import String Ascii List Bool ZArith Arith Lia.
Import ListNotations.
Require Import V.Lib.PyStr V.Lib.JTree V.Conf.Model V.Conf.Proofs V.Reload.Model V.Reload.Proofs V.Reload.Obs V.Reload.Idem.
Open Scope string_scope.

Lemma flatten_raw_inv d envs u p fd : flatten_raw d envs u p = Some fd ->
  exists bg bss cs, fl_bp_global d p = Some bg /\
    all_some (map (store_comp_raw d p) (d_components d)) = Some cs /\
    fd = {| f_doc := {| d_blueprint := mk_sections bg bss;
                        d_variables := mk_sections (JDict (fl_global d p))
                                         (map (fun sk => (sk, JDict (fl_stage d u p sk))) (stage_keys (d_components d)));
                        d_components := cs |};
            f_envs := fl_envs envs p |}.
Proof.
  unfold flatten_raw. intros H.
  destruct (fl_bp_global d p) as [bg|]; [|discriminate].
  destruct (all_some (map (fun sk0 => option_map (fun b0 => (sk0, b0)) (fl_bp_stage d p sk0)) (stage_keys (d_components d)))) as [bss|];
    [|discriminate].
  destruct (all_some (map (store_comp_raw d p) (d_components d))) as [cs|]; [|discriminate].
  injection H as <-. exists bg, bss, cs. repeat split; reflexivity.
Qed.

(* ------------------------------------------------------------------ variables *)
Lemma reflatten_global d envs u p fd : flatten_raw d envs u p = Some fd -> fl_global (f_doc fd) p = fl_global d p.
Proof.
  intros H. destruct (flatten_raw_inv _ _ _ _ _ H) as (bg & bss & cs & _ & _ & ->). cbn [f_doc].
  unfold fl_global at 1. destruct (String.eqb p DEF) eqn:Ep; [apply flat_vars_global|].
  rewrite flat_vars_global. destruct (flat_vars_foreign (mk_sections bg bss) (fl_global d p) (fun s => fl_stage d u p s)
                                        (stage_keys (d_components d)) cs p "" Ep) as [-> _]. reflexivity.
Qed.

Lemma lookup_fl_stage_user d u p sk k v : lookup k (user_patch u sk) = Some v -> lookup k (fl_stage d u p sk) = Some v.
Proof.
  intros H. unfold fl_stage. destruct (String.eqb p DEF).
  - rewrite lookup_pstage_user, H. reflexivity.
  - rewrite lookup_update, lookup_pstage_user, H. reflexivity.
Qed.

Lemma reflatten_stage d envs u p fd sk : flatten_raw d envs u p = Some fd ->
  existsb (String.eqb sk) (stage_keys (d_components d)) = true ->
  alist_eq (fl_stage (f_doc fd) u p sk) (fl_stage d u p sk).
Proof.
  intros H Hs. destruct (flatten_raw_inv _ _ _ _ _ H) as (bg & bss & cs & _ & _ & ->). cbn [f_doc].
  set (sks := stage_keys (d_components d)) in *.
  pose proof (flat_vars_stage (mk_sections bg bss) (fl_global d p) (fun s => fl_stage d u p s) sks cs sk Hs) as S0.
  intros k. unfold fl_stage at 1. destruct (String.eqb p DEF) eqn:Ep.
  - unfold pstage_vars. rewrite S0, lookup_update.
    destruct (lookup k (user_patch u sk)) as [v|] eqn:Eu; [|reflexivity].
    symmetry. apply lookup_fl_stage_user. exact Eu.
  - destruct (flat_vars_foreign (mk_sections bg bss) (fl_global d p) (fun s => fl_stage d u p s) sks cs p sk Ep) as [FG FS].
    unfold pstage_vars. rewrite FG, FS, S0. rewrite !lookup_update, lookup_without_keys. cbn [has_key lookup].
    rewrite lookup_update.
    destruct (lookup k (user_patch u sk)) as [v|] eqn:Eu; [|reflexivity].
    symmetry. apply lookup_fl_stage_user. exact Eu.
Qed.

(* ------------------------------------------------------------------ the global blueprint *)
Definition is_dict (v : jv) : Prop := exists m, v = JDict m.

Lemma reflatten_bp_global d envs u p fd bg bg2 : flatten_raw d envs u p = Some fd ->
  is_dict (bp_global d DEF) ->
  fl_bp_global d p = Some bg -> fl_bp_global (f_doc fd) p = Some bg2 -> jeq bg2 bg.
Proof.
  intros H [m0 Hd] Hbg H2. destruct (flatten_raw_inv _ _ _ _ _ H) as (bg' & bss & cs & Hbg' & _ & ->).
  rewrite Hbg in Hbg'. injection Hbg' as <-. cbn [f_doc] in H2. unfold fl_bp_global in H2.
  assert (B0 : bp_global {| d_blueprint := mk_sections bg bss;
                           d_variables := mk_sections (JDict (fl_global d p))
                                            (map (fun sk => (sk, JDict (fl_stage d u p sk))) (stage_keys (d_components d)));
                           d_components := cs |} DEF = bg) by reflexivity.
  rewrite B0 in H2.
  assert (Dg : exists mg, bg = JDict mg).
  { unfold fl_bp_global in Hbg. rewrite Hd in Hbg. exact (override_dict_is_dict _ _ _ Hbg). }
  destruct Dg as [mg ->].
  intros pi. rewrite (override_obs pi _ _ _ H2).
  destruct (String.eqb p DEF) eqn:Ep.
  - apply String.eqb_eq in Ep; subst p. rewrite B0. apply comb_idem.
  - assert (BP : bp_global {| d_blueprint := mk_sections (JDict mg) bss;
                              d_variables := mk_sections (JDict (fl_global d p))
                                               (map (fun sk => (sk, JDict (fl_stage d u p sk))) (stage_keys (d_components d)));
                              d_components := cs |} p = JDict []).
    { unfold bp_global, get_or, mk_sections. cbn [d_blueprint get_path lookup]. rewrite Ep. reflexivity. }
    rewrite BP. destruct pi; reflexivity.
Qed.

(* ------------------------------------------------------------------ environments *)
Lemma uniq_set_key k (v : jv) m : uniq m -> uniq (set_key k v m).
Proof.
  unfold uniq. induction m as [|[k0 v0] r IH]; intros U; cbn.
  - constructor; [intros []|constructor].
  - destruct (String.eqb k k0) eqn:E; cbn.
    + apply String.eqb_eq in E; subst. exact U.
    + inversion U as [|? ? Hn Ur]; subst. constructor; [|apply IH; exact Ur].
      intros Hin. apply Hn. clear IH Hn U Ur.
      induction r as [|[k1 v1] r IH]; cbn in Hin |- *.
      * destruct Hin as [->|[]]. rewrite String.eqb_refl in E. discriminate.
      * destruct (String.eqb k k1) eqn:E1; cbn in Hin.
        -- apply String.eqb_eq in E1; subst. exact Hin.
        -- destruct Hin as [->|Hin]; [left; reflexivity|right; apply IH; exact Hin].
Qed.

Lemma uniq_merge_env acc kv : uniq acc -> uniq (merge_env acc kv).
Proof.
  intros U. unfold merge_env. destruct (lookup (fst kv) acc) as [[| | | | | |a]|]; try (apply uniq_set_key; exact U).
  destruct (snd kv); apply uniq_set_key; exact U.
Qed.

Lemma uniq_fold_merge pe : forall acc, uniq acc -> uniq (fold_left merge_env pe acc).
Proof. induction pe as [|kv r IH]; intros acc U; [exact U|]. cbn. apply IH, uniq_merge_env, U. Qed.

Lemma reflatten_envs envs p :
  alist_eq (fl_envs (JDict [(DEF, JDict (fl_envs envs p))]) p) (fl_envs envs p).
Proof.
  assert (EF : envs_of (JDict [(DEF, JDict (fl_envs envs p))]) DEF = fl_envs envs p) by reflexivity.
  unfold fl_envs at 1. destruct (String.eqb p DEF) eqn:Ep.
  - apply String.eqb_eq in Ep. subst p. rewrite EF. intros k.
    assert (U2 : uniq (fl_envs envs DEF)).
    { unfold fl_envs. rewrite String.eqb_refl. apply uniq_fold_merge. constructor. }
    rewrite (lookup_fold_merge _ U2). cbn [lookup].
    destruct (lookup k (fl_envs envs DEF)) as [v|]; [|reflexivity]. destruct v; reflexivity.
  - assert (EP : envs_of (JDict [(DEF, JDict (fl_envs envs p))]) p = []).
    { unfold envs_of, get_or. cbn [get_path lookup]. rewrite Ep. reflexivity. }
    rewrite EP, EF. intros k. reflexivity.
Qed.

(* ------------------------------------------------------------------ the value part on text that holds no reference:
   interpolating an already interpolated (closed: no '%') string changes nothing, whatever the context *)
Lemma match_ref_no_pct c t : not_pct c = true -> match_ref (String c t) = None.
Proof.
  intros H. destruct (match_ref (String c t)) as [n|] eqn:E; [|reflexivity].
  destruct (match_ref_pct _ _ E) as [s' Es]. injection Es as -> _. discriminate.
Qed.

Lemma subst_tol_plain rv s : no_pct s -> subst_tol rv (scan 0 s) = Ok s.
Proof.
  unfold no_pct. induction s as [|c t IH]; intros H; [reflexivity|].
  cbn in H. apply andb_true_iff in H as [H1 H2].
  cbn [scan]. rewrite (match_ref_no_pct c t H1). cbn [subst_tol]. rewrite (IH H2). reflexivity.
Qed.

Lemma interp_tol_plain ctx s : no_pct s -> interp_tol ctx s = Ok s.
Proof. intros H. unfold interp_tol. apply subst_tol_plain. exact H. Qed.

Lemma fill_tol_plain_str ctx s : no_pct s -> fill_tol ctx (JStr s) = Ok (JStr s).
Proof. intros H. cbn [fill_tol]. rewrite (interp_tol_plain ctx s H). reflexivity. Qed.
