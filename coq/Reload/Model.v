(* C07 — An instance reloaded from its own files is the same experiment.

   Executable model of (python/experiment/model/frontends/flowir.py)
     FlowIRConcrete.instance(ignore_errors=True, fill_in_all=False, is_primitive=True, inject_missing_fields=False)
   which is what FlowIRExperimentConfiguration.store_unreplicated_flowir_to_disk (python/experiment/model/conf.py)
   writes to conf/flowir_instance.yaml, built ON TOP of the configuration model of C04 (V.Conf.Model: the document
   record, var_layers / opt_layers, override, interpolation and the table of typed leaves are imported, not copied).

   instance() does two things, modelled as two functions:
     flatten_raw  the STRUCTURAL part: one `default` platform whose global variables are dg U pg (platform wins),
                  whose stage variables are (ds minus the keys of pg) U ps (user variable files are already patched
                  into ds and ps by _patch_in_variable_files), global blueprint override(dgb, pgb), stage blueprints
                  override(dsb, psb), environments of the default platform overlaid PER NAME AND PER KEY by those of the
                  selected platform (the repaired behaviour; [fl_envs_pinned] is what the pinned code did), and every
                  component stored with the blueprint layers already folded into it
                  (get_component_configuration(raw=True, include_default=False, inject_missing_fields=False)),
                  keeping only its override for the selected platform and its own (component + override) variables;
     finish       the VALUE part: global variables interpolated among themselves, stage variables in the scope
                  global+stage, component variables in the scope global+stage+component, blueprints and environments
                  filled in (errors ignored: an unknown reference stays), typed leaves of every component converted
                  when they can be (convert_component_types with ignore_convert_errors).
   flatten = finish after flatten_raw.  load(dump(x)) (PyYAML) is taken to be the identity on jv (trusted; the
   correspondence compares the PARSED file with the model).

   Not modelled: output / status-report / virtual-environments / application-dependencies / interface sections
   (the generators leave them empty), `replica` references inside the variables a COMPONENT variable refers to (a
   `replica` reference in a global / stage variable value is covered: it is an unknown variable), dotted variable names,
   array-index expansion; DoWhile documents (`$import` components are carried through verbatim). *)
From Coq Require Import String Ascii List Bool ZArith Arith Lia.
Import ListNotations.
Require Import V.Lib.PyStr V.Lib.JTree V.Conf.Model.
Open Scope string_scope.

Definition DEF := "default".

(* ------------------------------------------------------------------ stages that hold components *)
Definition comp_stage_key (c : jv) : option string :=
  match get_path ["stage"] c with Some (JInt z) => Some (zrepr z) | _ => None end.

Fixpoint dedup (l : list string) : list string :=
  match l with
  | [] => []
  | x :: r => if existsb (String.eqb x) r then dedup r else x :: dedup r
  end.

Fixpoint filter_map {A B} (f : A -> option B) (l : list A) : list B :=
  match l with
  | [] => []
  | x :: r => match f x with Some y => y :: filter_map f r | None => filter_map f r end
  end.

Definition stage_keys (cs : list jv) : list string := dedup (filter_map comp_stage_key cs).

(* ------------------------------------------------------------------ variables *)
(* the stage variables of platform P as the unreplicated concrete holds them: the document's, with the user
   variable files patched in (_patch_in_variable_files writes them into every platform) *)
Definition pstage_vars (d : doc) (u : jv) (P sk : string) : alist := update (vars_stage d P sk) (user_patch u sk).

Definition without_keys (ks m : alist) : alist := filter (fun kv => negb (has_key (fst kv) ks)) m.

(* global_default_variables (empty when the platform IS default) .update(global_platform_variables) *)
Definition fl_global (d : doc) (p : string) : alist :=
  if String.eqb p DEF then vars_global d DEF else update (vars_global d DEF) (vars_global d p).

(* default stage variables, minus the names the platform defines globally, .update(platform stage variables) *)
Definition fl_stage (d : doc) (u : jv) (p sk : string) : alist :=
  if String.eqb p DEF then pstage_vars d u DEF sk
  else update (without_keys (vars_global d p) (pstage_vars d u DEF sk)) (pstage_vars d u p sk).

(* ------------------------------------------------------------------ blueprints *)
Definition fl_bp_global (d : doc) (p : string) : option jv := override (bp_global d DEF) (bp_global d p).
Definition fl_bp_stage (d : doc) (p sk : string) : option jv := override (bp_stage d DEF sk) (bp_stage d p sk).

(* ------------------------------------------------------------------ environments *)
Definition envs_of (envs : jv) (P : string) : alist := jdict_of (get_or (JDict []) [P] envs).

(* repaired instance(): per environment, the default platform's keys overlaid by the selected platform's *)
Definition merge_env (acc : alist) (kv : string * jv) : alist :=
  match lookup (fst kv) acc, snd kv with
  | Some (JDict a), JDict b => set_key (fst kv) (JDict (update a b)) acc
  | _, e => set_key (fst kv) e acc
  end.

Definition fl_envs (envs : jv) (p : string) : alist :=
  fold_left merge_env (envs_of envs p) (if String.eqb p DEF then [] else envs_of envs DEF).

(* the pinned instance(): environments.update(platform_environments) — replacement per NAME *)
Definition fl_envs_pinned (envs : jv) (p : string) : alist :=
  update (if String.eqb p DEF then [] else envs_of envs DEF) (envs_of envs p).

(* FlowIRConcrete.get_environment(name, platform): platform keys over default keys; None = FlowIREnvironmentUnknown
   (values are compared before str()) *)
Definition env_dict (o : option jv) : option alist := match o with Some v => Some (jdict_of v) | None => None end.

Definition get_env (envs : jv) (p e : string) : option alist :=
  let pe := env_dict (lookup e (envs_of envs p)) in
  if String.eqb p DEF then pe
  else match pe, env_dict (lookup e (envs_of envs DEF)) with
       | None, None => None
       | Some a, None => Some a
       | None, Some b => Some b
       | Some a, Some b => Some (update b a)
       end.

(* ------------------------------------------------------------------ components *)
(* the component as the concrete holds it (FlowIRConcrete.__init__: isRepeat derived from its own repeatInterval) *)
Definition comp_own_vars (p : string) (c : jv) : alist :=
  update (jdict_of (get_or (JDict []) ["variables"] c)) (jdict_of (get_or (JDict []) ["override"; p; "variables"] c)).

(* the layers get_component_configuration(raw=True, include_default=False, inject_missing_fields=False) folds *)
Definition store_layers (d : doc) (p sk : string) (c : jv) : list jv :=
  ([bp_global d DEF; bp_stage d DEF sk; bp_global d p; bp_stage d p sk; comp_pre c] ++ comp_override p c)%list.

(* keep just the override of the selected platform *)
Definition keep_override (p : string) (c : jv) (m : alist) : alist :=
  match get_path ["override"] c with
  | None => m
  | Some o => match get_path [p] o with
              | Some op => set_key "override" (JDict [(p, op)]) m
              | None => remove_key "override" m
              end
  end.

Definition is_import (c : jv) : bool := match get_path ["$import"] c with Some _ => true | None => false end.

(* instance() (repaired, finding F7d) derives workflowAttributes.isRepeat again from the LAYERED repeatInterval of the
   folded component - the same function of the component that FlowIRConcrete.__init__ applies to every component of a
   document it is built from ([comp_pre]) - before it stores it.  [store_comp_raw_pinned] is what the pinned code did:
   the stored isRepeat was the one derived from the component's OWN repeatInterval when the package was loaded. *)
Definition store_comp_with (rederive : jv -> jv) (d : doc) (p : string) (c : jv) : option jv :=
  if is_import c then Some c
  else match comp_stage_key c with
       | None => None
       | Some sk =>
           match fold_override (Some (JDict [])) (store_layers d p sk c) with
           | Some (JDict m) =>
               Some (JDict (keep_override p c (set_key "variables" (JDict (comp_own_vars p c)) (jdict_of (rederive (JDict m))))))
           | _ => None
           end
       end.

Definition store_comp_raw : doc -> string -> jv -> option jv := store_comp_with comp_pre.
Definition store_comp_raw_pinned : doc -> string -> jv -> option jv := store_comp_with (fun f => f).

Fixpoint all_some {A} (l : list (option A)) : option (list A) :=
  match l with
  | [] => Some []
  | Some x :: r => option_map (cons x) (all_some r)
  | None :: _ => None
  end.

(* ------------------------------------------------------------------ the flattened document *)
Record fdoc := { f_doc : doc; f_envs : alist }.

Definition mk_sections (g : jv) (stages : alist) : jv :=
  JDict [(DEF, JDict [("global", g); ("stages", JDict stages)])].

Definition flatten_raw (d : doc) (envs u : jv) (p : string) : option fdoc :=
  let sks := stage_keys (d_components d) in
  match fl_bp_global d p,
        all_some (map (fun sk => option_map (fun b => (sk, b)) (fl_bp_stage d p sk)) sks),
        all_some (map (store_comp_raw d p) (d_components d)) with
  | Some bg, Some bss, Some cs =>
      Some {| f_doc := {| d_blueprint := mk_sections bg bss;
                          d_variables := mk_sections (JDict (fl_global d p))
                                                     (map (fun sk => (sk, JDict (fl_stage d u p sk))) sks);
                          d_components := cs |};
              f_envs := fl_envs envs p |}
  | _, _, _ => None
  end.

(* ------------------------------------------------------------------ the value part: interpolation, conversion *)
(* interpolate(value, ctx) of a variable value; FlowIRVariableUnknown is caught by instance(): the value stays *)
Definition interp_var (ctx : alist) (v : jv) : res jv :=
  match v with
  | JStr s => match interp_string ctx s with
              | Ok t => Ok (JStr t)
              | Err (EUnknown _) => Ok v
              | Err e => Err e
              end
  | JNull | JList _ | JDict _ => Err (EInvalidVar "")      (* InternalInconsistencyError: not a string *)
  | _ => Ok v
  end.

Fixpoint map_res {A B} (f : A -> res B) (l : list A) : res (list B) :=
  match l with
  | [] => Ok []
  | x :: r => rbind (f x) (fun y => rmap (cons y) (map_res f r))
  end.

Definition interp_vars (ctx m : alist) : res alist :=
  map_res (fun kv => rmap (fun v => (fst kv, v)) (interp_var ctx (snd kv))) m.

(* interpolate(..., ignore_errors=True): a reference that cannot be resolved stays as it is, the others are replaced;
   incomplete references are not reported *)
Fixpoint subst_tol (rv : string -> res string) (ts : list tok) : res string :=
  match ts with
  | [] => Ok EmptyString
  | TChr c :: r => rmap (String c) (subst_tol rv r)
  | TRef n :: r =>
      if dotted n then rmap (fun t => "%(" ++ n ++ ")s" ++ t) (subst_tol rv r)
      else match rv n with
           | Ok v => rmap (fun t => v ++ t) (subst_tol rv r)
           | Err (EUnknown _) => rmap (fun t => "%(" ++ n ++ ")s" ++ t) (subst_tol rv r)
           | Err e => Err e
           end
  end.

Definition interp_tol (ctx : alist) (s : string) : res string :=
  subst_tol (resolve_var (fuel_of ctx) ctx) (scan 0 s).

(* FlowIR.fill_in(obj, ctx, ignore_errors=True) *)
Fixpoint fill_tol (ctx : alist) (v : jv) : res jv :=
  match v with
  | JStr s => rmap JStr (interp_tol ctx s)
  | JList l =>
      rmap JList ((fix go (l : list jv) : res (list jv) :=
                     match l with
                     | [] => Ok []
                     | x :: r => rbind (fill_tol ctx x) (fun x' => rmap (cons x') (go r))
                     end) l)
  | JDict m =>
      rmap JDict ((fix go (m : list (string * jv)) : res (list (string * jv)) :=
                     match m with
                     | [] => Ok []
                     | (k, x) :: r => rbind (fill_tol ctx x) (fun x' => rmap (cons (k, x')) (go r))
                     end) m)
  | _ => Ok v
  end.

Definition fill_alist (ctx m : alist) : res alist :=
  rmap jdict_of (fill_tol ctx (JDict m)).

(* convert_component_types(comp, ignore_convert_errors=True): a leaf that cannot be converted stays *)
Definition conv_tol_at (pk : list string * conv) (v : jv) : jv :=
  match get_path (fst pk) v with
  | None => v
  | Some x => match conv_leaf (snd pk) x with
              | Some x' => set_path (fst pk) x' v
              | None => v
              end
  end.

Definition convert_tol (v : jv) : jv := fold_right conv_tol_at v conv_table.

Definition finish_comp (g2 : alist) (stage_vars : alist) (c : jv) : res jv :=
  if is_import c then Ok c
  else match c, comp_stage_key c with
       | JDict m, Some sk =>
           let cv := jdict_of (get_or (JDict []) ["variables"] c) in
           let sv := jdict_of (match lookup sk stage_vars with Some x => x | None => JDict [] end) in
           rmap (fun cv' => convert_tol (JDict (set_key "variables" (JDict cv') m)))
                (fill_alist (update (update g2 sv) cv) cv)
       | _, _ => Err EShape
       end.

Definition finish_env (g2 : alist) (e : jv) : res jv :=
  rbind (fill_tol (jdict_of e) e) (fun e1 => fill_tol (update g2 (jdict_of e)) e1).

(* the pinned instance(is_primitive=True) interpolated the STAGE variables with is_primitive=True: a reference to `replica`
   that cannot be resolved stays, every other reference of the value is resolved - the stored value was PARTIALLY
   resolved (finding F7e; occurrences of %(replica)s in the value itself are modelled, not those inside the variables
   it refers to).  The repaired instance() interpolates them like the running experiment does (is_primitive=False):
   [interp_var] - completely, or not at all. *)
Fixpoint subst_prim (rv : string -> res string) (ts : list tok) : res string :=
  match ts with
  | [] => Ok EmptyString
  | TChr c :: r => rmap (String c) (subst_prim rv r)
  | TRef n :: r =>
      if dotted n then rmap (fun t => "%(" ++ n ++ ")s" ++ t) (subst_prim rv r)
      else match rv n with
           | Ok v => rmap (fun t => v ++ t) (subst_prim rv r)
           | Err (EUnknown m) => if String.eqb n "replica" then rmap (fun t => "%(" ++ n ++ ")s" ++ t) (subst_prim rv r)
                                 else Err (EUnknown m)
           | Err e => Err e
           end
  end.

Definition interp_var_pinned (ctx : alist) (v : jv) : res jv :=
  match v with
  | JStr s => match finish_str (subst_prim (resolve_var (fuel_of ctx) ctx) (scan 0 s)) with
              | Ok t => Ok (JStr t)
              | Err (EUnknown _) => Ok v
              | Err e => Err e
              end
  | JNull | JList _ | JDict _ => Err (EInvalidVar "")
  | _ => Ok v
  end.

Definition finish_with (stage_iv : alist -> jv -> res jv) (f : fdoc) : res fdoc :=
  let interp_vars_st (ctx m : alist) : res alist :=
    map_res (fun kv => rmap (fun v => (fst kv, v)) (stage_iv ctx (snd kv))) m in
  let d := f_doc f in
  let g0 := vars_global d DEF in
  let st0 := jdict_of (get_or (JDict []) [DEF; "stages"] (d_variables d)) in
  rbind (interp_vars g0 g0) (fun g1 =>
  rbind (map_res (fun kv => rmap (fun m => (fst kv, JDict m))
                                 (interp_vars_st (update g1 (jdict_of (snd kv))) (jdict_of (snd kv)))) st0) (fun st1 =>
  rbind (fill_alist g1 g1) (fun g2 =>
  rbind (map_res (fun kv => rmap (fun e => (fst kv, e)) (finish_env g2 (snd kv))) (f_envs f)) (fun envs =>
  rbind (map_res (finish_comp g2 st1) (d_components d)) (fun cs =>
  rbind (fill_tol g2 (bp_global d DEF)) (fun bg =>
  rbind (map_res (fun kv => rmap (fun b => (fst kv, b))
                                 (fill_tol (update g2 (jdict_of (match lookup (fst kv) st1 with Some x => x | None => JDict [] end)))
                                           (snd kv)))
                 (jdict_of (get_or (JDict []) [DEF; "stages"] (d_blueprint d)))) (fun bss =>
  Ok {| f_doc := {| d_blueprint := mk_sections bg bss; d_variables := mk_sections (JDict g2) st1; d_components := cs |};
        f_envs := envs |}))))))).

Definition finish : fdoc -> res fdoc := finish_with interp_var.
Definition finish_pinned : fdoc -> res fdoc := finish_with interp_var_pinned.

Definition flatten (d : doc) (envs u : jv) (p : string) : res fdoc :=
  match flatten_raw d envs u p with
  | None => Err EShape
  | Some f => finish f
  end.

Definition flatten_pinned (d : doc) (envs u : jv) (p : string) : res fdoc :=
  match flatten_raw d envs u p with
  | None => Err EShape
  | Some f => finish_pinned f
  end.

(* ------------------------------------------------------------------ correspondence checker *)
(* case = ((blueprint, variables, components), environments, user variable files, platform),
          what the real conf/flowir_instance.yaml holds: (blueprint, variables, components, environments.default) *)
Definition case_in := ((jv * jv * list jv) * jv * list jv * string)%type.
Definition case_out := (jv * jv * list jv * jv)%type.

Fixpoint list_eqb (a b : list jv) : bool :=
  match a, b with
  | [], [] => true
  | x :: ra, y :: rb => jv_eqb x y && list_eqb ra rb
  | _, _ => false
  end.

Definition run_case (i : case_in) : res fdoc :=
  let '((b, v, cs), envs, files, p) := i in
  match user_vars files with
  | Some u => flatten {| d_blueprint := b; d_variables := v; d_components := cs |} envs u p
  | None => Err EShape
  end.

Definition check_case (c : case_in * option case_out) : bool :=
  match run_case (fst c), snd c with
  | Ok f, Some (b, v, cs, e) =>
      jv_eqb (d_blueprint (f_doc f)) b && jv_eqb (d_variables (f_doc f)) v &&
      list_eqb (d_components (f_doc f)) cs && jv_eqb (JDict (f_envs f)) e
  | Err _, None => true
  | _, _ => false
  end.
