(* C07 — An instance reloaded from its own files is the same experiment.  Property theorems only.
   d = the package (with the user variable files u patched in), p = the selected platform, fd = flatten_raw d envs u p =
   the structural part of what instance() writes to conf/flowir_instance.yaml, q = the platform the instance directory
   is loaded with (default, or p again), c = a component of the package, c' = the component as stored. *)
From Coq Require Import String Ascii List Bool ZArith Arith.
Import ListNotations.
Require Import V.Lib.PyStr V.Lib.JTree V.Conf.Model V.Conf.Proofs V.Reload.Model V.Reload.Proofs V.Reload.Obs V.Reload.Idem V.Reload.IdemDoc V.Reload.IdemAll V.Reload.Dir V.Reload.Loops.
Open Scope string_scope.

(* Variables: every variable of every component has, in the reloaded document, the value the package gives it on p
   (C04's layering of [default global; default stage + user; platform global; platform stage + user; component;
   override[p]]), for every stage that holds components.  The filter `default stage variables minus the names the platform
   defines globally` of instance() is what makes this hold. *)
Theorem C07_variables : forall d envs u p q fd sk c c' k,
  flatten_raw d envs u p = Some fd ->
  existsb (String.eqb sk) (stage_keys (d_components d)) = true ->
  q = DEF \/ q = p ->
  stored_vars_ok p q c c' ->
  lookup k (layer_vars (var_layers (f_doc fd) u q sk c')) = lookup k (layer_vars (var_layers d u p sk c)).
Proof. exact reload_variables. Qed.
Print Assumptions C07_variables.

(* ... and the stored component satisfies the hypothesis [stored_vars_ok] of C07_variables: its `variables` are the
   component's own overlaid by those of its override for p, and the override it keeps is the one for p only
   (stated for a component that has an override section; for one that has none the second half says that the blueprints
   put no `override` key into the stored component, which is not proved). *)
Theorem C07_stored_variables : forall d p q c c',
  is_import c = false -> store_comp_raw d p c = Some c' ->
  get_path ["override"] c <> None -> q = DEF \/ q = p ->
  stored_vars_ok p q c c'.
Proof. exact stored_vars_ok_holds. Qed.
Print Assumptions C07_stored_variables.

(* Options: at every option path (not `variables`, `override`, nor the derived workflowAttributes.isRepeat) at which no
   layer of the package holds a dictionary (the shape-compatibility hypothesis of C04_precedence), the layered
   configuration of the reloaded document [builtin; merged global blueprint; merged stage blueprint; X; Y; stored
   component (+ its override when q = p)] has the value of the layered configuration of the package
   [builtin; dgb; dsb; pgb; psb; component; override[p]]: every leaf a flattened blueprint defines is already defined in
   the stored component with its final value, and the upper layer wins. *)
Theorem C07_config : forall dflt d p q sk c c' f bg bs X Y r r' k pi,
  opt_path k pi ->
  is_import c = false -> comp_stage_key c = Some sk ->
  store_comp_raw d p c = Some c' ->
  fold_override (Some (JDict [])) (store_layers d p sk c) = Some f ->
  fl_bp_global d p = Some bg -> fl_bp_stage d p sk = Some bs ->
  ((X = bg /\ Y = bs) \/ (X = JDict [] /\ Y = JDict [])) ->
  (comp_override q c' = comp_override p c \/ comp_override q c' = []) ->
  Forall (fun l => nodict (get_path (k :: pi) l)) (builtin dflt :: store_layers d p sk c) ->
  fold_override (Some (JDict [])) (builtin dflt :: store_layers d p sk c) = Some r ->
  fold_override (Some (JDict [])) ([builtin dflt; bg; bs; X; Y; comp_layer c'] ++ comp_override q c') = Some r' ->
  val (k :: pi) r' = val (k :: pi) r.
Proof. exact reload_option. Qed.
Print Assumptions C07_config.

(* References (hence the dataflow edges): the stored component holds the references of the layered configuration, and
   the reloaded configuration has them *)
Theorem C07_references : forall dflt d p q sk c c' f bg bs X Y r r',
  is_import c = false -> comp_stage_key c = Some sk ->
  store_comp_raw d p c = Some c' ->
  fold_override (Some (JDict [])) (store_layers d p sk c) = Some f ->
  fl_bp_global d p = Some bg -> fl_bp_stage d p sk = Some bs ->
  ((X = bg /\ Y = bs) \/ (X = JDict [] /\ Y = JDict [])) ->
  (comp_override q c' = comp_override p c \/ comp_override q c' = []) ->
  Forall (fun l => nodict (get_path ["references"] l)) (builtin dflt :: store_layers d p sk c) ->
  fold_override (Some (JDict [])) (builtin dflt :: store_layers d p sk c) = Some r ->
  fold_override (Some (JDict [])) ([builtin dflt; bg; bs; X; Y; comp_layer c'] ++ comp_override q c') = Some r' ->
  get_path ["references"] c' = get_path ["references"] f /\ val ["references"] r' = val ["references"] r.
Proof.
  intros dflt d p q sk c c' f bg bs X Y r r' Hi Hs Hc Hf Hbg Hbs HXY Hov Hnd Hr Hr'. split.
  - eapply stored_option; eauto. repeat split; try discriminate. left; discriminate.
  - eapply (reload_option dflt d p q sk c c' f bg bs X Y r r' "references" []); eauto.
    repeat split; try discriminate. left. discriminate.
Qed.
Print Assumptions C07_references.

(* Environments (repaired instance(), finding F7b): the environment a component sees in the reloaded document is the
   package's on p — the default platform's keys overlaid by the platform's *)
Theorem C07_environment : forall envs p q e x,
  uniq (envs_of envs p) -> all_dicts (envs_of envs p) -> all_dicts (envs_of envs DEF) ->
  q = DEF \/ q = p ->
  option_map (lookup x) (get_env (JDict [(DEF, JDict (fl_envs envs p))]) q e) = option_map (lookup x) (get_env envs p e).
Proof. exact reload_environment. Qed.
Print Assumptions C07_environment.

(* Typed leaves: instance() converts them when it stores; resolving the loaded instance converts again — the second
   conversion changes nothing *)
Theorem C07_convert_idempotent : forall k x y, conv_leaf k x = Some y -> conv_leaf k y = Some y.
Proof. exact conv_leaf_idem. Qed.
Print Assumptions C07_convert_idempotent.

(* ------------------------------------------------------------------ whole trees (coq/Reload/Obs.v, Idem.v)
   [jeq a b]: a and b are the same nested mapping - the same observation (nothing / leaf value / dictionary) at every
   path, i.e. equal up to the order of keys inside dictionaries.  [clean d p sk c]: the blueprints and the platform
   override that are folded into component c hold options only - no `stage`, `override`, `$import`.  A repeat interval
   given by a blueprint or by the platform override is allowed (finding F7d, repaired: instance() derives isRepeat from
   the layered repeatInterval it stores); [clean_repeat d p sk c] - no side layer gives repeatInterval / isRepeat - is
   asked only where the reloaded raw configuration is compared with the PACKAGE's raw isRepeat, which the package
   derives from the component's own repeatInterval alone (C07_config_tree; necessary: C07_config_tree_repeat_refuted). *)

(* override_object, whenever it does not raise, acts path by path *)
Theorem C07_override_pointwise : forall pi a b r,
  override a b = Some r -> obs pi r = comb (obs pi a) (obs pi b).
Proof. exact override_obs. Qed.
Print Assumptions C07_override_pointwise.

(* The hypothesis of C07_variables holds of EVERY stored component, with or without an override section *)
Theorem C07_stored_variables_any : forall d p sk c c' q,
  is_import c = false -> comp_stage_key c = Some sk ->
  store_comp_raw d p c = Some c' ->
  clean d p sk c -> q = DEF \/ q = p ->
  stored_vars_ok p q c c'.
Proof.
  intros d p sk c c' q Hi Hs Hc Hcl Hq.
  destruct (fold_override (Some (JDict [])) (store_layers d p sk c)) as [f|] eqn:Hf.
  - exact (stored_vars_ok_clean d p sk c c' f Hi Hs Hc Hf Hcl q Hq).
  - unfold store_comp_raw, store_comp_with in Hc. rewrite Hi, Hs, Hf in Hc. discriminate.
Qed.
Print Assumptions C07_stored_variables_any.

(* The layered (raw) configuration of a component in the reloaded document - [builtin; merged global blueprint; merged
   stage blueprint; X; Y; stored component (+ its override when q = p)] with the variables vl' - is, AS A TREE, the
   layered configuration of the package on p.  No shape hypothesis: wherever both layerings succeed they agree at every
   path, workflowAttributes.isRepeat included.  (vl' / vl: C07_variables + C07_stored_variables_any give the
   hypothesis on the variables.) *)
Theorem C07_config_tree : forall dflt d p q sk c c' bg bs X Y vl vl' r r',
  is_import c = false -> comp_stage_key c = Some sk ->
  store_comp_raw d p c = Some c' -> clean d p sk c -> clean_repeat d p sk c ->
  fl_bp_global d p = Some bg -> fl_bp_stage d p sk = Some bs ->
  ((X = bg /\ Y = bs) \/ (X = JDict [] /\ Y = JDict [])) ->
  q = DEF \/ q = p ->
  alist_eq (layer_vars vl') (layer_vars vl) ->
  merged_of (opt_layers dflt d p sk c) vl = Some r ->
  merged_of ([builtin dflt; bg; bs; X; Y; comp_layer c'] ++ comp_override q c') vl' = Some r' ->
  jeq r' r.
Proof. exact reload_merged_jeq. Qed.
Print Assumptions C07_config_tree.

(* ... and whatever layer gives the repeat interval (no [clean_repeat]): after the derivation of isRepeat from the
   layered repeatInterval, which every resolution of a component performs on the layered configuration (inject_all;
   [comp_pre] is that derivation), the two layered configurations are the same tree, isRepeat included; in
   particular they are the same tree at every path other than workflowAttributes.isRepeat. *)
Theorem C07_config_tree_derived : forall dflt d p q sk c c' bg bs X Y vl vl' r r',
  is_import c = false -> comp_stage_key c = Some sk ->
  store_comp_raw d p c = Some c' -> clean d p sk c ->
  fl_bp_global d p = Some bg -> fl_bp_stage d p sk = Some bs ->
  ((X = bg /\ Y = bs) \/ (X = JDict [] /\ Y = JDict [])) ->
  q = DEF \/ q = p ->
  alist_eq (layer_vars vl') (layer_vars vl) ->
  merged_of (opt_layers dflt d p sk c) vl = Some r ->
  merged_of ([builtin dflt; bg; bs; X; Y; comp_layer c'] ++ comp_override q c') vl' = Some r' ->
  jeq (comp_pre r') (comp_pre r) /\ (forall pth, irp pth = false -> obs pth r' = obs pth r).
Proof.
  intros dflt d p q sk c c' bg bs X Y vl vl' r r' Hi Hs Hc Hcl Hbg Hbs HXY Hq Hv Hr Hr'.
  pose proof (reload_merged_derived_jeq dflt d p q sk c c' bg bs X Y vl vl' r r' Hi Hs Hc Hcl Hbg Hbs HXY Hq Hv Hr Hr') as J.
  split; [exact J|]. intros pth Hir. rewrite <- (obs_comp_pre pth r' Hir), <- (obs_comp_pre pth r Hir). apply J.
Qed.
Print Assumptions C07_config_tree_derived.

(* The stored component is a fixed point of the derivation FlowIRConcrete.__init__ applies to every component of a
   document it loads: the stored isRepeat is the one of the stored (layered) repeatInterval (finding F7d, repaired) *)
Theorem C07_stored_repeat_derived : forall d p sk c c' f,
  is_import c = false -> comp_stage_key c = Some sk ->
  store_comp_raw d p c = Some c' ->
  fold_override (Some (JDict [])) (store_layers d p sk c) = Some f ->
  comp_pre c' = c' /\
  get_path RI c' = get_path RI f /\
  (forall x, get_path RI f = Some x -> get_path IR c' = Some (JBool (negb (none_or_zero x)))).
Proof.
  intros d p sk c c' f Hi Hs Hc Hf.
  assert (G : forall k2, get_path [WA; k2] c' = get_path [WA; k2] (comp_pre f)).
  { intros k2. apply (stored_path d p c sk c' f WA [k2] Hi Hs Hc Hf); discriminate. }
  split; [exact (comp_pre_stored d p sk c c' f Hi Hs Hc Hf)|]. split.
  - unfold RI. rewrite G. apply get_path_comp_pre. right. exists "repeatInterval", []. split; [reflexivity|discriminate].
  - intros x Hx. unfold IR. rewrite G, (comp_pre_some f x Hx). apply get_set_path_same.
Qed.
Print Assumptions C07_stored_repeat_derived.

(* Loading and storing again does not change the stored component: d2 is any document whose default platform holds the
   merged blueprints of d and whose platform p holds them again (p = default) or nothing (the flattened document);
   storing the stored component c' from d2 gives c' again, as a tree. *)
Theorem C07_component_idempotent : forall d d2 p sk c c' c'' bg bs,
  is_import c = false -> comp_stage_key c = Some sk ->
  store_comp_raw d p c = Some c' -> clean d p sk c ->
  fl_bp_global d p = Some bg -> fl_bp_stage d p sk = Some bs ->
  bp_global d2 DEF = bg -> bp_stage d2 DEF sk = bs ->
  ((bp_global d2 p = bg /\ bp_stage d2 p sk = bs) \/ (bp_global d2 p = JDict [] /\ bp_stage d2 p sk = JDict [])) ->
  store_comp_raw d2 p c' = Some c'' ->
  jeq c'' c'.
Proof. exact store_comp_idem. Qed.
Print Assumptions C07_component_idempotent.

(* ... and the other sections of the stored document: flattening the reloaded document (f_doc fd with the environments
   {default: f_envs fd}, selected platform p again, user variables patched in again) gives the same global variables, the
   same stage variables (as finite maps), the same global blueprint (as a tree) and the same environments. *)
Theorem C07_variables_idempotent : forall d envs u p fd sk,
  flatten_raw d envs u p = Some fd ->
  fl_global (f_doc fd) p = fl_global d p /\
  (existsb (String.eqb sk) (stage_keys (d_components d)) = true ->
   alist_eq (fl_stage (f_doc fd) u p sk) (fl_stage d u p sk)).
Proof.
  intros d envs u p fd sk H. split; [exact (reflatten_global d envs u p fd H)|exact (reflatten_stage d envs u p fd sk H)].
Qed.
Print Assumptions C07_variables_idempotent.

Theorem C07_blueprint_idempotent : forall d envs u p fd bg bg2,
  flatten_raw d envs u p = Some fd -> is_dict (bp_global d DEF) ->
  fl_bp_global d p = Some bg -> fl_bp_global (f_doc fd) p = Some bg2 -> jeq bg2 bg.
Proof. exact reflatten_bp_global. Qed.
Print Assumptions C07_blueprint_idempotent.

Theorem C07_environments_idempotent : forall envs p,
  alist_eq (fl_envs (JDict [(DEF, JDict (fl_envs envs p))]) p) (fl_envs envs p).
Proof. exact reflatten_envs. Qed.
Print Assumptions C07_environments_idempotent.

(* The stage blueprints and the list of stage keys; [all_clean d p]: every component of d that is stored with its layers
   folded in has clean side layers on p *)
Theorem C07_stage_blueprint_idempotent : forall d envs u p fd sk bs bs2,
  flatten_raw d envs u p = Some fd ->
  existsb (String.eqb sk) (stage_keys (d_components d)) = true -> is_dict (bp_stage d DEF sk) ->
  fl_bp_stage d p sk = Some bs -> fl_bp_stage (f_doc fd) p sk = Some bs2 -> jeq bs2 bs.
Proof. exact reflatten_bp_stage. Qed.
Print Assumptions C07_stage_blueprint_idempotent.

Theorem C07_stage_keys_idempotent : forall d envs u p fd,
  flatten_raw d envs u p = Some fd -> all_clean d p ->
  stage_keys (d_components (f_doc fd)) = stage_keys (d_components d).
Proof. exact reflatten_stage_keys. Qed.
Print Assumptions C07_stage_keys_idempotent.

(* Loading and storing again does not change the stored description - ONE statement about the whole flattened document
   (structural part): if the document that instance() stored is flattened again (selected platform p again, user variables
   patched in again) the result is the same stored description [fdoc_same]: the same global and stage blueprints (as
   trees), the same stage keys, the same global variables, the same stage variables (as finite maps), pairwise the same
   components (as trees) and the same environments. *)
Theorem C07_document_idempotent : forall d envs u p fd fd2,
  flatten_raw d envs u p = Some fd -> all_clean d p ->
  is_dict (bp_global d DEF) -> (forall sk, is_dict (bp_stage d DEF sk)) ->
  flatten_raw (f_doc fd) (JDict [(DEF, JDict (f_envs fd))]) u p = Some fd2 ->
  fdoc_same (stage_keys (d_components d)) fd2 fd.
Proof. exact reflatten_whole. Qed.
Print Assumptions C07_document_idempotent.

(* The value part: text that holds no reference (no '%': what interpolation leaves behind when every reference was
   resolved) is a fixed point of the tolerant interpolation of instance(), in every context *)
Theorem C07_interpolation_closed : forall ctx s, no_pct s ->
  interp_tol ctx s = Ok s /\ fill_tol ctx (JStr s) = Ok (JStr s).
Proof. intros ctx s H. split; [exact (interp_tol_plain ctx s H)|exact (fill_tol_plain_str ctx s H)]. Qed.
Print Assumptions C07_interpolation_closed.

(* The directory over time (Dir.v; fourth round).  desc = the stored description, mine = the description of the configuration
   parsed from the package files for the chosen platform / user variables, reparse = load-and-store of a stored description.
   An experiment built from the PACKAGE files of a directory with the update requested (experimentFromPackage; elaunch
   --restart <dir> --platform <other>: is_instance=False, updateInstanceConfiguration=True) leaves ITS description in the
   directory whatever the directory held before - nothing, the description of an earlier run, of another platform, of other
   user variables, with more loop iterations, a left-over file of the package ... *)
Theorem C07_recreate_stores : forall (desc : Type) (mine : desc) reparse d e d',
  open_experiment desc mine reparse Package true d = Some (e, d') -> e = mine /\ d' = Some mine.
Proof. exact recreate_stores. Qed.
Print Assumptions C07_recreate_stores.

(* ... so that, the stored description being a fixed point of load-and-store (C07_document_idempotent), EVERY later sequence
   of loads of the directory (is_instance True or None, each with or without update) gives that experiment again and leaves
   the description alone *)
Theorem C07_recreate_then_reload : forall (desc : Type) (mine : desc) reparse, reparse mine = Some mine ->
  forall d e d1 modes, Forall not_package modes ->
  open_experiment desc mine reparse Package true d = Some (e, d1) ->
  reloads desc mine reparse modes d1 = Some (map (fun _ => e) modes, Some e).
Proof. exact recreate_then_reload. Qed.
Print Assumptions C07_recreate_then_reload.

(* a directory without a description gets one when creation is requested, with or without `update` *)
Theorem C07_create_then_reload : forall (desc : Type) (mine : desc) reparse, reparse mine = Some mine ->
  forall modes, Forall not_package modes ->
  reloads desc mine reparse modes (generate desc true false mine None) = Some (map (fun _ => mine) modes, Some mine).
Proof. exact create_then_reload. Qed.
Print Assumptions C07_create_then_reload.

(* opening a directory without the update writes nothing (whatever the flavour) *)
Theorem C07_open_no_update : forall (desc : Type) (mine : desc) reparse fl d e d',
  open_experiment desc mine reparse fl false d = Some (e, d') -> d' = d.
Proof. exact open_no_update. Qed.
Print Assumptions C07_open_no_update.

(* The loop placeholders over time (Loops.v; seventh round).  The live graph instantiates iteration after iteration on ONE
   state (after k = k times next_iteration from create); the directory holds the instances 0..k in some order; the experiment
   loaded from it (load: a new graph, no earlier state) has the placeholder of the live one - the same instances and the same
   latest one, which is iteration k as a NUMBER, for every k (10 after 9, 100 after 99) *)
Theorem C07_loops_live_latest : forall k,
  l_latest (after k) = Some (N.of_nat k) /\ l_comps (after k) = map N.of_nat (seq 0 (S k)).
Proof. intros k. split; [exact (live_latest k)|exact (live_represents k)]. Qed.
Print Assumptions C07_loops_live_latest.

Theorem C07_loops_reload : forall k l, stored (after k) l ->
  l_latest (load l) = l_latest (after k) /\ Permutation.Permutation (l_comps (load l)) (l_comps (after k)).
Proof. exact reload_latest. Qed.
Print Assumptions C07_loops_reload.

(* the order in which the stored instances are read does not matter *)
Theorem C07_loops_latest_order : forall l l', Permutation.Permutation l l' -> latest_of l = latest_of l'.
Proof. exact latest_of_perm. Qed.
Print Assumptions C07_loops_latest_order.

(* the references of the instances of different iterations are different texts: comparing the text of `latest` of the experiment
   that wrote the instance with the one of the reloaded experiment compares the iterations *)
Theorem C07_loops_reference_injective : forall st i j name, inst_ref st i name = inst_ref st j name -> i = j.
Proof. exact inst_ref_inj. Qed.
Print Assumptions C07_loops_reference_injective.

(* non-vacuity: a two-platform package with a user variable; the flattened document exists, the stage filter is
   exercised (g is defined on the default stage and globally on p), the component is stored with the blueprints folded
   in, the environment is merged, and the hypotheses of the theorems hold of it *)
Definition ex_doc : doc :=
  {| d_blueprint := JDict [("default", JDict [("global", JDict [("command", JDict [("arguments", JStr "dg %(a)s")])])]);
                           ("p", JDict [("global", JDict [("resourceManager", JDict [("config", JDict [("walltime", JInt 7)])])])])];
     d_variables := JDict [("default", JDict [("global", JDict [("a", JStr "A"); ("g", JStr "dg")]);
                                              ("stages", JDict [("0", JDict [("g", JStr "ds"); ("s", JStr "ds0")])])]);
                           ("p", JDict [("global", JDict [("g", JStr "pg")])])];
     d_components := [JDict [("name", JStr "c"); ("stage", JInt 0);
                             ("command", JDict [("executable", JStr "echo"); ("environment", JStr "e")]);
                             ("references", JList [JStr "src:ref"]);
                             ("variables", JDict [("b", JStr "C")]);
                             ("override", JDict [("p", JDict [("command", JDict [("executable", JStr "echo-p")])]);
                                                 ("q", JDict [("command", JDict [("executable", JStr "echo-q")])])])]] |}.
Definition ex_envs : jv :=
  JDict [("default", JDict [("e", JDict [("A", JStr "1"); ("B", JStr "2")])]); ("p", JDict [("e", JDict [("B", JStr "3")])])].
Definition ex_user : jv := JDict [("global", JDict [("s", JStr "user")])].

Definition ex_flat := flatten ex_doc ex_envs ex_user "p".

Definition ex_rep_doc : doc :=
  {| d_blueprint := JDict [("default", JDict [("global", JDict [(WA, JDict [("repeatInterval", JInt 5)])])])];
     d_variables := JDict [("default", JDict [("global", JDict [("a", JStr "A")])])];
     d_components := [JDict [("name", JStr "c"); ("stage", JInt 0);
                             ("command", JDict [("executable", JStr "echo"); ("arguments", JStr "hi")])]] |}.

Example C07_nonvacuous :
  (exists fd, ex_flat = Ok fd /\
     get_path ["default"; "global"; "g"] (d_variables (f_doc fd)) = Some (JStr "pg") /\
     get_path ["default"; "stages"; "0"; "g"] (d_variables (f_doc fd)) = None /\
     get_path ["default"; "stages"; "0"; "s"] (d_variables (f_doc fd)) = Some (JStr "user") /\
     lookup "e" (f_envs fd) = Some (JDict [("A", JStr "1"); ("B", JStr "3")]) /\
     match d_components (f_doc fd) with
     | [c'] => get_path ["command"; "arguments"] c' = Some (JStr "dg %(a)s") /\
               get_path ["command"; "executable"] c' = Some (JStr "echo-p") /\
               get_path ["resourceManager"; "config"; "walltime"] c' = Some (JFlt "7.0") /\
               get_path ["override"] c' = Some (JDict [("p", JDict [("command", JDict [("executable", JStr "echo-p")])])])
     | _ => False
     end) /\
  existsb (String.eqb "0") (stage_keys (d_components ex_doc)) = true /\
  uniq (envs_of ex_envs "p") /\
  Forall (fun l => nodict (get_path ["command"; "arguments"] l)) (store_layers ex_doc "p" "0" (hd JNull (d_components ex_doc))) /\
  clean ex_doc "p" "0" (hd JNull (d_components ex_doc)) /\
  clean_repeat ex_doc "p" "0" (hd JNull (d_components ex_doc)) /\
  (* a repeat interval given by a blueprint: clean, not clean_repeat; the stored component holds the derived isRepeat *)
  (clean ex_rep_doc "p" "0" (hd JNull (d_components ex_rep_doc)) /\
   exists c', store_comp_raw ex_rep_doc "p" (hd JNull (d_components ex_rep_doc)) = Some c' /\
              get_path RI c' = Some (JInt 5) /\ get_path IR c' = Some (JBool true) /\
              store_comp_raw ex_rep_doc "p" c' = Some c') /\
  is_dict (bp_global ex_doc DEF) /\ no_pct "echo-p" /\
  (* the hypotheses of C07_document_idempotent: the flattened document can be flattened again *)
  all_clean ex_doc "p" /\ (forall sk, is_dict (bp_stage ex_doc DEF sk)) /\
  ((exists fd fd2, flatten_raw ex_doc ex_envs ex_user "p" = Some fd /\
                   flatten_raw (f_doc fd) (JDict [(DEF, JDict (f_envs fd))]) ex_user "p" = Some fd2) /\
   (* the directory: it holds the description 7 of another experiment; built from the package files with update, this one's (1) is
      stored; three loads (instance / auto, with and without update) give it again *)
   (exists e d1, open_experiment nat 1 (fun s => Some s) Package true (Some 7) = Some (e, d1) /\ e = 1 /\
                 Forall not_package [(Instance, true); (Auto, false); (Instance, false)] /\
                 reloads nat 1 (fun s => Some s) [(Instance, true); (Auto, false); (Instance, false)] d1 = Some ([1; 1; 1], Some 1)) /\
   (* the loop placeholders: eleven further iterations on one live graph; the directory lists the instances in another order (here:
      the newest first); the experiment loaded from it is fed by stage1.11#collect as the live one *)
   (stored (after 11) [11; 10; 9; 8; 7; 6; 5; 4; 3; 2; 1; 0]%N /\
    view 1 "collect" (load [11; 10; 9; 8; 7; 6; 5; 4; 3; 2; 1; 0]%N) =
      ("stage1.11#collect", map (fun i => inst_ref 1 i "collect") [11; 10; 9; 8; 7; 6; 5; 4; 3; 2; 1; 0]%N) /\
    fst (view 1 "collect" (after 11)) = "stage1.11#collect")).
Proof.
  split; [|split; [|split; [|split; [|split; [|split; [|split; [|split; [|split; [|split; [|split]]]]]]]]]].
  - eexists. split; [vm_compute; reflexivity|]. vm_compute. repeat split; reflexivity.
  - vm_compute. reflexivity.
  - unfold uniq. vm_compute. repeat constructor. intros [].
  - vm_compute. repeat constructor.
  - unfold clean. vm_compute. repeat constructor.
  - unfold clean_repeat. vm_compute. repeat constructor.
  - split; [unfold clean; vm_compute; repeat constructor|].
    eexists. split; [vm_compute; reflexivity|]. vm_compute. repeat split; reflexivity.
  - eexists. vm_compute. reflexivity.
  - reflexivity.
  - intros c sk [<-|[]] _ Hs. vm_compute in Hs. injection Hs as <-. unfold clean. vm_compute. repeat constructor.
  - intros sk. eexists. reflexivity.
  - split.
    + do 2 eexists. split; vm_compute; reflexivity.
    + split.
      * exists 1, (Some 1). split; [reflexivity|]. split; [reflexivity|]. split; [|reflexivity].
        repeat constructor; unfold not_package; simpl; discriminate.
      * split; [|split; vm_compute; reflexivity].
        unfold stored. change (l_comps (after 11)) with (rev [11; 10; 9; 8; 7; 6; 5; 4; 3; 2; 1; 0]%N).
        apply Permutation.Permutation_rev.
Qed.
