(* C07, seventh round: the loop placeholders OVER TIME.

   A running experiment keeps ONE WorkflowGraph object and instantiates iteration after iteration on it
   (WorkflowGraph.instantiate_dowhile_next_iteration: the components of the next iteration are added, then
   _discover_dowhile_placeholders() computes, for the placeholder stageS.name of every looped component, the instances it
   `represents` and the `latest` one - sorted(matched, key=int(iteration), reverse=True)[0] - and the entry REPLACES the one
   that self._placeholders held).  conf/flowir_instance.yaml records the instances 0..k (as a set: instance() collects the
   components from a set, their order in the file is arbitrary); an experiment loaded from the directory builds its graph
   from that description AT ONCE, with no earlier state.  The property wants both to be the same experiment: a consumer
   outside the loop (stage2.report reading stage1.collect:output) must be fed by the same instance in the experiment that
   wrote the directory and in the one loaded from it - the one of iteration k, for EVERY k (10 follows 9 as a number, not as
   a text).

   The instances of one placeholder are identified by their iteration number; inst_ref is the text the implementation
   uses for them ('stage%d.%d#%s'). *)
From Coq Require Import String Ascii List Bool NArith Arith Lia Permutation.
Require Import V.Lib.PyStr.
Import ListNotations.
Open Scope string_scope.

Definition inst_ref (st i : N) (name : string) : string := "stage" ++ dec st ++ "." ++ dec i ++ "#" ++ name.

(* the numerically highest iteration among the matched instances (None: nothing matched) *)
Definition latest_of (matched : list N) : option N :=
  match matched with
  | [] => None
  | x :: r => Some (fold_left N.max r x)
  end.

(* the live graph: the iterations instantiated so far (in the order of instantiation) and the entry of self._placeholders *)
Record live := { l_comps : list N; l_latest : option N }.

Definition discover (comps : list N) : live := {| l_comps := comps; l_latest := latest_of comps |}.

(* Experiment built from the package: iteration 0 *)
Definition create : live := discover [0%N].

Definition next_of (w : live) : N := match latest_of (l_comps w) with Some i => N.succ i | None => 0%N end.

(* instantiate_dowhile_next_iteration: add the instance of the next iteration, discover the placeholders again *)
Definition next_iteration (w : live) : live := discover (l_comps w ++ [next_of w])%list.

Definition after (k : nat) : live := Nat.iter k next_iteration create.

(* what the directory holds after the store that follows every iteration: the instances, in SOME order *)
Definition stored (w : live) (l : list N) : Prop := Permutation l (l_comps w).

(* the experiment loaded from a description: a new graph, no earlier state *)
Definition load (l : list N) : live := discover l.

(* ------------------------------------------------------------------ a well-meant guard, for Refuted.v:
   `a placeholder only ever moves forward: keep the entry that is there if it is later than the one just matched`,
   with the two references compared as TEXT *)
Fixpoint str_ltb (a b : string) : bool :=      (* Python  a < b  on (ASCII) strings *)
  match a, b with
  | EmptyString, EmptyString => false
  | EmptyString, String _ _ => true
  | String _ _, EmptyString => false
  | String x a', String y b' =>
      if (nat_of_ascii x <? nat_of_ascii y)%nat then true
      else if (nat_of_ascii y <? nat_of_ascii x)%nat then false else str_ltb a' b'
  end.

Definition discover_guarded (st : N) (name : string) (known : option N) (comps : list N) : live :=
  let found := latest_of comps in
  {| l_comps := comps;
     l_latest := match known, found with
                 | Some a, Some b => if str_ltb (inst_ref st b name) (inst_ref st a name) then Some a else Some b
                 | _, _ => found
                 end |}.

Definition next_iteration_guarded (st : N) (name : string) (w : live) : live :=
  discover_guarded st name (l_latest w) (l_comps w ++ [next_of w])%list.

Definition after_guarded (st : N) (name : string) (k : nat) : live := Nat.iter k (next_iteration_guarded st name) create.

(* ------------------------------------------------------------------ lemmas *)
Lemma fold_max_perm : forall l l' : list N, Permutation l l' -> forall a, fold_left N.max l a = fold_left N.max l' a.
Proof.
  intros l l' HP. induction HP as [|x l l' _ IH|x y l|l l' l'' _ IH1 _ IH2]; intros a; simpl.
  - reflexivity.
  - apply IH.
  - f_equal. lia.
  - rewrite IH1. apply IH2.
Qed.

Lemma fold_max_ge : forall (l : list N) a, (a <= fold_left N.max l a)%N.
Proof. induction l as [|x l IH]; intros a; simpl; [lia|]. specialize (IH (N.max a x)). lia. Qed.

Lemma fold_max_in : forall (l : list N) a x, In x l -> (x <= fold_left N.max l a)%N.
Proof.
  induction l as [|y l IH]; intros a x Hin; [destruct Hin|]. destruct Hin as [->|Hin]; simpl.
  - pose proof (fold_max_ge l (N.max a x)). lia.
  - apply IH. exact Hin.
Qed.

Lemma fold_max_comm_head : forall (l : list N) a b, fold_left N.max l (N.max a b) = N.max a (fold_left N.max l b).
Proof.
  induction l as [|y l IH]; intros a b; simpl; [reflexivity|].
  replace (N.max (N.max a b) y) with (N.max a (N.max b y)) by lia. apply IH.
Qed.

(* the order of the matched instances does not matter *)
Lemma latest_of_perm : forall l l', Permutation l l' -> latest_of l = latest_of l'.
Proof.
  intros l l' HP. induction HP as [|x l l' HP' _|x y l|l l' l'' _ IH1 _ IH2]; simpl.
  - reflexivity.
  - f_equal. apply fold_max_perm. exact HP'.
  - f_equal. f_equal. lia.
  - rewrite IH1. exact IH2.
Qed.

Lemma latest_of_snoc : forall l i x, latest_of l = Some i -> latest_of (l ++ [x])%list = Some (N.max i x).
Proof.
  intros [|y l] i x H; [discriminate|]. simpl in *. injection H as <-. rewrite fold_left_app. reflexivity.
Qed.

(* the instances of the live graph after k further iterations are 0..k, the latest one is k *)
Lemma after_spec : forall k,
  l_comps (after k) = map N.of_nat (seq 0 (S k)) /\ l_latest (after k) = Some (N.of_nat k).
Proof.
  induction k as [|k [IHc IHl]].
  - split; reflexivity.
  - assert (Hl : latest_of (l_comps (after k)) = Some (N.of_nat k)).
    { destruct k; [reflexivity|]. exact IHl. }
    change (after (S k)) with (next_iteration (after k)).
    unfold next_iteration, next_of. rewrite Hl. simpl l_comps. simpl l_latest. split.
    + rewrite IHc. replace (S (S k)) with (S k + 1)%nat by lia. rewrite seq_app, map_app. f_equal.
      cbn [seq map Nat.add]. rewrite Nat2N.inj_succ. reflexivity.
    + rewrite (latest_of_snoc _ _ _ Hl). f_equal. lia.
Qed.

Lemma live_latest : forall k, l_latest (after k) = Some (N.of_nat k).
Proof. intros k. apply after_spec. Qed.

Lemma live_represents : forall k, l_comps (after k) = map N.of_nat (seq 0 (S k)).
Proof. intros k. apply after_spec. Qed.

(* the experiment loaded from the description that the live one stored after k further iterations - the instances in any
   order - has the placeholder of the live one: the same instances, the same latest one *)
Lemma reload_latest : forall k l, stored (after k) l ->
  l_latest (load l) = l_latest (after k) /\ Permutation (l_comps (load l)) (l_comps (after k)).
Proof.
  intros k l HP. split; [|exact HP]. simpl. rewrite (latest_of_perm _ _ HP).
  destruct (after_spec k) as [_ Hl]. rewrite Hl.
  destruct k; [reflexivity|]. change (after (S k)) with (next_iteration (after k)) in *. exact Hl.
Qed.

(* the texts: different iterations have different references (so that comparing the texts of `latest` live / reloaded, as the
   correspondence does, compares the iterations) *)
Lemma append_inv_head : forall s a b, s ++ a = s ++ b -> a = b.
Proof. induction s as [|c s IH]; simpl; intros a b H; [exact H|]. injection H as H. apply IH. exact H. Qed.

Lemma append_inv_tail : forall a b t, a ++ t = b ++ t -> a = b.
Proof.
  induction a as [|c a IH]; intros [|d b] t H; simpl in H.
  - reflexivity.
  - apply (f_equal String.length) in H. simpl in H. rewrite length_append in H. lia.
  - apply (f_equal String.length) in H. simpl in H. rewrite length_append in H. lia.
  - injection H as -> H. f_equal. apply (IH _ _ H).
Qed.

Lemma inst_ref_inj : forall st i j name, inst_ref st i name = inst_ref st j name -> i = j.
Proof.
  intros st i j name H. unfold inst_ref in H.
  apply append_inv_head in H. apply append_inv_head in H. apply append_inv_head in H.
  change (dec i ++ "#" ++ name) with (dec i ++ ("#" ++ name)) in H.
  apply append_inv_tail in H. apply dec_inj. exact H.
Qed.

(* ------------------------------------------------------------------ correspondence checker
   ((stage, name, k), (latest, represents) of the experiment that wrote the instance, [(latest, represents) of every reloaded one]):
   the live side is computed by k next_iteration steps on ONE state, the reloaded side by load of the stored instances (taken in
   the reverse order); `represents` is compared as a set of texts *)
Definition mem (s : string) (l : list string) : bool := existsb (String.eqb s) l.
Definition set_eqb (a b : list string) : bool :=
  Nat.eqb (List.length a) (List.length b) && forallb (fun x => mem x b) a && forallb (fun x => mem x a) b.

Definition view (st : N) (name : string) (w : live) : string * list string :=
  (match l_latest w with Some i => inst_ref st i name | None => "" end, map (fun i => inst_ref st i name) (l_comps w)).

Definition view_eqb (a b : string * list string) : bool := String.eqb (fst a) (fst b) && set_eqb (snd a) (snd b).

Definition check_loop (c : (N * string * nat) * (string * list string) * list (string * list string)) : bool :=
  let '((st, name, k), lv, rl) := c in
  let w := after k in
  view_eqb (view st name w) lv && forallb (view_eqb (view st name (load (rev (l_comps w))))) rl.
