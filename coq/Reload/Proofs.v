(* C07 — lemmas about the structural part of instance() (flatten_raw) and the conversion step of its value part *)
From Coq Require Import String Ascii List Bool ZArith Arith Lia.
Import ListNotations.
Require Import V.Lib.PyStr V.Lib.JTree V.Conf.Model V.Conf.Proofs V.Reload.Model.
Open Scope string_scope.

(* ================================================================== A. dictionaries keyed by stage *)
Lemma lookup_map_keyed {A} (F : string -> A) sk sks :
  lookup sk (map (fun s => (s, F s)) sks) = if existsb (String.eqb sk) sks then Some (F sk) else None.
Proof.
  induction sks as [|s r IH]; cbn; [reflexivity|].
  destruct (String.eqb sk s) eqn:E; cbn; [apply String.eqb_eq in E; subst; reflexivity|exact IH].
Qed.

Lemma existsb_dedup x l : existsb (String.eqb x) (dedup l) = existsb (String.eqb x) l.
Proof.
  induction l as [|y r IH]; [reflexivity|]. cbn [dedup].
  destruct (existsb (String.eqb y) r) eqn:Ey; cbn [existsb].
  - rewrite IH. destruct (String.eqb x y) eqn:E; [|reflexivity].
    apply String.eqb_eq in E; subst. rewrite Ey. reflexivity.
  - rewrite IH. reflexivity.
Qed.

Lemma lookup_remove_key {A} k k' (m : list (string * A)) :
  lookup k (remove_key k' m) = if String.eqb k k' then None else lookup k m.
Proof.
  induction m as [|[k0 v0] r IH]; cbn; [destruct (String.eqb k k'); reflexivity|].
  destruct (String.eqb k' k0) eqn:E0.
  - apply String.eqb_eq in E0; subst k0. rewrite IH. destruct (String.eqb k k'); reflexivity.
  - cbn. destruct (String.eqb k k0) eqn:E1; [|exact IH].
    apply String.eqb_eq in E1; subst k0. destruct (String.eqb k k') eqn:E2; [|reflexivity].
    apply String.eqb_eq in E2; subst. rewrite String.eqb_refl in E0. discriminate.
Qed.

Lemma lookup_without_keys k ks (m : alist) :
  lookup k (without_keys ks m) = if has_key k ks then None else lookup k m.
Proof.
  unfold without_keys. rewrite (lookup_filter_key (fun k => negb (has_key k ks))).
  destruct (has_key k ks); reflexivity.
Qed.

(* ================================================================== B. variables *)
Section Flat.
  Variables (b : jv) (g : alist) (F : string -> alist) (sks : list string) (cs : list jv).
  Let fd : doc := {| d_blueprint := b; d_variables := mk_sections (JDict g) (map (fun s => (s, JDict (F s))) sks);
                     d_components := cs |}.

  Lemma flat_vars_global : vars_global fd DEF = g.
  Proof. reflexivity. Qed.

  Lemma flat_vars_stage sk : existsb (String.eqb sk) sks = true -> vars_stage fd DEF sk = F sk.
  Proof.
    intros H. unfold vars_stage, get_or, fd, mk_sections, DEF. cbn [d_variables get_path lookup String.eqb Ascii.eqb Bool.eqb].
    rewrite (lookup_map_keyed (fun s => JDict (F s))), H. reflexivity.
  Qed.

  Lemma flat_vars_foreign q sk : String.eqb q DEF = false -> vars_global fd q = [] /\ vars_stage fd q sk = [].
  Proof.
    intros H. unfold vars_global, vars_stage, get_or, fd, mk_sections. cbn [d_variables get_path lookup].
    rewrite H. split; reflexivity.
  Qed.
End Flat.

(* the precedence of one variable, written out: the six layers of the package on platform p *)
Definition live_var (d : doc) (u : jv) (p sk : string) (cv ov : alist) (k : string) : option jv :=
  first_some (lookup k)
    ([ov; cv] ++ (if String.eqb p DEF then [] else [pstage_vars d u p sk; vars_global d p])
     ++ [pstage_vars d u DEF sk; vars_global d DEF])%list.

Lemma var_layers_live d u p sk c k :
  lookup k (layer_vars (var_layers d u p sk c)) =
  live_var d u p sk (jdict_of (get_or (JDict []) ["variables"] c))
           (jdict_of (get_or (JDict []) ["override"; p; "variables"] c)) k.
Proof.
  rewrite layer_vars_precedence. unfold var_layers, live_var, pstage_vars, DEF.
  destruct (String.eqb p "default"); reflexivity.
Qed.

Lemma lookup_pstage_user d u P sk k :
  lookup k (pstage_vars d u P sk) = match lookup k (user_patch u sk) with Some v => Some v | None => lookup k (vars_stage d P sk) end.
Proof. unfold pstage_vars. apply lookup_update. Qed.

(* the flattened global and stage variables give every name the value the package gives it on platform p
   (below the component): this is where `ds minus the names of pg` matters *)
Lemma flat_scope_lookup d u p sk k :
  match lookup k (update (fl_stage d u p sk) (user_patch u sk)) with
  | Some v => Some v
  | None => lookup k (fl_global d p)
  end =
  first_some (lookup k)
    ((if String.eqb p DEF then [] else [pstage_vars d u p sk; vars_global d p])
     ++ [pstage_vars d u DEF sk; vars_global d DEF])%list.
Proof.
  rewrite lookup_update. unfold fl_stage, fl_global.
  destruct (String.eqb p DEF) eqn:Ep; cbn [app first_some].
  - rewrite lookup_pstage_user. destruct (lookup k (user_patch u sk)); [reflexivity|].
    destruct (lookup k (vars_stage d DEF sk)); [reflexivity|].
    destruct (lookup k (vars_global d DEF)); reflexivity.
  - rewrite !lookup_update, lookup_without_keys, !lookup_pstage_user. unfold has_key.
    destruct (lookup k (user_patch u sk)) as [x|]; [reflexivity|].
    destruct (lookup k (vars_stage d p sk)) as [x|]; [reflexivity|].
    destruct (lookup k (vars_global d p)) as [x|]; [reflexivity|].
    destruct (lookup k (vars_stage d DEF sk)) as [x|]; [reflexivity|].
    destruct (lookup k (vars_global d DEF)); reflexivity.
Qed.

(* variables of the stored component *)
Definition stored_vars_ok (p q : string) (c c' : jv) : Prop :=
  jdict_of (get_or (JDict []) ["variables"] c') = comp_own_vars p c /\
  jdict_of (get_or (JDict []) ["override"; q; "variables"] c') =
    (if String.eqb q p then jdict_of (get_or (JDict []) ["override"; p; "variables"] c) else []).

Lemma reload_variables d envs u p q fd sk c c' k :
  flatten_raw d envs u p = Some fd ->
  existsb (String.eqb sk) (stage_keys (d_components d)) = true ->
  q = DEF \/ q = p ->
  stored_vars_ok p q c c' ->
  lookup k (layer_vars (var_layers (f_doc fd) u q sk c')) = lookup k (layer_vars (var_layers d u p sk c)).
Proof.
  intros Hf Hs Hq [V1 V2]. unfold flatten_raw in Hf.
  destruct (fl_bp_global d p) as [bg|]; [|discriminate].
  destruct (all_some (map (fun sk0 => option_map (fun b0 => (sk0, b0)) (fl_bp_stage d p sk0)) (stage_keys (d_components d)))) as [bss|];
    [|discriminate].
  destruct (all_some (map (store_comp_raw d p) (d_components d))) as [cs|]; [|discriminate].
  injection Hf as <-. cbn [f_doc].
  rewrite (var_layers_live d u p sk c k).
  rewrite layer_vars_precedence. unfold var_layers. rewrite V1, V2.
  set (sks := stage_keys (d_components d)) in *.
  pose proof (flat_vars_stage (mk_sections bg bss) (fl_global d p) (fun s => fl_stage d u p s) sks cs sk Hs) as S0.
  pose proof (flat_vars_global (mk_sections bg bss) (fl_global d p) (fun s => fl_stage d u p s) sks cs) as G0.
  pose proof (flat_scope_lookup d u p sk k) as SC. rewrite lookup_update in SC.
  unfold live_var, comp_own_vars.
  set (cv := jdict_of (get_or (JDict []) ["variables"] c)) in *.
  set (ov := jdict_of (get_or (JDict []) ["override"; p; "variables"] c)) in *.
  destruct (String.eqb q DEF) eqn:Eq.
  - (* reloaded on the default platform *)
    change (String.eqb q "default") with (String.eqb q DEF). rewrite Eq. cbn [app rev first_some].
    change "default" with DEF. rewrite S0, G0.
    rewrite !lookup_update.
    destruct (String.eqb q p) eqn:Eqp.
    + destruct (lookup k ov) as [x|]; [reflexivity|]. destruct (lookup k cv) as [x|]; [reflexivity|]. destruct (lookup k (fl_global d p)); exact SC.
    + cbn [lookup]. destruct (lookup k ov) as [x|]; [reflexivity|]. destruct (lookup k cv) as [x|]; [reflexivity|]. destruct (lookup k (fl_global d p)); exact SC.
  - (* reloaded on p (not default): the platform sections of the flattened document are empty *)
    destruct Hq as [->| ->]; [unfold DEF in Eq; rewrite String.eqb_refl in Eq; discriminate|].
    change (String.eqb p "default") with (String.eqb p DEF). rewrite Eq, String.eqb_refl. cbn [app rev first_some].
    destruct (flat_vars_foreign (mk_sections bg bss) (fl_global d p) (fun s => fl_stage d u p s) sks cs p sk Eq) as [FG FS].
    change "default" with DEF. rewrite S0, G0, FG, FS.
    rewrite !lookup_update. cbn [lookup].
    destruct (lookup k ov) as [x|]; [reflexivity|]. destruct (lookup k cv) as [x|]; [reflexivity|].
    rewrite Eq in SC. cbn [app first_some] in SC |- *. rewrite <- SC.
    destruct (lookup k (user_patch u sk)) as [x|]; [reflexivity|].
    destruct (lookup k (fl_stage d u p sk)) as [x|]; [reflexivity|].
    destruct (lookup k (fl_global d p)); reflexivity.
Qed.

(* ================================================================== C. options *)
Lemma get_path_comp_pre c k pi :
  (k <> WA \/ exists k2 pi2, pi = k2 :: pi2 /\ k2 <> "isRepeat") ->
  get_path (k :: pi) (comp_pre c) = get_path (k :: pi) c.
Proof.
  intros H. unfold comp_pre. destruct (get_path [WA; "repeatInterval"] c) as [x|] eqn:E; [|reflexivity].
  destruct c as [| | | | | |m]; try discriminate.
  cbn [get_path] in E. destruct (lookup WA m) as [w|] eqn:Ew; [|discriminate].
  destruct w as [| | | | | |mw]; try discriminate.
  cbn [set_path jdict_of]. rewrite Ew. cbn [jdict_of].
  rewrite !get_path_cons_dict, lookup_set_key.
  destruct (String.eqb k WA) eqn:Ek; [|reflexivity].
  apply String.eqb_eq in Ek; subst k. rewrite Ew.
  destruct H as [H|(k2 & pi2 & -> & H2)]; [contradiction|].
  rewrite !get_path_cons_dict, lookup_set_key.
  destruct (String.eqb k2 "isRepeat") eqn:E2; [apply String.eqb_eq in E2; contradiction|reflexivity].
Qed.

Lemma get_path_remove_other k k' pi m : k <> k' ->
  get_path (k :: pi) (JDict (remove_key k' m)) = get_path (k :: pi) (JDict m).
Proof.
  intros H. rewrite !get_path_cons_dict, lookup_remove_key.
  destruct (String.eqb k k') eqn:E; [apply String.eqb_eq in E; contradiction|reflexivity].
Qed.

Lemma get_path_set_other {k k' pi v m} : k <> k' ->
  get_path (k :: pi) (JDict (set_key k' v m)) = get_path (k :: pi) (JDict m).
Proof.
  intros H. rewrite !get_path_cons_dict, lookup_set_key.
  destruct (String.eqb k k') eqn:E; [apply String.eqb_eq in E; contradiction|reflexivity].
Qed.

Definition opt_path (k : string) (pi : list string) : Prop :=
  k <> "variables" /\ k <> "override" /\ (k <> WA \/ exists k2 pi2, pi = k2 :: pi2 /\ k2 <> "isRepeat").

Lemma get_path_comp_layer c k pi : opt_path k pi -> get_path (k :: pi) (comp_layer c) = get_path (k :: pi) c.
Proof.
  intros (H1 & H2 & H3). unfold comp_layer. rewrite <- (get_path_comp_pre c k pi H3).
  destruct (comp_pre c); try reflexivity. apply get_path_remove_other. exact H2.
Qed.

Lemma get_path_keep_override p c m k pi : k <> "override" ->
  get_path (k :: pi) (JDict (keep_override p c m)) = get_path (k :: pi) (JDict m).
Proof.
  intros H. unfold keep_override. destruct (get_path ["override"] c) as [o|]; [|reflexivity].
  destruct (get_path [p] o); [apply get_path_set_other|apply get_path_remove_other]; exact H.
Qed.

(* what the stored component holds at a path outside `variables` / `override` is what the fold of the store layers
   holds after isRepeat was derived again ([comp_pre] of the fold); at an option path that is the fold itself *)
Lemma comp_pre_dict m : exists m', comp_pre (JDict m) = JDict m'.
Proof.
  unfold comp_pre. destruct (get_path [WA; "repeatInterval"] (JDict m)); [cbn [set_path]|]; eexists; reflexivity.
Qed.

Lemma stored_path d p c sk c' f k pi :
  is_import c = false -> comp_stage_key c = Some sk ->
  store_comp_raw d p c = Some c' ->
  fold_override (Some (JDict [])) (store_layers d p sk c) = Some f ->
  k <> "variables" -> k <> "override" ->
  get_path (k :: pi) c' = get_path (k :: pi) (comp_pre f).
Proof.
  intros Hi Hs Hc Hf K1 K2. unfold store_comp_raw, store_comp_with in Hc. rewrite Hi, Hs, Hf in Hc.
  destruct f as [| | | | | |m]; try discriminate. injection Hc as <-.
  rewrite get_path_keep_override by exact K2. rewrite (get_path_set_other K1).
  destruct (comp_pre_dict m) as [m' ->]. reflexivity.
Qed.

Lemma stored_option d p c sk c' f k pi :
  is_import c = false -> comp_stage_key c = Some sk ->
  store_comp_raw d p c = Some c' ->
  fold_override (Some (JDict [])) (store_layers d p sk c) = Some f ->
  opt_path k pi ->
  get_path (k :: pi) c' = get_path (k :: pi) f.
Proof.
  intros Hi Hs Hc Hf (K1 & K2 & K3). rewrite (stored_path d p c sk c' f k pi Hi Hs Hc Hf K1 K2).
  apply get_path_comp_pre. exact K3.
Qed.

Lemma first_some_all_none {A B} (f : A -> option B) l : first_some f l = None -> Forall (fun x => f x = None) l.
Proof.
  induction l as [|x r IH]; intros H; [constructor|]. cbn in H. destruct (f x) eqn:E; [discriminate|].
  constructor; [exact E|exact (IH H)].
Qed.

Lemma val_nodict_eq pi a b : get_path pi a = get_path pi b -> val pi a = val pi b /\ (nodict (get_path pi a) <-> nodict (get_path pi b)).
Proof. intros H. unfold val. rewrite H. split; [reflexivity|tauto]. Qed.

(* The options.  [lay] = the layers of the package for (p, stage, c) without the built-in defaults;
   stored = their fold; on reload the layers are [builtin; fbg; fbs; X; Y; stored'] (+ override when q = p) where
   fbg / fbs are the pairwise merged blueprints and X, Y are fbg / fbs again (q = default) or empty (q = p). *)
Lemma reload_option dflt d p q sk c c' f bg bs X Y r r' k pi :
  opt_path k pi ->
  is_import c = false -> comp_stage_key c = Some sk ->
  store_comp_raw d p c = Some c' ->
  fold_override (Some (JDict [])) (store_layers d p sk c) = Some f ->
  fl_bp_global d p = Some bg -> fl_bp_stage d p sk = Some bs ->
  ((X = bg /\ Y = bs) \/ (X = JDict [] /\ Y = JDict [])) ->
  (comp_override q c' = comp_override p c \/ comp_override q c' = []) ->
  Forall (fun l => nodict (get_path (k :: pi) l)) (builtin dflt :: store_layers d p sk c) ->
  fold_override (Some (JDict [])) (builtin dflt :: store_layers d p sk c) = Some r ->
  fold_override (Some (JDict [])) ([builtin dflt; bg; bs; X; Y; comp_layer c'] ++ comp_override q c') = Some r' ->
  val (k :: pi) r' = val (k :: pi) r.
Proof.
  intros Hop Hi Hs Hc Hf Hbg Hbs HXY Hov Hnd Hr Hr'.
  destruct Hop as (K1 & K2 & K3).
  set (pth := k :: pi) in *.
  inversion Hnd as [|? ? Nb Nl]; subst.
  (* the live value and the stored value as priority lookups *)
  pose proof (fold_override_precedence _ _ k pi Hr Hnd) as Pr. fold pth in Pr.
  pose proof (fold_override_precedence _ _ k pi Hf Nl) as Pf. fold pth in Pf.
  destruct (fold_override_path pth _ _ _ Hf I Nl) as [_ Nf].
  cbn [rev] in Pr. rewrite first_some_app in Pr. cbn [first_some] in Pr.
  rewrite <- Pf in Pr.
  (* the stored component at the path *)
  assert (Gc : get_path pth (comp_layer c') = get_path pth f).
  { unfold pth. rewrite get_path_comp_layer by (repeat split; assumption). eapply stored_option; eauto. repeat split; assumption. }
  destruct (val_nodict_eq pth _ _ Gc) as [Vc Nc].
  (* the merged blueprints at the path *)
  unfold store_layers in Nl.
  inversion Nl as [|? ? N1 Nl1]; subst. inversion Nl1 as [|? ? N2 Nl2]; subst.
  inversion Nl2 as [|? ? N3 Nl3]; subst. inversion Nl3 as [|? ? N4 Nl4]; subst.
  inversion Nl4 as [|? ? N5 Nov]; subst.
  destruct (override_path pth _ _ _ Hbg N1) as [Vbg Nbg]. specialize (Nbg N3).
  destruct (override_path pth _ _ _ Hbs N2) as [Vbs Nbs]. specialize (Nbs N4).
  assert (NX : nodict (get_path pth X) /\ nodict (get_path pth Y)).
  { destruct HXY as [[-> ->]|[-> ->]]; [split; assumption|]. unfold pth. cbn. split; exact I. }
  destruct NX as [NX NY].
  assert (Nov' : Forall (fun l => nodict (get_path pth l)) (comp_override q c')).
  { destruct Hov as [->| ->]; [exact Nov|constructor]. }
  assert (Nd' : Forall (fun l => nodict (get_path pth l)) ([builtin dflt; bg; bs; X; Y; comp_layer c'] ++ comp_override q c')).
  { repeat (constructor; [assumption|]). constructor; [apply Nc; exact Nf|exact Nov']. }
  pose proof (fold_override_precedence _ _ k pi Hr' Nd') as Pr'. fold pth in Pr'.
  rewrite Pr'. rewrite rev_app_distr, first_some_app. cbn [rev app first_some]. rewrite Vc.
  (* case analysis on the stored value *)
  pose proof Pf as Pf2. unfold store_layers in Pf2. rewrite rev_app_distr, first_some_app in Pf2.
  destruct (val pth f) as [x|] eqn:Ef.
  - (* defined by some layer of the package: the stored component (or the re-applied override, which then gives the
       same value) wins over the blueprints underneath *)
    rewrite Pr. destruct Hov as [Ho|Ho]; rewrite Ho.
    + destruct (first_some (val pth) (rev (comp_override p c))) as [y|]; [exact (eq_sym Pf2)|reflexivity].
    + reflexivity.
  - (* defined by no layer: neither by the merged blueprints *)
    rewrite Pr.
    destruct (first_some (val pth) (rev (comp_override p c))) as [y|] eqn:Eo; [discriminate|].
    symmetry in Pf2. apply first_some_all_none in Pf2. cbn [rev app] in Pf2.
    inversion Pf2 as [|? ? F5 Pf3]; subst. inversion Pf3 as [|? ? F4 Pf4]; subst.
    inversion Pf4 as [|? ? F3 Pf5]; subst. inversion Pf5 as [|? ? F2 Pf6]; subst. inversion Pf6 as [|? ? F1 _]; subst.
    assert (Ebg : val pth bg = None) by (rewrite Vbg, F3, F1; reflexivity).
    assert (Ebs : val pth bs = None) by (rewrite Vbs, F4, F2; reflexivity).
    assert (EX : val pth X = None /\ val pth Y = None).
    { destruct HXY as [[-> ->]|[-> ->]]; [split; assumption|]. unfold pth, val. cbn. split; reflexivity. }
    destruct EX as [EX EY].
    assert (Eo' : first_some (val pth) (rev (comp_override q c')) = None).
    { destruct Hov as [->| ->]; [exact Eo|reflexivity]. }
    rewrite Eo', EY, EX, Ebs, Ebg. destruct (val pth (builtin dflt)); reflexivity.
Qed.

(* ================================================================== D. environments *)
Definition uniq (m : alist) : Prop := NoDup (map fst m).
Definition all_dicts (m : alist) : Prop := forall e v, lookup e m = Some v -> exists a, v = JDict a.

Lemma lookup_none_notin (m : alist) k : ~ In k (map fst m) -> lookup k m = None.
Proof.
  induction m as [|[k0 v0] r IH]; intros H; [reflexivity|]. cbn.
  destruct (String.eqb k k0) eqn:E; [apply String.eqb_eq in E; subst; exfalso; apply H; left; reflexivity|].
  apply IH. intros HI. apply H. right. exact HI.
Qed.

Definition merged_env (o : option jv) (v : jv) : jv :=
  match o, v with Some (JDict a), JDict b => JDict (update a b) | _, e => e end.

Lemma lookup_merge_env acc kv e :
  lookup e (merge_env acc kv) = if String.eqb e (fst kv) then Some (merged_env (lookup (fst kv) acc) (snd kv)) else lookup e acc.
Proof.
  unfold merge_env, merged_env. destruct kv as [n v]. cbn [fst snd].
  destruct (lookup n acc) as [[| | | | | |a]|]; try (rewrite lookup_set_key; reflexivity).
  destruct v; rewrite lookup_set_key; reflexivity.
Qed.

Lemma lookup_fold_merge pe : uniq pe -> forall acc e,
  lookup e (fold_left merge_env pe acc) =
  match lookup e pe with Some v => Some (merged_env (lookup e acc) v) | None => lookup e acc end.
Proof.
  induction pe as [|[n v] r IH]; intros U acc e; [reflexivity|].
  inversion U as [|? ? Hn Ur]; subst. cbn [fold_left]. rewrite (IH Ur). cbn [lookup].
  destruct (String.eqb e n) eqn:E.
  - apply String.eqb_eq in E; subst e. rewrite (lookup_none_notin r n Hn), lookup_merge_env. cbn [fst snd].
    rewrite String.eqb_refl. reflexivity.
  - rewrite lookup_merge_env. cbn [fst]. rewrite E. reflexivity.
Qed.

(* the environment a component sees: on the flattened document (loaded on default or on p) = on the package on p *)
Lemma reload_environment envs p q e x :
  uniq (envs_of envs p) -> all_dicts (envs_of envs p) -> all_dicts (envs_of envs DEF) ->
  q = DEF \/ q = p ->
  option_map (lookup x) (get_env (JDict [(DEF, JDict (fl_envs envs p))]) q e) = option_map (lookup x) (get_env envs p e).
Proof.
  intros U Dp Dd Hq.
  assert (EF : envs_of (JDict [(DEF, JDict (fl_envs envs p))]) DEF = fl_envs envs p) by reflexivity.
  assert (Main : option_map (lookup x) (env_dict (lookup e (fl_envs envs p))) = option_map (lookup x) (get_env envs p e)).
  { unfold fl_envs, get_env. rewrite (lookup_fold_merge _ U).
    destruct (String.eqb p DEF) eqn:Ep.
    - cbn [lookup]. destruct (lookup e (envs_of envs p)) as [v|] eqn:Ev; [|reflexivity].
      destruct (Dp e v Ev) as [a ->]. reflexivity.
    - destruct (lookup e (envs_of envs p)) as [v|] eqn:Ev.
      + destruct (Dp e v Ev) as [a ->].
        destruct (lookup e (envs_of envs DEF)) as [w|] eqn:Ew; [|reflexivity].
        destruct (Dd e w Ew) as [a0 ->]. reflexivity.
      + destruct (lookup e (envs_of envs DEF)) as [w|] eqn:Ew; reflexivity. }
  destruct (String.eqb q DEF) eqn:Eq.
  - apply String.eqb_eq in Eq; subst q. unfold get_env at 1. rewrite String.eqb_refl, EF. exact Main.
  - destruct Hq as [->| ->]; [unfold DEF in Eq; rewrite String.eqb_refl in Eq; discriminate|].
    assert (EP : envs_of (JDict [(DEF, JDict (fl_envs envs p))]) p = []).
    { unfold envs_of, get_or. cbn [get_path lookup]. rewrite Eq. reflexivity. }
    unfold get_env at 1. rewrite Eq, EF, EP. cbn [lookup env_dict].
    destruct (env_dict (lookup e (fl_envs envs p))) eqn:E; exact Main.
Qed.

(* ================================================================== E. typed leaves: converting when storing and again
   when the loaded instance is resolved is converting once *)
Lemma conv_leaf_idem k x y : conv_leaf k x = Some y -> conv_leaf k y = Some y.
Proof.
  intros H. destruct x; cbn in H.
  - injection H as <-. reflexivity.
  - destruct k; cbn in H; try (injection H as <-; reflexivity); try discriminate.
  - destruct k; cbn in H; try (injection H as <-; reflexivity); try discriminate.
  - injection H as <-. reflexivity.
  - destruct k; cbn in H; try (injection H as <-; reflexivity);
      try (destruct (parse_int s); cbn in H; [injection H as <-; reflexivity|discriminate]);
      try (destruct (str_to_bool s); cbn in H; [injection H as <-; reflexivity|discriminate]).
  - injection H as <-. reflexivity.
  - destruct m; [injection H as <-; reflexivity|]. destruct k; try discriminate. injection H as <-. reflexivity.
Qed.

(* ================================================================== F. the variables of the stored component *)
Lemma stored_vars_ok_holds d p q c c' :
  is_import c = false -> store_comp_raw d p c = Some c' ->
  get_path ["override"] c <> None ->          (* the component has an override section (see Property.v for the other case) *)
  q = DEF \/ q = p ->
  stored_vars_ok p q c c'.
Proof.
  intros Hi Hc Ho Hq. unfold store_comp_raw, store_comp_with in Hc. rewrite Hi in Hc.
  destruct (comp_stage_key c) as [sk|]; [|discriminate].
  destruct (fold_override (Some (JDict [])) (store_layers d p sk c)) as [[| | | | | |m]|]; try discriminate.
  injection Hc as <-. split.
  - unfold get_or. rewrite get_path_keep_override by discriminate.
    rewrite get_path_cons_dict, lookup_set_key, String.eqb_refl. reflexivity.
  - unfold keep_override. destruct (get_path ["override"] c) as [o|] eqn:Eo; [|contradiction].
    assert (Ec : forall r, get_path ("override" :: r) c = get_path r o).
    { intros r. destruct c as [| | | | | |mc]; try discriminate. cbn [get_path] in Eo |- *.
      destruct (lookup "override" mc); [injection Eo as ->; reflexivity|discriminate]. }
    unfold get_or. rewrite (Ec [p; "variables"]).
    destruct (get_path [p] o) as [op|] eqn:Ep.
    + rewrite get_path_cons_dict, lookup_set_key, String.eqb_refl. cbn [get_path lookup].
      destruct (String.eqb q p) eqn:Eqp.
      * destruct o as [| | | | | |mo]; try discriminate. cbn [get_path] in Ep |- *.
        destruct (lookup p mo); [injection Ep as ->; reflexivity|discriminate].
      * reflexivity.
    + rewrite get_path_cons_dict, lookup_remove_key, String.eqb_refl.
      destruct (String.eqb q p) eqn:Eqp; [|reflexivity].
      destruct o as [| | | | | |mo]; try reflexivity. cbn [get_path] in Ep |- *.
      destruct (lookup p mo); [discriminate|reflexivity].
Qed.
