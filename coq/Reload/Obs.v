(* C07 — a pointwise semantics of FlowIR.override_object.

   A tree is observed at a path: nothing there / a leaf (null, scalar, list) / a dictionary.  Two trees with the same
   observation at every path are the same nested mapping (dictionaries as finite maps, i.e. up to key order; leaves,
   lists included, exactly equal): [jeq].  override_object, when it does not raise, acts POINTWISE on observations
   ([override_obs]) by the operation [comb], which is an idempotent semigroup with the law  a.b.a = b.a  — so a layer
   that is already folded into a tree is absorbed by it ([dom_*]).  This is what makes the statements about the stored
   component hold for the whole tree and not just leaf by leaf under a shape hypothesis. *)
From Coq Require Import String Ascii List Bool ZArith Arith Lia.
Import ListNotations.
Require Import V.Lib.PyStr V.Lib.JTree V.Conf.Model V.Conf.Proofs.
Open Scope string_scope.

Inductive ob := OAbs | OLeaf (x : jv) | ODict.

Definition ob_of (o : option jv) : ob :=
  match o with None => OAbs | Some (JDict _) => ODict | Some x => OLeaf x end.

Definition obs (pi : list string) (v : jv) : ob := ob_of (get_path pi v).

(* the same nested mapping *)
Definition jeq (a b : jv) : Prop := forall pi, obs pi a = obs pi b.

Lemma jeq_refl a : jeq a a.
Proof. intros pi. reflexivity. Qed.
Lemma jeq_sym a b : jeq a b -> jeq b a.
Proof. intros H pi. symmetry. apply H. Qed.
Lemma jeq_trans a b c : jeq a b -> jeq b c -> jeq a c.
Proof. intros H1 H2 pi. rewrite H1. apply H2. Qed.

(* override_object at one path *)
Definition comb (a b : ob) : ob :=
  match b with
  | OAbs => a
  | OLeaf JNull => match a with OAbs => b | _ => a end
  | OLeaf _ => match a with ODict => ODict | _ => b end
  | ODict => ODict
  end.

Lemma comb_abs_l b : comb OAbs b = b.
Proof. destruct b as [|[]|]; reflexivity. Qed.
Lemma comb_abs_r a : comb a OAbs = a.
Proof. reflexivity. Qed.
Lemma comb_idem a : comb a a = a.
Proof. destruct a as [|[]|]; reflexivity. Qed.
Lemma comb_assoc a b c : comb (comb a b) c = comb a (comb b c).
Proof. destruct a as [|[]|], b as [|[]|], c as [|[]|]; reflexivity. Qed.
(* the later layer wins: a second application of an earlier layer is absorbed *)
Lemma comb_rreg a b : comb (comb a b) a = comb b a.
Proof. destruct a as [|[]|], b as [|[]|]; reflexivity. Qed.

Definition dom (p m : ob) : Prop := comb p m = m.

Lemma dom_refl z : dom z z.
Proof. apply comb_idem. Qed.
Lemma dom_abs m : dom OAbs m.
Proof. apply comb_abs_l. Qed.
Lemma dom_left z m1 m2 : dom z m1 -> dom z (comb m1 m2).
Proof. unfold dom. intros H. rewrite <- comb_assoc, H. reflexivity. Qed.
Lemma dom_right z m1 m2 : dom z m2 -> dom z (comb m1 m2).
Proof.
  unfold dom. intros H. rewrite <- H at 1. rewrite <- !comb_assoc, comb_rreg, comb_assoc, H. reflexivity.
Qed.
Lemma dom_prod p1 p2 m : dom p1 m -> dom p2 m -> dom (comb p1 p2) m.
Proof. unfold dom. intros H1 H2. rewrite comb_assoc, H2, H1. reflexivity. Qed.
Lemma comb_last_idem n o : comb (comb n o) o = comb n o.
Proof. rewrite comb_assoc, comb_idem. reflexivity. Qed.

(* ------------------------------------------------------------------ override_object is pointwise *)
Lemma obs_nil v : obs [] v = match v with JDict _ => ODict | x => OLeaf x end.
Proof. destruct v; reflexivity. Qed.

Lemma obs_cons_dict k pi m : obs (k :: pi) (JDict m) = match lookup k m with Some w => obs pi w | None => OAbs end.
Proof. unfold obs. rewrite get_path_cons_dict. destruct (lookup k m); reflexivity. Qed.

Lemma obs_cons_nondict k pi v : (forall m, v <> JDict m) -> obs (k :: pi) v = OAbs.
Proof. intros H. unfold obs. rewrite get_path_cons_nondict by exact H. reflexivity. Qed.

Lemma falsy_obs_cons b k pi : falsy b = true -> obs (k :: pi) b = OAbs.
Proof.
  destruct b; cbn; intros H; try reflexivity; try discriminate.
  destruct m; [reflexivity|discriminate].
Qed.

Lemma override_obs : forall pi a b r, override a b = Some r -> obs pi r = comb (obs pi a) (obs pi b).
Proof.
  induction pi as [|k pi IH]; intros a b r H.
  - rewrite !obs_nil. destruct a as [| | | | | |mo].
    1-6: (cbn in H; destruct b; injection H as <-; reflexivity).
    destruct (falsy b) eqn:Efb.
    + assert (r = JDict mo) as ->.
      { destruct b; cbn in H, Efb; try rewrite Efb in H; try (injection H as <-; reflexivity); try discriminate.
        all: try (destruct m; [injection H as <-; reflexivity|discriminate]). }
      destruct b; try reflexivity; cbn in Efb; discriminate.
    + destruct b as [| | | | | |mn]; cbn in H, Efb; try rewrite Efb in H; try discriminate.
      destruct mn as [|e mn]; [discriminate|].
      change (override (JDict mo) (JDict (e :: mn)) = Some r) in H.
      rewrite override_dict_dict in H.
      destruct (merge_go (e :: mn) mo) as [l|]; [|discriminate]. injection H as <-. reflexivity.
  - destruct a as [| | | | | |mo].
    1-6: (match goal with |- _ = comb (obs _ ?a) _ => rewrite (obs_cons_nondict k pi a) by discriminate end;
          rewrite comb_abs_l; cbn in H; destruct b; injection H as <-;
          try reflexivity; rewrite obs_cons_nondict by discriminate; reflexivity).
    destruct (falsy b) eqn:Efb.
    + assert (r = JDict mo) as ->.
      { destruct b; cbn in H, Efb; try rewrite Efb in H; try (injection H as <-; reflexivity); try discriminate.
        all: try (destruct m; [injection H as <-; reflexivity|discriminate]). }
      rewrite (falsy_obs_cons b k pi Efb). reflexivity.
    + destruct b as [| | | | | |mn]; cbn in H, Efb; try rewrite Efb in H; try discriminate.
      destruct mn as [|e mn]; [discriminate|].
      change (override (JDict mo) (JDict (e :: mn)) = Some r) in H.
      rewrite override_dict_dict in H.
      destruct (merge_go (e :: mn) mo) as [l|] eqn:Eg; [|discriminate].
      assert (Hr : r = JDict (l ++ novel mo (e :: mn))) by (injection H as <-; reflexivity). subst r. clear H.
      rewrite !obs_cons_dict, (merged_lookup mo (e :: mn) l k Eg).
      destruct (lookup k mo) as [x|] eqn:Ex; destruct (lookup k (e :: mn)) as [y|] eqn:Ey.
      * destruct (override x y) as [w|] eqn:Ew; [exact (IH x y w Ew)|].
        exfalso. exact (merge_go_override_ok (e :: mn) mo l k x y Eg Ex Ey Ew).
      * reflexivity.
      * rewrite comb_abs_l. reflexivity.
      * reflexivity.
Qed.

Lemma fold_override_obs pi : forall layers acc r,
  fold_override (Some acc) layers = Some r ->
  obs pi r = fold_left comb (map (obs pi) layers) (obs pi acc).
Proof.
  induction layers as [|l ls IH]; intros acc r H.
  - cbn in H. injection H as <-. reflexivity.
  - change (fold_override (override acc l) ls = Some r) in H.
    destruct (override acc l) as [a'|] eqn:Eo; [|rewrite fold_override_none in H; discriminate].
    cbn [map fold_left]. rewrite (IH a' r H), (override_obs pi acc l a' Eo). reflexivity.
Qed.

(* a fold that succeeds from a dictionary is a dictionary *)
Lemma override_dict_is_dict mo b r : override (JDict mo) b = Some r -> exists m, r = JDict m.
Proof.
  intros H. pose proof (override_obs [] _ _ _ H) as O. rewrite !obs_nil in O.
  destruct r; try (eexists; reflexivity); destruct b as [|[]|[]| | | |]; cbn in O; try discriminate.
  all: destruct b; cbn in O; discriminate.
Qed.

(* ------------------------------------------------------------------ dictionaries as finite maps *)
Inductive orel (R : jv -> jv -> Prop) : option jv -> option jv -> Prop :=
  | orel_none : orel R None None
  | orel_some x y : R x y -> orel R (Some x) (Some y).

Lemma jeq_dict a b : (forall k, orel jeq (lookup k a) (lookup k b)) -> jeq (JDict a) (JDict b).
Proof.
  intros H [|k pi]; [reflexivity|]. rewrite !obs_cons_dict.
  destruct (H k) as [|x y E]; [reflexivity|apply E].
Qed.

Definition alist_eq (a b : alist) : Prop := forall k, lookup k a = lookup k b.

Lemma jeq_alist a b : alist_eq a b -> jeq (JDict a) (JDict b).
Proof.
  intros H. apply jeq_dict. intros k. rewrite (H k). destruct (lookup k b); constructor. apply jeq_refl.
Qed.

Lemma jeq_lookup a b k : jeq (JDict a) (JDict b) -> orel jeq (lookup k a) (lookup k b).
Proof.
  intros H. pose proof (H [k]) as H0. rewrite !obs_cons_dict in H0.
  destruct (lookup k a) as [x|] eqn:Ea, (lookup k b) as [y|] eqn:Eb.
  - constructor. intros pi. specialize (H (k :: pi)). rewrite !obs_cons_dict, Ea, Eb in H. exact H.
  - rewrite obs_nil in H0. destruct x; discriminate.
  - rewrite obs_nil in H0. destruct y; discriminate.
  - constructor.
Qed.

Lemma set_key_same {A} k (v : A) m : lookup k m = Some v -> set_key k v m = m.
Proof.
  induction m as [|[k0 v0] r IH]; cbn; [discriminate|].
  destruct (String.eqb k k0) eqn:E.
  - intros H. injection H as ->. apply String.eqb_eq in E; subst. reflexivity.
  - intros H. rewrite (IH H). reflexivity.
Qed.

Lemma set_path_same : forall pi x v, get_path pi v = Some x -> set_path pi x v = v.
Proof.
  induction pi as [|k pi IH]; intros x v H.
  - cbn in H. injection H as ->. reflexivity.
  - destruct v as [| | | | | |m]; try discriminate. rewrite get_path_cons_dict in H.
    cbn [set_path jdict_of]. destruct (lookup k m) as [w|] eqn:Ew; [|discriminate].
    rewrite (IH x w H), (set_key_same k w m Ew). reflexivity.
Qed.
