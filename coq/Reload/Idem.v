(* C07 — the stored component as a tree: what instance() stores absorbs the blueprints it was folded from, so
   (i) storing the stored component again gives the same component (store . load . store = store),
   (ii) the layered configuration of the reloaded document is the layered configuration of the package, as trees. *)
From Coq Require Import String Ascii List Bool ZArith Arith Lia.
Import ListNotations.
Require Import V.Lib.PyStr V.Lib.JTree V.Conf.Model V.Conf.Proofs V.Reload.Model V.Reload.Proofs V.Reload.Obs.
Open Scope string_scope.

(* ================================================================== products of observations *)
Definition prod (l : list ob) : ob := fold_left comb l OAbs.

Lemma fold_comb_prod l : forall a, fold_left comb l a = comb a (prod l).
Proof.
  unfold prod. induction l as [|x r IH]; intros a; [reflexivity|]. cbn [fold_left].
  rewrite (IH (comb a x)), (IH (comb OAbs x)), comb_abs_l, comb_assoc. reflexivity.
Qed.

Lemma prod_app l1 l2 : prod (l1 ++ l2)%list = comb (prod l1) (prod l2).
Proof. unfold prod at 1. rewrite fold_left_app. fold (prod l1). apply fold_comb_prod. Qed.

Lemma prod_cons x l : prod (x :: l) = comb x (prod l).
Proof. unfold prod at 1. cbn [fold_left]. rewrite fold_comb_prod, comb_abs_l. reflexivity. Qed.

Lemma prod_allabs l : (forall o, In o l -> o = OAbs) -> prod l = OAbs.
Proof.
  induction l as [|x r IH]; intros H; [reflexivity|]. rewrite prod_cons, (H x (or_introl eq_refl)), comb_abs_l.
  apply IH. intros o Ho. apply H. right. exact Ho.
Qed.

Lemma prod_single A x B : (forall o, In o A -> o = OAbs) -> (forall o, In o B -> o = OAbs) -> prod (A ++ x :: B)%list = x.
Proof. intros HA HB. rewrite prod_app, prod_cons, (prod_allabs A HA), (prod_allabs B HB), comb_abs_l. reflexivity. Qed.

Ltac domt := solve [ apply dom_refl | apply dom_abs | apply dom_right; domt | apply dom_left; domt | apply dom_prod; domt ].

(* the algebraic core: F = the stored fold of [dgb; dsb; pgb; psb; component] + override; folding the pairwise merged
   blueprints (once or twice), then F, then the override again (or not) gives F *)
Lemma absorb g s G S C x y (O O' : list ob) :
  ((x = comb g G /\ y = comb s S) \/ (x = OAbs /\ y = OAbs)) -> (O' = O \/ O' = []) ->
  prod ([comb g G; comb s S; x; y; prod ([g; s; G; S; C] ++ O)] ++ O') = prod ([g; s; G; S; C] ++ O).
Proof.
  intros Hxy HO. rewrite !prod_app, !prod_cons. change (prod []) with OAbs. rewrite !comb_abs_r.
  set (u := prod O).
  set (F := comb (comb g (comb s (comb G (comb S C)))) u).
  assert (D : dom (comb (comb g G) (comb (comb s S) (comb x y))) F).
  { unfold F. destruct Hxy as [[-> ->]|[-> ->]]; domt. }
  rewrite <- !comb_assoc. rewrite <- !comb_assoc in D.
  unfold dom in D. rewrite D. destruct HO as [->| ->].
  - fold u. unfold F. apply comb_last_idem.
  - reflexivity.
Qed.

(* ================================================================== clean side layers *)
(* the blueprints and the platform override of a component hold options only: they do not name a stage or carry an
   `override` or `$import` section of their own.  [clean_repeat]: they give no repeat interval either - needed only for
   the comparison with the PACKAGE's raw isRepeat (C07_config_tree), no longer for idempotence (finding F7d, repaired). *)
Definition RI := [WA; "repeatInterval"].
Definition IR := [WA; "isRepeat"].

Definition layer_clean (l : jv) : Prop :=
  get_path ["stage"] l = None /\ get_path ["override"] l = None /\ get_path ["$import"] l = None.

Definition no_repeat (l : jv) : Prop := get_path RI l = None /\ get_path IR l = None.

Definition side_layers (d : doc) (p sk : string) (c : jv) : list jv :=
  ([bp_global d DEF; bp_stage d DEF sk; bp_global d p; bp_stage d p sk] ++ comp_override p c)%list.

Definition clean (d : doc) (p sk : string) (c : jv) : Prop := Forall layer_clean (side_layers d p sk c).
Definition clean_repeat (d : doc) (p sk : string) (c : jv) : Prop := Forall no_repeat (side_layers d p sk c).

(* ------------------------------------------------------------------ comp_pre (the derivation of isRepeat) on observations *)
(* paths at or below workflowAttributes.isRepeat *)
Definition irp (pth : list string) : bool :=
  match pth with k :: k2 :: _ => String.eqb k WA && String.eqb k2 "isRepeat" | _ => false end.

Lemma ob_of_noz x y : ob_of (Some x) = ob_of (Some y) -> none_or_zero x = none_or_zero y.
Proof. destruct x, y; cbn; intros H; try discriminate; try (injection H as ->); reflexivity. Qed.

Lemma ob_of_leaf o x : ob_of o = OLeaf x -> (forall m, x <> JDict m) -> o = Some x.
Proof. destruct o as [[]|]; cbn; intros H N; try discriminate; injection H as <-; try reflexivity. Qed.

Lemma comp_pre_some v x : get_path RI v = Some x -> comp_pre v = set_path IR (JBool (negb (none_or_zero x))) v.
Proof. unfold comp_pre. fold RI. intros ->. reflexivity. Qed.

Lemma comp_pre_none v : get_path RI v = None -> comp_pre v = v.
Proof. unfold comp_pre. fold RI. intros ->. reflexivity. Qed.

(* away from isRepeat nothing is observed to change *)
Lemma obs_comp_pre pth v : irp pth = false -> obs pth (comp_pre v) = obs pth v.
Proof.
  intros H. destruct (get_path RI v) as [x|] eqn:Ex; [|rewrite (comp_pre_none v Ex); reflexivity].
  destruct pth as [|k pi].
  - rewrite (comp_pre_some v x Ex). destruct v as [| | | | | |m]; try discriminate. reflexivity.
  - destruct pi as [|k2 pi2].
    + destruct (String.eqb k WA) eqn:Ek.
      * apply String.eqb_eq in Ek; subst k. rewrite (comp_pre_some v x Ex).
        destruct v as [| | | | | |m]; try discriminate.
        unfold RI in Ex. rewrite get_path_cons_dict in Ex. destruct (lookup WA m) as [w|] eqn:Ew; [|discriminate].
        destruct w as [| | | | | |mw]; try discriminate.
        unfold obs, IR. cbn [set_path jdict_of]. rewrite Ew. cbn [jdict_of].
        rewrite !get_path_cons_dict, lookup_set_key, String.eqb_refl, Ew. reflexivity.
      * unfold obs. rewrite get_path_comp_pre; [reflexivity|]. left. intros ->. rewrite String.eqb_refl in Ek. discriminate.
    + unfold obs. rewrite get_path_comp_pre; [reflexivity|].
      cbn [irp] in H. destruct (String.eqb k WA) eqn:Ek.
      * right. exists k2, pi2. split; [reflexivity|]. intros ->. cbn in H. discriminate.
      * left. intros ->. rewrite String.eqb_refl in Ek. discriminate.
Qed.

Lemma irp_split pth : irp pth = true -> exists rest, pth = (IR ++ rest)%list.
Proof.
  destruct pth as [|k [|k2 r]]; cbn; try discriminate. intros H. apply andb_true_iff in H as [H1 H2].
  apply String.eqb_eq in H1, H2. subst. exists r. reflexivity.
Qed.

(* the derivation respects "the same tree away from isRepeat" *)
Lemma comp_pre_obs_congr a b pth :
  obs RI a = obs RI b ->
  (irp pth = false -> obs pth a = obs pth b) ->
  (get_path RI a = None -> obs pth a = obs pth b) ->
  obs pth (comp_pre a) = obs pth (comp_pre b).
Proof.
  intros H1 H2 H3. destruct (get_path RI a) as [x|] eqn:Ea.
  - destruct (get_path RI b) as [y|] eqn:Eb; [|unfold obs in H1; rewrite Ea, Eb in H1; destruct x; discriminate].
    assert (N : none_or_zero x = none_or_zero y).
    { unfold obs in H1. rewrite Ea, Eb in H1. exact (ob_of_noz _ _ H1). }
    destruct (irp pth) eqn:Ei.
    + destruct (irp_split pth Ei) as [rest ->].
      rewrite (comp_pre_some a x Ea), (comp_pre_some b y Eb), N. unfold obs.
      rewrite !get_path_app, !get_set_path_same. reflexivity.
    + rewrite !obs_comp_pre by exact Ei. exact (H2 eq_refl).
  - assert (Eb : get_path RI b = None).
    { unfold obs in H1. rewrite Ea in H1. destruct (get_path RI b) as [[]|]; try discriminate; reflexivity. }
    rewrite (comp_pre_none a Ea), (comp_pre_none b Eb). exact (H3 eq_refl).
Qed.

(* deriving twice is deriving once *)
Lemma comp_pre_idem v : comp_pre (comp_pre v) = comp_pre v.
Proof.
  destruct (get_path RI v) as [x|] eqn:Ex; [|rewrite (comp_pre_none v Ex); exact (comp_pre_none v Ex)].
  assert (G : get_path RI (comp_pre v) = Some x).
  { unfold RI. rewrite get_path_comp_pre; [exact Ex|]. right. exists "repeatInterval", []. split; [reflexivity|discriminate]. }
  rewrite (comp_pre_some _ x G). apply set_path_same.
  rewrite (comp_pre_some v x Ex). apply get_set_path_same.
Qed.

Lemma get_path_none_ext k pi v : get_path [k] v = None -> get_path (k :: pi) v = None.
Proof.
  destruct v as [| | | | | |m]; try reflexivity. cbn [get_path]. destruct (lookup k m); [discriminate|reflexivity].
Qed.

Lemma obs_none pi v : get_path pi v = None -> obs pi v = OAbs.
Proof. unfold obs. intros ->. reflexivity. Qed.

Lemma obs_abs_none pi v : obs pi v = OAbs -> get_path pi v = None.
Proof. unfold obs. destruct (get_path pi v) as [[]|]; cbn; try discriminate. reflexivity. Qed.

Lemma obs_empty k pi : obs (k :: pi) (JDict []) = OAbs.
Proof. reflexivity. Qed.

Lemma store_layers_split d p sk c :
  store_layers d p sk c = ([bp_global d DEF; bp_stage d DEF sk; bp_global d p; bp_stage d p sk] ++ comp_pre c :: comp_override p c)%list.
Proof. reflexivity. Qed.

(* the stored fold at a path that no side layer defines is the component's own value *)
Lemma f_clean_path d p sk c f pth :
  pth <> [] ->
  fold_override (Some (JDict [])) (store_layers d p sk c) = Some f ->
  (forall l, In l (side_layers d p sk c) -> get_path pth l = None) ->
  obs pth f = obs pth (comp_pre c).
Proof.
  intros Hp Hf Hn. rewrite (fold_override_obs pth _ _ _ Hf).
  destruct pth as [|k pi]; [contradiction|]. rewrite obs_empty. fold (prod (map (obs (k :: pi)) (store_layers d p sk c))).
  rewrite store_layers_split, map_app.
  apply (prod_single (map (obs (k :: pi)) [bp_global d DEF; bp_stage d DEF sk; bp_global d p; bp_stage d p sk])
                     (obs (k :: pi) (comp_pre c)) (map (obs (k :: pi)) (comp_override p c))).
  - intros o Ho. apply in_map_iff in Ho as (l & <- & Hl). apply obs_none, Hn. unfold side_layers. apply in_or_app. left. exact Hl.
  - intros o Ho. apply in_map_iff in Ho as (l & <- & Hl). apply obs_none, Hn. unfold side_layers. apply in_or_app. right. exact Hl.
Qed.

Section Stored.
  Variables (d : doc) (p sk : string) (c c' f : jv).
  Hypothesis Hi : is_import c = false.
  Hypothesis Hs : comp_stage_key c = Some sk.
  Hypothesis Hc : store_comp_raw d p c = Some c'.
  Hypothesis Hf : fold_override (Some (JDict [])) (store_layers d p sk c) = Some f.
  Hypothesis Hcl : clean d p sk c.

  Lemma clean_at l : In l (side_layers d p sk c) -> layer_clean l.
  Proof. intros H. unfold clean in Hcl. rewrite Forall_forall in Hcl. exact (Hcl l H). Qed.

  Lemma stored_shape : exists m, f = JDict m /\
    c' = JDict (keep_override p c (set_key "variables" (JDict (comp_own_vars p c)) (jdict_of (comp_pre (JDict m))))).
  Proof.
    unfold store_comp_raw, store_comp_with in Hc. rewrite Hi, Hs, Hf in Hc.
    destruct f as [| | | | | |m]; try discriminate. injection Hc as <-. exists m. split; reflexivity.
  Qed.

  (* the stored component is the fold with isRepeat derived again ... *)
  Lemma stored_obs_g k pi : k <> "variables" -> k <> "override" -> obs (k :: pi) c' = obs (k :: pi) (comp_pre f).
  Proof. intros K1 K2. unfold obs. rewrite (stored_path d p c sk c' f k pi Hi Hs Hc Hf K1 K2). reflexivity. Qed.

  (* ... hence the fold itself wherever the derivation is not observed *)
  Lemma stored_obs_f k pi : k <> "variables" -> k <> "override" ->
    obs (k :: pi) (comp_pre f) = obs (k :: pi) f -> obs (k :: pi) c' = obs (k :: pi) f.
  Proof. intros K1 K2 H. rewrite (stored_obs_g k pi K1 K2). exact H. Qed.

  (* the `override` section of the stored component: the one for p, or none *)
  Lemma stored_override :
    get_path ["override"] c' = match get_path ["override"; p] c with Some op => Some (JDict [(p, op)]) | None => None end.
  Proof.
    destruct stored_shape as (m & Ef & Ec). rewrite Ec. unfold keep_override.
    destruct (get_path ["override"] c) as [o|] eqn:Eo.
    - assert (E2 : get_path ["override"; p] c = get_path [p] o).
      { change ["override"; p] with (["override"] ++ [p])%list. rewrite get_path_app, Eo. reflexivity. }
      rewrite E2. destruct (get_path [p] o) as [op|].
      + rewrite get_path_cons_dict, lookup_set_key, String.eqb_refl. reflexivity.
      + rewrite get_path_cons_dict, lookup_remove_key, String.eqb_refl. reflexivity.
    - rewrite (get_path_none_ext "override" [p] c Eo).
      assert (O : obs ["override"] f = obs ["override"] (comp_pre c)).
      { apply (f_clean_path d p sk c f); [discriminate|exact Hf|]. intros l Hl. apply (clean_at l Hl). }
      rewrite (obs_none ["override"] (comp_pre c)) in O
        by (rewrite get_path_comp_pre; [exact Eo|left; discriminate]).
      rewrite <- (obs_comp_pre ["override"] f eq_refl) in O.
      apply obs_abs_none in O. rewrite Ef in O. destruct (comp_pre_dict m) as [m' Em]. rewrite Em in O |- *. cbn [jdict_of].
      rewrite get_path_cons_dict, lookup_set_key. cbn [String.eqb Ascii.eqb Bool.eqb]. exact O.
  Qed.

  Lemma get_path_via k r v : get_path (k :: r) v = match get_path [k] v with Some o => get_path r o | None => None end.
  Proof. change (k :: r) with ([k] ++ r)%list. apply get_path_app. Qed.

  (* item (2): the variables of EVERY stored component (with or without an override section) *)
  Lemma stored_vars_ok_clean q : q = DEF \/ q = p -> stored_vars_ok p q c c'.
  Proof.
    intros Hq. destruct stored_shape as (m & Ef & Ec). split.
    - rewrite Ec. unfold get_or. rewrite get_path_keep_override by discriminate.
      rewrite get_path_cons_dict, lookup_set_key, String.eqb_refl. reflexivity.
    - unfold get_or. rewrite (get_path_via "override" [q; "variables"] c'), stored_override.
      rewrite (get_path_via "override" [p; "variables"] c), (get_path_via "override" [p] c).
      destruct (get_path ["override"] c) as [o|]; [|destruct (String.eqb q p); reflexivity].
      destruct (get_path [p] o) as [op|] eqn:Ep.
      + rewrite (get_path_via p ["variables"] o), Ep. rewrite get_path_cons_dict. cbn [lookup].
        destruct (String.eqb q p); reflexivity.
      + rewrite (get_path_via p ["variables"] o), Ep. destruct (String.eqb q p); reflexivity.
  Qed.

  Lemma stored_comp_override : comp_override p c' = comp_override p c.
  Proof.
    unfold comp_override. rewrite (get_path_via "override" [p] c'), stored_override.
    destruct (get_path ["override"; p] c) as [op|]; [|reflexivity].
    cbn [get_path lookup]. rewrite String.eqb_refl. reflexivity.
  Qed.

  Lemma stored_comp_override_def : String.eqb DEF p = false -> comp_override DEF c' = [].
  Proof.
    intros E. unfold comp_override. rewrite (get_path_via "override" [DEF] c'), stored_override.
    destruct (get_path ["override"; p] c) as [op|]; [|reflexivity].
    cbn [get_path lookup]. rewrite E. reflexivity.
  Qed.

  (* FlowIRConcrete.__init__ on the loaded document derives isRepeat again: it finds what is stored (whatever layer the
     repeat interval came from: the stored isRepeat is already the one of the layered repeatInterval) *)
  Lemma comp_pre_stored : comp_pre c' = c'.
  Proof.
    assert (G : forall k2, get_path [WA; k2] c' = get_path [WA; k2] (comp_pre f)).
    { intros k2. apply (stored_path d p c sk c' f WA [k2] Hi Hs Hc Hf); discriminate. }
    destruct (get_path RI c') as [x|] eqn:Ex; [|exact (comp_pre_none c' Ex)].
    rewrite (comp_pre_some c' x Ex). apply set_path_same.
    unfold RI in Ex. rewrite G in Ex. unfold IR. rewrite G.
    assert (Ex0 : get_path RI f = Some x).
    { unfold RI. rewrite <- Ex. symmetry. apply get_path_comp_pre. right. exists "repeatInterval", []. split; [reflexivity|discriminate]. }
    rewrite (comp_pre_some f x Ex0). apply get_set_path_same.
  Qed.

  Lemma stored_not_import : is_import c' = false.
  Proof.
    unfold is_import in *.
    assert (O : obs ["$import"] c' = OAbs).
    { rewrite stored_obs_f; [|discriminate|discriminate|apply obs_comp_pre; reflexivity].
      rewrite (f_clean_path d p sk c f ["$import"]); [|discriminate|exact Hf|].
      - apply obs_none. rewrite get_path_comp_pre by (left; discriminate).
        destruct (get_path ["$import"] c); [discriminate|reflexivity].
      - intros l Hl. apply (clean_at l Hl). }
    apply obs_abs_none in O. rewrite O. reflexivity.
  Qed.

  Lemma stored_stage : comp_stage_key c' = Some sk.
  Proof.
    unfold comp_stage_key in *.
    assert (O : obs ["stage"] c' = obs ["stage"] c).
    { rewrite stored_obs_f; [|discriminate|discriminate|apply obs_comp_pre; reflexivity].
      rewrite (f_clean_path d p sk c f ["stage"]); [|discriminate|exact Hf|].
      - unfold obs. rewrite get_path_comp_pre by (left; discriminate). reflexivity.
      - intros l Hl. apply (clean_at l Hl). }
    unfold obs in O. destruct (get_path ["stage"] c) as [[| |z| | | |]|]; try discriminate.
    change (ob_of (Some (JInt z))) with (OLeaf (JInt z)) in O.
    apply ob_of_leaf in O; [rewrite O; exact Hs|discriminate].
  Qed.

  (* when no side layer gives a repeat interval, the fold already holds the derived isRepeat (the component's own) *)
  Lemma comp_pre_fold_clean : clean_repeat d p sk c -> comp_pre f = f.
  Proof.
    intros Hr.
    assert (A : forall pth, pth = RI \/ pth = IR -> obs pth f = obs pth (comp_pre c)).
    { intros pth Hp. assert (Hne : pth <> []) by (destruct Hp as [->| ->]; discriminate).
      apply (f_clean_path d p sk c f pth Hne Hf). intros l Hl.
      unfold clean_repeat in Hr. rewrite Forall_forall in Hr. destruct (Hr l Hl) as [H4 H5].
      destruct Hp as [->| ->]; assumption. }
    pose proof (A RI (or_introl eq_refl)) as A1. pose proof (A IR (or_intror eq_refl)) as A2.
    unfold comp_pre in A1, A2. fold RI in A1, A2.
    destruct (get_path RI c) as [x|] eqn:Ex.
    - change [WA; "isRepeat"] with IR in *.
      assert (G1 : get_path RI (set_path IR (JBool (negb (none_or_zero x))) c) = Some x).
      { pose proof (get_path_comp_pre c WA ["repeatInterval"]) as G. unfold comp_pre in G. fold RI in G. rewrite Ex in G.
        apply G. right. exists "repeatInterval", []. split; [reflexivity|discriminate]. }
      unfold obs in A1, A2. rewrite G1 in A1. rewrite get_set_path_same in A2.
      destruct (get_path RI f) as [x'|] eqn:Ex'; [|destruct x; discriminate].
      rewrite (comp_pre_some f x' Ex'), (ob_of_noz _ _ A1). apply set_path_same.
      apply ob_of_leaf; [exact A2|discriminate].
    - unfold obs in A1. rewrite Ex in A1. apply (obs_abs_none RI f) in A1. exact (comp_pre_none f A1).
  Qed.

  (* ---------------------------------------------------------------- re-folding the stored component *)
  Variables (bg bs X Y : jv).
  Hypothesis Hbg : fl_bp_global d p = Some bg.
  Hypothesis Hbs : fl_bp_stage d p sk = Some bs.
  Hypothesis HXY : (X = bg /\ Y = bs) \/ (X = JDict [] /\ Y = JDict []).

  Lemma obs_f_prod k pi :
    obs (k :: pi) f = prod ([obs (k :: pi) (bp_global d DEF); obs (k :: pi) (bp_stage d DEF sk); obs (k :: pi) (bp_global d p);
                             obs (k :: pi) (bp_stage d p sk); obs (k :: pi) (comp_pre c)] ++ map (obs (k :: pi)) (comp_override p c)).
  Proof. rewrite (fold_override_obs (k :: pi) _ _ _ Hf), obs_empty. unfold store_layers. rewrite map_app. reflexivity. Qed.

  Lemma obs_XY k pi :
    (obs (k :: pi) X = comb (obs (k :: pi) (bp_global d DEF)) (obs (k :: pi) (bp_global d p)) /\
     obs (k :: pi) Y = comb (obs (k :: pi) (bp_stage d DEF sk)) (obs (k :: pi) (bp_stage d p sk)))
    \/ (obs (k :: pi) X = OAbs /\ obs (k :: pi) Y = OAbs).
  Proof.
    destruct HXY as [[-> ->]|[-> ->]]; [left|right; split; reflexivity].
    split; [exact (override_obs _ _ _ _ Hbg)|exact (override_obs _ _ _ _ Hbs)].
  Qed.

  (* the layers [merged blueprints; X; Y; a layer that looks like the stored fold; the override again or not] fold to
     the stored fold, at every path below the root, under ANY bottom layer B *)
  Lemma refold_obs B cp' ov' f' k pi :
    obs (k :: pi) cp' = obs (k :: pi) f ->
    (ov' = comp_override p c \/ ov' = []) ->
    fold_override (Some B) ([bg; bs; X; Y; cp'] ++ ov') = Some f' ->
    obs (k :: pi) f' = comb (obs (k :: pi) B) (obs (k :: pi) f).
  Proof.
    intros Hcp Hov Hf'. rewrite (fold_override_obs (k :: pi) _ _ _ Hf'), fold_comb_prod. f_equal.
    rewrite map_app. cbn [map]. rewrite Hcp, (override_obs _ _ _ _ Hbg), (override_obs _ _ _ _ Hbs), obs_f_prod.
    apply absorb.
    - destruct (obs_XY k pi) as [[-> ->]|[-> ->]]; [left|right]; split; reflexivity.
    - destruct Hov as [->| ->]; [left|right]; reflexivity.
  Qed.

  (* the same for a layer that looks like the STORED component (the fold with isRepeat derived again), wherever the
     derivation is not observed: away from isRepeat, or when the fold has no repeat interval *)
  Lemma refold_obs_stored B cp' ov' f' k pi :
    k <> "variables" -> k <> "override" ->
    obs (k :: pi) cp' = obs (k :: pi) c' ->
    (irp (k :: pi) = false \/ get_path RI f = None) ->
    (ov' = comp_override p c \/ ov' = []) ->
    fold_override (Some B) ([bg; bs; X; Y; cp'] ++ ov') = Some f' ->
    obs (k :: pi) f' = comb (obs (k :: pi) B) (obs (k :: pi) f).
  Proof.
    intros K1 K2 Hcp Hir Hov Hf'. apply (refold_obs B cp' ov' f' k pi); [|exact Hov|exact Hf'].
    rewrite Hcp. apply (stored_obs_f k pi K1 K2).
    destruct Hir as [Hir|Hn]; [apply obs_comp_pre; exact Hir|rewrite (comp_pre_none f Hn); reflexivity].
  Qed.
End Stored.

Lemma comb_abs_inv a b : comb a b = OAbs -> a = OAbs /\ b = OAbs.
Proof. destruct a as [|[]|], b as [|[]|]; cbn; intros H; try discriminate; split; reflexivity. Qed.

Lemma fold_exists d p sk c c' : is_import c = false -> comp_stage_key c = Some sk -> store_comp_raw d p c = Some c' ->
  exists f, fold_override (Some (JDict [])) (store_layers d p sk c) = Some f.
Proof.
  intros Hi Hs Hc. unfold store_comp_raw, store_comp_with in Hc. rewrite Hi, Hs in Hc.
  destruct (fold_override (Some (JDict [])) (store_layers d p sk c)) as [f|]; [exists f; reflexivity|discriminate].
Qed.

(* ================================================================== (i) store . load . store = store, per component *)
Lemma alist_eq_update_again (a b : alist) : alist_eq (update (update a b) b) (update a b).
Proof. intros k. rewrite !lookup_update. destruct (lookup k b); reflexivity. Qed.

Lemma store_comp_idem d d2 p sk c c' c'' bg bs :
  is_import c = false -> comp_stage_key c = Some sk ->
  store_comp_raw d p c = Some c' -> clean d p sk c ->
  fl_bp_global d p = Some bg -> fl_bp_stage d p sk = Some bs ->
  bp_global d2 DEF = bg -> bp_stage d2 DEF sk = bs ->
  ((bp_global d2 p = bg /\ bp_stage d2 p sk = bs) \/ (bp_global d2 p = JDict [] /\ bp_stage d2 p sk = JDict [])) ->
  store_comp_raw d2 p c' = Some c'' ->
  jeq c'' c'.
Proof.
  intros Hi Hs Hc Hcl Hbg Hbs D1 D2 DXY Hc2.
  destruct (fold_exists d p sk c c' Hi Hs Hc) as [f Hf].
  pose proof (stored_not_import d p sk c c' f Hi Hs Hc Hf Hcl) as Hi'.
  pose proof (stored_stage d p sk c c' f Hi Hs Hc Hf Hcl) as Hs'.
  pose proof (comp_pre_stored d p sk c c' f Hi Hs Hc Hf) as Hpre.
  pose proof (stored_comp_override d p sk c c' f Hi Hs Hc Hf Hcl) as Hov.
  pose proof (stored_override d p sk c c' f Hi Hs Hc Hf Hcl) as Hso.
  destruct (stored_shape d p sk c c' f Hi Hs Hc Hf) as (m & Ef & Ec).
  destruct (fold_exists d2 p sk c' c'' Hi' Hs' Hc2) as [f' Hf'].
  destruct (stored_shape d2 p sk c' c'' f' Hi' Hs' Hc2 Hf') as (m' & Ef' & Ec'').
  pose proof Hf' as Hf0.
  unfold store_layers in Hf'. rewrite D1, D2, Hpre, Hov in Hf'.
  assert (HXY : (bp_global d2 p = bg /\ bp_stage d2 p sk = bs) \/ (bp_global d2 p = JDict [] /\ bp_stage d2 p sk = JDict [])) by exact DXY.
  intros [|k pi]; [rewrite Ec, Ec''; reflexivity|].
  destruct (String.eqb k "variables") eqn:Kv.
  { apply String.eqb_eq in Kv; subst k.
    unfold obs. rewrite Ec''. rewrite get_path_keep_override by discriminate.
    rewrite Ec at 2. rewrite get_path_keep_override by discriminate.
    rewrite !get_path_cons_dict, !lookup_set_key, !String.eqb_refl.
    destruct (stored_vars_ok_clean d p sk c c' f Hi Hs Hc Hf Hcl p (or_intror eq_refl)) as [V1 V2].
    rewrite String.eqb_refl in V2.
    assert (E : alist_eq (comp_own_vars p c') (comp_own_vars p c)).
    { unfold comp_own_vars at 1. rewrite V1, V2. unfold comp_own_vars. apply alist_eq_update_again. }
    apply (jeq_alist _ _ E pi). }
  assert (Kv' : k <> "variables") by (intros ->; discriminate).
  destruct (String.eqb k "override") eqn:Ko.
  { apply String.eqb_eq in Ko; subst k.
    unfold obs. rewrite !(get_path_via "override" pi). rewrite Ec'' at 1. unfold keep_override at 1. rewrite Hso.
    destruct (get_path ["override"; p] c) as [op|] eqn:Eop.
    - cbn [get_path lookup]. rewrite String.eqb_refl.
      rewrite lookup_set_key, String.eqb_refl. reflexivity.
    - (* neither the stored component nor any layer of the reloaded document has an override section *)
      rewrite get_path_cons_dict, lookup_set_key. cbn [String.eqb Ascii.eqb Bool.eqb].
      assert (O : obs ["override"] f' = OAbs).
      { rewrite (fold_override_obs ["override"] _ _ _ Hf'), obs_empty. fold (prod (map (obs ["override"]) ([bg; bs; bp_global d2 p; bp_stage d2 p sk; c'] ++ comp_override p c))).
        apply prod_allabs. intros o Ho. apply in_map_iff in Ho as (l & <- & Hl).
        assert (Cg : obs ["override"] bg = OAbs).
        { rewrite (override_obs _ _ _ _ Hbg).
          rewrite !obs_none; [reflexivity| |]; apply (clean_at d p sk c Hcl); unfold side_layers; cbn; auto. }
        assert (Cs : obs ["override"] bs = OAbs).
        { rewrite (override_obs _ _ _ _ Hbs).
          rewrite !obs_none; [reflexivity| |]; apply (clean_at d p sk c Hcl); unfold side_layers; cbn; auto. }
        assert (Cov : comp_override p c = []).
        { unfold comp_override. rewrite Eop. reflexivity. }
        rewrite Cov in Hl. cbn in Hl.
        destruct Hl as [<-|[<-|[<-|[<-|[<-|[]]]]]]; try assumption.
        - destruct DXY as [[-> _]|[-> _]]; [exact Cg|reflexivity].
        - destruct DXY as [[_ ->]|[_ ->]]; [exact Cs|reflexivity].
        - apply obs_none. exact Hso. }
      rewrite <- (obs_comp_pre ["override"] f' eq_refl) in O.
      apply obs_abs_none in O. rewrite Ef' in O. destruct (comp_pre_dict m') as [m2 Em2]. rewrite Em2 in O |- *. cbn [jdict_of].
      cbn [get_path] in O. destruct (lookup "override" m2); [discriminate|reflexivity]. }
  assert (Ko' : k <> "override") by (intros ->; discriminate).
  rewrite (stored_obs_g d2 p sk c' c'' f' Hi' Hs' Hc2 Hf0 k pi Kv' Ko').
  rewrite (stored_obs_g d p sk c c' f Hi Hs Hc Hf k pi Kv' Ko').
  assert (R : forall k0 pi0, k0 <> "variables" -> k0 <> "override" -> (irp (k0 :: pi0) = false \/ get_path RI f = None) ->
              obs (k0 :: pi0) f' = obs (k0 :: pi0) f).
  { intros k0 pi0 A1 A2 A3.
    rewrite (refold_obs_stored d p sk c c' f Hi Hs Hc Hf bg bs (bp_global d2 p) (bp_stage d2 p sk) Hbg Hbs HXY
               (JDict []) c' (comp_override p c) f' k0 pi0 A1 A2 eq_refl A3 (or_introl eq_refl) Hf').
    rewrite obs_empty, comb_abs_l. reflexivity. }
  assert (R1 : obs RI f' = obs RI f) by (apply R; [discriminate|discriminate|left; reflexivity]).
  apply comp_pre_obs_congr.
  - exact R1.
  - intros Hir. apply R; [exact Kv'|exact Ko'|left; exact Hir].
  - intros Hn. apply R; [exact Kv'|exact Ko'|right].
    unfold obs in R1 at 1. rewrite Hn in R1. symmetry in R1. exact (obs_abs_none RI f R1).
Qed.

(* ================================================================== (ii) the layered configuration as a tree *)
Section Merged.
  Variables (dflt : jv) (d : doc) (p q sk : string) (c c' f bg bs X Y B : jv) (m0 m1 : alist).
  Hypothesis Hi : is_import c = false.
  Hypothesis Hs : comp_stage_key c = Some sk.
  Hypothesis Hc : store_comp_raw d p c = Some c'.
  Hypothesis Hf : fold_override (Some (JDict [])) (store_layers d p sk c) = Some f.
  Hypothesis Hcl : clean d p sk c.
  Hypothesis Hbg : fl_bp_global d p = Some bg.
  Hypothesis Hbs : fl_bp_stage d p sk = Some bs.
  Hypothesis HXY : (X = bg /\ Y = bs) \/ (X = JDict [] /\ Y = JDict []).
  Hypothesis Hq : q = DEF \/ q = p.
  (* the package's layering and the reloaded document's, above the built-in layer B *)
  Hypothesis F0 : fold_override (Some B)
                    ([bp_global d DEF; bp_stage d DEF sk; bp_global d p; bp_stage d p sk; comp_layer c] ++ comp_override p c) = Some (JDict m0).
  Hypothesis F1 : fold_override (Some B) ([bg; bs; X; Y; comp_layer c'] ++ comp_override q c') = Some (JDict m1).

  Lemma merged_ov : comp_override q c' = comp_override p c \/ comp_override q c' = [].
  Proof.
    destruct (String.eqb DEF p) eqn:Edp.
    - apply String.eqb_eq in Edp. left. destruct Hq as [->| ->]; [rewrite Edp|]; apply (stored_comp_override d p sk c c' f Hi Hs Hc Hf Hcl).
    - destruct Hq as [->| ->]; [right; apply (stored_comp_override_def d p sk c c' f Hi Hs Hc Hf Hcl Edp)|
                                left; apply (stored_comp_override d p sk c c' f Hi Hs Hc Hf Hcl)].
  Qed.

  Lemma obs_comp_layer x k pi : k <> "override" -> obs (k :: pi) (comp_layer x) = obs (k :: pi) (comp_pre x).
  Proof.
    intros Ko. unfold comp_layer. destruct (comp_pre x); try reflexivity. unfold obs. rewrite get_path_remove_other by exact Ko. reflexivity.
  Qed.

  (* the package's layered configuration is the built-in layer combined with the stored fold *)
  Lemma merged_pkg_obs k pi : k <> "override" ->
    obs (k :: pi) (JDict m0) = comb (obs (k :: pi) B) (obs (k :: pi) f).
  Proof.
    intros Ko. rewrite (fold_override_obs (k :: pi) _ _ _ F0), fold_comb_prod. f_equal.
    rewrite (obs_f_prod d p sk c f Hf k pi). rewrite map_app. cbn [map]. rewrite (obs_comp_layer c k pi Ko). reflexivity.
  Qed.

  (* ... and so is the reloaded document's, wherever the derivation of isRepeat is not observed *)
  Lemma merged_reload_obs k pi : k <> "variables" -> k <> "override" ->
    (irp (k :: pi) = false \/ get_path RI f = None) ->
    obs (k :: pi) (JDict m1) = comb (obs (k :: pi) B) (obs (k :: pi) f).
  Proof.
    intros Kv Ko Hir.
    apply (refold_obs_stored d p sk c c' f Hi Hs Hc Hf bg bs X Y Hbg Hbs HXY B (comp_layer c') (comp_override q c') (JDict m1) k pi
             Kv Ko); [|exact Hir|exact merged_ov|exact F1].
    rewrite (obs_comp_layer c' k pi Ko), (comp_pre_stored d p sk c c' f Hi Hs Hc Hf). reflexivity.
  Qed.

  (* no layer but the built-in one has an override section *)
  Lemma merged_override_obs pi : obs ("override" :: pi) (JDict m1) = obs ("override" :: pi) (JDict m0).
  Proof.
    rewrite (fold_override_obs ("override" :: pi) _ _ _ F0), fold_comb_prod.
    rewrite (fold_override_obs ("override" :: pi) _ _ _ F1), fold_comb_prod. f_equal.
    assert (Cl : forall l, In l (side_layers d p sk c) -> obs ("override" :: pi) l = OAbs).
    { intros l Hl. apply obs_none, get_path_none_ext. apply (clean_at d p sk c Hcl l Hl). }
    assert (Cg : obs ("override" :: pi) bg = OAbs).
    { rewrite (override_obs _ _ _ _ Hbg). rewrite !Cl; [reflexivity| |]; unfold side_layers; cbn; auto. }
    assert (Cs : obs ("override" :: pi) bs = OAbs).
    { rewrite (override_obs _ _ _ _ Hbs). rewrite !Cl; [reflexivity| |]; unfold side_layers; cbn; auto. }
    assert (Ccl : forall x, obs ("override" :: pi) (comp_layer x) = OAbs).
    { intros x. unfold comp_layer. destruct (comp_pre x); try reflexivity.
      rewrite obs_cons_dict, lookup_remove_key, String.eqb_refl. reflexivity. }
    rewrite !prod_allabs; [reflexivity| |].
    - intros o Ho. apply in_map_iff in Ho as (l & <- & Hl). apply in_app_or in Hl. destruct Hl as [Hl|Hl].
      + cbn in Hl. destruct Hl as [<-|[<-|[<-|[<-|[<-|[]]]]]]; try (apply Cl; unfold side_layers; cbn; auto; fail). apply Ccl.
      + apply Cl. unfold side_layers. apply in_or_app. right. exact Hl.
    - intros o Ho. apply in_map_iff in Ho as (l & <- & Hl). apply in_app_or in Hl. destruct Hl as [Hl|Hl].
      + cbn in Hl. destruct Hl as [<-|[<-|[<-|[<-|[<-|[]]]]]]; try assumption.
        * destruct HXY as [[-> _]|[-> _]]; [exact Cg|reflexivity].
        * destruct HXY as [[_ ->]|[_ ->]]; [exact Cs|reflexivity].
        * apply Ccl.
      + destruct merged_ov as [E|E]; rewrite E in Hl; [|destruct Hl]. apply Cl. unfold side_layers. apply in_or_app. right. exact Hl.
  Qed.

  (* away from isRepeat (or when no layer gives a repeat interval at all) the two layerings agree *)
  Lemma merged_obs_eq k pi : k <> "variables" ->
    (irp (k :: pi) = false \/ get_path RI f = None) ->
    obs (k :: pi) (JDict m1) = obs (k :: pi) (JDict m0).
  Proof.
    intros Kv Hir. destruct (String.eqb k "override") eqn:Ko.
    - apply String.eqb_eq in Ko; subst k. apply merged_override_obs.
    - assert (Ko' : k <> "override") by (intros ->; discriminate).
      rewrite (merged_reload_obs k pi Kv Ko' Hir), (merged_pkg_obs k pi Ko'). reflexivity.
  Qed.
End Merged.

Lemma merged_split dflt rest vls r :
  merged_of (builtin dflt :: rest) vls = Some r ->
  exists B m, override (JDict []) (builtin dflt) = Some B /\ fold_override (Some B) rest = Some (JDict m) /\
              r = JDict (set_key "variables" (JDict (layer_vars vls)) m).
Proof.
  unfold merged_of. intros H.
  change (fold_override (Some (JDict [])) (builtin dflt :: rest)) with (fold_override (override (JDict []) (builtin dflt)) rest) in H.
  destruct (override (JDict []) (builtin dflt)) as [B|]; [|rewrite fold_override_none in H; discriminate].
  destruct (fold_override (Some B) rest) as [[| | | | | |m]|] eqn:F; try discriminate.
  injection H as <-. exists B, m. split; [reflexivity|split; [exact F|reflexivity]].
Qed.

(* the raw layered configurations after the derivation of isRepeat that every resolution performs (inject_all): the
   same tree, whatever layer gives the repeat interval *)
Lemma reload_merged_derived_jeq dflt d p q sk c c' bg bs X Y vl vl' r r' :
  is_import c = false -> comp_stage_key c = Some sk ->
  store_comp_raw d p c = Some c' -> clean d p sk c ->
  fl_bp_global d p = Some bg -> fl_bp_stage d p sk = Some bs ->
  ((X = bg /\ Y = bs) \/ (X = JDict [] /\ Y = JDict [])) ->
  q = DEF \/ q = p ->
  alist_eq (layer_vars vl') (layer_vars vl) ->
  merged_of (opt_layers dflt d p sk c) vl = Some r ->
  merged_of ([builtin dflt; bg; bs; X; Y; comp_layer c'] ++ comp_override q c') vl' = Some r' ->
  jeq (comp_pre r') (comp_pre r).
Proof.
  intros Hi Hs Hc Hcl Hbg Hbs HXY Hq Hv Hr Hr'.
  destruct (fold_exists d p sk c c' Hi Hs Hc) as [f Hf].
  destruct (merged_split dflt _ vl r Hr) as (B & m0 & HB & F0 & ->).
  destruct (merged_split dflt _ vl' r' Hr') as (B' & m1 & HB' & F1 & ->).
  rewrite HB in HB'. injection HB' as <-.
  set (R1 := JDict (set_key "variables" (JDict (layer_vars vl')) m1)).
  set (R0 := JDict (set_key "variables" (JDict (layer_vars vl)) m0)).
  assert (Ov : forall k pi, k <> "variables" -> obs (k :: pi) R1 = obs (k :: pi) (JDict m1) /\ obs (k :: pi) R0 = obs (k :: pi) (JDict m0)).
  { intros k pi Kv. unfold obs, R1, R0. rewrite !(get_path_set_other Kv). split; reflexivity. }
  assert (E : forall k pi, k <> "variables" -> (irp (k :: pi) = false \/ get_path RI f = None) -> obs (k :: pi) R1 = obs (k :: pi) R0).
  { intros k pi Kv Hir. destruct (Ov k pi Kv) as [-> ->].
    exact (merged_obs_eq d p q sk c c' f bg bs X Y B m0 m1 Hi Hs Hc Hf Hcl Hbg Hbs HXY Hq F0 F1 k pi Kv Hir). }
  assert (E1 : obs RI R1 = obs RI R0) by (apply E; [discriminate|left; reflexivity]).
  intros pth. apply comp_pre_obs_congr; [exact E1| |].
  - intros Hir. destruct pth as [|k pi]; [reflexivity|].
    destruct (String.eqb k "variables") eqn:Kv.
    + apply String.eqb_eq in Kv; subst k. unfold obs, R1, R0. rewrite !get_path_cons_dict, !lookup_set_key, !String.eqb_refl.
      apply (jeq_alist _ _ Hv pi).
    + apply E; [intros ->; discriminate|left; exact Hir].
  - intros Hn. destruct pth as [|k pi]; [reflexivity|].
    destruct (String.eqb k "variables") eqn:Kv.
    + apply String.eqb_eq in Kv; subst k. unfold obs, R1, R0. rewrite !get_path_cons_dict, !lookup_set_key, !String.eqb_refl.
      apply (jeq_alist _ _ Hv pi).
    + apply E; [intros ->; discriminate|right].
      (* no repeat interval in the reloaded layering: none in the package's, none in the stored fold *)
      unfold obs in E1 at 1. rewrite Hn in E1. symmetry in E1.
      destruct (Ov WA ["repeatInterval"]) as [_ O0]; [discriminate|]. unfold RI in E1. rewrite O0 in E1.
      rewrite (merged_pkg_obs d p sk c f B m0 Hf F0 WA ["repeatInterval"]) in E1 by discriminate.
      apply comb_abs_inv in E1 as [_ E1]. exact (obs_abs_none RI f E1).
Qed.

(* when no side layer gives a repeat interval the derivation changes nothing: the raw layered configurations themselves
   are the same tree, isRepeat included *)
Lemma reload_merged_jeq dflt d p q sk c c' bg bs X Y vl vl' r r' :
  is_import c = false -> comp_stage_key c = Some sk ->
  store_comp_raw d p c = Some c' -> clean d p sk c -> clean_repeat d p sk c ->
  fl_bp_global d p = Some bg -> fl_bp_stage d p sk = Some bs ->
  ((X = bg /\ Y = bs) \/ (X = JDict [] /\ Y = JDict [])) ->
  q = DEF \/ q = p ->
  alist_eq (layer_vars vl') (layer_vars vl) ->
  merged_of (opt_layers dflt d p sk c) vl = Some r ->
  merged_of ([builtin dflt; bg; bs; X; Y; comp_layer c'] ++ comp_override q c') vl' = Some r' ->
  jeq r' r.
Proof.
  intros Hi Hs Hc Hcl Hrp Hbg Hbs HXY Hq Hv Hr Hr'.
  destruct (fold_exists d p sk c c' Hi Hs Hc) as [f Hf].
  pose proof (comp_pre_fold_clean d p sk c f Hf Hrp) as Hpf.
  destruct (merged_split dflt _ vl r Hr) as (B & m0 & HB & F0 & ->).
  destruct (merged_split dflt _ vl' r' Hr') as (B' & m1 & HB' & F1 & ->).
  rewrite HB in HB'. injection HB' as <-.
  intros [|k pi]; [reflexivity|].
  destruct (String.eqb k "variables") eqn:Kv.
  { apply String.eqb_eq in Kv; subst k. unfold obs. rewrite !get_path_cons_dict, !lookup_set_key, !String.eqb_refl.
    apply (jeq_alist _ _ Hv pi). }
  assert (Kv' : k <> "variables") by (intros ->; discriminate).
  unfold obs. rewrite !(get_path_set_other Kv'). fold (obs (k :: pi) (JDict m1)). fold (obs (k :: pi) (JDict m0)).
  destruct (String.eqb k "override") eqn:Ko.
  { apply String.eqb_eq in Ko; subst k.
    exact (merged_override_obs d p q sk c c' f bg bs X Y B m0 m1 Hi Hs Hc Hf Hcl Hbg Hbs HXY Hq F0 F1 pi). }
  assert (Ko' : k <> "override") by (intros ->; discriminate).
  rewrite (merged_pkg_obs d p sk c f B m0 Hf F0 k pi Ko').
  apply (refold_obs d p sk c f Hf bg bs X Y Hbg Hbs HXY B (comp_layer c') (comp_override q c') (JDict m1) k pi);
    [|exact (merged_ov d p q sk c c' f bg bs X Y B m1 Hi Hs Hc Hf Hcl Hq F1)|exact F1].
  rewrite (obs_comp_layer c' k pi Ko'), (comp_pre_stored d p sk c c' f Hi Hs Hc Hf).
  apply (stored_obs_f d p sk c c' f Hi Hs Hc Hf k pi Kv' Ko'). rewrite Hpf. reflexivity.
Qed.
