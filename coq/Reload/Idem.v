(* C07 — the stored component as a tree: what instance() stores absorbs the blueprints it was folded from, so
   (i) storing the stored component again gives the same component (store . load . store = store),
   (ii) the layered configuration of the reloaded document is the layered configuration of the package, as trees. *)
From Coq Require Import String Ascii List Bool ZArith Arith Lia.
Import ListNotations.
Require Import V.Lib.PyStr V.Lib.JTree V.Conf.Model V.Conf.Proofs V.Reload.Model V.Reload.Proofs V.Reload.Obs.
Open Scope string_scope.

(* ================================================================== products of observations *)
Definition prod (l : list ob) : ob := fold_left comb l OAbs.

Lemma fold_comb_prod l : forall a, fold_left comb l a = comb a (prod l).
Proof.
  unfold prod. induction l as [|x r IH]; intros a; [reflexivity|]. cbn [fold_left].
  rewrite (IH (comb a x)), (IH (comb OAbs x)), comb_abs_l, comb_assoc. reflexivity.
Qed.

Lemma prod_app l1 l2 : prod (l1 ++ l2)%list = comb (prod l1) (prod l2).
Proof. unfold prod at 1. rewrite fold_left_app. fold (prod l1). apply fold_comb_prod. Qed.

Lemma prod_cons x l : prod (x :: l) = comb x (prod l).
Proof. unfold prod at 1. cbn [fold_left]. rewrite fold_comb_prod, comb_abs_l. reflexivity. Qed.

Lemma prod_allabs l : (forall o, In o l -> o = OAbs) -> prod l = OAbs.
Proof.
  induction l as [|x r IH]; intros H; [reflexivity|]. rewrite prod_cons, (H x (or_introl eq_refl)), comb_abs_l.
  apply IH. intros o Ho. apply H. right. exact Ho.
Qed.

Lemma prod_single A x B : (forall o, In o A -> o = OAbs) -> (forall o, In o B -> o = OAbs) -> prod (A ++ x :: B)%list = x.
Proof. intros HA HB. rewrite prod_app, prod_cons, (prod_allabs A HA), (prod_allabs B HB), comb_abs_l. reflexivity. Qed.

Ltac domt := solve [ apply dom_refl | apply dom_abs | apply dom_right; domt | apply dom_left; domt | apply dom_prod; domt ].

(* the algebraic core: F = the stored fold of [dgb; dsb; pgb; psb; component] + override; folding the pairwise merged
   blueprints (once or twice), then F, then the override again (or not) gives F *)
Lemma absorb g s G S C x y (O O' : list ob) :
  ((x = comb g G /\ y = comb s S) \/ (x = OAbs /\ y = OAbs)) -> (O' = O \/ O' = []) ->
  prod ([comb g G; comb s S; x; y; prod ([g; s; G; S; C] ++ O)] ++ O') = prod ([g; s; G; S; C] ++ O).
Proof.
  intros Hxy HO. rewrite !prod_app, !prod_cons. change (prod []) with OAbs. rewrite !comb_abs_r.
  set (u := prod O).
  set (F := comb (comb g (comb s (comb G (comb S C)))) u).
  assert (D : dom (comb (comb g G) (comb (comb s S) (comb x y))) F).
  { unfold F. destruct Hxy as [[-> ->]|[-> ->]]; domt. }
  rewrite <- !comb_assoc. rewrite <- !comb_assoc in D.
  unfold dom in D. rewrite D. destruct HO as [->| ->].
  - fold u. unfold F. apply comb_last_idem.
  - reflexivity.
Qed.

(* ================================================================== clean side layers *)
(* the blueprints and the platform override of a component hold options only: they do not name a stage, carry an
   `override` or `$import` section of their own, or give a repeat interval (see C07_repeat_refuted for the last one) *)
Definition RI := [WA; "repeatInterval"].
Definition IR := [WA; "isRepeat"].

Definition layer_clean (l : jv) : Prop :=
  get_path ["stage"] l = None /\ get_path ["override"] l = None /\ get_path ["$import"] l = None /\
  get_path RI l = None /\ get_path IR l = None.

Definition side_layers (d : doc) (p sk : string) (c : jv) : list jv :=
  ([bp_global d DEF; bp_stage d DEF sk; bp_global d p; bp_stage d p sk] ++ comp_override p c)%list.

Definition clean (d : doc) (p sk : string) (c : jv) : Prop := Forall layer_clean (side_layers d p sk c).

Lemma get_path_none_ext k pi v : get_path [k] v = None -> get_path (k :: pi) v = None.
Proof.
  destruct v as [| | | | | |m]; try reflexivity. cbn [get_path]. destruct (lookup k m); [discriminate|reflexivity].
Qed.

Lemma obs_none pi v : get_path pi v = None -> obs pi v = OAbs.
Proof. unfold obs. intros ->. reflexivity. Qed.

Lemma obs_abs_none pi v : obs pi v = OAbs -> get_path pi v = None.
Proof. unfold obs. destruct (get_path pi v) as [[]|]; cbn; try discriminate. reflexivity. Qed.

Lemma obs_empty k pi : obs (k :: pi) (JDict []) = OAbs.
Proof. reflexivity. Qed.

Lemma store_layers_split d p sk c :
  store_layers d p sk c = ([bp_global d DEF; bp_stage d DEF sk; bp_global d p; bp_stage d p sk] ++ comp_pre c :: comp_override p c)%list.
Proof. reflexivity. Qed.

(* the stored fold at a path that no side layer defines is the component's own value *)
Lemma f_clean_path d p sk c f pth :
  pth <> [] ->
  fold_override (Some (JDict [])) (store_layers d p sk c) = Some f ->
  (forall l, In l (side_layers d p sk c) -> get_path pth l = None) ->
  obs pth f = obs pth (comp_pre c).
Proof.
  intros Hp Hf Hn. rewrite (fold_override_obs pth _ _ _ Hf).
  destruct pth as [|k pi]; [contradiction|]. rewrite obs_empty. fold (prod (map (obs (k :: pi)) (store_layers d p sk c))).
  rewrite store_layers_split, map_app.
  apply (prod_single (map (obs (k :: pi)) [bp_global d DEF; bp_stage d DEF sk; bp_global d p; bp_stage d p sk])
                     (obs (k :: pi) (comp_pre c)) (map (obs (k :: pi)) (comp_override p c))).
  - intros o Ho. apply in_map_iff in Ho as (l & <- & Hl). apply obs_none, Hn. unfold side_layers. apply in_or_app. left. exact Hl.
  - intros o Ho. apply in_map_iff in Ho as (l & <- & Hl). apply obs_none, Hn. unfold side_layers. apply in_or_app. right. exact Hl.
Qed.

Section Stored.
  Variables (d : doc) (p sk : string) (c c' f : jv).
  Hypothesis Hi : is_import c = false.
  Hypothesis Hs : comp_stage_key c = Some sk.
  Hypothesis Hc : store_comp_raw d p c = Some c'.
  Hypothesis Hf : fold_override (Some (JDict [])) (store_layers d p sk c) = Some f.
  Hypothesis Hcl : clean d p sk c.

  Lemma clean_at l : In l (side_layers d p sk c) -> layer_clean l.
  Proof. intros H. unfold clean in Hcl. rewrite Forall_forall in Hcl. exact (Hcl l H). Qed.

  Lemma stored_shape : exists m, f = JDict m /\
    c' = JDict (keep_override p c (set_key "variables" (JDict (comp_own_vars p c)) m)).
  Proof.
    unfold store_comp_raw in Hc. rewrite Hi, Hs, Hf in Hc.
    destruct f as [| | | | | |m]; try discriminate. injection Hc as <-. exists m. split; reflexivity.
  Qed.

  Lemma stored_obs_f k pi : k <> "variables" -> k <> "override" -> obs (k :: pi) c' = obs (k :: pi) f.
  Proof. intros K1 K2. unfold obs. rewrite (stored_option d p c sk c' f k pi Hi Hs Hc Hf K1 K2). reflexivity. Qed.

  (* the `override` section of the stored component: the one for p, or none *)
  Lemma stored_override :
    get_path ["override"] c' = match get_path ["override"; p] c with Some op => Some (JDict [(p, op)]) | None => None end.
  Proof.
    destruct stored_shape as (m & Ef & Ec). rewrite Ec. unfold keep_override.
    destruct (get_path ["override"] c) as [o|] eqn:Eo.
    - assert (E2 : get_path ["override"; p] c = get_path [p] o).
      { change ["override"; p] with (["override"] ++ [p])%list. rewrite get_path_app, Eo. reflexivity. }
      rewrite E2. destruct (get_path [p] o) as [op|].
      + rewrite get_path_cons_dict, lookup_set_key, String.eqb_refl. reflexivity.
      + rewrite get_path_cons_dict, lookup_remove_key, String.eqb_refl. reflexivity.
    - rewrite (get_path_none_ext "override" [p] c Eo).
      assert (O : obs ["override"] f = obs ["override"] (comp_pre c)).
      { apply (f_clean_path d p sk c f); [discriminate|exact Hf|]. intros l Hl. apply (clean_at l Hl). }
      rewrite (obs_none ["override"] (comp_pre c)) in O
        by (rewrite get_path_comp_pre; [exact Eo|left; discriminate]).
      apply obs_abs_none in O. rewrite Ef in O.
      rewrite get_path_cons_dict, lookup_set_key. cbn [String.eqb Ascii.eqb Bool.eqb]. exact O.
  Qed.

  Lemma get_path_via k r v : get_path (k :: r) v = match get_path [k] v with Some o => get_path r o | None => None end.
  Proof. change (k :: r) with ([k] ++ r)%list. apply get_path_app. Qed.

  (* item (2): the variables of EVERY stored component (with or without an override section) *)
  Lemma stored_vars_ok_clean q : q = DEF \/ q = p -> stored_vars_ok p q c c'.
  Proof.
    intros Hq. destruct stored_shape as (m & Ef & Ec). split.
    - rewrite Ec. unfold get_or. rewrite get_path_keep_override by discriminate.
      rewrite get_path_cons_dict, lookup_set_key, String.eqb_refl. reflexivity.
    - unfold get_or. rewrite (get_path_via "override" [q; "variables"] c'), stored_override.
      rewrite (get_path_via "override" [p; "variables"] c), (get_path_via "override" [p] c).
      destruct (get_path ["override"] c) as [o|]; [|destruct (String.eqb q p); reflexivity].
      destruct (get_path [p] o) as [op|] eqn:Ep.
      + rewrite (get_path_via p ["variables"] o), Ep. rewrite get_path_cons_dict. cbn [lookup].
        destruct (String.eqb q p); reflexivity.
      + rewrite (get_path_via p ["variables"] o), Ep. destruct (String.eqb q p); reflexivity.
  Qed.

  Lemma stored_comp_override : comp_override p c' = comp_override p c.
  Proof.
    unfold comp_override. rewrite (get_path_via "override" [p] c'), stored_override.
    destruct (get_path ["override"; p] c) as [op|]; [|reflexivity].
    cbn [get_path lookup]. rewrite String.eqb_refl. reflexivity.
  Qed.

  Lemma stored_comp_override_def : String.eqb DEF p = false -> comp_override DEF c' = [].
  Proof.
    intros E. unfold comp_override. rewrite (get_path_via "override" [DEF] c'), stored_override.
    destruct (get_path ["override"; p] c) as [op|]; [|reflexivity].
    cbn [get_path lookup]. rewrite E. reflexivity.
  Qed.

  Lemma ob_of_noz x y : ob_of (Some x) = ob_of (Some y) -> none_or_zero x = none_or_zero y.
  Proof. destruct x, y; cbn; intros H; try discriminate; try (injection H as ->); reflexivity. Qed.

  Lemma ob_of_leaf o x : ob_of o = OLeaf x -> (forall m, x <> JDict m) -> o = Some x.
  Proof. destruct o as [[]|]; cbn; intros H N; try discriminate; injection H as <-; try reflexivity. Qed.

  (* FlowIRConcrete.__init__ on the loaded document derives isRepeat again: it finds what is stored *)
  Lemma comp_pre_stored : comp_pre c' = c'.
  Proof.
    assert (A : forall pth, pth = RI \/ pth = IR -> obs pth c' = obs pth (comp_pre c)).
    { intros pth Hp. assert (Hne : pth <> []) by (destruct Hp as [->| ->]; discriminate).
      transitivity (obs pth f).
      - destruct Hp as [->| ->]; apply stored_obs_f; discriminate.
      - apply (f_clean_path d p sk c f pth Hne Hf). intros l Hl. destruct (clean_at l Hl) as (_ & _ & _ & H4 & H5).
        destruct Hp as [->| ->]; assumption. }
    pose proof (A RI (or_introl eq_refl)) as A1. pose proof (A IR (or_intror eq_refl)) as A2.
    unfold comp_pre in A1, A2 |- *. fold RI in A1, A2 |- *.
    destruct (get_path RI c) as [x|] eqn:Ex.
    - change [WA; "isRepeat"] with IR in *.
      assert (G1 : get_path RI (set_path IR (JBool (negb (none_or_zero x))) c) = Some x).
      { pose proof (get_path_comp_pre c WA ["repeatInterval"]) as G. unfold comp_pre in G. fold RI in G. rewrite Ex in G.
        apply G. right. exists "repeatInterval", []. split; [reflexivity|discriminate]. }
      unfold obs in A1, A2. rewrite G1 in A1. rewrite get_set_path_same in A2.
      destruct (get_path RI c') as [x'|] eqn:Ex'; [|destruct x; discriminate].
      rewrite (ob_of_noz _ _ A1). apply set_path_same.
      apply ob_of_leaf; [exact A2|discriminate].
    - unfold obs in A1. rewrite Ex in A1. apply (obs_abs_none RI c') in A1. rewrite A1. reflexivity.
  Qed.

  Lemma stored_not_import : is_import c' = false.
  Proof.
    unfold is_import in *.
    assert (O : obs ["$import"] c' = OAbs).
    { rewrite stored_obs_f by discriminate. rewrite (f_clean_path d p sk c f ["$import"]); [|discriminate|exact Hf|].
      - apply obs_none. rewrite get_path_comp_pre by (left; discriminate).
        destruct (get_path ["$import"] c); [discriminate|reflexivity].
      - intros l Hl. apply (clean_at l Hl). }
    apply obs_abs_none in O. rewrite O. reflexivity.
  Qed.

  Lemma stored_stage : comp_stage_key c' = Some sk.
  Proof.
    unfold comp_stage_key in *.
    assert (O : obs ["stage"] c' = obs ["stage"] c).
    { rewrite stored_obs_f by discriminate. rewrite (f_clean_path d p sk c f ["stage"]); [|discriminate|exact Hf|].
      - unfold obs. rewrite get_path_comp_pre by (left; discriminate). reflexivity.
      - intros l Hl. apply (clean_at l Hl). }
    unfold obs in O. destruct (get_path ["stage"] c) as [[| |z| | | |]|]; try discriminate.
    change (ob_of (Some (JInt z))) with (OLeaf (JInt z)) in O.
    apply ob_of_leaf in O; [rewrite O; exact Hs|discriminate].
  Qed.

  (* ---------------------------------------------------------------- re-folding the stored component *)
  Variables (bg bs X Y : jv).
  Hypothesis Hbg : fl_bp_global d p = Some bg.
  Hypothesis Hbs : fl_bp_stage d p sk = Some bs.
  Hypothesis HXY : (X = bg /\ Y = bs) \/ (X = JDict [] /\ Y = JDict []).

  Lemma obs_f_prod k pi :
    obs (k :: pi) f = prod ([obs (k :: pi) (bp_global d DEF); obs (k :: pi) (bp_stage d DEF sk); obs (k :: pi) (bp_global d p);
                             obs (k :: pi) (bp_stage d p sk); obs (k :: pi) (comp_pre c)] ++ map (obs (k :: pi)) (comp_override p c)).
  Proof. rewrite (fold_override_obs (k :: pi) _ _ _ Hf), obs_empty. unfold store_layers. rewrite map_app. reflexivity. Qed.

  Lemma obs_XY k pi :
    (obs (k :: pi) X = comb (obs (k :: pi) (bp_global d DEF)) (obs (k :: pi) (bp_global d p)) /\
     obs (k :: pi) Y = comb (obs (k :: pi) (bp_stage d DEF sk)) (obs (k :: pi) (bp_stage d p sk)))
    \/ (obs (k :: pi) X = OAbs /\ obs (k :: pi) Y = OAbs).
  Proof.
    destruct HXY as [[-> ->]|[-> ->]]; [left|right; split; reflexivity].
    split; [exact (override_obs _ _ _ _ Hbg)|exact (override_obs _ _ _ _ Hbs)].
  Qed.

  (* the layers [merged blueprints; X; Y; a layer that looks like the stored fold; the override again or not] fold to
     the stored fold, at every path below the root, under ANY bottom layer B *)
  Lemma refold_obs B cp' ov' f' k pi :
    obs (k :: pi) cp' = obs (k :: pi) f ->
    (ov' = comp_override p c \/ ov' = []) ->
    fold_override (Some B) ([bg; bs; X; Y; cp'] ++ ov') = Some f' ->
    obs (k :: pi) f' = comb (obs (k :: pi) B) (obs (k :: pi) f).
  Proof.
    intros Hcp Hov Hf'. rewrite (fold_override_obs (k :: pi) _ _ _ Hf'), fold_comb_prod. f_equal.
    rewrite map_app. cbn [map]. rewrite Hcp, (override_obs _ _ _ _ Hbg), (override_obs _ _ _ _ Hbs), obs_f_prod.
    apply absorb.
    - destruct (obs_XY k pi) as [[-> ->]|[-> ->]]; [left|right]; split; reflexivity.
    - destruct Hov as [->| ->]; [left|right]; reflexivity.
  Qed.
End Stored.

(* ================================================================== (i) store . load . store = store, per component *)
Lemma alist_eq_update_again (a b : alist) : alist_eq (update (update a b) b) (update a b).
Proof. intros k. rewrite !lookup_update. destruct (lookup k b); reflexivity. Qed.

Lemma store_comp_idem d d2 p sk c c' c'' bg bs :
  is_import c = false -> comp_stage_key c = Some sk ->
  store_comp_raw d p c = Some c' -> clean d p sk c ->
  fl_bp_global d p = Some bg -> fl_bp_stage d p sk = Some bs ->
  bp_global d2 DEF = bg -> bp_stage d2 DEF sk = bs ->
  ((bp_global d2 p = bg /\ bp_stage d2 p sk = bs) \/ (bp_global d2 p = JDict [] /\ bp_stage d2 p sk = JDict [])) ->
  store_comp_raw d2 p c' = Some c'' ->
  jeq c'' c'.
Proof.
  intros Hi Hs Hc Hcl Hbg Hbs D1 D2 DXY Hc2.
  assert (Hf : exists f, fold_override (Some (JDict [])) (store_layers d p sk c) = Some f).
  { unfold store_comp_raw in Hc. rewrite Hi, Hs in Hc.
    destruct (fold_override (Some (JDict [])) (store_layers d p sk c)) as [f|]; [exists f; reflexivity|discriminate]. }
  destruct Hf as [f Hf].
  pose proof (stored_not_import d p sk c c' f Hi Hs Hc Hf Hcl) as Hi'.
  pose proof (stored_stage d p sk c c' f Hi Hs Hc Hf Hcl) as Hs'.
  pose proof (comp_pre_stored d p sk c c' f Hi Hs Hc Hf Hcl) as Hpre.
  pose proof (stored_comp_override d p sk c c' f Hi Hs Hc Hf Hcl) as Hov.
  pose proof (stored_override d p sk c c' f Hi Hs Hc Hf Hcl) as Hso.
  destruct (stored_shape d p sk c c' f Hi Hs Hc Hf) as (m & Ef & Ec).
  unfold store_comp_raw in Hc2. rewrite Hi', Hs' in Hc2.
  destruct (fold_override (Some (JDict [])) (store_layers d2 p sk c')) as [f'|] eqn:Hf'; [|discriminate].
  destruct f' as [| | | | | |m']; try discriminate. injection Hc2 as <-.
  unfold store_layers in Hf'. rewrite D1, D2, Hpre, Hov in Hf'.
  assert (HXY : (bp_global d2 p = bg /\ bp_stage d2 p sk = bs) \/ (bp_global d2 p = JDict [] /\ bp_stage d2 p sk = JDict [])) by exact DXY.
  intros [|k pi]; [rewrite Ec; reflexivity|].
  destruct (String.eqb k "variables") eqn:Kv.
  { apply String.eqb_eq in Kv; subst k.
    unfold obs. rewrite get_path_keep_override by discriminate.
    rewrite Ec at 2. rewrite get_path_keep_override by discriminate.
    rewrite !get_path_cons_dict, !lookup_set_key, !String.eqb_refl.
    destruct (stored_vars_ok_clean d p sk c c' f Hi Hs Hc Hf Hcl p (or_intror eq_refl)) as [V1 V2].
    rewrite String.eqb_refl in V2.
    assert (E : alist_eq (comp_own_vars p c') (comp_own_vars p c)).
    { unfold comp_own_vars at 1. rewrite V1, V2. unfold comp_own_vars. apply alist_eq_update_again. }
    apply (jeq_alist _ _ E pi). }
  assert (Kv' : k <> "variables") by (intros ->; discriminate).
  destruct (String.eqb k "override") eqn:Ko.
  { apply String.eqb_eq in Ko; subst k.
    unfold obs. rewrite !(get_path_via "override" pi). unfold keep_override at 1. rewrite Hso.
    destruct (get_path ["override"; p] c) as [op|] eqn:Eop.
    - cbn [get_path lookup]. rewrite String.eqb_refl.
      rewrite lookup_set_key, String.eqb_refl. reflexivity.
    - (* neither the stored component nor any layer of the reloaded document has an override section *)
      rewrite get_path_cons_dict, lookup_set_key. cbn [String.eqb Ascii.eqb Bool.eqb].
      assert (O : obs ["override"] (JDict m') = OAbs).
      { rewrite (fold_override_obs ["override"] _ _ _ Hf'), obs_empty. fold (prod (map (obs ["override"]) ([bg; bs; bp_global d2 p; bp_stage d2 p sk; c'] ++ comp_override p c))).
        apply prod_allabs. intros o Ho. apply in_map_iff in Ho as (l & <- & Hl).
        assert (Cg : obs ["override"] bg = OAbs).
        { rewrite (override_obs _ _ _ _ Hbg).
          rewrite !obs_none; [reflexivity| |]; apply (clean_at d p sk c Hcl); unfold side_layers; cbn; auto. }
        assert (Cs : obs ["override"] bs = OAbs).
        { rewrite (override_obs _ _ _ _ Hbs).
          rewrite !obs_none; [reflexivity| |]; apply (clean_at d p sk c Hcl); unfold side_layers; cbn; auto. }
        assert (Cov : comp_override p c = []).
        { unfold comp_override. rewrite Eop. reflexivity. }
        rewrite Cov in Hl. cbn in Hl.
        destruct Hl as [<-|[<-|[<-|[<-|[<-|[]]]]]]; try assumption.
        - destruct DXY as [[-> _]|[-> _]]; [exact Cg|reflexivity].
        - destruct DXY as [[_ ->]|[_ ->]]; [exact Cs|reflexivity].
        - apply obs_none. exact Hso. }
      apply obs_abs_none in O. cbn [get_path] in O. destruct (lookup "override" m'); [discriminate|reflexivity]. }
  assert (Ko' : k <> "override") by (intros ->; discriminate).
  transitivity (obs (k :: pi) (JDict m')).
  { unfold obs. rewrite get_path_keep_override by exact Ko'. rewrite (get_path_set_other Kv'). reflexivity. }
  rewrite (refold_obs d p sk c f Hf bg bs (bp_global d2 p) (bp_stage d2 p sk) Hbg Hbs HXY (JDict []) c' (comp_override p c) (JDict m') k pi).
  - rewrite obs_empty, comb_abs_l. symmetry. apply (stored_obs_f d p sk c c' f Hi Hs Hc Hf k pi Kv' Ko').
  - apply (stored_obs_f d p sk c c' f Hi Hs Hc Hf k pi Kv' Ko').
  - left. reflexivity.
  - exact Hf'.
Qed.

(* ================================================================== (ii) the layered configuration as a tree *)
Lemma reload_merged_jeq dflt d p q sk c c' bg bs X Y vl vl' r r' :
  is_import c = false -> comp_stage_key c = Some sk ->
  store_comp_raw d p c = Some c' -> clean d p sk c ->
  fl_bp_global d p = Some bg -> fl_bp_stage d p sk = Some bs ->
  ((X = bg /\ Y = bs) \/ (X = JDict [] /\ Y = JDict [])) ->
  q = DEF \/ q = p ->
  alist_eq (layer_vars vl') (layer_vars vl) ->
  merged_of (opt_layers dflt d p sk c) vl = Some r ->
  merged_of ([builtin dflt; bg; bs; X; Y; comp_layer c'] ++ comp_override q c') vl' = Some r' ->
  jeq r' r.
Proof.
  intros Hi Hs Hc Hcl Hbg Hbs HXY Hq Hv Hr Hr'.
  assert (Hf : exists f, fold_override (Some (JDict [])) (store_layers d p sk c) = Some f).
  { unfold store_comp_raw in Hc. rewrite Hi, Hs in Hc.
    destruct (fold_override (Some (JDict [])) (store_layers d p sk c)) as [f|]; [exists f; reflexivity|discriminate]. }
  destruct Hf as [f Hf].
  pose proof (comp_pre_stored d p sk c c' f Hi Hs Hc Hf Hcl) as Hpre.
  assert (Hov : comp_override q c' = comp_override p c \/ comp_override q c' = []).
  { destruct (String.eqb DEF p) eqn:Edp.
    - apply String.eqb_eq in Edp. left. destruct Hq as [->| ->]; [rewrite Edp|]; apply (stored_comp_override d p sk c c' f Hi Hs Hc Hf Hcl).
    - destruct Hq as [->| ->]; [right; apply (stored_comp_override_def d p sk c c' f Hi Hs Hc Hf Hcl Edp)|
                                left; apply (stored_comp_override d p sk c c' f Hi Hs Hc Hf Hcl)]. }
  unfold merged_of in Hr, Hr'.
  destruct (fold_override (Some (JDict [])) (opt_layers dflt d p sk c)) as [[| | | | | |m0]|] eqn:F0; try discriminate.
  destruct (fold_override (Some (JDict [])) ([builtin dflt; bg; bs; X; Y; comp_layer c'] ++ comp_override q c')) as [[| | | | | |m1]|] eqn:F1;
    try discriminate.
  injection Hr as <-. injection Hr' as <-.
  intros [|k pi]; [reflexivity|].
  destruct (String.eqb k "variables") eqn:Kv.
  { apply String.eqb_eq in Kv; subst k. unfold obs. rewrite !get_path_cons_dict, !lookup_set_key, !String.eqb_refl.
    apply (jeq_alist _ _ Hv pi). }
  assert (Kv' : k <> "variables") by (intros ->; discriminate).
  unfold obs. rewrite !(get_path_set_other Kv'). fold (obs (k :: pi) (JDict m1)). fold (obs (k :: pi) (JDict m0)).
  (* split off the built-in layer *)
  change ([builtin dflt; bg; bs; X; Y; comp_layer c'] ++ comp_override q c')%list
    with (builtin dflt :: ([bg; bs; X; Y; comp_layer c'] ++ comp_override q c'))%list in F1.
  unfold opt_layers in F0.
  change ([builtin dflt; bp_global d "default"; bp_stage d "default" sk; bp_global d p; bp_stage d p sk; comp_layer c] ++ comp_override p c)%list
    with (builtin dflt :: ([bp_global d DEF; bp_stage d DEF sk; bp_global d p; bp_stage d p sk; comp_layer c] ++ comp_override p c))%list in F0.
  change (fold_override (override (JDict []) (builtin dflt)) ([bg; bs; X; Y; comp_layer c'] ++ comp_override q c') = Some (JDict m1)) in F1.
  change (fold_override (override (JDict []) (builtin dflt))
            ([bp_global d DEF; bp_stage d DEF sk; bp_global d p; bp_stage d p sk; comp_layer c] ++ comp_override p c) = Some (JDict m0)) in F0.
  destruct (override (JDict []) (builtin dflt)) as [B|]; [|rewrite fold_override_none in F0; discriminate].
  rewrite (fold_override_obs (k :: pi) _ _ _ F0), fold_comb_prod.
  destruct (String.eqb k "override") eqn:Ko.
  { (* no layer but the built-in one has an override section *)
    apply String.eqb_eq in Ko; subst k.
    rewrite (fold_override_obs ("override" :: pi) _ _ _ F1), fold_comb_prod. f_equal.
    assert (Cl : forall l, In l (side_layers d p sk c) -> obs ("override" :: pi) l = OAbs).
    { intros l Hl. apply obs_none, get_path_none_ext. apply (clean_at d p sk c Hcl l Hl). }
    assert (Cg : obs ("override" :: pi) bg = OAbs).
    { rewrite (override_obs _ _ _ _ Hbg). rewrite !Cl; [reflexivity| |]; unfold side_layers; cbn; auto. }
    assert (Cs : obs ("override" :: pi) bs = OAbs).
    { rewrite (override_obs _ _ _ _ Hbs). rewrite !Cl; [reflexivity| |]; unfold side_layers; cbn; auto. }
    assert (Ccl : forall x, obs ("override" :: pi) (comp_layer x) = OAbs).
    { intros x. unfold comp_layer. destruct (comp_pre x); try reflexivity.
      rewrite obs_cons_dict, lookup_remove_key, String.eqb_refl. reflexivity. }
    rewrite !prod_allabs; [reflexivity| |].
    - intros o Ho. apply in_map_iff in Ho as (l & <- & Hl). apply in_app_or in Hl. destruct Hl as [Hl|Hl].
      + cbn in Hl. destruct Hl as [<-|[<-|[<-|[<-|[<-|[]]]]]]; try (apply Cl; unfold side_layers; cbn; auto; fail). apply Ccl.
      + apply Cl. unfold side_layers. apply in_or_app. right. exact Hl.
    - intros o Ho. apply in_map_iff in Ho as (l & <- & Hl). apply in_app_or in Hl. destruct Hl as [Hl|Hl].
      + cbn in Hl. destruct Hl as [<-|[<-|[<-|[<-|[<-|[]]]]]]; try assumption.
        * destruct HXY as [[-> _]|[-> _]]; [exact Cg|reflexivity].
        * destruct HXY as [[_ ->]|[_ ->]]; [exact Cs|reflexivity].
        * apply Ccl.
      + destruct Hov as [E|E]; rewrite E in Hl; [|destruct Hl]. apply Cl. unfold side_layers. apply in_or_app. right. exact Hl. }
  assert (Ko' : k <> "override") by (intros ->; discriminate).
  assert (Ecl : forall x, obs (k :: pi) (comp_layer x) = obs (k :: pi) (comp_pre x)).
  { intros x. unfold comp_layer. destruct (comp_pre x); try reflexivity. unfold obs. rewrite get_path_remove_other by exact Ko'. reflexivity. }
  rewrite (refold_obs d p sk c f Hf bg bs X Y Hbg Hbs HXY B (comp_layer c') (comp_override q c') (JDict m1) k pi); [| |exact Hov|exact F1].
  - f_equal. rewrite (obs_f_prod d p sk c f Hf k pi). rewrite map_app. cbn [map]. rewrite Ecl. reflexivity.
  - rewrite Ecl, Hpre. apply (stored_obs_f d p sk c c' f Hi Hs Hc Hf k pi Kv' Ko').
Qed.
