(* C08 — Configuration queries always reflect the latest updates.  Property theorems only. *)
From Coq Require Import String Ascii List Bool ZArith Arith Lia.
Import ListNotations.
Require Import V.Lib.PyStr V.Lib.JTree V.Conf.Model V.Cache.Model V.Cache.Proofs V.Cache.Generated.
Open Scope string_scope.

(* Per-operation footprint (one statement for the 13 mutators): if (p, s, n) resolved to v before the mutator and
   its label survives the mutator's cache action (nothing for add_component and for calls that raise before they
   touch anything, clear() for the variable setters and live-reference getters, the pattern of the component for
   the component operations), then (p, s, n) resolves to the same v in the document after the mutator.
   Holds for every label matcher that matches at least the labels of the component it is built for. *)
Theorem C08_footprint : forall (mt : Z -> string -> string -> bool) (dflt : jv),
  (forall p s n, mt s n (key p s n) = true) ->
  forall d o d' a ob p s n v,
    op_ok o = true -> mutate d o = (d', a, ob) ->
    qresolve dflt d p s n = QOk v -> survives mt a (key p s n) = true ->
    qresolve dflt d' p s n = QOk v.
Proof. exact mutate_keeps. Qed.
Print Assumptions C08_footprint.

(* The repaired pattern ((?s)component:.*:stage<s>:<re.escape(n)>, re.match) matches the label of (s, n) on every
   platform, whatever characters the names hold; and labels are injective over platform names without ':'. *)
Theorem C08_matcher : forall p s n p' s' n',
  lit_matches s n (key p s n) = true /\
  (plat_ok p = true -> plat_ok p' = true -> key p s n = key p' s' n' -> p = p' /\ s = s' /\ n = n').
Proof. intros. split; [apply lit_complete|apply key_inj]. Qed.
Print Assumptions C08_matcher.

(* Invariant: after any history of well-formed operations, started from an object with an empty cache (a freshly
   constructed FlowIRConcrete), every cache entry holds, under the label of a (platform, component) pair, exactly
   what the CURRENT document resolves to for that pair. *)
Theorem C08_coherent : forall (dflt : jv) (d : doc) (ops : list op),
  forallb op_ok ops = true ->
  let st := fst (run lit_matches dflt {| s_doc := d; s_cache := [] |} ops) in
  forall k v, In (k, v) (s_cache st) ->
    exists p s n, k = key p s n /\ plat_ok p = true /\ qresolve dflt (s_doc st) p s n = QOk v.
Proof.
  intros dflt d ops Hok st k v Hin.
  exact (run_coherent lit_matches dflt lit_complete ops _ Hok (coherent_empty dflt d) (k, v) Hin).
Qed.
Print Assumptions C08_coherent.

(* Freshness: in every history, every query — whatever well-formed operations precede it and whatever follows —
   answers what the document produced by the preceding mutators resolves to from scratch (a configuration, or the
   same error).  [doc_after] applies the mutators to the document alone: the cache plays no role in it. *)
Theorem C08_fresh : forall (dflt : jv) (d : doc) (pre post : list op) (p : string) (s : Z) (n : string),
  forallb op_ok pre = true -> plat_ok p = true ->
  nth_error (snd (run lit_matches dflt {| s_doc := d; s_cache := [] |} (pre ++ Query p s n :: post))) (length pre)
  = Some (ORes (qresolve dflt (doc_after d pre) p s n)).
Proof.
  intros dflt d pre post p s n Hok Hp.
  exact (history_fresh lit_matches dflt lit_complete _ pre p s n post (coherent_empty dflt d) Hok Hp).
Qed.
Print Assumptions C08_fresh.

(* Privacy: changing a returned configuration is not an operation on the object — the state and every later
   observation are those of the history without it; a query leaves the document alone and asking the same
   question again returns the same answer (a hit hands out a copy of what was stored). *)
Theorem C08_private : forall (dflt : jv) (st : state) (pre post : list op) (p : string) (s : Z) (n : string),
  step lit_matches dflt st MutateResult = (st, ODone) /\
  fst (run lit_matches dflt st (pre ++ MutateResult :: post)) = fst (run lit_matches dflt st (pre ++ post)) /\
  snd (run lit_matches dflt st (pre ++ MutateResult :: post))
    = (snd (run lit_matches dflt st pre) ++ ODone :: snd (run lit_matches dflt (fst (run lit_matches dflt st pre)) post))%list /\
  snd (step lit_matches dflt (fst (step lit_matches dflt st (Query p s n))) (Query p s n))
    = snd (step lit_matches dflt st (Query p s n)) /\
  s_doc (fst (step lit_matches dflt st (Query p s n))) = s_doc st.
Proof.
  intros. split; [reflexivity|].
  destruct (history_private lit_matches dflt st pre post) as [A B].
  destruct (query_twice lit_matches dflt st p s n) as [C D].
  repeat split; assumption.
Qed.
Print Assumptions C08_private.

(* The same two statements for an object at ANY point of its life and for the larger alphabet: the start is any
   state whose cache is coherent with its document (whatever document the object was constructed from and whatever
   happened to it before), and the history may also contain in-place changes by the caller of objects it handed to
   the mutators earlier (MutateArg), invalidate_cache_for_component (Invalidate) and writes through live references
   to components (get_components(return_copy=False), a kept get_component(.., return_copy=False), the description
   of add_component(.., insert_copy=False)) under the discipline [ok_hist]: the write is followed at once by
   invalidate_cache_for_component of that component, or (round 5) by another call that commits that component
   (Model.commits: a mutator of the component, e.g. update_component handed the edited live definition).  forallb op_ok ops = true implies ok_hist ops = true
   (op_ok_ok_hist), so these generalise C08_coherent and C08_fresh. *)
Theorem C08_coherent_from : forall (dflt : jv) (st0 : state) (ops : list op),
  (forall k v, In (k, v) (s_cache st0) ->
     exists p s n, k = key p s n /\ plat_ok p = true /\ qresolve dflt (s_doc st0) p s n = QOk v) ->
  ok_hist ops = true ->
  let st := fst (run lit_matches dflt st0 ops) in
  forall k v, In (k, v) (s_cache st) ->
    exists p s n, k = key p s n /\ plat_ok p = true /\ qresolve dflt (s_doc st) p s n = QOk v.
Proof.
  intros dflt st0 ops H0 Hok st k v Hin.
  assert (Hc : coherent dflt st0).
  { intros [k0 v0] Hi. destruct (H0 k0 v0 Hi) as (p & s & n & A & B & C). exists p, s, n. auto. }
  exact (run_coherent_ok lit_matches dflt lit_complete (length ops) ops st0 (le_n _) Hok Hc (k, v) Hin).
Qed.
Print Assumptions C08_coherent_from.

Theorem C08_fresh_from : forall (dflt : jv) (st0 : state) (pre post : list op) (p : string) (s : Z) (n : string),
  (forall k v, In (k, v) (s_cache st0) ->
     exists p s n, k = key p s n /\ plat_ok p = true /\ qresolve dflt (s_doc st0) p s n = QOk v) ->
  ok_hist pre = true -> plat_ok p = true ->
  nth_error (snd (run lit_matches dflt st0 (pre ++ Query p s n :: post))) (length pre)
  = Some (ORes (qresolve dflt (doc_after (s_doc st0) pre) p s n)).
Proof.
  intros dflt st0 pre post p s n H0 Hok Hp.
  assert (Hc : coherent dflt st0).
  { intros [k0 v0] Hi. destruct (H0 k0 v0 Hi) as (p' & s' & n' & A & B & C). exists p', s', n'. auto. }
  exact (history_fresh_ok lit_matches dflt lit_complete st0 pre p s n post Hc Hok Hp).
Qed.
Print Assumptions C08_fresh_from.

(* Arguments are private too (after the repair: every mutator stores a copy of the value it is handed): a later
   in-place change by the caller of an object it passed in is not an operation on the object — state and every
   later observation are those of the history without it, and the document the queries are measured against
   (doc_after) does not move. *)
Theorem C08_args_private : forall (dflt : jv) (st : state) (pre post : list op) (s : Z) (n : string)
                                  (r : list string) (x : jv) (d : doc),
  step lit_matches dflt st (MutateArg s n r x) = (st, ODone) /\
  doc_after d (pre ++ MutateArg s n r x :: post) = doc_after d (pre ++ post) /\
  fst (run lit_matches dflt st (pre ++ MutateArg s n r x :: post)) = fst (run lit_matches dflt st (pre ++ post)) /\
  snd (run lit_matches dflt st (pre ++ MutateArg s n r x :: post))
    = (snd (run lit_matches dflt st pre) ++ ODone :: snd (run lit_matches dflt (fst (run lit_matches dflt st pre)) post))%list.
Proof.
  intros. split; [reflexivity|]. split.
  - revert d. induction pre as [|o pre IH]; intros d0; cbn; [reflexivity|apply IH].
  - exact (history_args_private lit_matches dflt st pre post s n r x).
Qed.
Print Assumptions C08_args_private.

(* The other read-only calls of the interface (ReadOnly: get_component_configuration in its not fully resolved modes
   - raw, include_default=False, is_primitive, inject_missing_fields=False -, configurationForNode / getOptionForNode,
   instance(platform), replicate(platform), validate(), copy(), the get_*_blueprint accessors, ...) are not
   operations on the object either: the state is untouched, the document the queries are measured against
   (doc_after) does not move, and the final state and every other observation of the history are those of the
   history without the call.  Together with C08_fresh_from: a query that follows such calls still answers what the
   description produced by the MUTATORS resolves to from scratch.  (The harness mirrors the first two conjuncts on
   the real object: raw() and the cache labels before and after every read-only call.) *)
Theorem C08_readonly_private : forall (dflt : jv) (st : state) (pre post : list op) (call : string) (d : doc),
  step lit_matches dflt st (ReadOnly call) = (st, ODone) /\
  doc_after d (pre ++ ReadOnly call :: post) = doc_after d (pre ++ post) /\
  fst (run lit_matches dflt st (pre ++ ReadOnly call :: post)) = fst (run lit_matches dflt st (pre ++ post)) /\
  snd (run lit_matches dflt st (pre ++ ReadOnly call :: post))
    = (snd (run lit_matches dflt st pre) ++ ODone :: snd (run lit_matches dflt (fst (run lit_matches dflt st pre)) post))%list.
Proof. intros. exact (history_readonly lit_matches dflt st pre post call d). Qed.
Print Assumptions C08_readonly_private.

(* ARGUMENT IDENTITY (round 5).  A mutator may be handed an object that IS live state of the description (obtained
   through a return_copy=False accessor) or shares sub-objects with it.  The operations of the model take values: the
   call means the argument's value at the time of the call ([live_value]; the harness hands the real mutators the
   live objects themselves, tells the model these values, and compares with the same call made with an independent
   copy).  For update_component((s, n), X) with X the live definition of (s, n) itself - "hand the definition back" -
   that value is the one the description already holds: the call is well-formed, the description stays exactly as it
   is, and the labels of the component (and nothing else but labels the pattern also matches) leave the cache. *)
Theorem C08_hand_back : forall (dflt : jv) (st : state) (s : Z) (n : string) (c : jv),
  live_value (s_doc st) s n [] = Some c ->
  op_ok (ReplaceComp s n c) = true /\
  step lit_matches dflt st (ReplaceComp s n c)
  = ({| s_doc := s_doc st; s_cache := filter (fun kv => negb (lit_matches s n (fst kv))) (s_cache st) |}, ODone).
Proof.
  intros dflt st s n c H. unfold live_value in H. destruct (find_comp (s_doc st) s n) as [c0|] eqn:F; [|discriminate].
  cbn in H. injection H as <-. exact (hand_back lit_matches dflt st s n c0 F).
Qed.
Print Assumptions C08_hand_back.

(* "Edit the live definition in place, then commit": a write through a live reference to component (s, n) followed at
   once by ANY call that commits (s, n) - invalidate_cache_for_component((s, n)), or a mutator of that component:
   update_component (typically handed the edited live definition itself, C08_hand_back), set/remove option or
   variable, delete_component - is inside the discipline [ok_hist] (Model.commits), so C08_coherent_from /
   C08_fresh_from / C08_fresh_real cover it.  Spelled out for one such pair: every query after it answers what the
   description holds after the write and the commit. *)
Theorem C08_commit : forall (dflt : jv) (st0 : state) (s : Z) (n : string) (r : list string) (x : jv) (o : op)
                            (post : list op) (p : string) (s' : Z) (n' : string),
  (forall k v, In (k, v) (s_cache st0) ->
     exists p s n, k = key p s n /\ plat_ok p = true /\ qresolve dflt (s_doc st0) p s n = QOk v) ->
  route_ok r = true -> commits s n o = true -> plat_ok p = true ->
  nth_error (snd (run lit_matches dflt st0 ([LiveWrite s n r x; o] ++ Query p s' n' :: post))) 2
  = Some (ORes (qresolve dflt (doc_after (s_doc st0) [LiveWrite s n r x; o]) p s' n')).
Proof.
  intros dflt st0 s n r x o post p s' n' H0 Hr Hc Hp.
  apply (C08_fresh_from dflt st0 [LiveWrite s n r x; o] post p s' n' H0); [|exact Hp].
  cbn [ok_hist]. rewrite Hr, Hc. reflexivity.
Qed.
Print Assumptions C08_commit.

(* The table of built-in defaults is not an unknown: V.Cache.Generated.real_dflt is printed from
   FlowIR.default_component_structure() of the tree under test on every run (harness/c08.py, before the proofs are
   built) and is the table the correspondence run evaluates the model with.  Freshness for that table. *)
Theorem C08_fresh_real : forall (st0 : state) (pre post : list op) (p : string) (s : Z) (n : string),
  (forall k v, In (k, v) (s_cache st0) ->
     exists p s n, k = key p s n /\ plat_ok p = true /\ qresolve real_dflt (s_doc st0) p s n = QOk v) ->
  ok_hist pre = true -> plat_ok p = true ->
  nth_error (snd (run lit_matches real_dflt st0 (pre ++ Query p s n :: post))) (length pre)
  = Some (ORes (qresolve real_dflt (doc_after (s_doc st0) pre) p s n)).
Proof. exact (C08_fresh_from real_dflt). Qed.
Print Assumptions C08_fresh_real.

(* THE ACTIVE PLATFORM (round 6).  The object has an active platform (constructor argument, configure_platform);
   a call whose platform argument is omitted is the call for the platform active at that moment (Model.astep:
   `platform = platform or self._platform`), configure_platform changes the active platform and nothing else.
   C08_active_meaning: a history over the larger alphabet (explicit calls E, implicit calls Im, ConfigurePlatform) run
   by [arun] ends in the state, shows the observations and leaves active the platform of the explicit history [elab]
   writes for it; what the correspondence run evaluates ([atrace]) shows exactly these observations. *)
Theorem C08_active_meaning : forall (dflt : jv) (ast : astate) (l : list aop),
  arun lit_matches dflt ast l
  = ({| a_plat := active_after (a_plat ast) l; a_st := fst (run lit_matches dflt (a_st ast) (elab (a_plat ast) l)) |},
     snd (run lit_matches dflt (a_st ast) (elab (a_plat ast) l))) /\
  map (fun t : obs * list string * list err => fst (fst t)) (atrace lit_matches dflt ast l)
  = snd (arun lit_matches dflt ast l).
Proof. intros. split; [apply arun_elab|apply atrace_obs]. Qed.
Print Assumptions C08_active_meaning.

(* Freshness for the active platform: in every history - whatever mix of explicit calls, implicit calls and platform
   switches precedes it, under the same discipline as C08_fresh_from - a query WITHOUT a platform argument answers
   what the description produced by the preceding mutators resolves to from scratch on the platform that is active
   WHEN THE QUERY IS MADE (active_after), and a query that names its platform answers for that platform whatever is
   active.  In particular an answer given for the platform that was active earlier is never served after
   configure_platform (the label of an implicit query names the active platform). *)
Theorem C08_fresh_active : forall (dflt : jv) (st0 : state) (act : string) (pre post : list aop)
                                  (x : string) (s : Z) (n : string),
  (forall k v, In (k, v) (s_cache st0) ->
     exists p s n, k = key p s n /\ plat_ok p = true /\ qresolve dflt (s_doc st0) p s n = QOk v) ->
  ok_hist (elab act pre) = true ->
  (plat_ok (active_after act pre) = true ->
   nth_error (snd (arun lit_matches dflt {| a_plat := act; a_st := st0 |} (pre ++ Im (Query x s n) :: post))) (length pre)
   = Some (ORes (qresolve dflt (doc_after (s_doc st0) (elab act pre)) (active_after act pre) s n))) /\
  (plat_ok x = true ->
   nth_error (snd (arun lit_matches dflt {| a_plat := act; a_st := st0 |} (pre ++ E (Query x s n) :: post))) (length pre)
   = Some (ORes (qresolve dflt (doc_after (s_doc st0) (elab act pre)) x s n))).
Proof.
  intros dflt st0 act pre post x s n H0 Hok.
  assert (Hc : coherent dflt st0).
  { intros [k0 v0] Hi. destruct (H0 k0 v0 Hi) as (p' & s' & n' & A & B & C). exists p', s', n'. auto. }
  split; intros Hp.
  - exact (history_fresh_active lit_matches dflt lit_complete st0 act pre x s n post Hc Hok Hp).
  - exact (history_fresh_explicit lit_matches dflt lit_complete st0 act pre x s n post Hc Hok Hp).
Qed.
Print Assumptions C08_fresh_active.

(* the same for the table of defaults of the running code *)
Theorem C08_fresh_active_real : forall (st0 : state) (act : string) (pre post : list aop) (x : string) (s : Z) (n : string),
  (forall k v, In (k, v) (s_cache st0) ->
     exists p s n, k = key p s n /\ plat_ok p = true /\ qresolve real_dflt (s_doc st0) p s n = QOk v) ->
  ok_hist (elab act pre) = true ->
  (plat_ok (active_after act pre) = true ->
   nth_error (snd (arun lit_matches real_dflt {| a_plat := act; a_st := st0 |} (pre ++ Im (Query x s n) :: post))) (length pre)
   = Some (ORes (qresolve real_dflt (doc_after (s_doc st0) (elab act pre)) (active_after act pre) s n))) /\
  (plat_ok x = true ->
   nth_error (snd (arun lit_matches real_dflt {| a_plat := act; a_st := st0 |} (pre ++ E (Query x s n) :: post))) (length pre)
   = Some (ORes (qresolve real_dflt (doc_after (s_doc st0) (elab act pre)) x s n))).
Proof. exact (C08_fresh_active real_dflt). Qed.
Print Assumptions C08_fresh_active_real.

(* The invariant over the larger alphabet: every cache entry holds, under the label of a (platform, component) pair,
   what the current document resolves to for that pair - whatever platform is or was active. *)
Theorem C08_coherent_active : forall (dflt : jv) (ast0 : astate) (l : list aop),
  (forall k v, In (k, v) (s_cache (a_st ast0)) ->
     exists p s n, k = key p s n /\ plat_ok p = true /\ qresolve dflt (s_doc (a_st ast0)) p s n = QOk v) ->
  ok_hist (elab (a_plat ast0) l) = true ->
  let st := a_st (fst (arun lit_matches dflt ast0 l)) in
  forall k v, In (k, v) (s_cache st) ->
    exists p s n, k = key p s n /\ plat_ok p = true /\ qresolve dflt (s_doc st) p s n = QOk v.
Proof.
  intros dflt ast0 l H0 Hok st k v Hin.
  assert (Hc : coherent dflt (a_st ast0)).
  { intros [k0 v0] Hi. destruct (H0 k0 v0 Hi) as (p & s & n & A & B & C). exists p, s, n. auto. }
  exact (arun_coherent lit_matches dflt lit_complete ast0 l Hok Hc (k, v) Hin).
Qed.
Print Assumptions C08_coherent_active.

(* configure_platform is not an update: it changes the active platform (p or 'default') and neither the description
   nor the cache; the document the queries are measured against does not move; and a history in which every call
   names its platform means the same explicit history whatever platform the object was constructed for or switched
   to. *)
Theorem C08_configure_private : forall (dflt : jv) (ast : astate) (p : option string) (act act' : string)
                                       (pre post l : list aop) (d : doc),
  astep lit_matches dflt ast (ConfigurePlatform p) = ({| a_plat := plat_or_default p; a_st := a_st ast |}, ODone) /\
  doc_after d (elab act (pre ++ ConfigurePlatform p :: post))
  = doc_after d (elab act pre ++ elab (plat_or_default p) post)%list /\
  active_after act (pre ++ ConfigurePlatform p :: post) = active_after (plat_or_default p) post /\
  (explicit_only l = true -> elab act l = elab act' l).
Proof.
  intros. destruct (history_configure lit_matches dflt ast p act pre post d) as (A & B & C).
  repeat split; try assumption. apply explicit_indep.
Qed.
Print Assumptions C08_configure_private.

(* Non-vacuity: a well-formed history on a two-platform document in which a mutator runs while the cache holds
   the entry it must drop, an entry of another component survives, and the answers before and after differ. *)
Definition ex_comp (n : string) (s : Z) (args x : string) : jv :=
  JDict [("name", JStr n); ("stage", JInt s);
         ("command", JDict [("executable", JStr "e"); ("arguments", JStr args)]);
         ("variables", JDict [("x", JStr x)])].
Definition ex_vars : jv :=
  JDict [("default", JDict [("global", JDict [("g", JStr "G")]); ("stages", JDict [])]);
         ("p", JDict [("global", JDict [("g", JStr "GP")]); ("stages", JDict [])])].
Definition ex_doc : doc :=
  {| d_blueprint := JDict []; d_variables := ex_vars;
     d_components := [ex_comp "foo" 0 "%(x)s %(g)s" "1"; ex_comp "bar" 1 "%(x)s" "b"] |}.
Definition ex_ops : list op :=
  [Query "p" 0 "foo"; Query "default" 1 "bar"; SetCompVar 0 "foo" "x" (JStr "2"); Query "p" 0 "foo"].

Example C08_nonvacuous :
  forallb op_ok ex_ops = true /\
  (let r := run lit_matches (JDict []) {| s_doc := ex_doc; s_cache := [] |} ex_ops in
   map fst (s_cache (fst r)) = ["component:default:stage1:bar"; "component:p:stage0:foo"] /\
   nth_error (snd r) 0 <> nth_error (snd r) 3 /\
   nth_error (snd r) 3 = Some (ORes (qresolve (JDict []) (doc_after ex_doc (firstn 3 ex_ops)) "p" 0 "foo"))).
Proof. vm_compute. repeat split; congruence. Qed.

(* Non-vacuity of the hypotheses of C08_coherent_from / C08_fresh_from / C08_fresh_real: a start state with a
   non-empty coherent cache (the state the history above ends in), continued by a history of the larger alphabet
   that satisfies ok_hist without satisfying forallb op_ok: a disciplined live write (the entry of foo is dropped,
   the entry of bar survives), a change by the caller of an object it passed in, another read-only call (ReadOnly)
   while the cache holds entries, and answers that differ before and after.  The same with the table of defaults of the running code. *)
Definition ex_ops2 : list op :=
  [LiveWrite 0 "foo" ["command"; "arguments"] (JStr "live %(x)s"); Invalidate 0 "foo";
   ReadOnly "instance(platform=p)";
   ReplaceComp 1 "bar" (ex_comp "bar" 1 "%(x)s!" "c"); MutateArg 1 "bar" ["command"; "arguments"] (JStr "B");
   Query "p" 0 "foo"; Query "default" 1 "bar"].

Example C08_nonvacuous_from :
  let st0 := fst (run lit_matches (JDict []) {| s_doc := ex_doc; s_cache := [] |} ex_ops) in
  ok_hist ex_ops2 = true /\ forallb op_ok ex_ops2 = false /\
  map fst (s_cache st0) = ["component:default:stage1:bar"; "component:p:stage0:foo"] /\
  (let r := run lit_matches (JDict []) st0 ex_ops2 in
   nth_error (snd r) 5 = Some (ORes (qresolve (JDict []) (doc_after (s_doc st0) (firstn 5 ex_ops2)) "p" 0 "foo")) /\
   map fst (s_cache (fst (run lit_matches (JDict []) st0 (firstn 3 ex_ops2)))) = ["component:default:stage1:bar"] /\
   nth_error (snd r) 5 <> nth_error (snd (run lit_matches (JDict []) {| s_doc := ex_doc; s_cache := [] |} ex_ops)) 3) /\
  (exists v, nth_error (snd (run lit_matches real_dflt {| s_doc := ex_doc; s_cache := [] |} (ex_ops ++ ex_ops2))) 9
             = Some (ORes (QOk v)) /\ get_path ["command"; "arguments"] v = Some (JStr "live 2")).
Proof. vm_compute. repeat split; try congruence. eexists. split; reflexivity. Qed.

(* Non-vacuity of C08_hand_back / C08_commit: from the state the first history ends in (entries of bar and foo), the
   caller edits the live definition of foo in place and hands that very definition back to update_component (its
   value at the time of the call: live_value after the write), with NO invalidate_cache_for_component in between.
   The pair is inside ok_hist (not inside forallb op_ok), the description is the one the write produced, the entry
   of foo is gone and that of bar survives, and the next query answers the edited definition. *)
Definition ex_write : op := LiveWrite 0 "foo" ["command"; "arguments"] (JStr "commit %(x)s").

Example C08_nonvacuous_commit :
  let st0 := fst (run lit_matches (JDict []) {| s_doc := ex_doc; s_cache := [] |} ex_ops) in
  match live_value (doc_after (s_doc st0) [ex_write]) 0 "foo" [] with
  | None => False
  | Some c =>
      let pair := [ex_write; ReplaceComp 0 "foo" c] in
      get_path ["command"; "arguments"] c = Some (JStr "commit %(x)s") /\
      ok_hist pair = true /\ forallb op_ok pair = false /\ commits 0 "foo" (ReplaceComp 0 "foo" c) = true /\
      doc_after (s_doc st0) pair = doc_after (s_doc st0) [ex_write] /\
      map fst (s_cache st0) = ["component:default:stage1:bar"; "component:p:stage0:foo"] /\
      map fst (s_cache (fst (run lit_matches (JDict []) st0 pair))) = ["component:default:stage1:bar"] /\
      (let r := run lit_matches (JDict []) st0 (pair ++ [Query "p" 0 "foo"]) in
       nth_error (snd r) 2 = Some (ORes (qresolve (JDict []) (doc_after (s_doc st0) pair) "p" 0 "foo")) /\
       exists v, nth_error (snd r) 2 = Some (ORes (QOk v)) /\
                 get_path ["command"; "arguments"] v = Some (JStr "commit 2"))
  end.
Proof. vm_compute. repeat split; try congruence. eexists. split; reflexivity. Qed.

(* Non-vacuity of C08_fresh_active / C08_coherent_active / C08_configure_private: the object is constructed for
   platform p; an implicit query (answered for p, stored under the label of p); configure_platform(default); an update
   of ANOTHER component (the entry of foo survives it); the implicit query again - now answered for `default`, stored
   under the label of `default`, different from the first answer and equal to the from-scratch resolution on default;
   a platform-global variable set WITHOUT a platform lands on the active platform; configure_platform(None) after
   configure_platform(p) leads back to default. *)
Definition ex_aops : list aop :=
  [Im (Query "" 0 "foo"); ConfigurePlatform (Some "default"); E (SetCompVar 1 "bar" "x" (JStr "c"));
   Im (Query "" 0 "foo"); E (Query "p" 0 "foo"); ConfigurePlatform (Some "p"); Im (SetPlatGlobal "" "g" (JStr "GP2"));
   Im (Query "" 0 "foo"); ConfigurePlatform None; Im (Query "" 0 "foo")].

Example C08_nonvacuous_active :
  let ast0 := {| a_plat := "p"; a_st := {| s_doc := ex_doc; s_cache := [] |} |} in
  let r := arun lit_matches (JDict []) ast0 ex_aops in
  ok_hist (elab "p" ex_aops) = true /\ explicit_only ex_aops = false /\
  active_after "p" (firstn 3 ex_aops) = "default" /\ a_plat (fst r) = "default" /\
  map fst (s_cache (a_st (fst (arun lit_matches (JDict []) ast0 (firstn 4 ex_aops)))))
    = ["component:p:stage0:foo"; "component:default:stage0:foo"] /\
  nth_error (snd r) 0 <> nth_error (snd r) 3 /\ nth_error (snd r) 0 = nth_error (snd r) 4 /\
  nth_error (snd r) 3 = Some (ORes (qresolve (JDict []) (doc_after ex_doc (elab "p" (firstn 3 ex_aops))) "default" 0 "foo")) /\
  nth_error (snd r) 7 <> nth_error (snd r) 0 /\
  nth_error (snd r) 7 = Some (ORes (qresolve (JDict []) (doc_after ex_doc (elab "p" (firstn 7 ex_aops))) "p" 0 "foo")) /\
  nth_error (snd r) 9 = nth_error (snd r) 3.
Proof. vm_compute. repeat split; congruence. Qed.
